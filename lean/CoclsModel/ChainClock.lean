import CoclsModel.Clock
import CoclsModel.Chain

/-!
Happens-before machine UNDER the micro-step model of the promise / future / awaiter chain (C03).

`Chain.lean` says which atomic operation every agent (resolver call, destructor, `~promise_with_default`, coroutine / blocking /
callback / `has_value` waiter) performs next and what it observes.  This file runs the very same agents, pcs and steps
(`St.base` IS a `Chain.State`, advanced by `Chain.astep`) and instruments every step with the happens-before state of
`Clock.lean` — for ALL locations of the protocol at once:

* per agent (= thread; every agent on a thread of its own is the worst case, putting two agents on one thread only adds
  happens-before edges) a vector clock `clk t` and a pending-acquire clock `pend t` (`Clock.VC`, `relVc`, `acqVc`, `tickIf`);
* per ATOMIC location what an acquiring reader of the message it reads obtains (release-sequence clock; an RMW of any thread
  continues the sequence, a store heads a new one):
  `_awaiter` (the slot): `slotRs` for the modification-order-latest message, `slotOld` the older messages
  (`(is the ready marker, release-sequence clock)`, oldest first) for stale loads; `_owner`: `ownerRs`; the `flag` of every blocking
  waiter `x`: `flagRs x` (clock of the `true` message; the initial `false` message carries nothing);
* per NON-ATOMIC location FastTrack metadata `FT` (last-write epoch, read epochs since): `pay` (the payload
  `_state/_value/_exception` of the future), and for every waiter node `x`: `nxt x` (`awaiter::_next`) and `hnd x`
  (`_handle_addr/_resume_fn`); the first unordered access sets the sticky `raced`.

Plain accesses, per step (same granularity as `Chain.lean`: plain code up to and including the next synchronising operation):
* `rResolve`: the winner writes the payload (`future::set`; not for `drop` / `~promise`), then the resolving exchange
  (`resume_chain_set_ready`), then `resume_chain_lk`: for every node `y` of the detached chain read `y->_next`, write
  `y->_next = nullptr`, read handle / resume fn (`y->resume()`).  The node accesses are performed with the clock the walker has
  right after the exchange: the real walk is spread over the following `rRun` steps, but the walker's clock only grows, so the
  clock used here is the smallest one any of these accesses is really performed with — every race of the real placement is a race
  here.  (Nobody else touches a published node any more, so later conflicting accesses do not exist.)
* `rRun`: `flag.store(true)` of a blocking waiter; a resumed coroutine / invoked callback reads the payload ON THE WALKER'S THREAD
  (`Act.wake`), and `value()` with no value performs the relaxed `pending()` load.
* `wLoad`: the `ready()` load; not ready: the waiter initialises its node (writes `_next`, handle / resume fn: awaiter
  constructor, `set_handle` / `set_resume_fn`) — the sync-free segment between the `ready()` load and the first CAS.
* `wCas`: reads its own `_next` (the expected value), CAS; failure: the CAS writes the observed value into `_next`; refused
  (observed the ready marker): additionally `_next = nullptr` and the acquire fence (if `o.fence`).
* `wWait` / `wBlocked`: `flag.wait(false)`.   `wRead`: reads the payload, `value()` with no value: `pending()` load.

Memory orders are the parameter `o : ChainOrders` (one field per atomic site).

STALE READS — what is modelled.  RMWs (exchange, successful CAS, `claim`) read the modification-order-latest message.  The schedule
entry `(t, ch)` supplies the stale-read choice for the two loads whose value decides whether the payload is read:
* the `ready()` load (`wLoad`, the waiter's first operation, so every message is admissible): `ch = 0` reads the latest message,
  `ch ≥ 1` the `ch`-th newest OLDER message (clamped to the oldest); the value of an older message is the bit recorded with it
  (`Inv.oldNR` proves it is never the ready marker: the marker is written once, last), the waiter obtains that message's clock and
  goes on to the CAS — a base-state transition of `Chain.lean` too (the same load scheduled before the messages it missed);
* `flag.wait` (`wWait`): `ch ≥ 1` reads the initial `false` message (no clock) and blocks; `wBlocked` is enabled once the flag is set.
Read as latest, with the reason:
* the relaxed `pending()` load of `value()`: its value chooses between two exceptions, no access depends on it, and under
  sufficient orders the reader has the exchange in its happens-before past, so write-read coherence leaves only the marker;
* the `~promise` load of `_owner`: every writer of `_owner` is a member call on the same promise object, which the destructor is
  ordered after by the lifetime rule of `Chain.lean` (`resolversDone`); nothing depends on its clock either (`ownerRs` occurs in no
  invariant clause — that is the proof that `claim` / `~promise` may be relaxed);
* a FAILING `compare_exchange_weak` is treated as reading the latest message (as `Clock.lean` does for observer RMWs): a stale or
  spurious failure only makes the waiter retry with another expected value.
`base_latest` (ChainClockProofs): with all choices 0 the base component of a run IS `Chain.run` on the same schedule.

NOT modelled: the end of life of the awaiter objects (position obligations of `Props/C03.lean`), external synchronisation between
agents (thread start/join), `consume`, release fences, the seq_cst total order (seq_cst = acq_rel, weaker, sound).
-/

namespace Cocls.ChainClock
open Cocls
open Cocls.Clock (VC relVc acqVc tickIf)
open Cocls.Chain (Cfg Pc Act WK Kind RK Slot Seen Outcome)

/-- the memory orders written at the atomic sites of the protocol -/
structure ChainOrders where
  /-- `resume_chain_set_ready`: exchange on `_awaiter` -/
  resolve : Order
  /-- `subscribe_check_ready`: CAS on `_awaiter`, success order -/
  casSucc : Order
  /-- … failure order -/
  casFail : Order
  /-- `future_common::ready`: load of `_awaiter` -/
  ready : Order
  /-- an acquire fence follows the refused subscribe -/
  fence : Bool
  /-- `sync_awaiter::wakeup`: store of `flag` -/
  flagStore : Order
  /-- `co_awaiter::sync`: `flag.wait` -/
  flagWait : Order
  /-- `promise::claim`: exchange on `_owner` -/
  claim : Order
  /-- `~promise`: load of `_owner` -/
  dtorLoad : Order
  /-- `future_common::pending`: load of `_awaiter` -/
  pending : Order
  deriving DecidableEq, Repr, Inhabited

/-! ### FastTrack metadata of one non-atomic location -/

structure FT where
  wr : Nat × Nat
  rd : List (Nat × Nat)

def FT.init : FT := ⟨(0, 0), []⟩

def ordW (f : FT) (c : VC) : Bool := decide (f.wr.2 ≤ c f.wr.1)
def ordR (f : FT) (c : VC) : Bool := f.rd.all (fun e => decide (e.2 ≤ c e.1))
/-- a read by a thread with clock `c` races -/
def rdRace (f : FT) (c : VC) : Bool := !ordW f c
/-- a write by a thread with clock `c` races -/
def wrRace (f : FT) (c : VC) : Bool := !(ordW f c && ordR f c)
def FT.read (f : FT) (t : Nat) (c : VC) : FT := ⟨f.wr, (t, c t) :: f.rd⟩
def FT.write (_f : FT) (t : Nat) (c : VC) : FT := ⟨(t, c t), []⟩

/-! ### state -/

structure St where
  base : Chain.State
  clk : Nat → VC
  pend : Nat → VC
  slotRs : VC
  slotOld : List (Bool × VC)
  ownerRs : VC
  flagRs : Nat → VC
  pay : FT
  nxt : Nat → FT
  hnd : Nat → FT
  raced : Bool

def init (c : Cfg) : St :=
  { base := Chain.init c, clk := VC.init, pend := fun _ => VC.bot, slotRs := VC.bot, slotOld := [], ownerRs := VC.bot,
    flagRs := fun _ => VC.bot, pay := FT.init, nxt := fun _ => FT.init, hnd := fun _ => FT.init, raced := false }

def setBase (s : St) (b : Chain.State) : St := { s with base := b }

/-! ### atomic operations (happens-before effect only; what they observe is `Chain.astep`'s business) -/

/-- `claim()`: exchange on `_owner` -/
def hbClaim (o : ChainOrders) (s : St) (t : Nat) : St :=
  { s with
    clk := Clock.upd s.clk t (tickIf o.claim (acqVc o.claim (s.clk t) s.ownerRs) t)
    pend := Clock.upd s.pend t (VC.join (s.pend t) s.ownerRs)
    ownerRs := VC.join (relVc o.claim (acqVc o.claim (s.clk t) s.ownerRs)) s.ownerRs }

/-- `~promise`: load of `_owner` -/
def hbOwnerLoad (o : ChainOrders) (s : St) (t : Nat) : St :=
  { s with
    clk := Clock.upd s.clk t (acqVc o.dtorLoad (s.clk t) s.ownerRs)
    pend := Clock.upd s.pend t (VC.join (s.pend t) s.ownerRs) }

/-- `resume_chain_set_ready`: exchange on the slot -/
def hbXchg (o : ChainOrders) (s : St) (t : Nat) : St :=
  { s with
    clk := Clock.upd s.clk t (tickIf o.resolve (acqVc o.resolve (s.clk t) s.slotRs) t)
    pend := Clock.upd s.pend t (VC.join (s.pend t) s.slotRs)
    slotRs := VC.join (relVc o.resolve (acqVc o.resolve (s.clk t) s.slotRs)) s.slotRs
    slotOld := s.slotOld ++ [(decide (s.base.slot = Slot.ready), s.slotRs)] }

/-- successful subscribe CAS -/
def hbCasOk (o : ChainOrders) (s : St) (t : Nat) : St :=
  { s with
    clk := Clock.upd s.clk t (tickIf o.casSucc (acqVc o.casSucc (s.clk t) s.slotRs) t)
    pend := Clock.upd s.pend t (VC.join (s.pend t) s.slotRs)
    slotRs := VC.join (relVc o.casSucc (acqVc o.casSucc (s.clk t) s.slotRs)) s.slotRs
    slotOld := s.slotOld ++ [(decide (s.base.slot = Slot.ready), s.slotRs)] }

/-- failing subscribe CAS: a load with the failure order -/
def hbCasFail (o : ChainOrders) (s : St) (t : Nat) : St :=
  { s with
    clk := Clock.upd s.clk t (acqVc o.casFail (s.clk t) s.slotRs)
    pend := Clock.upd s.pend t (VC.join (s.pend t) s.slotRs) }

/-- `atomic_thread_fence(acquire)` after the refused subscribe, if the source has one -/
def hbFence (o : ChainOrders) (s : St) (t : Nat) : St :=
  if o.fence then { s with clk := Clock.upd s.clk t (VC.join (s.clk t) (s.pend t)) } else s

/-- the message a `ready()` load reads under stale-read choice `ch`: (is the ready marker, release-sequence clock) -/
def rdSlot (s : St) (ch : Nat) : Bool × VC :=
  if ch = 0 then (decide (s.base.slot = Slot.ready), s.slotRs)
  else s.slotOld.getD (s.slotOld.length - ch) (decide (s.base.slot = Slot.ready), s.slotRs)

/-- `ready()`: load of the slot -/
def hbLoadReady (o : ChainOrders) (s : St) (t ch : Nat) : St :=
  { s with
    clk := Clock.upd s.clk t (acqVc o.ready (s.clk t) (rdSlot s ch).2)
    pend := Clock.upd s.pend t (VC.join (s.pend t) (rdSlot s ch).2) }

/-- `pending()`: load of the slot -/
def hbPending (o : ChainOrders) (s : St) (t : Nat) : St :=
  { s with
    clk := Clock.upd s.clk t (acqVc o.pending (s.clk t) s.slotRs)
    pend := Clock.upd s.pend t (VC.join (s.pend t) s.slotRs) }

/-- `flag.store(true)` of waiter `x` by the walker `t` -/
def hbFlagStore (o : ChainOrders) (s : St) (t x : Nat) : St :=
  { s with
    flagRs := Clock.upd s.flagRs x (relVc o.flagStore (s.clk t))
    clk := Clock.upd s.clk t (tickIf o.flagStore (s.clk t) t) }

/-- `flag.wait(false)` returning: the waiter read the `true` message -/
def hbFlagAcq (o : ChainOrders) (s : St) (t : Nat) : St :=
  { s with
    clk := Clock.upd s.clk t (acqVc o.flagWait (s.clk t) (s.flagRs t))
    pend := Clock.upd s.pend t (VC.join (s.pend t) (s.flagRs t)) }

/-! ### plain accesses -/

def hbPayWrite (s : St) (t : Nat) : St :=
  { s with pay := s.pay.write t (s.clk t), raced := s.raced || wrRace s.pay (s.clk t) }

def hbPayRead (s : St) (t : Nat) : St :=
  { s with pay := s.pay.read t (s.clk t), raced := s.raced || rdRace s.pay (s.clk t) }

/-- the waiter sets its node up: `_next` (constructor) and handle / resume function (`set_handle`, `set_resume_fn`) -/
def hbNodeInit (s : St) (t : Nat) : St :=
  { s with
    nxt := Clock.upd s.nxt t ((s.nxt t).write t (s.clk t))
    hnd := Clock.upd s.hnd t ((s.hnd t).write t (s.clk t))
    raced := s.raced || (wrRace (s.nxt t) (s.clk t) || wrRace (s.hnd t) (s.clk t)) }

/-- the CAS reads its expected value from `_next` -/
def hbNxtRead (s : St) (t : Nat) : St :=
  { s with nxt := Clock.upd s.nxt t ((s.nxt t).read t (s.clk t)), raced := s.raced || rdRace (s.nxt t) (s.clk t) }

/-- a failed CAS stores the observed value into `_next`; the refused path then clears it -/
def hbNxtWrite (s : St) (t : Nat) : St :=
  { s with nxt := Clock.upd s.nxt t ((s.nxt t).write t (s.clk t)), raced := s.raced || wrRace (s.nxt t) (s.clk t) }

/-- `resume_chain_lk` over the detached chain `l`: per node read + write of `_next` (together: the write rule), read of the handle -/
def hbWalk (s : St) (t : Nat) (l : List Nat) : St :=
  { s with
    nxt := fun y => if y ∈ l then (s.nxt y).write t (s.clk t) else s.nxt y
    hnd := fun y => if y ∈ l then (s.hnd y).read t (s.clk t) else s.hnd y
    raced := s.raced || l.any (fun y => wrRace (s.nxt y) (s.clk t) || rdRace (s.hnd y) (s.clk t)) }

/-! ### steps -/

/-- the winner stores a payload (`future::set`): every resolving call but `drop` and `~promise` -/
def writesPayload (c : Cfg) (t : Nat) (dt : Bool) : Bool :=
  !dt && (match c.kind t with
    | Kind.res RK.drop => false
    | Kind.res _ => true
    | Kind.ddef _ => true
    | _ => false)

def hbResolve (o : ChainOrders) (c : Cfg) (s : St) (t : Nat) (dt : Bool) : St :=
  hbWalk (hbXchg o (if writesPayload c t dt then hbPayWrite s t else s) t) t (Chain.chainOf s.base.slot)

/-- the walker's actions up to and including its next synchronising operation (mirrors `Chain.runActs`) -/
def hbActs (o : ChainOrders) (c : Cfg) (t : Nat) : St → List Act → St
  | s, [] => s
  | s, Act.store x :: _ => hbFlagStore o s t x
  | s, Act.wake x :: rest =>
      if Chain.needsLoad s.base (Chain.wkOf c x) then hbPending o (hbPayRead s t) t
      else hbActs o c t (hbPayRead s t) rest
  | s, Act.obsAfter _ _ :: rest => hbActs o c t s rest

/-- `Chain.finishRun`: `~promise_with_default` goes on with the base `~promise` (load of `_owner`) -/
def hbFinish (o : ChainOrders) (c : Cfg) (s : St) (t : Nat) (dt : Bool) : St :=
  if dt then s
  else match c.kind t with
    | Kind.ddef _ => hbOwnerLoad o s t
    | _ => s

def hbRun (o : ChainOrders) (c : Cfg) (s : St) (t : Nat) (dt : Bool) (acts : List Act) : St :=
  if (Chain.runActs c t s.base acts).2.2.2 then hbActs o c t s acts
  else hbFinish o c (hbActs o c t s acts) t dt

def hbDtorEnter (o : ChainOrders) (c : Cfg) (s : St) (t : Nat) : St :=
  match c.kind t with
  | Kind.ddef _ => hbClaim o s t
  | _ => hbOwnerLoad o s t

def hbArrive (o : ChainOrders) (c : Cfg) (s : St) (t : Nat) : St :=
  if Chain.resolversDone c s.base then hbDtorEnter o c s t else s

/-- `ready()` load, message chosen by `ch` -/
def stepWLoad (o : ChainOrders) (s : St) (t ch : Nat) : St :=
  if (rdSlot s ch).1 then setBase (hbLoadReady o s t ch) (Chain.setPc s.base t Pc.wRead)
  else setBase (hbNodeInit (hbLoadReady o s t ch) t) (Chain.setPc s.base t (Pc.wCas Seen.null))

def hbCasRefused (o : ChainOrders) (s : St) (t : Nat) : St :=
  hbFence o (hbNxtWrite (hbNxtWrite (hbCasFail o (hbNxtRead s t) t) t) t) t

def hbCasRetry (o : ChainOrders) (s : St) (t : Nat) : St :=
  hbNxtWrite (hbCasFail o (hbNxtRead s t) t) t

def hbWCas (o : ChainOrders) (s : St) (t : Nat) (exp : Seen) : St :=
  match s.base.slot with
  | Slot.ready => hbCasRefused o s t
  | Slot.chain l => if (Slot.chain l).seen = exp then hbCasOk o (hbNxtRead s t) t else hbCasRetry o s t

/-- `flag.wait(false)`: `ch = 0` reads the latest message, otherwise the initial `false` -/
def stepWWait (o : ChainOrders) (c : Cfg) (s : St) (t ch : Nat) : St :=
  if ch = 0 then setBase (if s.base.flag t then hbFlagAcq o s t else s) (Chain.astep c s.base t).1
  else setBase s (Chain.setPc s.base t Pc.wBlocked)

def hbWRead (o : ChainOrders) (c : Cfg) (s : St) (t : Nat) : St :=
  if Chain.needsLoad s.base (Chain.wkOf c t) then hbPending o (hbPayRead s t) t else hbPayRead s t

/-- one micro-step of agent `t` with stale-read choice `ch` -/
def astepC (o : ChainOrders) (c : Cfg) (s : St) (t ch : Nat) : St :=
  match s.base.pc t with
  | Pc.done => s
  | Pc.rClaim => setBase (hbClaim o s t) (Chain.astep c s.base t).1
  | Pc.rFinLost => setBase s (Chain.astep c s.base t).1
  | Pc.rResolve dt => setBase (hbResolve o c s t dt) (Chain.astep c s.base t).1
  | Pc.rRun dt acts => setBase (hbRun o c s t dt acts) (Chain.astep c s.base t).1
  | Pc.dArrive => setBase (hbArrive o c s t) (Chain.astep c s.base t).1
  | Pc.dBlocked => setBase (hbDtorEnter o c s t) (Chain.astep c s.base t).1
  | Pc.dLoad => setBase (hbOwnerLoad o s t) (Chain.astep c s.base t).1
  | Pc.dFin => setBase s (Chain.astep c s.base t).1
  | Pc.wLoad => stepWLoad o s t ch
  | Pc.wCas exp => setBase (hbWCas o s t exp) (Chain.astep c s.base t).1
  | Pc.wFinParked => setBase s (Chain.astep c s.base t).1
  | Pc.wWait => stepWWait o c s t ch
  | Pc.wBlocked => setBase (hbFlagAcq o s t) (Chain.astep c s.base t).1
  | Pc.wRead => setBase (hbWRead o c s t) (Chain.astep c s.base t).1
  | Pc.wRead2 _ => setBase s (Chain.astep c s.base t).1

/-- one schedule entry `(agent, stale-read choice)`; an entry naming a disabled agent is a stutter (as in `Chain.run`) -/
def step (o : ChainOrders) (c : Cfg) (s : St) (e : Nat × Nat) : St :=
  if Chain.enabled c s.base e.1 then astepC o c s e.1 e.2 else s

def run (o : ChainOrders) (c : Cfg) (sched : List (Nat × Nat)) : St := sched.foldl (step o c) (init c)

/-- the decidable sufficient condition on the orders (for `by decide` on the extracted table): resolve exchange ⊇ release ∧ acquire;
subscribe CAS success ⊇ release; `ready()` ⊇ acquire; refused subscribe: acquire failure order OR an acquire fence; flag store ⊇
release; flag wait ⊇ acquire.  Nothing is asked of `claim`, the `~promise` load and `pending()`. -/
def ChainOrders.sufficient (o : ChainOrders) : Bool :=
  o.resolve.isRel && o.resolve.isAcq && o.casSucc.isRel && o.ready.isAcq && (o.casFail.isAcq || o.fence)
    && o.flagStore.isRel && o.flagWait.isAcq

end Cocls.ChainClock
