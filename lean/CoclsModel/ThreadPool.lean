/-
Micro-step model of `cocls::thread_pool` (thread_pool.h; the job closure type of function.h only matters through
*when the closure is destroyed*).

Threads `0 .. nw-1` are the pool's workers (`worker()`), threads `nw .. nt-1` are clients running a script of
submissions / `stop()` / destruction.  A unit of work (job) gets its id when it is submitted (`nextJob`); when it runs
on a worker its body may itself call `stop()`, submit nested work, or delete the pool.

One small step = one piece of straight-line code of one thread; its `Outcome` says whether the piece ended with a
synchronising operation of the harness (`op`: end of a critical section on `_mx`, a join), blocked the thread, finished
it, or goes on (`cont`).  `threadStep` (below) runs small steps up to the next scheduling point, which is exactly one
step of a thread under the baton scheduler of `harness/h_pool.cpp`.  Critical sections on `_mx` are atomic steps
(mutual exclusion) with one exception: a worker whose wait predicate was false keeps the mutex across a step boundary
(`Pc.wCvEnter`: inside `_cond.wait`, not yet registered); `State.mx` is the owner, a thread that wants the mutex then
blocks in `lock()`.  An optional second pool instance B (`Cfg.hasB`, one worker, never a submission) can be stopped or
destroyed by clients and by jobs of A.

The model follows the code as it is, including the two repairs (`Cfg.raOwns`, `Cfg.dtorOutside`); with the flags off
it is the pinned code (witness theorems in `Props/C11.lean`).

Ghost fields (`ran dropped cancelled valued lost ranOn owner loc deferOn detached awake`) are never consulted by control flow.
-/
namespace Cocls.Pool

inductive Kind where
  | co    -- coroutine doing `co_await pool` (closure owns the awaiter through a unique_ptr whose deleter resumes it)
  | fn    -- `run(fn)`: closure owns fn and the promise
  | det   -- `run_detached(fn)`
  | rh    -- `resume(suspend_point)`: closure holds a bare coroutine handle
  | ra    -- `run(async<T>)`
  | aw    -- `co_await pool(awaitable)`: bare handle, enqueued by whoever resolves the awaitable
  deriving DecidableEq, Repr, Inhabited

/-- what the body of a unit of work does when it runs -/
inductive Prim where
  | stop | subFn | subDet | destroy
  | wait (f : Nat)   -- block (user-level, e.g. on another job's future) until event `f` has been signalled
  | set (f : Nat)    -- signal event `f`
  | curStopped       -- `thread_pool::current::is_stopped()`
  | curEnq           -- `thread_pool::current::any_enqueued()`
  | resub            -- `co_await thread_pool::current()`: the rest of the body is handed to the pool of this worker thread
  | stopB | destroyB -- `stop()` / delete of the *other* pool instance B (see `Cfg.hasB`)
  | resolveNow (n : Nat)   -- resolve the operation a coroutine parked in slot `n` awaits through `pool(awaitable)` (see `Act.park`)
  | throw_           -- not an action of the body either: the function given to `run(fn)` ends by throwing; `run`'s closure
                     -- catches it and resolves the promise with the exception (the future is resolved by the job all the same)
  | react            -- not an action of the body: when the job is *cancelled*, whoever observes it (the coroutine's handler,
                     -- the closure's destructor, the future's watcher) calls back into the pool (`is_stopped()`)
  deriving DecidableEq, Repr, Inhabited

inductive Act where
  | submit (k : Kind) (body : List Prim) (killer : Bool)   -- killer: the destructor of the closure that ran deletes the pool
  | stop
  | destroy
  | wait (f : Nat)
  | set (f : Nat)
  | nop
  | stopB
  | destroyB
  | curStopped
  | curEnq
  | resub
  | park (n : Nat) (body : List Prim)   -- a coroutine does `co_await pool(awaitable)` on a pending operation (slot `n`): it is
                                        -- handed to the pool later, by whoever resolves the operation
  | resolveNow (n : Nat)
  | setHandle (n : Nat)                 -- (seeded order only) `set_handle(h)` after the registration
  deriving DecidableEq, Repr, Inhabited

def Prim.toAct : Prim → Act
  | Prim.stop => Act.stop
  | Prim.subFn => Act.submit Kind.fn [] false
  | Prim.subDet => Act.submit Kind.det [] false
  | Prim.destroy => Act.destroy
  | Prim.wait f => Act.wait f
  | Prim.set f => Act.set f
  | Prim.react => Act.nop
  | Prim.throw_ => Act.nop
  | Prim.resolveNow n => Act.resolveNow n
  | Prim.stopB => Act.stopB
  | Prim.destroyB => Act.destroyB
  | Prim.curStopped => Act.curStopped
  | Prim.curEnq => Act.curEnq
  | Prim.resub => Act.resub

structure Cfg where
  nw : Nat                       -- worker threads 0..nw-1
  nt : Nat                       -- all threads
  script : Nat → List Act        -- client scripts
  raOwns : Bool := true          -- run(async) submits a closure that owns the coroutine and the promise (repaired code)
  dtorOutside : Bool := true     -- worker() destroys the closure it ran before re-locking `_mx` (repaired code)
  hasB : Bool := false           -- there is a second pool instance B with one worker (thread `nw`; clients start at `nw+1`).
                                 -- Nothing is ever submitted to B; it is only stopped / destroyed, from clients and from A's jobs:
                                 -- `_current` is ONE thread-local shared by all instances
  awHandleFirst : Bool := true   -- `enqueue_awaiter::await_suspend` stores the coroutine handle before it registers on the awaited
                                 -- operation (the code as it is; `false`: the seeded reordering)
  curNullOk : Bool := true       -- `current_awaiter` does not form a reference from a null `_current` (repaired code)
  cvYield : Bool := false        -- the harness puts a scheduling point at the entry of `_cond.wait` (predicate evaluated,
                                 -- mutex still held, waiter not yet registered); in the model it is a step of its own anyway

inductive Fut where
  | none | pending | value | broken
  deriving DecidableEq, Repr, Inhabited

/-- what destroying a closure that was never invoked does -/
inductive DropAct where
  | resume        -- the awaiting coroutine is resumed and `await_resume` throws `await_canceled_exception`
  | guard         -- the user's closure is destroyed (observable by its captured state)
  | breakPromise  -- the promise is dropped: the future becomes ready without a value
  | nothing       -- a bare coroutine handle: nothing happens, the coroutine is never resumed nor destroyed
  deriving DecidableEq, Repr, Inhabited

def dropKind (c : Cfg) : Kind → DropAct
  | Kind.co => DropAct.resume
  | Kind.fn => DropAct.breakPromise
  | Kind.det => DropAct.guard
  | Kind.ra => if c.raOwns then DropAct.breakPromise else DropAct.nothing
  | Kind.rh => DropAct.nothing
  | Kind.aw => DropAct.nothing

def hasFut : Kind → Bool
  | Kind.fn => true
  | Kind.ra => true
  | _ => false

/-- the body runs inside a coroutine (resumptions requested from it are queued on the thread's ready queue) -/
def coroKind : Kind → Bool
  | Kind.fn => false
  | Kind.det => false
  | _ => true

/-- ghost: where the closure of a job is -/
inductive Loc where
  | fresh                -- id not handed out yet
  | queued               -- in `_queue`
  | held (t : Nat)       -- dequeued by worker t, not yet invoked
  | rejected (t : Nat)   -- refused by `enqueue`, still owned by the submitting thread t
  | swapped (t : Nat)    -- in the local queue of thread t's `stop()`
  | done                 -- invoked, or destroyed without having been invoked
  deriving DecidableEq, Repr, Inhabited

inductive Ret where
  | script     -- a client's script
  | body       -- the body of the job a worker runs
  | dtorA      -- the destructor of the closure that ran (repaired code: before the `_current` check, lock not held)
  | dtorB      -- the same on the `return` path of the pinned code
  deriving DecidableEq, Repr, Inhabited

/-- the three uses of the thread-local "pool of this worker thread" -/
inductive Peek where
  | stopped | enq | resub
  deriving DecidableEq, Repr, Inhabited

inductive Pc where
  | idle                          -- run the next action of the current activity
  | enqCS (j : Nat)               -- the closure of `j` exists, about to lock `_mx` in `enqueue`
  | afterEnq (j : Nat) (acc : Bool)   -- `enqueue` returned (its critical section is over)
  | stopCS (isD : Bool)           -- `stop()` entered, about to lock `_mx`
  | peekCS (k : Peek)             -- `_current` is this pool: about to lock `_mx` in `is_stopped()` / `any_enqueued()`
  | peekDone (k : Peek) (r : Bool)    -- that critical section is over, `r` was read
  | waitFlag (f : Nat)            -- blocked in a user-level wait for event `f`
  | stopJoin                      -- `stop()`: walk the local copy of the thread list
  | joinBlocked                   -- `stop()`: blocked in `join()`
  | stopDrop                      -- `stop()`: destroy the swapped-out queue, return
  | wRelock                       -- `worker()`: about to lock `_mx` (thread start, after a job, waking up in `_cond.wait`)
  | wLoop                         -- `worker()`: holding the lock, evaluate the wait predicate
  | wCvEnter                      -- predicate was false, lock still held, entering `_cond.wait`: not yet registered
  | wCvCheck                      -- inside `_cond.wait`: registered and unlocked
  | wCvBlocked                    -- inside `_cond.wait`: sleeping
  | wRun (j : Nat)                -- dequeued `j`, lock released, about to invoke it
  | wFlush                        -- body returned: flush the coroutine ready queue of this thread
  | wAfterJob                     -- `if (_current == nullptr) return; lk.lock();`
  | wExit                         -- left the loop through `break`, lock released
  | bLoop | bCvCheck | bCvBlocked | bExitPc     -- the worker of pool B (its queue is always empty)
  | bStopCS (isD : Bool) | bStopJoin | bJoinBlocked   -- `B.stop()` / `delete B` by some thread
  | stuck                         -- self-deadlock on `_mx`
  | done
  deriving DecidableEq, Repr, Inhabited

inductive Outcome where
  | op | blocked | finished | cont
  deriving DecidableEq, Repr, Inhabited

inductive Ev where
  | unlock (t : Nat) | cvEnter (t : Nat) | cvBlock (t : Nat) | joinBlock (t u : Nat) | join (t u : Nat) | fin (t : Nat) | lockBlock (t : Nat)
  | submit (j : Nat) (k : Kind) (t : Nat) (ex : Bool)
  | run (j t : Nat) (cur : Bool)
  | cancel (j t : Nat)
  | value (j t : Nat)
  | exc (j t : Nat)      -- the future was seen resolved with the exception the function threw
  | thrown (j t : Nat)   -- the function throws
  | flagBlock (t f : Nat) | flagSet (f t : Nat)
  | park (n t : Nat) | awReg (t n : Nat)
  | curStopped (t : Nat) (r : Bool) | curEnq (t : Nat) (r : Bool) | curInline (t : Nat) | crash (t : Nat)
  | unlockB (t : Nat) | cvBlockB (t : Nat)
  | stopBBegin (t : Nat) | stopBEnd (t : Nat) | destroyBBegin (t : Nat) | destroyedB (t : Nat) | destroyBSkip (t : Nat)
  | stopBegin (t : Nat) | stopEnd (t : Nat) | destroyBegin (t : Nat) | destroyed (t : Nat) | destroySkip (t : Nat)
  deriving DecidableEq, Repr, Inhabited

structure State where
  -- the pool's members
  q : List Nat := []
  exit : Bool := false
  threads : List Nat
  waitq : List Nat := []             -- condition variable: registered, not yet notified (arrival order)
  woken : Nat → Bool := fun _ => false
  cur : Nat → Bool                   -- thread-local `_current == this`
  destroyed : Bool := false
  mx : Option Nat := none            -- owner of `_mx` between two steps (only a worker inside its loop head keeps it)
  lockWait : Nat → Bool := fun _ => false   -- the thread found `_mx` taken and is blocked in `lock()`
  flag : Nat → Bool := fun _ => false   -- user-level events (not part of the pool)
  -- coroutines parked in `co_await pool(awaitable)`
  slotReg : Nat → Bool := fun _ => false      -- the awaiter is registered on the awaited operation (a resolution wakes it)
  slotHandle : Nat → Bool := fun _ => false   -- `set_handle(h)` done: a wake-up finds the coroutine
  slotBody : Nat → List Prim := fun _ => []
  slotUsed : Nat → Bool := fun _ => false
  -- pool B
  bw : Nat                           -- B's worker thread
  bExit : Bool := false
  bWoken : Bool := false
  bHasThread : Bool                  -- `B._threads` still holds its worker
  bDestroyed : Bool := false
  btmp : Nat → Bool := fun _ => false    -- `B.stop()` of this thread has B's worker in its local list
  bdtor : Nat → Bool := fun _ => false
  -- threads
  pc : Nat → Pc
  todo : Nat → List Act
  ret : Nat → Ret
  job : Nat → Option Nat := fun _ => none
  tmp : Nat → List Nat := fun _ => []     -- stop(): `tmp`, the part not yet processed
  dq : Nat → List Nat := fun _ => []      -- stop(): `q`
  dtor : Nat → Bool := fun _ => false     -- the stop() in progress is the destructor's
  defer : Nat → List Nat := fun _ => []   -- cancelled coroutines waiting in this thread's ready queue
  -- job table
  nextJob : Nat := 0
  kind : Nat → Kind := fun _ => Kind.det
  body : Nat → List Prim := fun _ => []
  acts : Nat → List Act := fun _ => []     -- what the unit of work does when it runs (its body, or the rest of a body that was re-submitted)
  killer : Nat → Bool := fun _ => false
  fut : Nat → Fut := fun _ => Fut.none
  armed : Nat → Bool := fun _ => false     -- the caller of run() has started watching the returned future
  -- ghost
  ran : Nat → Nat := fun _ => 0
  dropped : Nat → Nat := fun _ => 0        -- closure destroyed without having been invoked
  cancelled : Nat → Nat := fun _ => 0      -- cancellation observed (coroutine saw the exception / closure state destroyed / future seen broken)
  valued : Nat → Nat := fun _ => 0         -- value of the future observed
  lost : Nat → Nat := fun _ => 0           -- dropped without any observable effect
  ranOn : Nat → Option Nat := fun _ => none
  owner : Nat → Nat := fun _ => 0
  loc : Nat → Loc := fun _ => Loc.fresh
  deferOn : Nat → Option Nat := fun _ => none
  detached : Nat → Bool := fun _ => false
  awake : List Nat                         -- workers that will look at the queue before they sleep: notified or at the loop head
  touchedAfterDetach : Bool := false       -- a worker executed loop code on the pool after detaching itself

def upd {α} (f : Nat → α) (i : Nat) (v : α) : Nat → α := fun j => if j = i then v else f j

@[simp] theorem upd_same {α} (f : Nat → α) (i : Nat) (v : α) : upd f i v i = v := by simp [upd]
@[simp] theorem upd_other {α} (f : Nat → α) (i j : Nat) (v : α) (h : j ≠ i) : upd f i v j = f j := by
  simp [upd, h]
theorem upd_apply {α} (f : Nat → α) (i j : Nat) (v : α) : upd f i v j = if j = i then v else f j := rfl

def init (c : Cfg) : State :=
  { threads := List.range c.nw,
    awake := List.range c.nw,
    bw := c.nw,
    bHasThread := c.hasB,
    cur := fun t => decide (t < c.nw),
    pc := fun t => if t < c.nw then Pc.wRelock else if t < c.nt then (if c.hasB ∧ t = c.nw then Pc.bLoop else Pc.idle)
                   else Pc.done,
    todo := fun t => if c.nw ≤ t ∧ t < c.nt ∧ ¬ (c.hasB ∧ t = c.nw) then c.script t else [],
    ret := fun t => if t < c.nw then Ret.body else Ret.script }

def setPc (s : State) (t : Nat) (p : Pc) : State := { s with pc := upd s.pc t p }

def inCoro (s : State) (t : Nat) : Bool :=
  match s.job t with
  | some j => s.ret t == Ret.body && coroKind (s.kind j)
  | none => false

/-- `_cond.notify_one()`: one registered waiter (the `k`-th, cyclically; the harness's condition variable takes the
oldest, `k = 0`) is notified -/
def notifyOne (s : State) (k : Nat) : State :=
  match s.waitq[k % s.waitq.length]? with
  | none => s
  | some w => { s with waitq := s.waitq.erase w, woken := upd s.woken w true, awake := w :: s.awake }

/-- the cancellation of job `j` is observed on thread `t`; a reacting job then calls `pool.is_stopped()`: one more
critical section (nothing but its lock/unlock is visible) -/
def cancelEv (s : State) (t j : Nat) : List Ev :=
  if (s.body j).contains Prim.react && !s.destroyed then [Ev.cancel j t, Ev.unlock t] else [Ev.cancel j t]

/-- a small step whose events contain a critical section ends at a scheduling point -/
def outOf (evs : List Ev) (t : Nat) : Outcome := if evs.contains (Ev.unlock t) then Outcome.op else Outcome.cont

/-- the closure of job `j` is destroyed on thread `t` without having been invoked -/
def dropJob (c : Cfg) (s : State) (t j : Nat) : State × List Ev :=
  match dropKind c (s.kind j) with
  | DropAct.resume =>
      if inCoro s t then
        ({ s with dropped := upd s.dropped j (s.dropped j + 1), loc := upd s.loc j Loc.done,
                  defer := upd s.defer t (s.defer t ++ [j]), deferOn := upd s.deferOn j (some t) }, [])
      else
        ({ s with dropped := upd s.dropped j (s.dropped j + 1), loc := upd s.loc j Loc.done,
                  cancelled := upd s.cancelled j (s.cancelled j + 1) }, cancelEv s t j)
  | DropAct.guard =>
      ({ s with dropped := upd s.dropped j (s.dropped j + 1), loc := upd s.loc j Loc.done,
                cancelled := upd s.cancelled j (s.cancelled j + 1) }, cancelEv s t j)
  | DropAct.breakPromise =>
      if s.armed j then
        ({ s with dropped := upd s.dropped j (s.dropped j + 1), loc := upd s.loc j Loc.done,
                  fut := upd s.fut j Fut.broken, cancelled := upd s.cancelled j (s.cancelled j + 1) }, cancelEv s t j)
      else
        ({ s with dropped := upd s.dropped j (s.dropped j + 1), loc := upd s.loc j Loc.done,
                  fut := upd s.fut j Fut.broken }, [])
  | DropAct.nothing =>
      ({ s with dropped := upd s.dropped j (s.dropped j + 1), loc := upd s.loc j Loc.done,
                lost := upd s.lost j (s.lost j + 1) }, [])

/-- what the watcher of the future of job `j` sees once the job has resolved it -/
def valueEv (s : State) (t j : Nat) : List Ev :=
  if (s.body j).contains Prim.throw_ then [Ev.exc j t] else [Ev.value j t]

def thrownEv (s : State) (t j : Nat) : List Ev :=
  if (s.body j).contains Prim.throw_ then [Ev.thrown j t] else []

/-- the caller of `run()` got the future and starts watching it -/
def arm (s : State) (t j : Nat) : State × List Ev :=
  match s.fut j with
  | Fut.value => ({ s with armed := upd s.armed j true, valued := upd s.valued j (s.valued j + 1) }, valueEv s t j)
  | Fut.broken => ({ s with armed := upd s.armed j true, cancelled := upd s.cancelled j (s.cancelled j + 1) }, cancelEv s t j)
  | _ => ({ s with armed := upd s.armed j true }, [])

/-- the job table entry of a new submission and the submitter's program counter -/
def newJob (s : State) (t : Nat) (kd : Kind) (bd : List Prim) (ac : List Act) (kl : Bool) (rest : List Act) : State :=
  { s with nextJob := s.nextJob + 1, kind := upd s.kind s.nextJob kd, body := upd s.body s.nextJob bd,
           acts := upd s.acts s.nextJob ac,
           killer := upd s.killer s.nextJob kl, owner := upd s.owner s.nextJob t,
           fut := upd s.fut s.nextJob (if hasFut kd then Fut.pending else Fut.none),
           todo := upd s.todo t rest, pc := upd s.pc t (Pc.enqCS s.nextJob),
           loc := upd s.loc s.nextJob (Loc.rejected t) }

/-- a submission, first part: the closure is built (a coroutine runs up to its `co_await`, a future is created ...) -/
def stepSubmit (s : State) (t : Nat) (kd : Kind) (bd : List Prim) (kl : Bool) (rest : List Act) :
    State × List Ev × Outcome :=
  (newJob s t kd bd (bd.map Prim.toAct) kl rest, [Ev.submit s.nextJob kd t s.exit], Outcome.cont)

/-- a submission, second part: the critical section of `enqueue` -/
def stepEnqCS (s : State) (t k j : Nat) : State × List Ev × Outcome :=
  if s.exit then (setPc s t (Pc.afterEnq j false), [Ev.unlock t], Outcome.op)
  else
    (notifyOne { s with pc := upd s.pc t (Pc.afterEnq j true), loc := upd s.loc j Loc.queued, q := s.q ++ [j] } k,
     [Ev.unlock t], Outcome.op)

/-- `stop()` / `~thread_pool()` entered -/
def stepStopBegin (s : State) (t : Nat) (rest : List Act) (isD : Bool) : State × List Ev × Outcome :=
  ({ s with todo := upd s.todo t rest, pc := upd s.pc t (Pc.stopCS isD) },
   [if isD then Ev.destroyBegin t else Ev.stopBegin t], Outcome.cont)

/-- the critical section of `stop()` -/
def stepStopCS (s : State) (t : Nat) (isD : Bool) : State × List Ev × Outcome :=
  ({ s with exit := true, woken := fun w => s.woken w || s.waitq.contains w, waitq := [],
            tmp := upd s.tmp t s.threads, threads := [], dq := upd s.dq t s.q, q := [],
            loc := fun j => if s.q.contains j then Loc.swapped t else s.loc j,
            dtor := upd s.dtor t isD, pc := upd s.pc t Pc.stopJoin },
   [Ev.unlock t], Outcome.op)

def stepFin (s : State) (t : Nat) : State × List Ev × Outcome :=
  (setPc s t Pc.done, [Ev.fin t], Outcome.finished)

/-- the body of the job returned: resolve its future -/
def stepBodyEnd (s : State) (t : Nat) : State × List Ev × Outcome :=
  match s.job t with
  | none => (setPc s t Pc.wFlush, [], Outcome.cont)
  | some j =>
    if hasFut (s.kind j) && s.fut j == Fut.pending then
      if s.armed j then
        ({ s with fut := upd s.fut j Fut.value, valued := upd s.valued j (s.valued j + 1), pc := upd s.pc t Pc.wFlush },
         thrownEv s t j ++ valueEv s t j, Outcome.cont)
      else ({ s with fut := upd s.fut j Fut.value, pc := upd s.pc t Pc.wFlush }, thrownEv s t j, Outcome.cont)
    else (setPc s t Pc.wFlush, [], Outcome.cont)

def stepIdle (c : Cfg) (s : State) (t : Nat) : State × List Ev × Outcome :=
  match s.todo t with
  | [] =>
    match s.ret t with
    | Ret.script => stepFin s t
    | Ret.body => stepBodyEnd s t
    | Ret.dtorA => (setPc s t Pc.wAfterJob, [], Outcome.cont)
    | Ret.dtorB => stepFin s t
  | Act.submit kd bd kl :: rest => stepSubmit s t kd bd kl rest
  | Act.stop :: rest => stepStopBegin s t rest false
  | Act.destroy :: rest =>
      if s.destroyed then ({ s with todo := upd s.todo t rest }, [Ev.destroySkip t], Outcome.cont)
      else stepStopBegin s t rest true
  | Act.wait f :: rest =>
      if s.flag f then ({ s with todo := upd s.todo t rest }, [], Outcome.cont)
      else ({ s with todo := upd s.todo t rest, pc := upd s.pc t (Pc.waitFlag f) }, [Ev.flagBlock t f], Outcome.blocked)
  | Act.set f :: rest =>
      ({ s with todo := upd s.todo t rest, flag := upd s.flag f true }, [Ev.flagSet f t], Outcome.cont)
  | Act.nop :: rest => ({ s with todo := upd s.todo t rest }, [], Outcome.cont)
  | Act.curStopped :: rest =>
      if s.cur t then ({ s with todo := upd s.todo t rest, pc := upd s.pc t (Pc.peekCS Peek.stopped) }, [], Outcome.cont)
      else ({ s with todo := upd s.todo t rest }, [Ev.curStopped t true], Outcome.cont)
  | Act.curEnq :: rest =>
      if s.cur t then ({ s with todo := upd s.todo t rest, pc := upd s.pc t (Pc.peekCS Peek.enq) }, [], Outcome.cont)
      else ({ s with todo := upd s.todo t rest }, [Ev.curEnq t false], Outcome.cont)
  | Act.resub :: rest =>
      if s.cur t then ({ s with todo := upd s.todo t rest, pc := upd s.pc t (Pc.peekCS Peek.resub) }, [], Outcome.cont)
      else if c.curNullOk then ({ s with todo := upd s.todo t rest }, [Ev.curInline t], Outcome.cont)
      else (setPc s t Pc.stuck, [Ev.crash t], Outcome.blocked)   -- pinned code: reference bound to `*nullptr`
  | Act.park n bd :: rest =>
      -- `flag (10+n)` is the harness's "registered" signal a resolver waits for. The scheduling point is right after the
      -- registration, still inside `await_suspend`
      if c.awHandleFirst then
        ({ s with todo := upd s.todo t rest, slotReg := upd s.slotReg n true, slotHandle := upd s.slotHandle n true,
                  slotBody := upd s.slotBody n bd, flag := upd s.flag (10 + n) true },
         [Ev.park n t, Ev.awReg t n], Outcome.op)
      else
        ({ s with todo := upd s.todo t (Act.setHandle n :: rest), slotReg := upd s.slotReg n true, slotHandle := upd s.slotHandle n false,
                  slotBody := upd s.slotBody n bd, flag := upd s.flag (10 + n) true },
         [Ev.park n t, Ev.awReg t n], Outcome.op)
  | Act.setHandle n :: rest =>
      ({ s with todo := upd s.todo t rest, slotHandle := upd s.slotHandle n true }, [], Outcome.cont)
  | Act.resolveNow n :: rest =>
      if s.slotReg n && !s.slotUsed n then
        if s.slotHandle n then
          -- `perform_resume` -> `pool.resume(suspend_point)`: a closure with the bare handle is submitted by this thread
          (newJob { s with slotUsed := upd s.slotUsed n true } t Kind.aw (s.slotBody n) ((s.slotBody n).map Prim.toAct) false rest,
           [Ev.submit s.nextJob Kind.aw t s.exit], Outcome.cont)
        else
          -- seeded order only: the awaiter still has its default resume function, nothing is submitted, the coroutine is lost
          ({ s with todo := upd s.todo t rest, slotUsed := upd s.slotUsed n true, nextJob := s.nextJob + 1,
                    kind := upd s.kind s.nextJob Kind.aw, lost := upd s.lost s.nextJob (s.lost s.nextJob + 1),
                    loc := upd s.loc s.nextJob Loc.done },
           [Ev.submit s.nextJob Kind.aw t s.exit], Outcome.cont)
      else ({ s with todo := upd s.todo t rest }, [], Outcome.cont)
  | Act.stopB :: rest =>
      ({ s with todo := upd s.todo t rest, pc := upd s.pc t (Pc.bStopCS false) }, [Ev.stopBBegin t], Outcome.cont)
  | Act.destroyB :: rest =>
      if s.bDestroyed then ({ s with todo := upd s.todo t rest }, [Ev.destroyBSkip t], Outcome.cont)
      else ({ s with todo := upd s.todo t rest, pc := upd s.pc t (Pc.bStopCS true) }, [Ev.destroyBBegin t], Outcome.cont)

def stepAfterEnq (c : Cfg) (s : State) (t j : Nat) (acc : Bool) : State × List Ev × Outcome :=
  if acc then
    if hasFut (s.kind j) then ((arm (setPc s t Pc.idle) t j).1, (arm (setPc s t Pc.idle) t j).2,
                               outOf (arm (setPc s t Pc.idle) t j).2 t)
    else (setPc s t Pc.idle, [], Outcome.cont)
  else
    if hasFut (s.kind j) then
      ((arm (dropJob c (setPc s t Pc.idle) t j).1 t j).1,
       (dropJob c (setPc s t Pc.idle) t j).2 ++ (arm (dropJob c (setPc s t Pc.idle) t j).1 t j).2,
       outOf ((dropJob c (setPc s t Pc.idle) t j).2 ++ (arm (dropJob c (setPc s t Pc.idle) t j).1 t j).2) t)
    else ((dropJob c (setPc s t Pc.idle) t j).1, (dropJob c (setPc s t Pc.idle) t j).2,
          outOf (dropJob c (setPc s t Pc.idle) t j).2 t)

def stepStopJoin (s : State) (t : Nat) : State × List Ev × Outcome :=
  match s.tmp t with
  | [] => (setPc s t Pc.stopDrop, [], Outcome.cont)
  | u :: rest =>
    if u = t then
      ({ s with tmp := upd s.tmp t rest, cur := upd s.cur t false, detached := upd s.detached t true }, [], Outcome.cont)
    else if s.pc u = Pc.done then ({ s with tmp := upd s.tmp t rest }, [Ev.join t u], Outcome.op)
    else (setPc s t Pc.joinBlocked, [Ev.joinBlock t u], Outcome.blocked)

def stepJoinBlocked (s : State) (t : Nat) : State × List Ev × Outcome :=
  match s.tmp t with
  | [] => (setPc s t Pc.stopJoin, [], Outcome.cont)
  | u :: rest => ({ s with tmp := upd s.tmp t rest, pc := upd s.pc t Pc.stopJoin }, [Ev.join t u], Outcome.op)

/-- `stop()` returns: its local queue is destroyed. The order in which a `std::deque` destroys its elements is not
specified (libstdc++ destroys the full middle nodes first), so the next closure is the `k`-th remaining one, cyclically -/
def stepStopDrop (c : Cfg) (s : State) (t k : Nat) : State × List Ev × Outcome :=
  match (s.dq t)[k % (s.dq t).length]? with
  | some j => ((dropJob c { s with dq := upd s.dq t ((s.dq t).erase j) } t j).1,
               (dropJob c { s with dq := upd s.dq t ((s.dq t).erase j) } t j).2,
               outOf (dropJob c { s with dq := upd s.dq t ((s.dq t).erase j) } t j).2 t)
  | none =>
    if s.dtor t then
      ({ s with destroyed := true, dtor := upd s.dtor t false, pc := upd s.pc t Pc.idle }, [Ev.destroyed t], Outcome.cont)
    else (setPc s t Pc.idle, [Ev.stopEnd t], Outcome.cont)

def stepWLoop (c : Cfg) (s : State) (t : Nat) : State × List Ev × Outcome :=
  if s.exit then ({ s with pc := upd s.pc t Pc.wExit, mx := none, awake := s.awake.erase t,
                           touchedAfterDetach := s.touchedAfterDetach || s.detached t },
                  [Ev.unlock t], Outcome.op)
  else
    match s.q with
    | j :: rest =>
        ({ s with q := rest, pc := upd s.pc t (Pc.wRun j), loc := upd s.loc j (Loc.held t), mx := none,
                  awake := s.awake.erase t,
                  touchedAfterDetach := s.touchedAfterDetach || s.detached t }, [Ev.unlock t], Outcome.op)
    | [] =>
        -- the predicate is false: `_cond.wait(lk)` is entered with the mutex held
        ({ s with pc := upd s.pc t Pc.wCvEnter, awake := s.awake.erase t,
                  touchedAfterDetach := s.touchedAfterDetach || s.detached t },
         if c.cvYield then [Ev.cvEnter t] else [], if c.cvYield then Outcome.op else Outcome.cont)

/-- `_cond.wait(lk)`: register as a waiter and release the mutex, atomically -/
def stepWCvEnter (s : State) (t : Nat) : State × List Ev × Outcome :=
  ({ s with waitq := s.waitq ++ [t], pc := upd s.pc t Pc.wCvCheck, mx := none }, [Ev.unlock t], Outcome.op)

/-- `lock()` succeeded -/
def stepWRelock (s : State) (t : Nat) : State × List Ev × Outcome :=
  ({ s with pc := upd s.pc t Pc.wLoop, mx := some t }, [], Outcome.cont)

def stepWCvCheck (s : State) (t : Nat) : State × List Ev × Outcome :=
  if s.woken t then ({ s with woken := upd s.woken t false, pc := upd s.pc t Pc.wRelock }, [], Outcome.cont)
  else (setPc s t Pc.wCvBlocked, [Ev.cvBlock t], Outcome.blocked)

def stepWCvBlocked (s : State) (t : Nat) : State × List Ev × Outcome :=
  ({ s with woken := upd s.woken t false, pc := upd s.pc t Pc.wRelock }, [], Outcome.cont)

def stepWRun (s : State) (t j : Nat) : State × List Ev × Outcome :=
  ({ s with ran := upd s.ran j (s.ran j + 1), ranOn := upd s.ranOn j (some t), loc := upd s.loc j Loc.done,
            job := upd s.job t (some j), todo := upd s.todo t (s.acts j), ret := upd s.ret t Ret.body,
            pc := upd s.pc t Pc.idle },
   [Ev.run j t (s.cur t)], Outcome.cont)

def jobKiller (s : State) (t : Nat) : Bool :=
  match s.job t with
  | some j => s.killer j
  | none => false

def stepWFlush (c : Cfg) (s : State) (t : Nat) : State × List Ev × Outcome :=
  match s.defer t with
  | j :: rest =>
      ({ s with defer := upd s.defer t rest, deferOn := upd s.deferOn j none,
                cancelled := upd s.cancelled j (s.cancelled j + 1) }, cancelEv s t j, outOf (cancelEv s t j) t)
  | [] =>
    if c.dtorOutside then
      -- `h` goes out of scope before the `_current` check, lock not held
      if jobKiller s t then ({ s with ret := upd s.ret t Ret.dtorA, todo := upd s.todo t [Act.destroy], pc := upd s.pc t Pc.idle },
                             [], Outcome.cont)
      else ({ s with ret := upd s.ret t Ret.dtorA, pc := upd s.pc t Pc.wAfterJob }, [], Outcome.cont)
    else ({ s with ret := upd s.ret t Ret.dtorB, pc := upd s.pc t Pc.wAfterJob }, [], Outcome.cont)

def stepWAfterJob (c : Cfg) (s : State) (t : Nat) : State × List Ev × Outcome :=
  if s.cur t then
    -- `lk.lock()`, end of the loop body
    if !c.dtorOutside && jobKiller s t && !s.destroyed then
      -- pinned code: the closure is destroyed with `_mx` held; its destructor deletes the pool: `stop()` locks `_mx` again
      (setPc s t Pc.stuck, [Ev.destroyBegin t, Ev.lockBlock t], Outcome.blocked)
    else ({ s with job := upd s.job t none, pc := upd s.pc t Pc.wRelock, awake := t :: s.awake }, [], Outcome.cont)
  else
    -- `return`: the pool may be gone, nothing of it is touched
    if !c.dtorOutside && jobKiller s t then
      ({ s with todo := upd s.todo t [Act.destroy], pc := upd s.pc t Pc.idle }, [], Outcome.cont)
    else stepFin s t

/-- the critical section of `is_stopped()` / `any_enqueued()` called through `thread_pool::current` -/
def stepPeekCS (s : State) (t : Nat) (k : Peek) : State × List Ev × Outcome :=
  (setPc s t (Pc.peekDone k (match k with
      | Peek.enq => s.exit || !s.q.isEmpty
      | _ => s.exit)), [Ev.unlock t], Outcome.op)

def jobBody (s : State) (t : Nat) : List Prim :=
  match s.job t with
  | some j => s.body j
  | none => []

/-- back from the critical section. `co_await current()`: not stopped, so `await_suspend` hands the coroutine — the rest of
the running body — to the pool as a new unit of work of the `co_await pool` kind; this activity ends here -/
def stepPeekDone (s : State) (t : Nat) (k : Peek) (r : Bool) : State × List Ev × Outcome :=
  match k with
  | Peek.stopped => (setPc s t Pc.idle, [Ev.curStopped t r], Outcome.cont)
  | Peek.enq => (setPc s t Pc.idle, [Ev.curEnq t r], Outcome.cont)
  | Peek.resub =>
      if r then (setPc s t Pc.idle, [Ev.curInline t], Outcome.cont)
      else (newJob s t Kind.co (jobBody s t) (s.todo t) false [], [Ev.submit s.nextJob Kind.co t s.exit], Outcome.cont)

/-! Pool B: one worker, never a submission; only `stop()` / destruction. -/

def stepBLoop (s : State) (t : Nat) : State × List Ev × Outcome :=
  if s.bExit then (setPc s t Pc.bExitPc, [Ev.unlockB t], Outcome.op)
  else (setPc s t Pc.bCvCheck, [Ev.unlockB t], Outcome.op)

def stepBCvCheck (s : State) (t : Nat) : State × List Ev × Outcome :=
  if s.bWoken then (setPc s t Pc.bExitPc, [Ev.unlockB t], Outcome.op)
  else (setPc s t Pc.bCvBlocked, [Ev.cvBlockB t], Outcome.blocked)

def stepBCvBlocked (s : State) (t : Nat) : State × List Ev × Outcome :=
  (setPc s t Pc.bExitPc, [Ev.unlockB t], Outcome.op)

/-- the critical section of `B.stop()`; nothing of it concerns pool A or the caller's `_current` -/
def stepBStopCS (s : State) (t : Nat) (isD : Bool) : State × List Ev × Outcome :=
  ({ s with bExit := true, bWoken := true, btmp := upd s.btmp t s.bHasThread, bHasThread := false,
            bdtor := upd s.bdtor t isD, pc := upd s.pc t Pc.bStopJoin }, [Ev.unlockB t], Outcome.op)

def stepBStopJoin (s : State) (t : Nat) : State × List Ev × Outcome :=
  if s.btmp t then
    if s.pc s.bw = Pc.done then ({ s with btmp := upd s.btmp t false }, [Ev.join t s.bw], Outcome.op)
    else (setPc s t Pc.bJoinBlocked, [Ev.joinBlock t s.bw], Outcome.blocked)
  else
    if s.bdtor t then
      ({ s with bDestroyed := true, bdtor := upd s.bdtor t false, pc := upd s.pc t Pc.idle }, [Ev.destroyedB t], Outcome.cont)
    else (setPc s t Pc.idle, [Ev.stopBEnd t], Outcome.cont)

def stepBJoinBlocked (s : State) (t : Nat) : State × List Ev × Outcome :=
  ({ s with btmp := upd s.btmp t false, pc := upd s.pc t Pc.bStopJoin }, [Ev.join t s.bw], Outcome.op)

/-- the next thing the thread does is `_mx.lock()` -/
def Pc.wantsLock : Pc → Bool
  | Pc.enqCS _ | Pc.stopCS _ | Pc.peekCS _ | Pc.wRelock => true
  | _ => false

def stepPc (c : Cfg) (s : State) (t k : Nat) : State × List Ev × Outcome :=
  match s.pc t with
  | Pc.idle => stepIdle c s t
  | Pc.enqCS j => stepEnqCS s t k j
  | Pc.afterEnq j acc => stepAfterEnq c s t j acc
  | Pc.stopCS isD => stepStopCS s t isD
  | Pc.peekCS pk => stepPeekCS s t pk
  | Pc.peekDone pk r => stepPeekDone s t pk r
  | Pc.waitFlag _ => (setPc s t Pc.idle, [], Outcome.cont)
  | Pc.stopJoin => stepStopJoin s t
  | Pc.joinBlocked => stepJoinBlocked s t
  | Pc.stopDrop => stepStopDrop c s t k
  | Pc.wRelock => stepWRelock s t
  | Pc.wLoop => stepWLoop c s t
  | Pc.wCvEnter => stepWCvEnter s t
  | Pc.wCvCheck => stepWCvCheck s t
  | Pc.wCvBlocked => stepWCvBlocked s t
  | Pc.wRun j => stepWRun s t j
  | Pc.wFlush => stepWFlush c s t
  | Pc.wAfterJob => stepWAfterJob c s t
  | Pc.wExit => stepFin s t
  | Pc.bLoop => stepBLoop s t
  | Pc.bCvCheck => stepBCvCheck s t
  | Pc.bCvBlocked => stepBCvBlocked s t
  | Pc.bExitPc => stepFin s t
  | Pc.bStopCS isD => stepBStopCS s t isD
  | Pc.bStopJoin => stepBStopJoin s t
  | Pc.bJoinBlocked => stepBJoinBlocked s t
  | Pc.stuck => (s, [], Outcome.blocked)
  | Pc.done => (s, [], Outcome.finished)

/-- one small step of thread `t`; `k` resolves the nondeterminism (which waiter `notify_one` wakes, which closure of a
swapped-out queue is destroyed next).  A thread that wants `_mx` while a worker holds it (inside `_cond.wait`'s entry)
blocks in `lock()`. -/
def step (c : Cfg) (s : State) (t k : Nat) : State × List Ev × Outcome :=
  if (s.pc t).wantsLock && s.mx.isSome then
    ({ s with lockWait := upd s.lockWait t true }, [Ev.lockBlock t], Outcome.blocked)
  else stepPc c { s with lockWait := upd s.lockWait t false } t k

/-- can thread `t` make a step? -/
def enabledPc (s : State) (t : Nat) : Bool :=
  match s.pc t with
  | Pc.done => false
  | Pc.stuck => false
  | Pc.wCvBlocked => s.woken t
  | Pc.bCvBlocked => s.bWoken
  | Pc.bJoinBlocked => s.pc s.bw == Pc.done
  | Pc.waitFlag f => s.flag f
  | Pc.joinBlocked =>
      match s.tmp t with
      | u :: _ => s.pc u == Pc.done
      | [] => true
  | _ => true

def enabled (s : State) (t : Nat) : Bool :=
  if (s.pc t).wantsLock && s.lockWait t then s.mx.isNone else enabledPc s t

/-- a scheduled step: thread `t` moves if it is enabled; `k` picks the waiter a `notify_one` wakes -/
def sstep (c : Cfg) (s : State) (tk : Nat × Nat) : State :=
  if enabled s tk.1 then (step c s tk.1 tk.2).1 else s

def run (c : Cfg) (s : State) : List (Nat × Nat) → State
  | [] => s
  | tk :: rest => run c (sstep c s tk) rest

/-- what thread `t` does between two scheduling points of the baton harness: small steps up to and including the
first one that ends with a synchronising operation (the harness's condition variable notifies the oldest waiter) -/
def threadStep (c : Cfg) : Nat → State → Nat → State × List Ev
  | 0, s, _ => (s, [])
  | fuel + 1, s, t =>
    if enabled s t then
      match step c s t 0 with
      | (s1, e1, Outcome.cont) => ((threadStep c fuel s1 t).1, e1 ++ (threadStep c fuel s1 t).2)
      | (s1, e1, _) => (s1, e1)
    else (s, [])

/-- a run of the baton scheduler: the threads in the order they are given the baton -/
def batonRun (c : Cfg) (fuel : Nat) (s : State) : List Nat → State
  | [] => s
  | t :: rest => batonRun c fuel (threadStep c fuel s t).1 rest

end Cocls.Pool
