import CoclsModel.Publisher
/-!
Invariant of the publisher/subscriber model and its preservation by every step (helper lemmas for
`Props/C16.lean`).
-/
namespace Cocls.Pub

/-- the free list: starting at `n`, following the `pos` links through unused slots, ends at `regs.length` -/
inductive Chain (regs : List Reg) : Nat → List Nat → Prop
  | nil : Chain regs regs.length []
  | cons {h : Nat} {r : Reg} {t : List Nat} :
      regs[h]? = some r → r.used = false → Chain regs r.pos t → Chain regs h (h :: t)

structure RegInv (s : State) (r : Reg) : Prop where
  pos_le : r.pos ≤ s.pos
  idle_lt : r.phase = Phase.idle → r.pos < s.pos
  fetch_pos : r.phase = Phase.fetch → r.kicked = false → 1 ≤ r.pos
  at_end : r.phase = Phase.fetch → r.pos = s.pos → r.awt = true ∨ s.closed = true ∨ r.kicked = true
  parked : r.awt = true → r.phase = Phase.fetch ∧ r.pos = s.pos ∧ s.closed = false ∧ r.kicked = false
  window : r.covered = true → covers s r.pos
  got_eq : r.mode = Mode.all → ∀ i, i < r.got.length → r.got[i]? = s.stream[r.start + i]?
  got_len : r.mode = Mode.all → r.start + r.got.length ≤ s.stream.length
  pos_eq : r.mode = Mode.all → r.phase ≠ Phase.done → r.kicked = false →
      r.pos = r.start + r.got.length + (if r.phase = Phase.fetch then 1 else 0)
  mono : r.gotPos.Pairwise (· < ·)
  mono_idle : r.phase = Phase.idle → ∀ p ∈ r.gotPos, p ≤ r.pos
  mono_fetch : r.phase = Phase.fetch → r.kicked = false → ∀ p ∈ r.gotPos, p < r.pos

structure Inv (s : State) : Prop where
  min_pos : 1 ≤ s.minLen
  min_le_max : ∀ k, s.maxLen = some k → s.minLen ≤ k
  pos_eq : s.pos = s.stream.length + 1
  q_len : s.q.length ≤ s.stream.length
  q_win : ∀ i, i < s.q.length → s.q[i]? = s.stream[s.stream.length - 1 - i]?
  q_min : min s.minLen (s.pos - 1) ≤ s.q.length
  regs : ∀ (h : Nat) (r : Reg), s.regs[h]? = some r → r.used = true → RegInv s r
  chain : ∃ c, Chain s.regs s.nextFree c ∧ c.Nodup

/-- the constructor's assertion -/
def CfgOk (maxLen : Option Nat) (minLen : Nat) : Prop := 1 ≤ minLen ∧ ∀ k, maxLen = some k → minLen ≤ k

theorem inv_init {maxLen : Option Nat} {minLen : Nat} (h : CfgOk maxLen minLen) : Inv (init maxLen minLen) := by
  refine ⟨h.1, h.2, ?_, ?_, ?_, ?_, ?_, ?_⟩ <;> simp [init]
  exact ⟨[], Chain.nil, List.nodup_nil⟩

/-! ### list helpers -/

theorem getElem?_set_cases {l : List Reg} {h k : Nat} {r x : Reg} (hx : (l.set h r)[k]? = some x) :
    (k = h ∧ x = r) ∨ (k ≠ h ∧ l[k]? = some x) := by
  rw [List.getElem?_set] at hx
  by_cases hk : h = k
  · subst hk
    simp only [if_true] at hx
    split at hx
    · left; exact ⟨rfl, (Option.some.inj hx).symm⟩
    · cases hx
  · simp only [hk, if_false] at hx
    right; exact ⟨fun e => hk e.symm, hx⟩

theorem getElem?_set_self' {l : List Reg} {h : Nat} {r r' : Reg} (hr : l[h]? = some r) :
    (l.set h r')[h]? = some r' := by
  have hlt : h < l.length := by
    rcases Nat.lt_or_ge h l.length with h1 | h1
    · exact h1
    · rw [List.getElem?_eq_none h1] at hr; cases hr
  rw [List.getElem?_set]; simp [hlt]

theorem getElem?_set_ne' {l : List Reg} {h k : Nat} {r' : Reg} (hk : k ≠ h) :
    (l.set h r')[k]? = l[k]? := by
  have hne : ¬ h = k := fun e => hk e.symm
  rw [List.getElem?_set]; simp only [hne, if_false]

/-! ### free-list helpers -/

theorem chain_mem_unused {regs : List Reg} {n : Nat} {c : List Nat} (hc : Chain regs n c) :
    ∀ k ∈ c, ∃ r, regs[k]? = some r ∧ r.used = false := by
  induction hc with
  | nil => intro k hk; cases hk
  | cons h1 h2 _ ih =>
    intro k hk
    rcases List.mem_cons.mp hk with rfl | hk
    · exact ⟨_, h1, h2⟩
    · exact ih k hk

theorem chain_set_other {regs : List Reg} {n : Nat} {c : List Nat} (hc : Chain regs n c) {k : Nat} (r' : Reg)
    (hk : k ∉ c) : Chain (regs.set k r') n c := by
  induction hc with
  | nil =>
    have : regs.length = (regs.set k r').length := by simp
    rw [this]; exact Chain.nil
  | @cons h r t h1 h2 _ ih =>
    have hne : h ≠ k := fun e => hk (by simp [e])
    have hk' : k ∉ t := fun e => hk (List.mem_cons_of_mem _ e)
    exact Chain.cons (by rw [getElem?_set_ne' hne]; exact h1) h2 (ih hk')

theorem chain_not_mem_of_used {regs : List Reg} {n : Nat} {c : List Nat} (hc : Chain regs n c) {k : Nat} {r : Reg}
    (hr : regs[k]? = some r) (hu : r.used = true) : k ∉ c := by
  intro hk
  obtain ⟨r2, h1, h2⟩ := chain_mem_unused hc k hk
  rw [hr] at h1; cases h1; rw [hu] at h2; cases h2

theorem chain_map {regs : List Reg} {n : Nat} {c : List Nat} (hc : Chain regs n c) (f : Reg → Reg)
    (hf : ∀ r, r.used = false → f r = r) : Chain (regs.map f) n c := by
  induction hc with
  | nil =>
    have : regs.length = (regs.map f).length := by simp
    rw [this]; exact Chain.nil
  | @cons h r t h1 h2 _ ih =>
    refine Chain.cons (r := r) ?_ h2 ih
    rw [List.getElem?_map, h1]; simp [hf r h2]

theorem chain_ge_length {regs : List Reg} {n : Nat} {c : List Nat} (hc : Chain regs n c) (hn : regs.length ≤ n) :
    c = [] ∧ n = regs.length := by
  cases hc with
  | nil => exact ⟨rfl, rfl⟩
  | cons h1 _ _ =>
    rw [List.getElem?_eq_none hn] at h1; cases h1

theorem chain_lt_length {regs : List Reg} {n : Nat} {c : List Nat} (hc : Chain regs n c) (hn : n < regs.length) :
    ∃ r t, c = n :: t ∧ regs[n]? = some r ∧ r.used = false ∧ Chain regs r.pos t := by
  cases hc with
  | nil => omega
  | cons h1 h2 h3 => exact ⟨_, _, rfl, h1, h2, h3⟩

theorem chain_append {regs : List Reg} (r : Reg) : Chain (regs ++ [r]) (regs.length + 1) [] := by
  have : regs.length + 1 = (regs ++ [r]).length := by simp
  rw [this]; exact Chain.nil


/-! ### per-registration invariant: helpers -/

theorem RegInv.congr {s s' : State} {r : Reg} (h : RegInv s r) (h1 : s'.pos = s.pos) (h2 : s'.closed = s.closed)
    (h3 : s'.q = s.q) (h4 : s'.maxLen = s.maxLen) (h5 : s'.stream = s.stream) : RegInv s' r := by
  obtain ⟨a1, a2, a3, a4, a5, a6, a7, a8, a9, a10, a11, a12⟩ := h
  refine ⟨?_, ?_, ?_, ?_, ?_, ?_, ?_, ?_, ?_, ?_, ?_, ?_⟩ <;> (try simp only [covers, h1, h2, h3, h4, h5]) <;> assumption

theorem covers_mono {s : State} {p p' : Nat} (hp : p ≤ p') (h : covers s p) : covers s p' := by
  unfold covers capMin at *
  generalize s.maxLen = m at *
  cases m <;> simp only at * <;> omega

theorem advPos_gt (s : State) (r : Reg) : r.pos + 1 ≤ advPos s r := by
  unfold advPos; cases r.mode <;> simp only <;> omega

theorem advPos_le {s : State} {r : Reg} (h : r.pos < s.pos) : advPos s r ≤ s.pos := by
  unfold advPos; cases r.mode <;> simp only <;> omega

theorem advPos_all {s : State} {r : Reg} (h : r.mode = Mode.all) : advPos s r = r.pos + 1 := by
  unfold advPos; rw [h]

theorem advPos_end {s : State} (hi : Inv s) {r : Reg} (h : r.pos < s.pos) (he : advPos s r = s.pos) :
    r.pos + 1 = s.pos := by
  have h1 := hi.q_min
  have h2 := hi.min_pos
  unfold advPos at he
  cases hm : r.mode <;> simp only [hm] at he <;> omega

theorem inv_setReg {s : State} (hi : Inv s) {h : Nat} {r r' : Reg} (hr : s.regs[h]? = some r) (hu : r.used = true)
    (hnew : r'.used = true → RegInv s r') : Inv (setReg s h r') := by
  obtain ⟨b1, b2, b3, b4, b5, b6, b7, c, hc, hnd⟩ := hi
  refine ⟨b1, b2, b3, b4, b5, b6, ?_, c, ?_, hnd⟩
  · intro k x hx hxu
    rcases getElem?_set_cases hx with ⟨_, rfl⟩ | ⟨_, hx'⟩
    · exact (hnew hxu).congr rfl rfl rfl rfl rfl
    · exact (b7 k x hx' hxu).congr rfl rfl rfl rfl rfl
  · exact chain_set_other hc r' (chain_not_mem_of_used hc hr hu)

/-- `ready()` said yes (or `subscribe()` found something to read after all) -/
theorem regInv_advance {s : State} (hi : Inv s) {r : Reg} (hr : RegInv s r) (hp : r.phase = Phase.idle)
    (hc : canAdvance s r) : RegInv s { r with pos := advPos s r, phase := Phase.fetch } := by
  have hlt := hr.idle_lt hp
  have hgt := advPos_gt s r
  have hle := advPos_le (s := s) hlt
  obtain ⟨hk, hne⟩ := hc
  refine ⟨?_, ?_, ?_, ?_, ?_, ?_, ?_, ?_, ?_, ?_, ?_, ?_⟩ <;> dsimp only
  · exact hle
  · intro h; cases h
  · intro _ _; omega
  · intro _ he
    have := advPos_end hi hlt he
    right; left
    cases hcl : s.closed
    · exact absurd ⟨this, hcl⟩ hne
    · rfl
  · intro ha
    have := (hr.parked ha).1
    rw [hp] at this; cases this
  · intro hcov
    exact covers_mono (by omega) (hr.window hcov)
  · exact hr.got_eq
  · exact hr.got_len
  · intro hm _ hk'
    have := hr.pos_eq hm (by rw [hp]; intro h; cases h) hk'
    rw [advPos_all hm]
    simp only [hp] at this
    simp only [if_true]
    simpa using this
  · exact hr.mono
  · intro h; cases h
  · intro _ _ p hp'
    have := hr.mono_idle hp p hp'
    omega

/-- `subscribe()` on a kicked subscriber: nothing moves, the subscriber goes on to `check_next()` (end of stream) -/
theorem regInv_suspend_kicked {s : State} {r : Reg} (hr : RegInv s r) (hp : r.phase = Phase.idle)
    (hk : r.kicked = true) : RegInv s { r with phase := Phase.fetch } := by
  refine ⟨?_, ?_, ?_, ?_, ?_, ?_, ?_, ?_, ?_, ?_, ?_, ?_⟩ <;> dsimp only
  · exact hr.pos_le
  · intro h; cases h
  · intro _ h; rw [hk] at h; cases h
  · intro _ _; right; right; exact hk
  · intro ha
    have := (hr.parked ha).1
    rw [hp] at this; cases this
  · exact hr.window
  · exact hr.got_eq
  · exact hr.got_len
  · intro _ _ h; rw [hk] at h; cases h
  · exact hr.mono
  · intro h; cases h
  · intro _ h; rw [hk] at h; cases h

/-- `subscribe()` parks: nothing to read, not closed, not kicked -/
theorem regInv_park {s : State} {r : Reg} (hr : RegInv s r) (hp : r.phase = Phase.idle)
    (hc : ¬ canAdvance s r) (hk : ¬ r.kicked = true) :
    RegInv s { r with pos := r.pos + 1, awt := true, phase := Phase.fetch } := by
  have hlt := hr.idle_lt hp
  have hk' : r.kicked = false := by cases h : r.kicked <;> simp_all
  have hend : r.pos + 1 = s.pos ∧ s.closed = false := by
    unfold canAdvance at hc
    by_cases h : r.pos + 1 = s.pos ∧ s.closed = false
    · exact h
    · exact absurd ⟨hk', h⟩ hc
  refine ⟨?_, ?_, ?_, ?_, ?_, ?_, ?_, ?_, ?_, ?_, ?_, ?_⟩ <;> dsimp only
  · omega
  · intro h; cases h
  · intro _ _; omega
  · intro _ _; left; rfl
  · intro _; exact ⟨rfl, hend.1, hend.2, hk'⟩
  · intro hcov
    exact covers_mono (by omega) (hr.window hcov)
  · exact hr.got_eq
  · exact hr.got_len
  · intro hm _ hk2
    have := hr.pos_eq hm (by rw [hp]; intro h; cases h) hk2
    simp only [hp] at this
    simp only [if_true]
    simp at this
    omega
  · exact hr.mono
  · intro h; cases h
  · intro _ _ p hp'
    have := hr.mono_idle hp p hp'
    omega

theorem valueAt_some {s : State} {r : Reg} {v : Nat} (h : valueAt s r = some v) :
    r.kicked = false ∧ r.pos ≠ s.pos := by
  unfold valueAt at h
  by_cases hc : r.kicked = true ∨ r.pos = s.pos
  · rw [if_pos hc] at h; cases h
  · constructor
    · cases hk : r.kicked
      · rfl
      · exact absurd (Or.inl hk) hc
    · exact fun e => hc (Or.inr e)

/-- in `all_values` mode the value fetched is the one at the registration's position -/
theorem valueAt_all {s : State} (hi : Inv s) {r : Reg} {v : Nat} (hm : r.mode = Mode.all) (hle : r.pos ≤ s.pos)
    (h1 : 1 ≤ r.pos) (h : valueAt s r = some v) : s.stream[r.pos - 1]? = some v ∧ r.pos < s.pos := by
  obtain ⟨_, hne⟩ := valueAt_some h
  have hlt : r.pos < s.pos := by omega
  unfold valueAt at h
  have hc : ¬ (r.kicked = true ∨ r.pos = s.pos) := by
    intro hc; rw [if_pos hc] at h; cases h
  rw [if_neg hc] at h
  simp only [hm, relpos, if_pos hlt] at h
  have hq : s.pos - r.pos - 1 < s.q.length := by
    rcases Nat.lt_or_ge (s.pos - r.pos - 1) s.q.length with h2 | h2
    · exact h2
    · rw [List.getElem?_eq_none h2] at h; cases h
  have := hi.q_win _ hq
  rw [h] at this
  have hp := hi.pos_eq
  have e : s.stream.length - 1 - (s.pos - r.pos - 1) = r.pos - 1 := by omega
  rw [e] at this
  exact ⟨this.symm, hlt⟩

theorem pairwise_lt_snoc {l : List Nat} {n : Nat} (h : l.Pairwise (· < ·)) (hb : ∀ x ∈ l, x < n) :
    (l ++ [n]).Pairwise (· < ·) := by
  rw [List.pairwise_append]
  refine ⟨h, by simp, ?_⟩
  intro a ha b hb'
  simp at hb'
  subst hb'
  exact hb a ha

/-- `check_next()` fetched a value -/
theorem regInv_fetch_some {s : State} (hi : Inv s) {r : Reg} (hr : RegInv s r) (hp : r.phase = Phase.fetch)
    (ha : r.awt = false) {v : Nat} (hv : valueAt s r = some v) :
    RegInv s { r with phase := Phase.idle, got := r.got ++ [v], gotPos := r.gotPos ++ [r.pos] } := by
  obtain ⟨hk, hne⟩ := valueAt_some hv
  have hle := hr.pos_le
  have h1 := hr.fetch_pos hp hk
  have hmf := hr.mono_fetch hp hk
  refine ⟨?_, ?_, ?_, ?_, ?_, ?_, ?_, ?_, ?_, ?_, ?_, ?_⟩ <;> dsimp only
  · exact hle
  · intro _; omega
  · intro h; cases h
  · intro h; cases h
  · intro h; rw [ha] at h; cases h
  · exact hr.window
  · intro hm i hi'
    have hpe := hr.pos_eq hm (by rw [hp]; intro h; cases h) hk
    simp only [hp, if_true] at hpe
    obtain ⟨hval, _⟩ := valueAt_all hi hm hle h1 hv
    simp only [List.length_append, List.length_cons, List.length_nil] at hi'
    rcases Nat.lt_or_ge i r.got.length with h2 | h2
    · rw [List.getElem?_append_left h2]; exact hr.got_eq hm i h2
    · have e : i = r.got.length := by omega
      subst e
      rw [List.getElem?_append_right (Nat.le_refl _)]
      simp only [Nat.sub_self, List.getElem?_cons_zero]
      have e2 : r.start + r.got.length = r.pos - 1 := by omega
      rw [e2]; exact hval.symm
  · intro hm
    have hpe := hr.pos_eq hm (by rw [hp]; intro h; cases h) hk
    simp only [hp, if_true] at hpe
    have hp2 := hi.pos_eq
    simp only [List.length_append, List.length_cons, List.length_nil]
    omega
  · intro hm _ _
    have hpe := hr.pos_eq hm (by rw [hp]; intro h; cases h) hk
    simp only [hp, if_true] at hpe
    simp only [List.length_append, List.length_cons, List.length_nil]
    simp
    omega
  · exact pairwise_lt_snoc hr.mono hmf
  · intro _ p hp'
    rcases List.mem_append.mp hp' with h2 | h2
    · exact Nat.le_of_lt (hmf p h2)
    · simp at h2; omega
  · intro h; cases h

/-- `check_next()` reported end of stream -/
theorem regInv_fetch_none {s : State} {r : Reg} (hr : RegInv s r) (ha : r.awt = false) :
    RegInv s { r with phase := Phase.done } := by
  refine ⟨?_, ?_, ?_, ?_, ?_, ?_, ?_, ?_, ?_, ?_, ?_, ?_⟩ <;> dsimp only
  · exact hr.pos_le
  · intro h; cases h
  · intro h; cases h
  · intro h; cases h
  · intro h; rw [ha] at h; cases h
  · exact hr.window
  · exact hr.got_eq
  · exact hr.got_len
  · intro _ h; exact absurd rfl h
  · exact hr.mono
  · intro h; cases h
  · intro h; cases h

theorem regInv_kick {s : State} {r : Reg} (hr : RegInv s r) : RegInv s { r with awt := false, kicked := true } := by
  refine ⟨?_, ?_, ?_, ?_, ?_, ?_, ?_, ?_, ?_, ?_, ?_, ?_⟩ <;> dsimp only
  · exact hr.pos_le
  · exact hr.idle_lt
  · intro _ h; cases h
  · intro _ _; right; right; rfl
  · intro h; cases h
  · exact hr.window
  · exact hr.got_eq
  · exact hr.got_len
  · intro _ _ h; cases h
  · exact hr.mono
  · exact hr.mono_idle
  · intro _ h; cases h

theorem kickIdx_some {regs : List Reg} {sid i : Nat} (h : kickIdx regs sid = some i) :
    ∃ r, regs[i]? = some r ∧ r.used = true ∧ r.sub = sid := by
  induction regs generalizing i with
  | nil => cases h
  | cons x xs ih =>
    unfold kickIdx at h
    by_cases hc : x.used = true ∧ x.sub = sid
    · rw [if_pos hc] at h; cases h
      exact ⟨x, rfl, hc.1, hc.2⟩
    · rw [if_neg hc] at h
      cases hk : kickIdx xs sid with
      | none => rw [hk] at h; cases h
      | some j =>
        rw [hk] at h; simp only [Option.map_some] at h; cases h
        obtain ⟨r, h1, h2, h3⟩ := ih hk
        exact ⟨r, by simpa using h1, h2, h3⟩

theorem kickIdx_none {regs : List Reg} {sid : Nat} (h : ∀ r ∈ regs, r.used = true → r.sub ≠ sid) :
    kickIdx regs sid = none := by
  induction regs with
  | nil => rfl
  | cons x xs ih =>
    unfold kickIdx
    have hx : ¬ (x.used = true ∧ x.sub = sid) := fun hc => h x (List.mem_cons_self) hc.1 hc.2
    rw [if_neg hx, ih (fun r hr => h r (List.mem_cons_of_mem _ hr))]
    rfl

/-! ### the subscriber-local steps preserve the invariant -/

theorem inv_advance (s : State) (h : Nat) (hi : Inv s) : Inv (stepAdvance s h).1 := by
  unfold stepAdvance
  cases hr : s.regs[h]? with
  | none => exact hi
  | some r =>
    simp only
    by_cases hc : r.used = true ∧ r.phase = Phase.idle
    · rw [if_pos hc]
      by_cases ha : canAdvance s r
      · rw [if_pos ha]
        exact inv_setReg hi hr hc.1 (fun _ => regInv_advance hi (hi.regs h r hr hc.1) hc.2 ha)
      · rw [if_neg ha]; exact hi
    · rw [if_neg hc]; exact hi

theorem inv_advanceSuspend (s : State) (h : Nat) (hi : Inv s) : Inv (stepAdvanceSuspend s h).1 := by
  unfold stepAdvanceSuspend
  cases hr : s.regs[h]? with
  | none => exact hi
  | some r =>
    simp only
    by_cases hc : r.used = true ∧ r.phase = Phase.idle
    · rw [if_pos hc]
      have hri := hi.regs h r hr hc.1
      by_cases ha : canAdvance s r
      · rw [if_pos ha]
        exact inv_setReg hi hr hc.1 (fun _ => regInv_advance hi hri hc.2 ha)
      · rw [if_neg ha]
        by_cases hk : r.kicked = true
        · rw [if_pos hk]
          exact inv_setReg hi hr hc.1 (fun _ => regInv_suspend_kicked hri hc.2 hk)
        · rw [if_neg hk]
          exact inv_setReg hi hr hc.1 (fun _ => regInv_park hri hc.2 ha hk)
    · rw [if_neg hc]; exact hi

theorem inv_getValue (s : State) (h : Nat) (hi : Inv s) : Inv (stepGetValue s h).1 := by
  unfold stepGetValue
  cases hr : s.regs[h]? with
  | none => exact hi
  | some r =>
    simp only
    by_cases hc : r.used = true ∧ r.phase = Phase.fetch ∧ r.awt = false
    · rw [if_pos hc]
      have hri := hi.regs h r hr hc.1
      cases hv : valueAt s r with
      | none => exact inv_setReg hi hr hc.1 (fun _ => regInv_fetch_none hri hc.2.2)
      | some v => exact inv_setReg hi hr hc.1 (fun _ => regInv_fetch_some hi hri hc.2.1 hc.2.2 hv)
    · rw [if_neg hc]; exact hi

theorem inv_kick (s : State) (sid : Nat) (hi : Inv s) : Inv (stepKick s sid).1 := by
  unfold stepKick
  cases hk : kickIdx s.regs sid with
  | none => exact hi
  | some i =>
    obtain ⟨r, hr, hu, _⟩ := kickIdx_some hk
    simp only [hr]
    exact inv_setReg hi hr hu (fun _ => regInv_kick (hi.regs i r hr hu))

/-! ### subscribe / leave -/

theorem regInv_new {s : State} (hi : Inv s) (sid : Nat) (m : Mode) {p : Nat} (hp : p < s.pos) :
    RegInv s (newReg sid m p (decide (covers s p))) := by
  have hpe := hi.pos_eq
  refine ⟨?_, ?_, ?_, ?_, ?_, ?_, ?_, ?_, ?_, ?_, ?_, ?_⟩ <;> simp only [newReg]
  · omega
  · intro _; exact hp
  · intro h; cases h
  · intro h; cases h
  · intro h; cases h
  · intro h; exact of_decide_eq_true h
  · intro _ i h; simp at h
  · intro _; simp; omega
  · intro _ _ _; simp
  · exact List.Pairwise.nil
  · intro _ p h; cases h
  · intro h; cases h

theorem inv_subscribeLk (s : State) (sid : Nat) (m : Mode) (p : Nat) (hi : Inv s) (hp : p < s.pos) :
    Inv (subscribeLk s sid m p).1 := by
  have hnew := regInv_new hi sid m hp
  obtain ⟨b1, b2, b3, b4, b5, b6, b7, c, hc, hnd⟩ := hi
  unfold subscribeLk
  by_cases hlen : s.regs.length ≤ s.nextFree
  · rw [if_pos hlen]
    obtain ⟨rfl, _⟩ := chain_ge_length hc hlen
    refine ⟨b1, b2, b3, b4, b5, b6, ?_, [], chain_append _, List.nodup_nil⟩
    intro k x hx hxu
    simp only at hx
    rw [List.getElem?_append] at hx
    by_cases hk : k < s.regs.length
    · rw [if_pos hk] at hx
      exact (b7 k x hx hxu).congr rfl rfl rfl rfl rfl
    · rw [if_neg hk] at hx
      have : x = newReg sid m p (decide (covers s p)) := by
        cases hj : k - s.regs.length with
        | zero => rw [hj] at hx; simp at hx; exact hx.symm
        | succ j => rw [hj] at hx; simp at hx
      rw [this]
      exact hnew.congr rfl rfl rfl rfl rfl
  · rw [if_neg hlen]
    obtain ⟨r, t, rfl, hr, hru, hct⟩ := chain_lt_length hc (Nat.lt_of_not_le hlen)
    have hnt : s.nextFree ∉ t := (List.nodup_cons.mp hnd).1
    have hgd : (s.regs.getD s.nextFree default).pos = r.pos := by
      rw [List.getD_eq_getElem?_getD, hr]; rfl
    refine ⟨b1, b2, b3, b4, b5, b6, ?_, t, ?_, (List.nodup_cons.mp hnd).2⟩
    · intro k x hx hxu
      rcases getElem?_set_cases hx with ⟨_, rfl⟩ | ⟨_, hx'⟩
      · exact hnew.congr rfl rfl rfl rfl rfl
      · exact (b7 k x hx' hxu).congr rfl rfl rfl rfl rfl
    · simp only [hgd]
      exact chain_set_other hct _ hnt

theorem inv_subRecent (s : State) (sid : Nat) (m : Mode) (hi : Inv s) : Inv (stepSubRecent s sid m).1 := by
  unfold stepSubRecent
  have := hi.pos_eq
  exact inv_subscribeLk s sid m _ hi (by omega)

theorem inv_subAt (s : State) (sid : Nat) (m : Mode) (p : Nat) (hi : Inv s) : Inv (stepSubAt s sid m p).1 := by
  unfold stepSubAt
  by_cases hp : p < s.pos
  · rw [if_pos hp]; exact inv_subscribeLk s sid m p hi hp
  · rw [if_neg hp]; exact hi

theorem inv_subCopy (s : State) (sid : Nat) (h : Nat) (hi : Inv s) : Inv (stepSubCopy s sid h).1 := by
  unfold stepSubCopy
  cases hr : s.regs[h]? with
  | none => exact hi
  | some r =>
    simp only
    by_cases hc : r.used = true
    · rw [if_pos hc]
      have := hi.pos_eq
      exact inv_subscribeLk s sid r.mode _ hi (by omega)
    · rw [if_neg hc]; exact hi

theorem inv_leave (s : State) (h : Nat) (hi : Inv s) : Inv (stepLeave s h).1 := by
  unfold stepLeave
  cases hr : s.regs[h]? with
  | none => exact hi
  | some r =>
    simp only
    by_cases hc : r.used = true ∧ (r.phase = Phase.idle ∨ r.phase = Phase.done)
    · rw [if_pos hc]
      obtain ⟨b1, b2, b3, b4, b5, b6, b7, c, hch, hnd⟩ := hi
      have hnc : h ∉ c := chain_not_mem_of_used hch hr hc.1
      refine ⟨b1, b2, b3, b4, b5, b6, ?_, h :: c, ?_, List.nodup_cons.mpr ⟨hnc, hnd⟩⟩
      · intro k x hx hxu
        rcases getElem?_set_cases hx with ⟨_, rfl⟩ | ⟨_, hx'⟩
        · cases hxu
        · exact (b7 k x hx' hxu).congr rfl rfl rfl rfl rfl
      · exact Chain.cons (r := { r with pos := s.nextFree, used := false }) (getElem?_set_self' hr) rfl
          (chain_set_other hch _ hnc)
    · rw [if_neg hc]; exact hi

/-! ### push / close -/

theorem needLen_ge_min (regs : List Reg) (p m : Nat) : m ≤ needLen regs p m := by
  induction regs with
  | nil => exact Nat.le_refl _
  | cons x xs ih =>
    unfold needLen
    by_cases hu : x.used = true
    · rw [if_pos hu]; omega
    · rw [if_neg hu]; exact ih

theorem needLen_ge_reg {regs : List Reg} {p m : Nat} {x : Reg} (hx : x ∈ regs) (hu : x.used = true) :
    p - x.pos ≤ needLen regs p m := by
  induction regs with
  | nil => cases hx
  | cons y ys ih =>
    unfold needLen
    rcases List.mem_cons.mp hx with rfl | hx
    · rw [if_pos hu]; omega
    · by_cases hy : y.used = true
      · rw [if_pos hy]; have := ih hx; omega
      · rw [if_neg hy]; exact ih hx

theorem wake_used (r : Reg) : (wake r).used = r.used := by
  unfold wake; by_cases h : r.used = true
  · rw [if_pos h]
  · rw [if_neg h]

theorem wake_of_used {r : Reg} (h : r.used = true) : wake r = { r with awt := false } := by
  unfold wake; rw [if_pos h]

theorem wake_of_unused (r : Reg) (h : r.used = false) : wake r = r := by
  unfold wake; rw [if_neg (by rw [h]; intro h; cases h)]

theorem pushLk_qlen (s : State) (vals : List Nat) (cl : Bool) :
    (pushLk s vals cl).1.q.length
      = min (needLen s.regs (s.pos + vals.length) s.minLen) (capMin s.maxLen (vals.length + s.q.length)) := by
  simp only [pushLk, List.length_take, List.length_append, List.length_reverse]
  unfold capMin
  cases s.maxLen <;> simp only <;> omega

theorem regInv_push {s : State} {r : Reg} (hr : RegInv s r) (hu : r.used = true) (hmem : r ∈ s.regs)
    (vals : List Nat) (cl : Bool) (hne : vals ≠ [] ∨ cl = true) : RegInv (pushLk s vals cl).1 (wake r) := by
  rw [wake_of_used hu]
  have hql := pushLk_qlen s vals cl
  have hneed := needLen_ge_reg (p := s.pos + vals.length) (m := s.minLen) hmem hu
  have hple := hr.pos_le
  refine ⟨?_, ?_, ?_, ?_, ?_, ?_, ?_, ?_, ?_, ?_, ?_, ?_⟩
  · show r.pos ≤ s.pos + vals.length
    omega
  · intro hp
    show r.pos < s.pos + vals.length
    have := hr.idle_lt hp; omega
  · exact hr.fetch_pos
  · intro _ he
    have he' : r.pos = s.pos + vals.length := he
    right; left
    show cl = true
    rcases hne with h | h
    · have : vals.length ≠ 0 := fun e => h (List.length_eq_zero_iff.mp e)
      omega
    · exact h
  · intro h; cases h
  · intro hcov
    have hold := hr.window hcov
    unfold covers at hold ⊢
    rw [hql]
    show min (capMin s.maxLen (s.pos + vals.length - r.pos)) (s.pos + vals.length - 1) ≤ _
    unfold capMin at hold ⊢
    generalize s.maxLen = mx at hold ⊢
    cases mx <;> simp only at hold ⊢ <;> omega
  · intro hm i hi'
    have hi'' : i < r.got.length := hi'
    have h1 := hr.got_eq hm i hi''
    have h2 := hr.got_len hm
    show r.got[i]? = (s.stream ++ vals)[r.start + i]?
    rw [List.getElem?_append_left (by omega)]; exact h1
  · intro hm
    have h2 := hr.got_len hm
    show r.start + r.got.length ≤ (s.stream ++ vals).length
    rw [List.length_append]; omega
  · exact hr.pos_eq
  · exact hr.mono
  · exact hr.mono_idle
  · exact hr.mono_fetch

theorem inv_pushLk (s : State) (vals : List Nat) (cl : Bool) (hi : Inv s) (hne : vals ≠ [] ∨ cl = true) :
    Inv (pushLk s vals cl).1 := by
  have hql := pushLk_qlen s vals cl
  obtain ⟨b1, b2, b3, b4, b5, b6, b7, c, hc, hnd⟩ := hi
  have hmin := needLen_ge_min s.regs (s.pos + vals.length) s.minLen
  refine ⟨b1, b2, ?_, ?_, ?_, ?_, ?_, c, ?_, hnd⟩
  · show s.pos + vals.length = (s.stream ++ vals).length + 1
    rw [List.length_append]; omega
  · rw [hql]
    show _ ≤ (s.stream ++ vals).length
    rw [List.length_append]
    unfold capMin
    generalize s.maxLen = mx
    cases mx <;> simp only <;> omega
  · intro i hi'
    rw [hql] at hi'
    show ((vals.reverse ++ s.q).take _)[i]? = (s.stream ++ vals)[(s.stream ++ vals).length - 1 - i]?
    have hcap : capMin s.maxLen (vals.length + s.q.length) ≤ vals.length + s.q.length := by
      unfold capMin; generalize s.maxLen = mx; cases mx <;> simp only <;> omega
    rw [List.getElem?_take, if_pos (by omega), List.getElem?_append, List.length_reverse, List.length_append]
    by_cases hin : i < vals.length
    · rw [if_pos hin, List.getElem?_reverse hin, List.getElem?_append_right (by omega)]
      congr 1; omega
    · rw [if_neg hin, b5 (i - vals.length) (by omega), List.getElem?_append_left (by omega)]
      congr 1; omega
  · rw [hql]
    show min s.minLen (s.pos + vals.length - 1) ≤ _
    unfold capMin
    have := b2
    generalize s.maxLen = mx at this ⊢
    cases mx with
    | none => simp only; omega
    | some k => have := this k rfl; simp only; omega
  · intro k x hx hxu
    have hx' : (s.regs.map wake)[k]? = some x := hx
    rw [List.getElem?_map] at hx'
    cases hr : s.regs[k]? with
    | none => rw [hr] at hx'; cases hx'
    | some r =>
      rw [hr] at hx'; simp only [Option.map_some] at hx'
      cases hx'
      have hu : r.used = true := by rw [← wake_used]; exact hxu
      exact regInv_push (b7 k r hr hu) hu (List.mem_of_getElem? hr) vals cl hne
  · exact chain_map hc wake wake_of_unused

theorem inv_push (s : State) (vals : List Nat) (hi : Inv s) : Inv (stepPush s vals).1 := by
  unfold stepPush
  by_cases h : vals = []
  · rw [if_pos h]; exact hi
  · rw [if_neg h]; exact inv_pushLk s vals s.closed hi (Or.inl h)

theorem inv_close (s : State) (hi : Inv s) : Inv (stepClose s).1 := by
  unfold stepClose
  by_cases h : s.closed = true
  · rw [if_pos h]; exact hi
  · rw [if_neg h]; exact inv_pushLk s [] true hi (Or.inr rfl)

theorem inv_relock (s : State) (hi : Inv s) : Inv (stepRelock s).1 := by
  obtain ⟨b1, b2, b3, b4, b5, b6, b7, c, hc, hnd⟩ := hi
  exact ⟨b1, b2, b3, b4, b5, b6, fun k x hx hxu => (b7 k x hx hxu).congr rfl rfl rfl rfl rfl, c, hc, hnd⟩

theorem inv_step (s : State) (op : Op) (hi : Inv s) : Inv (step s op).1 := by
  cases op with
  | subRecent sid m => exact inv_subRecent s sid m hi
  | subAt sid m p => exact inv_subAt s sid m p hi
  | subCopy sid h => exact inv_subCopy s sid h hi
  | advance h => exact inv_advance s h hi
  | advanceSuspend h => exact inv_advanceSuspend s h hi
  | getValue h => exact inv_getValue s h hi
  | push vals => exact inv_push s vals hi
  | close => exact inv_close s hi
  | kick sid => exact inv_kick s sid hi
  | leave h => exact inv_leave s h hi
  | relock => exact inv_relock s hi

theorem inv_run (s : State) (ops : List Op) (hi : Inv s) : Inv (run s ops) := by
  induction ops generalizing s with
  | nil => exact hi
  | cons op ops ih => exact ih _ (inv_step s op hi)

/-! ### what a subscription returns (used by `Props/C16.lean`) -/

theorem subscribeLk_spec {s : State} (hi : Inv s) (sid : Nat) (m : Mode) (p : Nat) :
    ∃ h', (subscribeLk s sid m p).2 = Res.handle h' ∧
      (s.regs[h']? = none ∨ ∃ r, s.regs[h']? = some r ∧ r.used = false) ∧
      (subscribeLk s sid m p).1.regs[h']? = some (newReg sid m p (decide (covers s p))) ∧
      (∀ k, k ≠ h' → (subscribeLk s sid m p).1.regs[k]? = s.regs[k]?) ∧
      (subscribeLk s sid m p).1.q = s.q ∧ (subscribeLk s sid m p).1.pos = s.pos ∧
      (subscribeLk s sid m p).1.closed = s.closed ∧ (subscribeLk s sid m p).1.stream = s.stream := by
  obtain ⟨c, hc, _⟩ := hi.chain
  unfold subscribeLk
  by_cases hlen : s.regs.length ≤ s.nextFree
  · rw [if_pos hlen]
    refine ⟨s.regs.length, rfl, Or.inl (List.getElem?_eq_none (Nat.le_refl _)), ?_, ?_, rfl, rfl, rfl, rfl⟩
    · simp
    · intro k hk
      show (s.regs ++ [_])[k]? = s.regs[k]?
      rw [List.getElem?_append]
      by_cases h : k < s.regs.length
      · rw [if_pos h]
      · rw [if_neg h, List.getElem?_eq_none (by omega : s.regs.length ≤ k)]
        apply List.getElem?_eq_none
        simp only [List.length_cons, List.length_nil]; omega
  · rw [if_neg hlen]
    obtain ⟨r, t, _, hr, hru, _⟩ := chain_lt_length hc (Nat.lt_of_not_le hlen)
    refine ⟨s.nextFree, rfl, Or.inr ⟨r, hr, hru⟩, getElem?_set_self' hr, ?_, rfl, rfl, rfl, rfl⟩
    intro k hk
    exact getElem?_set_ne' hk

end Cocls.Pub
