/-
Micro-step model of `cocls::shared_future` (shared_future.h on top of future.h / awaiter.h), list level.

One agent step = the plain code of one thread up to and including its next synchronising operation (exactly the
step of the baton harness `harness/h_shared_future.cpp`, which yields after every interposed atomic operation of the
unmodified headers).  libstdc++'s `shared_ptr` counter is not interposed: copying / dropping a handle is part of the
plain segment, i.e. a single atomic step here (`refs`).

Threads (`kindOf`):
* thread 0, the creator: constructs the object (`Mode`: the two constructors, late initialisation through
  `get_promise()` — also with `init_if_needed()` first and copies taken before `get_promise()`, mode `ip` —,
  `init_if_needed()` + `operator<<`, the ready-made factories), which hands the promise to the
  resolver (`published`) and wires the resolve tracer (`charge`: one CAS on the awaiter slot); then it gives one copy
  of the handle to every handle thread (`constructed`) and runs its own program;
* handle threads: a program of `copy` / `drop` / `peek` (`ready()` + `value()`) / `await` in the three styles
  (`co_await` in a detached coroutine owning its own copy, blocking `wait()`, callback awaiter owning its own copy);
  a thread's handles are locals and are dropped when its program ends;
* the resolver thread `rtid` (at most one: competing resolvers are C01): promise called with value / exception / drop,
  or promise destroyed; `claim`, `set`, `resolve` (exchange on the slot), walk over the detached chain — blocking
  waiters and callbacks in chain order (LIFO), the tracer's callback drops the tracer's reference, coroutines are
  collected and resumed after the walk.

The shared state is alive while `refs > 0`; the step that takes `refs` to 0 frees it (`freed`, event `freed`).
Ghost fields (never consulted by the control flow): `holders` (who owns the references), `subscribed`, `woken`,
`observed`, `uaf` (number of accesses to the state or its control block made after it was freed).
-/
namespace Cocls.SharedFuture

inductive Outcome where
  | none | val (v : Nat) | exc (c : Nat)
  deriving DecidableEq, Repr, Inhabited

inductive RK where
  | value (v : Nat) | exc (c : Nat) | drop | dtor
  deriving DecidableEq, Repr, Inhabited

def RK.payload : RK → Outcome
  | RK.value v => Outcome.val v
  | RK.exc c => Outcome.exc c
  | RK.drop => Outcome.none
  | RK.dtor => Outcome.none

/-- styles of reading the result -/
inductive WK where
  | coro | sync | cb | peek
  deriving DecidableEq, Repr, Inhabited

inductive Act where
  | copy | drop | peek | await (k : WK)
  deriving DecidableEq, Repr, Inhabited

inductive Mode where
  | pf | ff | gp | ls | ip | sv (v : Nat) | se (c : Nat)
  deriving DecidableEq, Repr, Inhabited

def Mode.hasPromise : Mode → Bool
  | Mode.sv _ => false
  | Mode.se _ => false
  | _ => true

def Mode.initPayload : Mode → Outcome
  | Mode.sv v => Outcome.val v
  | Mode.se c => Outcome.exc c
  | _ => Outcome.none

inductive Kind where
  | creator | handle | res
  deriving DecidableEq, Repr, Inhabited

inductive Node where
  | tracer | aw (t : Nat)
  deriving DecidableEq, Repr, Inhabited

inductive Slot where
  | chain (l : List Node)
  | ready
  deriving DecidableEq, Repr, Inhabited

/-- what an atomic operation on the slot observed -/
inductive Seen where
  | null | node (x : Node) | ready
  deriving DecidableEq, Repr, Inhabited

def Slot.seen : Slot → Seen
  | Slot.chain [] => Seen.null
  | Slot.chain (x :: _) => Seen.node x
  | Slot.ready => Seen.ready

def chainOf : Slot → List Node
  | Slot.chain l => l
  | Slot.ready => []

/-- owners of strong references (ghost) -/
inductive Holder where
  | thread (t : Nat) | ctx (t : Nat) | tracer
  deriving DecidableEq, Repr, Inhabited

/-- the creator's synchronising operations while it constructs the object -/
inductive CI where
  | xchgInit              -- `future::get_promise`: exchange on the slot (`instance` -> null)
  | giveInit              -- `init_if_needed()`, copies handed to the handle threads, then `get_promise()`'s exchange
  | charge (exp : Seen)   -- `resolve_cb::charge`: subscribe CAS of the tracer
  | xchgTmp               -- the promise is moved to where the resolver finds it (claim on the temporary)
  | loadTmp               -- destructor of the moved-from promise; the promise is now published
  | loadPending           -- `pending()` before wiring the tracer
  deriving DecidableEq, Repr, Inhabited

def CI.isCharge : CI → Bool
  | CI.charge _ => true
  | _ => false

/-- what the walker still has to do -/
inductive WAct where
  | store (x : Nat)                   -- blocking waiter: `flag.store(true)`
  | wake (x : Nat)                    -- callback invoked / coroutine resumed: it reads the result inline
  | obsAfter (x : Nat) (seen : Seen)  -- `value()` of `x` found no value, its `pending()` load returned `seen`
  | release                           -- the tracer's callback: `_ptr = nullptr`
  deriving DecidableEq, Repr, Inhabited

inductive Pc where
  | cRun (is : List CI)                       -- creator: constructing
  | hStart | hGate                            -- handle thread waiting for its handle
  | hRun (p : List Act)                       -- at a program point
  | hCas (k : WK) (exp : Seen) (p : List Act) -- `subscribe_check_ready` CAS with expected value `_next`
  | hWait (p : List Act) | hBlocked (p : List Act)   -- blocking waiter: `flag.wait(false)`
  | hRead (k : WK) (p : List Act)             -- read the result
  | hRead2 (k : WK) (seen : Seen) (p : List Act)  -- `value()` found no value and loaded the slot (`pending()`)
  | rStart | rGate                            -- resolver waiting for the promise
  | rResolve                                  -- claimed: `set`, then `resolve()` exchange
  | rRun (acts : List WAct)                   -- walking the detached chain / resuming collected coroutines
  | done
  deriving DecidableEq, Repr, Inhabited

inductive Obs where
  | val (v : Nat) | exc (c : Nat) | canceled | notready
  deriving DecidableEq, Repr, Inhabited

inductive Ev where
  | opLoadSlot (t : Nat) (s : Seen)
  | opCas (t : Nat) (ok : Bool) (s : Seen)
  | opXchgSlot (t : Nat) (s : Seen)
  | opXchgInit (t : Nat)
  | opXchgTmp (t : Nat)
  | opLoadTmp (t : Nat)
  | opXchgOwner (t : Nat)
  | opLoadOwner (t : Nat)
  | opStoreFlag (t : Nat) (x : Nat)
  | waitBlock (t : Nat)
  | waitPass (t : Nat)
  | gateBlock (t : Nat) (promise : Bool)
  | fin (t : Nat)
  | obs (x : Nat) (k : WK) (o : Obs)
  | ret (t : Nat)
  | freed (t : Nat)
  | dflt                              -- gp: the default-constructed object reports not ready
  | crash (t : Nat)
  deriving DecidableEq, Repr, Inhabited

structure Cfg where
  n : Nat
  mode : Mode
  prog : Nat → List Act
  rtid : Nat := 0                 -- the resolver thread (0 = none: thread 0 is the creator)
  rk : RK := RK.drop
  asIsInit : Bool := false        -- `init_if_needed` as pinned: `if (_ptr)` instead of `if (!_ptr)`
  asIsLshift : Bool := false      -- `operator<<` as pinned: the tracer is not wired

def kindOf (c : Cfg) (t : Nat) : Kind :=
  if t = 0 then Kind.creator else if t = c.rtid then Kind.res else Kind.handle

def Cfg.script (c : Cfg) : List CI :=
  match c.mode with
  | Mode.pf => [CI.xchgTmp, CI.loadTmp, CI.charge Seen.null]
  | Mode.ff => [CI.xchgTmp, CI.loadTmp, CI.loadPending, CI.charge Seen.null]
  | Mode.ls => if c.asIsLshift then [CI.xchgTmp, CI.loadTmp]
               else [CI.xchgTmp, CI.loadTmp, CI.loadPending, CI.charge Seen.null]
  | Mode.gp => [CI.xchgInit, CI.charge Seen.null, CI.xchgTmp, CI.loadTmp]
  | Mode.ip => [CI.giveInit, CI.charge Seen.null, CI.xchgTmp, CI.loadTmp]
  | Mode.sv _ => [CI.loadPending, CI.charge Seen.null]
  | Mode.se _ => [CI.loadPending, CI.charge Seen.null]

/-- with the pinned `init_if_needed` the object stays null: `get_promise()` / `operator<<` dereference null -/
def Cfg.crashes (c : Cfg) : Bool := c.asIsInit && (c.mode == Mode.gp || c.mode == Mode.ls || c.mode == Mode.ip)

structure State where
  owner : Bool := true
  published : Bool := false
  constructed : Bool := false
  given : Bool := false                   -- the handle threads' copies exist (they may be made before `get_promise()`, mode ip)
  slot : Slot := Slot.chain []
  payload : Outcome := Outcome.none
  flag : Nat → Bool := fun _ => false
  held : Nat → Nat := fun _ => 0          -- handles among the locals of thread t
  ctx : Nat → Bool := fun _ => false      -- the coroutine frame / callback context of t's await owns a handle
  akind : Nat → WK := fun _ => WK.coro    -- the style of t's await (what its chain node resumes)
  awaited : Nat → Bool := fun _ => false
  tracerRef : Bool := false
  refs : Nat := 1
  freed : Nat := 0
  crashed : Bool := false
  pc : Nat → Pc
  -- ghost
  holders : List Holder := [Holder.thread 0]
  subscribed : Nat → Bool := fun _ => false
  woken : Nat → Nat := fun _ => 0
  observed : Nat → Nat := fun _ => 0
  uaf : Nat := 0

def upd {α} (f : Nat → α) (i : Nat) (v : α) : Nat → α := fun j => if j = i then v else f j

@[simp] theorem upd_same {α} (f : Nat → α) (i : Nat) (v : α) : upd f i v i = v := by simp [upd]
@[simp] theorem upd_other {α} (f : Nat → α) (i j : Nat) (v : α) (h : j ≠ i) : upd f i v j = f j := by
  simp [upd, h]

def initPc (c : Cfg) (t : Nat) : Pc :=
  if t < c.n then
    match kindOf c t with
    | Kind.creator => Pc.cRun c.script
    | Kind.handle => Pc.hStart
    | Kind.res => Pc.rStart
  else Pc.done

def init (c : Cfg) : State :=
  { pc := initPc c,
    held := fun t => if t = 0 then 1 else 0,
    slot := if c.mode.hasPromise then Slot.chain [] else Slot.ready,
    payload := c.mode.initPayload }

def enabled (s : State) (t : Nat) : Bool :=
  !s.crashed &&
  match s.pc t with
  | Pc.done => false
  | Pc.hGate => s.constructed
  | Pc.rGate => s.published
  | Pc.hBlocked _ => s.flag t
  | _ => true

def setPc (s : State) (t : Nat) (p : Pc) : State := { s with pc := upd s.pc t p }

/-- an access to the shared state or its control block -/
def touch (s : State) : State := { s with uaf := if s.freed = 0 then s.uaf else s.uaf + 1 }

def addRef (s : State) (h : Holder) : State :=
  { touch s with refs := s.refs + 1, holders := h :: s.holders }

/-- `~shared_ptr` run by thread `t`: the last reference frees the state -/
def dropRef (s : State) (t : Nat) (h : Holder) : State × List Ev :=
  if s.refs = 1 then
    ({ touch s with refs := 0, holders := s.holders.erase h, freed := s.freed + 1 }, [Ev.freed t])
  else ({ touch s with refs := s.refs - 1, holders := s.holders.erase h }, [])

def copyH (s : State) (t : Nat) : State :=
  { addRef s (Holder.thread t) with held := upd s.held t (s.held t + 1) }

def dropH (s : State) (t : Nat) : State × List Ev :=
  ({ (dropRef s t (Holder.thread t)).1 with held := upd s.held t (s.held t - 1) }, (dropRef s t (Holder.thread t)).2)

def needsLoad (s : State) : Bool := s.payload == Outcome.none

def obsOf (s : State) (seen : Seen) : Obs :=
  match s.payload with
  | Outcome.val v => Obs.val v
  | Outcome.exc c => Obs.exc c
  | Outcome.none => if seen = Seen.ready then Obs.canceled else Obs.notready

def ownsCtx (k : WK) : Bool := k == WK.coro || k == WK.cb

/-- thread `t` runs the code that reads the result for the await / peek of `x` in style `k`; a coroutine frame /
callback context is destroyed right after (its handle is dropped) -/
def obsStep (s : State) (t x : Nat) (k : WK) (seen : Seen) : State × List Ev :=
  if ownsCtx k then
    ((dropRef { touch s with observed := upd s.observed x (s.observed x + 1), ctx := upd s.ctx x false } t (Holder.ctx x)).1,
     Ev.obs x k (obsOf s seen) ::
       (dropRef { touch s with observed := upd s.observed x (s.observed x + 1), ctx := upd s.ctx x false } t (Holder.ctx x)).2)
  else if k = WK.sync then
    ({ touch s with observed := upd s.observed x (s.observed x + 1) }, [Ev.obs x k (obsOf s seen)])
  else (touch s, [Ev.obs x k (obsOf s seen)])

/-- the thread's locals go out of scope: every handle it still holds is dropped -/
def dropAll (t : Nat) : Nat → State → State × List Ev
  | 0, s => (s, [])
  | k + 1, s => ((dropAll t k (dropH s t).1).1, (dropH s t).2 ++ (dropAll t k (dropH s t).1).2)

def endThread (s : State) (t : Nat) : State × List Ev :=
  (setPc (dropAll t (s.held t) s).1 t Pc.done, (dropAll t (s.held t) s).2 ++ [Ev.fin t])

def startAwait (s : State) (t : Nat) (k : WK) : State :=
  if ownsCtx k then
    { addRef s (Holder.ctx t) with awaited := upd s.awaited t true, akind := upd s.akind t k, ctx := upd s.ctx t true }
  else { s with awaited := upd s.awaited t true, akind := upd s.akind t k }

/-- run the program of thread `t` up to and including its next synchronising operation (or its end) -/
def runProg (t : Nat) : State → List Act → State × List Ev
  | s, [] => endThread s t
  | s, Act.copy :: p =>
      if s.held t = 0 then runProg t (setPc s t (Pc.hRun p)) p
      else runProg t (setPc (copyH s t) t (Pc.hRun p)) p
  | s, Act.drop :: p =>
      if s.held t = 0 then runProg t (setPc s t (Pc.hRun p)) p
      else ((runProg t (setPc (dropH s t).1 t (Pc.hRun p)) p).1,
            (dropH s t).2 ++ (runProg t (setPc (dropH s t).1 t (Pc.hRun p)) p).2)
  | s, Act.peek :: p =>
      if s.held t = 0 then runProg t (setPc s t (Pc.hRun p)) p
      else if s.slot = Slot.ready then (setPc (touch s) t (Pc.hRead WK.peek p), [Ev.opLoadSlot t Seen.ready])
      else (setPc (touch s) t (Pc.hRun p), [Ev.opLoadSlot t s.slot.seen])
  | s, Act.await k :: p =>
      if s.held t = 0 ∨ s.awaited t = true ∨ k = WK.peek then runProg t (setPc s t (Pc.hRun p)) p
      else if s.slot = Slot.ready then
        (setPc (touch (startAwait s t k)) t (Pc.hRead k p), [Ev.opLoadSlot t Seen.ready])
      else (setPc (touch (startAwait s t k)) t (Pc.hCas k Seen.null p), [Ev.opLoadSlot t s.slot.seen])

/-- `resume_chain_lk`: blocking waiters, callbacks and the tracer are handled while walking (chain order) … -/
def inWalk (ak : Nat → WK) : List Node → List WAct
  | [] => []
  | Node.tracer :: l => WAct.release :: inWalk ak l
  | Node.aw x :: l =>
      if ak x = WK.sync then WAct.store x :: inWalk ak l
      else if ak x = WK.cb then WAct.wake x :: inWalk ak l
      else inWalk ak l

/-- … coroutine handles are collected into the returned suspend point and resumed afterwards (same order) -/
def coros (ak : Nat → WK) : List Node → List WAct
  | [] => []
  | Node.tracer :: l => coros ak l
  | Node.aw x :: l =>
      if ak x = WK.sync ∨ ak x = WK.cb then coros ak l else WAct.wake x :: coros ak l

def buildActs (ak : Nat → WK) (l : List Node) : List WAct := inWalk ak l ++ coros ak l

/-- run the walker's actions up to and including its next synchronising operation (or the end of the call) -/
def runActs (c : Cfg) (t : Nat) : State → List WAct → State × List Ev
  | s, [] => (setPc s t Pc.done, (if c.rk = RK.dtor then [] else [Ev.ret t]) ++ [Ev.fin t])
  | s, WAct.store x :: rest =>
      ({ setPc s t (Pc.rRun rest) with flag := upd s.flag x true, woken := upd s.woken x (s.woken x + 1) },
       [Ev.opStoreFlag t x])
  | s, WAct.wake x :: rest =>
      if needsLoad s then
        (setPc (touch { s with woken := upd s.woken x (s.woken x + 1) }) t (Pc.rRun (WAct.obsAfter x s.slot.seen :: rest)),
         [Ev.opLoadSlot t s.slot.seen])
      else
        ((runActs c t (setPc (obsStep { s with woken := upd s.woken x (s.woken x + 1) } t x (s.akind x) Seen.ready).1 t (Pc.rRun rest)) rest).1,
         (obsStep { s with woken := upd s.woken x (s.woken x + 1) } t x (s.akind x) Seen.ready).2 ++
         (runActs c t (setPc (obsStep { s with woken := upd s.woken x (s.woken x + 1) } t x (s.akind x) Seen.ready).1 t (Pc.rRun rest)) rest).2)
  | s, WAct.obsAfter x seen :: rest =>
      ((runActs c t (setPc (obsStep s t x (s.akind x) seen).1 t (Pc.rRun rest)) rest).1,
       (obsStep s t x (s.akind x) seen).2 ++ (runActs c t (setPc (obsStep s t x (s.akind x) seen).1 t (Pc.rRun rest)) rest).2)
  | s, WAct.release :: rest =>
      ((runActs c t (setPc (dropRef { s with tracerRef := false } t Holder.tracer).1 t (Pc.rRun rest)) rest).1,
       (dropRef { s with tracerRef := false } t Holder.tracer).2 ++
       (runActs c t (setPc (dropRef { s with tracerRef := false } t Holder.tracer).1 t (Pc.rRun rest)) rest).2)

/-- the handle threads (they receive their copy from the creator) -/
def handleTids (c : Cfg) : List Nat := (List.range c.n).filter (fun i => kindOf c i = Kind.handle)

/-- one copy of the handle for every handle thread -/
def giveHandles (c : Cfg) (s : State) : State :=
  { touch s with
    given := true,
    held := fun i => if i < c.n ∧ kindOf c i = Kind.handle then 1 else s.held i,
    refs := s.refs + (handleTids c).length,
    holders := (handleTids c).map Holder.thread ++ s.holders }

/-- end of the construction: the handle threads have their copies (made now, unless they were made before
`get_promise()`) and may start -/
def distribute (c : Cfg) (s : State) : State :=
  if s.given then { s with constructed := true } else { giveHandles c s with constructed := true }

/-- one synchronising operation of the constructing creator -/
def cstep (c : Cfg) (s : State) (t : Nat) (i : CI) (is : List CI) : State × List Ev :=
  match i with
  | CI.giveInit =>
      (setPc (if s.given then touch s else giveHandles c s) t (Pc.cRun is), [Ev.dflt, Ev.opXchgInit t])
  | CI.xchgInit => (setPc (touch s) t (Pc.cRun is), [Ev.dflt, Ev.opXchgInit t])
  | CI.xchgTmp => (setPc s t (Pc.cRun is), [Ev.opXchgTmp t])
  | CI.loadTmp => ({ setPc s t (Pc.cRun is) with published := true }, [Ev.opLoadTmp t])
  | CI.loadPending =>
      if s.slot = Slot.ready then (setPc (touch s) t (Pc.cRun (is.filter (fun i => !i.isCharge))), [Ev.opLoadSlot t Seen.ready])
      else (setPc (touch s) t (Pc.cRun is), [Ev.opLoadSlot t s.slot.seen])
  | CI.charge exp =>
      match s.slot with
      | Slot.ready => (setPc (touch s) t (Pc.cRun is), [Ev.opCas t false Seen.ready])
      | Slot.chain l =>
          if (Slot.chain l).seen = exp then
            ({ setPc (addRef s Holder.tracer) t (Pc.cRun is) with slot := Slot.chain (Node.tracer :: l), tracerRef := true },
             [Ev.opCas t true (Slot.chain l).seen])
          else (setPc (touch s) t (Pc.cRun (CI.charge (Slot.chain l).seen :: is)), [Ev.opCas t false (Slot.chain l).seen])

def casStep (s : State) (t : Nat) (k : WK) (exp : Seen) (p : List Act) : State × List Ev :=
  match s.slot with
  | Slot.ready => (setPc (touch s) t (Pc.hRead k p), [Ev.opCas t false Seen.ready])
  | Slot.chain l =>
      if (Slot.chain l).seen = exp then
        ({ setPc (touch s) t (if k = WK.sync then Pc.hWait p else Pc.hRun p) with
            slot := Slot.chain (Node.aw t :: l), subscribed := upd s.subscribed t true },
         [Ev.opCas t true (Slot.chain l).seen])
      else (setPc (touch s) t (Pc.hCas k (Slot.chain l).seen p), [Ev.opCas t false (Slot.chain l).seen])

def readStep (s : State) (t : Nat) (k : WK) (p : List Act) : State × List Ev :=
  if needsLoad s then (setPc (touch s) t (Pc.hRead2 k s.slot.seen p), [Ev.opLoadSlot t s.slot.seen])
  else ((runProg t (setPc (obsStep s t t k Seen.ready).1 t (Pc.hRun p)) p).1,
        (obsStep s t t k Seen.ready).2 ++ (runProg t (setPc (obsStep s t t k Seen.ready).1 t (Pc.hRun p)) p).2)

def readStep2 (s : State) (t : Nat) (k : WK) (seen : Seen) (p : List Act) : State × List Ev :=
  ((runProg t (setPc (obsStep s t t k seen).1 t (Pc.hRun p)) p).1,
   (obsStep s t t k seen).2 ++ (runProg t (setPc (obsStep s t t k seen).1 t (Pc.hRun p)) p).2)

def claimStep (c : Cfg) (s : State) (t : Nat) : State × List Ev :=
  ({ setPc s t Pc.rResolve with owner := false },
   [if c.rk = RK.dtor then Ev.opLoadOwner t else Ev.opXchgOwner t])

def resolveStep (c : Cfg) (s : State) (t : Nat) : State × List Ev :=
  ({ setPc (touch s) t (Pc.rRun (buildActs s.akind (chainOf s.slot))) with payload := c.rk.payload, slot := Slot.ready },
   [Ev.opXchgSlot t s.slot.seen])

/-- one micro-step of thread `t` -/
def astep (c : Cfg) (s : State) (t : Nat) : State × List Ev :=
  match s.pc t with
  | Pc.done => (s, [])
  | Pc.cRun [] => runProg t (setPc (distribute c s) t (Pc.hRun (c.prog t))) (c.prog t)
  | Pc.cRun (i :: is) =>
      if c.crashes then ({ s with crashed := true }, [Ev.crash t]) else cstep c s t i is
  | Pc.hStart =>
      if s.constructed then runProg t (setPc s t (Pc.hRun (c.prog t))) (c.prog t)
      else (setPc s t Pc.hGate, [Ev.gateBlock t false])
  | Pc.hGate => runProg t (setPc s t (Pc.hRun (c.prog t))) (c.prog t)
  | Pc.hRun p => runProg t s p
  | Pc.hCas k exp p => casStep s t k exp p
  | Pc.hWait p =>
      if s.flag t then (setPc s t (Pc.hRead WK.sync p), [Ev.waitPass t])
      else (setPc s t (Pc.hBlocked p), [Ev.waitBlock t])
  | Pc.hBlocked p => (setPc s t (Pc.hRead WK.sync p), [Ev.waitPass t])
  | Pc.hRead k p => readStep s t k p
  | Pc.hRead2 k seen p => readStep2 s t k seen p
  | Pc.rStart =>
      if s.published then claimStep c s t else (setPc s t Pc.rGate, [Ev.gateBlock t true])
  | Pc.rGate => claimStep c s t
  | Pc.rResolve => resolveStep c s t
  | Pc.rRun acts => runActs c t s acts

/-- run a schedule of thread ids (an entry naming a disabled thread is a stutter here; the driver implements the
harness's fall-through rule on top) -/
def run (c : Cfg) (s : State) (sched : List Nat) : State :=
  sched.foldl (fun s t => if enabled s t then (astep c s t).1 else s) s

end Cocls.SharedFuture
