import CoclsModel.SharedFutureInv
/-! Preservation of the shared_future invariant, part 1: program mini-steps (copy / drop / peek / await start), gates, claim. -/
namespace Cocls.SharedFuture
variable {c : Cfg} {s : State} {t : Nat}

/-! ## program mini-steps of a handle-holding thread -/

theorem inv_skip (h : Inv c s) (a : Act) (p : List Act) (hpc : s.pc t = Pc.hRun (a :: p)) :
    Inv c (setPc s t (Pc.hRun p)) := by
  have hw : wacts c (setPc s t (Pc.hRun p)) = wacts c s :=
    wacts_setPc c s _ t (Pc.hRun p) rfl (by simp [hpc, actsOf]) (by simp [actsOf])
  have hpk := h.pcok t
  rw [hpc] at hpk
  simp only [pcOK] at hpk
  simp only [setPc] at hw ⊢
  inv_auto h

theorem inv_copyH (h : Inv c s) (q : List Act) (hpc : s.pc t = Pc.hRun q) (hh : s.held t ≠ 0) :
    Inv c (copyH s t) := by
  obtain ⟨hr, hf⟩ := alive_of_held h hh
  have hw : wacts c (copyH s t) = wacts c s := rfl
  simp only [copyH, addRef, touch_eq hf] at hw ⊢
  inv_auto h

theorem inv_dropH (h : Inv c s) (q : List Act) (hpc : s.pc t = Pc.hRun q) (hh : s.held t ≠ 0) :
    Inv c (dropH s t).1 := by
  obtain ⟨hr, hf⟩ := alive_of_held h hh
  have hw : wacts c (dropH s t).1 = wacts c s := by
    simp only [dropH, dropRef_fst _ hf]; rfl
  have hm : Holder.thread t ∈ s.holders := by
    apply List.count_pos_iff.1; have := h.hThread t; omega
  simp only [dropH, dropRef_fst _ hf] at hw ⊢
  inv_auto h


theorem inv_done (h : Inv c s) (hpc : s.pc t = Pc.hRun []) (hh : s.held t = 0) : Inv c (setPc s t Pc.done) := by
  have hw : wacts c (setPc s t Pc.done) = wacts c s :=
    wacts_setPc c s _ t Pc.done rfl (by simp [hpc, actsOf]) (by simp [actsOf])
  simp only [setPc] at hw ⊢
  inv_auto h

theorem inv_peek_ready (h : Inv c s) (p : List Act) (hpc : s.pc t = Pc.hRun (Act.peek :: p)) (hh : s.held t ≠ 0)
    (hs : s.slot = Slot.ready) : Inv c (setPc (touch s) t (Pc.hRead WK.peek p)) := by
  obtain ⟨hr, hf⟩ := alive_of_held h hh
  have hw : wacts c (setPc (touch s) t (Pc.hRead WK.peek p)) = wacts c s :=
    wacts_setPc c s _ t _ rfl (by simp [hpc, actsOf]) (by simp [actsOf])
  have hpk := h.pcok t
  rw [hpc] at hpk
  simp only [pcOK] at hpk
  simp only [setPc, touch_eq hf] at hw ⊢
  inv_auto h

theorem inv_peek_pending (h : Inv c s) (p : List Act) (hpc : s.pc t = Pc.hRun (Act.peek :: p)) (hh : s.held t ≠ 0) :
    Inv c (setPc (touch s) t (Pc.hRun p)) := by
  obtain ⟨hr, hf⟩ := alive_of_held h hh
  rw [touch_eq hf]
  exact inv_skip h _ p hpc

theorem inv_await_ready (h : Inv c s) (k : WK) (p : List Act) (hpc : s.pc t = Pc.hRun (Act.await k :: p)) (hh : s.held t ≠ 0)
    (hk : k ≠ WK.peek) (ha : s.awaited t = false) (hs : s.slot = Slot.ready) :
    Inv c (setPc (touch (startAwait s t k)) t (Pc.hRead k p)) := by
  obtain ⟨hr, hf⟩ := alive_of_held h hh
  have hw : wacts c (setPc (touch (startAwait s t k)) t (Pc.hRead k p)) = wacts c s :=
    wacts_setPc c s _ t _ (by unfold startAwait; split <;> rfl) (by simp [hpc, actsOf]) (by simp [actsOf])
  have hpk := h.pcok t
  rw [hpc] at hpk
  simp only [pcOK] at hpk
  have hcl := not_awaited_clean h ha
  have hcon := h.aProg t
  rw [hpc] at hcon
  simp only [postCtor] at hcon
  cases k <;> simp only [startAwait, ownsCtx, setPc, addRef, touch] at hw ⊢ <;> simp at hw ⊢
  · inv_auto h
  · inv_auto h
  · inv_auto h
  · exact absurd rfl hk

theorem inv_await_pending (h : Inv c s) (k : WK) (p : List Act) (hpc : s.pc t = Pc.hRun (Act.await k :: p)) (hh : s.held t ≠ 0)
    (hk : k ≠ WK.peek) (ha : s.awaited t = false) :
    Inv c (setPc (touch (startAwait s t k)) t (Pc.hCas k Seen.null p)) := by
  obtain ⟨hr, hf⟩ := alive_of_held h hh
  have hw : wacts c (setPc (touch (startAwait s t k)) t (Pc.hCas k Seen.null p)) = wacts c s :=
    wacts_setPc c s _ t _ (by unfold startAwait; split <;> rfl) (by simp [hpc, actsOf]) (by simp [actsOf])
  have hpk := h.pcok t
  rw [hpc] at hpk
  simp only [pcOK] at hpk
  have hcl := not_awaited_clean h ha
  have hcon := h.aProg t
  rw [hpc] at hcon
  simp only [postCtor] at hcon
  cases k <;> simp only [startAwait, ownsCtx, setPc, addRef, touch] at hw ⊢ <;> simp at hw ⊢
  · inv_auto h
  · inv_auto h
  · inv_auto h
  · exact absurd rfl hk

/-! ## gates -/

theorem inv_gate_block (h : Inv c s) (hpc : s.pc t = Pc.hStart) : Inv c (setPc s t Pc.hGate) := by
  have hw : wacts c (setPc s t Pc.hGate) = wacts c s :=
    wacts_setPc c s _ t _ rfl (by simp [hpc, actsOf]) (by simp [actsOf])
  have hpk := h.pcok t
  rw [hpc] at hpk
  simp only [pcOK] at hpk
  simp only [setPc] at hw ⊢
  inv_auto h

theorem inv_gate_pass (h : Inv c s) (hpc : s.pc t = Pc.hStart ∨ s.pc t = Pc.hGate) (hc : s.constructed = true) :
    Inv c (setPc s t (Pc.hRun (c.prog t))) := by
  have hw : wacts c (setPc s t (Pc.hRun (c.prog t))) = wacts c s :=
    wacts_setPc c s _ t _ rfl (by rcases hpc with h1 | h1 <;> simp [h1, actsOf]) (by simp [actsOf])
  have hpk := h.pcok t
  have hpk' : kindOf c t = Kind.handle ∧ t < c.n := by
    rcases hpc with h1 | h1 <;> (rw [h1] at hpk; exact hpk)
  simp only [setPc] at hw ⊢
  inv_auto h

theorem inv_r_block (h : Inv c s) (hpc : s.pc t = Pc.rStart) : Inv c (setPc s t Pc.rGate) := by
  have hw : wacts c (setPc s t Pc.rGate) = wacts c s :=
    wacts_setPc c s _ t _ rfl (by simp [hpc, actsOf]) (by simp [actsOf])
  have hpk := h.pcok t
  rw [hpc] at hpk
  simp only [pcOK] at hpk
  simp only [setPc] at hw ⊢
  inv_auto h

theorem inv_r_claim (h : Inv c s) (hpc : s.pc t = Pc.rStart ∨ s.pc t = Pc.rGate) (hp : s.published = true) :
    Inv c { setPc s t Pc.rResolve with owner := false } := by
  have hw : wacts c { setPc s t Pc.rResolve with owner := false } = wacts c s :=
    wacts_setPc c s _ t _ rfl (by rcases hpc with h1 | h1 <;> simp [h1, actsOf]) (by simp [actsOf])
  have hpk := h.pcok t
  have hpk' : kindOf c t = Kind.res ∧ t < c.n := by
    rcases hpc with h1 | h1 <;> (rw [h1] at hpk; exact hpk)
  simp only [setPc] at hw ⊢
  inv_auto h

end Cocls.SharedFuture
