import CoclsModel.Clock
import CoclsModel.Mutex

/-
Happens-before machine for C03, part 2: the happens-before instrumentation of `Clock.lean` put UNDER the whole coroutine
mutex protocol of `mutex.h` (lock by `ready()` CAS, lock by subscribe-found-null + `build_queue` exchange, hand-over through
the owner-private `_queue`, `unlock` fast path CAS and slow path exchange, blocking waiters woken through their `flag`).

Architecture: a state is a pair (`St.m`, clocks).  `St.m : Mutex.State` is the state of the list-level micro-step model
`Mutex.lean` and it is advanced by `Mutex.agentStep` ITSELF (so "erasing the clocks gives a run of `Mutex.lean` on the same
schedule" holds by construction: `MutexClockProofs.run_erase`; and through `MutexPtrProofs.agentStep_sim` of the pointer-level
model as well).  The clock part is advanced by `instr`, which looks at the pre-state `s.m` exactly the way `Mutex.agentStep`
branches (same pc, same tests on `req`/`queue`/`flag`/flavour), and performs, in program order, every plain access and the one
synchronising operation of that micro-step:

  pc (Mutex.Pc)        plain accesses (checked by the FastTrack rule)                     synchronising operation
  top                  (co_await flavour, CAS failed: `set_handle` → W body[a])           `ready()` CAS: RMW `o.ready` on success, load `o.readyFail` on failure
  subInit              `sync_awaiter()` → W body[a]                                        —
  sub prev             `aw->_next = prev` → W next[a]                                      subscribe CAS: RMW `o.subOk` / load `o.subFail`
  build                —                                                                   `build_queue(self)` exchange: RMW `o.build`; detached nodes → `walk a`
  crit (critS)         the loop of a pending `build_queue` (`flush`), R+W data             —   (the critical section)
  afterCs (asg)        R `_queue`; empty: —; else the hand-over                            unlock CAS: RMW `o.unlockOk` / load `o.unlockFail`; or hand-over
  relBuild             —                                                                   `build_queue(doorman)` exchange: RMW `o.build`
  relHand              `flush`, then the hand-over                                         hand-over
  waitFlag / blocked   —                                                                   `flag.wait`: load `o.flagWait` of the stored `true` (a read of `false` acquires nothing)
  hand-over to b       R+W `_queue`, R+W next[b], R body[b] (`fn(first)`)                  co_await waiter: resume (see below); blocking waiter: `flag.store` `o.flagStore`
  `flush`              R `_queue` (the assertion); per detached node x: R+W next[x], W `_queue`

`build_queue`'s loop is the plain prefix of the caller's NEXT segment, as in `MutexPtr.lean` (`pend`/`flush`): at list level
`Mutex.agentStep` moves the detached nodes to `queue` together with the exchange; the accesses of the loop are performed by
`flush` when the owner runs next (`walk a` remembers which nodes).

Clocks.  `clk a` / `pacq a`: vector clock and pending-acquire clock of contender `a` (`Clock.VC`, `relVc`, `acqVc`, `tickIf`).
`rs`: the release-sequence clock of the modification-order-latest message of `_requests` (what an acquiring reader obtains).
Every operation on `_requests` outside assertions is an RMW or a failing strong/weak CAS (`c03_rmw_shapes`); an RMW reads the
latest message and — whatever its order and thread — continues every release sequence (`rs := relVc ord (…) ⊔ rs`); a failing
CAS is modelled as reading the latest message too (as `Mutex.lean` does for the value; since the main theorem asks nothing of the
failure orders this is the choice that makes the *necessity* witnesses strongest).  No plain store ever cuts the sequence, so
the message history of `Clock.lean` collapses to its last entry.  `fvc b`: the clock carried by the `true` stored into the
blocking waiter `b`'s `sync_awaiter::flag` (meaningful while `m.flag b`).  `pacq` is maintained but never consulted: there is
no acquire fence in the mutex protocol.

Non-atomic locations with FastTrack metadata (`Meta`: last-write epoch + read epochs since) and the sticky `raced`:
`data` (the protected datum, read and written in every critical section), `queue` (the member `_queue`), and per request node
(= per contender: the awaiter of `a`'s current request; reusing one location per contender over all its rounds is the
co_await case and is conservative for `sync_awaiter`s at different addresses) `next a` (`_next`) and `body a` (handle / resume fn).

Who runs a resumed coroutine.  `resume`: the continuation of a `co_await` waiter `b` runs on the OS thread of the releasing
agent `a` (`fn(first)` → `awt->resume()`): `clk b := clk b ⊔ clk a` (everything `a`'s thread did is sequenced before it; `b`'s own
earlier steps precede it because `a` read `body[b]`, an access the machine has just checked against `b`'s writes), then `a`
starts a new epoch and the two go on as SEPARATE clock threads.  That is the weaker assumption: which coroutine shares an OS
thread with which other one later on (inline resume, coroutine-mode queue, thread pool) is the executor's business (`threadStep`);
forgetting it only removes happens-before edges, so the machine reports at least the races of every executor.  A blocking waiter
keeps its own thread and learns of the hand-over only through `flag` (`o.flagStore` / `o.flagWait`).

NOT modelled: the ownership-object layer and the executor glue of `Mutex.lean` (they are carried along inside `St.m` but the
instrumentation ignores them; configurations are restricted to the three flavours try_lock / co_await / blocking lock, released
by `release()`), callback awaiters, weak-CAS spurious failures, the relaxed load inside `unlock`'s entry assertion, `notify_all`.
-/

namespace Cocls.MutexClock
open Cocls.Clock (VC upd relVc acqVc tickIf)
open Cocls.Mutex (Elem Seen Pc nodesOf seenOf)

/-! ### configurations -/

inductive Fl where
  | tryLock    -- `try_lock()`
  | coAwait    -- `co_await lock()`
  | blocking   -- `lock().wait()` (a `sync_awaiter` on the caller's stack)
  deriving DecidableEq, Repr, Inhabited

def Fl.toMutex : Fl → Mutex.Flavour
  | Fl.tryLock => Mutex.Flavour.try_
  | Fl.coAwait => Mutex.Flavour.co
  | Fl.blocking => Mutex.Flavour.lock

/-- `n` contenders; contender `a` runs the rounds `rounds a` (lock with the given flavour, critical section, unlock) -/
structure Cfg where
  n : Nat
  rounds : Nat → List Fl

def Cfg.toMutex (c : Cfg) : Mutex.Cfg :=
  { n := c.n, kind := fun _ => Mutex.AKind.coro,
    rounds := fun a => (c.rounds a).map (fun f => { fl := f.toMutex, rel := Mutex.Rel.x }) }

/-- the orders written in the source at the synchronising operations of the mutex protocol -/
structure MutexOrders where
  ready : Order        -- `ready()` CAS, success
  readyFail : Order    -- … failure
  subOk : Order        -- `subscribe` CAS, success
  subFail : Order      -- … failure
  build : Order        -- `build_queue` exchange
  unlockOk : Order     -- `unlock` CAS, success
  unlockFail : Order   -- … failure
  flagStore : Order    -- `sync_awaiter::wakeup` store
  flagWait : Order     -- `flag.wait(false)`
  deriving DecidableEq, Repr, Inhabited

/-! ### state -/

/-- FastTrack metadata of one non-atomic location -/
structure Meta where
  wr : Nat × Nat := (0, 0)
  rd : List (Nat × Nat) := []

def Meta.okR (m : Meta) (c : VC) : Bool := decide (m.wr.2 ≤ c m.wr.1)
def Meta.okW (m : Meta) (c : VC) : Bool := decide (m.wr.2 ≤ c m.wr.1) && m.rd.all (fun e => decide (e.2 ≤ c e.1))
def Meta.read (m : Meta) (t : Nat) (c : VC) : Meta := { m with rd := (t, c t) :: m.rd }
def Meta.write (t : Nat) (c : VC) : Meta := ⟨(t, c t), []⟩

structure St where
  m : Mutex.State
  clk : Nat → VC
  pacq : Nat → VC
  rs : VC
  fvc : Nat → VC
  data : Meta
  queue : Meta
  next : Nat → Meta
  body : Nat → Meta
  walk : Nat → Option (List Nat)
  raced : Bool

def St.init (c : Cfg) : St :=
  { m := Mutex.init c.toMutex, clk := VC.init, pacq := fun _ => VC.bot, rs := VC.bot, fvc := fun _ => VC.bot,
    data := {}, queue := {}, next := fun _ => {}, body := fun _ => {}, walk := fun _ => none, raced := false }

/-! ### atomic primitives -/

/-- successful CAS / exchange on `_requests` by `a` -/
def rmw (ord : Order) (s : St) (a : Nat) : St :=
  { s with
    clk := upd s.clk a (tickIf ord (acqVc ord (s.clk a) s.rs) a)
    pacq := upd s.pacq a (VC.join (s.pacq a) s.rs)
    rs := VC.join (relVc ord (acqVc ord (s.clk a) s.rs)) s.rs }

/-- failing CAS on `_requests` by `a`: a load with the failure order -/
def casFail (ord : Order) (s : St) (a : Nat) : St :=
  { s with
    clk := upd s.clk a (acqVc ord (s.clk a) s.rs)
    pacq := upd s.pacq a (VC.join (s.pacq a) s.rs) }

/-- `flag.store(true)` of waiter `b`'s `sync_awaiter` by `a` (a store heads a new release sequence) -/
def flagStore (ord : Order) (s : St) (a b : Nat) : St :=
  { s with
    fvc := upd s.fvc b (relVc ord (s.clk a))
    clk := upd s.clk a (tickIf ord (s.clk a) a) }

/-- `flag.wait(false)` of `a` returning: a load that read the stored `true` -/
def flagWait (ord : Order) (s : St) (a : Nat) : St :=
  { s with
    clk := upd s.clk a (acqVc ord (s.clk a) (s.fvc a))
    pacq := upd s.pacq a (VC.join (s.pacq a) (s.fvc a)) }

/-- `a` resumes the suspended coroutine `b` on its own thread: `b` continues with `a`'s clock, `a` starts a new epoch -/
def resume (s : St) (a b : Nat) : St :=
  { s with clk := upd (upd s.clk b (VC.join (s.clk b) (s.clk a))) a (VC.tick (s.clk a) a) }

/-! ### plain accesses -/

def wrData (s : St) (a : Nat) : St :=
  { s with data := Meta.write a (s.clk a), raced := s.raced || !s.data.okW (s.clk a) }
def rdQueue (s : St) (a : Nat) : St :=
  { s with queue := s.queue.read a (s.clk a), raced := s.raced || !s.queue.okR (s.clk a) }
def wrQueue (s : St) (a : Nat) : St :=
  { s with queue := Meta.write a (s.clk a), raced := s.raced || !s.queue.okW (s.clk a) }
def wrNext (s : St) (a x : Nat) : St :=
  { s with next := upd s.next x (Meta.write a (s.clk a)), raced := s.raced || !(s.next x).okW (s.clk a) }
def wrBody (s : St) (a x : Nat) : St :=
  { s with body := upd s.body x (Meta.write a (s.clk a)), raced := s.raced || !(s.body x).okW (s.clk a) }
def rdBody (s : St) (a x : Nat) : St :=
  { s with body := upd s.body x ((s.body x).read a (s.clk a)), raced := s.raced || !(s.body x).okR (s.clk a) }

/-- one iteration of `build_queue`'s loop on the detached node `x`: `req = x->_next; x->_next = _queue; _queue = x` -/
def walkNode (a : Nat) (s : St) (x : Nat) : St := wrQueue (wrNext s a x) a

/-- the part of `build_queue` after the exchange: the assertion on `_queue`, then the loop over the detached nodes -/
def flush (s : St) (a : Nat) : St :=
  match s.walk a with
  | none => s
  | some l => l.foldl (walkNode a) (rdQueue { s with walk := upd s.walk a none } a)

/-! ### instrumentation, one definition per pc -/

/-- `ready()`; a co_await contender whose CAS failed goes on to `await_suspend`: `set_handle` -/
def iTop (o : MutexOrders) (c : Mutex.Cfg) (s : St) (a : Nat) : St :=
  match Mutex.curRound c s.m a with
  | none => s
  | some r =>
    match s.m.req with
    | [] => rmw o.ready s a
    | _ :: _ =>
      match r.fl with
      | Mutex.Flavour.co => wrBody (casFail o.readyFail s a) a a
      | _ => casFail o.readyFail s a

/-- the `sync_awaiter` of a blocking lock is constructed -/
def iSubInit (s : St) (a : Nat) : St := wrBody s a a

/-- `aw->_next = prev; CAS(prev, aw)` -/
def iSub (o : MutexOrders) (s : St) (a : Nat) (prev : Seen) : St :=
  if seenOf s.m.req = prev then rmw o.subOk (wrNext s a a) a else casFail o.subFail (wrNext s a a) a

/-- `build_queue(self)`: the exchange; everything above the own node is detached -/
def iBuild (o : MutexOrders) (s : St) (a : Nat) : St :=
  { rmw o.build s a with walk := upd s.walk a (some ((nodesOf s.m.req).filter (· ≠ a))) }

/-- `flag.wait(false)`: returns once the stored `true` is read -/
def iWait (o : MutexOrders) (s : St) (a : Nat) : St :=
  if s.m.flag a then flagWait o.flagWait s a else s

/-- the critical section (after the loop of a `build_queue(self)` that is still pending) -/
def iCrit (s : St) (a : Nat) : St := wrData (flush s a) a

/-- `first = _queue; _queue = _queue->_next; first->_next = nullptr; fn(first)` -/
def iHand (o : MutexOrders) (c : Mutex.Cfg) (s : St) (a : Nat) : St :=
  match s.m.queue with
  | [] => s
  | b :: _ =>
    match Mutex.flOf c s.m b with
    | some Mutex.Flavour.co => resume (rdBody (wrNext (wrQueue s a) a b) a b) a b
    | _ => flagStore o.flagStore (rdBody (wrNext (wrQueue s a) a b) a b) a b

/-- `unlock`: `if (!_queue) { CAS doorman → nullptr … }`, else the hand-over (the ownership object is armed here: `Mutex.Inv.heldA`) -/
def iUnlock (o : MutexOrders) (c : Mutex.Cfg) (s : St) (a : Nat) : St :=
  match s.m.queue with
  | [] => if s.m.req = [Elem.door] then rmw o.unlockOk (rdQueue s a) a else casFail o.unlockFail (rdQueue s a) a
  | _ :: _ => iHand o c (rdQueue s a) a

/-- `build_queue(doorman)`: the exchange -/
def iRelBuild (o : MutexOrders) (s : St) (a : Nat) : St :=
  { rmw o.build s a with walk := upd s.walk a (some (nodesOf s.m.req)) }

/-- the loop of `build_queue(doorman)`, then the hand-over -/
def iRelHand (o : MutexOrders) (c : Mutex.Cfg) (s : St) (a : Nat) : St := iHand o c (flush s a) a

def instr (o : MutexOrders) (c : Mutex.Cfg) (s : St) (a : Nat) : St :=
  match s.m.pc a with
  | Pc.top => iTop o c s a
  | Pc.subInit => iSubInit s a
  | Pc.sub prev => iSub o s a prev
  | Pc.build => iBuild o s a
  | Pc.waitFlag => iWait o s a
  | Pc.blocked => iWait o s a
  | Pc.crit => iCrit s a
  | Pc.critS => iCrit s a          -- (callback awaiters only: not reachable with our configurations; mirrors `Mutex.agentStep`)
  | Pc.afterCs => iUnlock o c s a
  | Pc.asg => iUnlock o c s a      -- (hand-over-hand release only: not reachable with our configurations)
  | Pc.relBuild => iRelBuild o s a
  | Pc.relHand => iRelHand o c s a
  | _ => s

/-- the code of contender `a` may run now (`MutexProofs.canRun`): a parked coroutine runs again only after a hand-over, a
thread blocked in `flag.wait` only once its flag is set, a finished contender has no code left -/
def runnable (m : Mutex.State) (a : Nat) : Bool :=
  match m.pc a with
  | Pc.parked | Pc.done => false
  | Pc.blocked => m.flag a
  | _ => true

/-- one schedule entry: contender `a` runs its next micro-step (a contender that cannot run stutters).  The protocol state is
advanced by `Mutex.agentStep` itself (the OS thread argument only labels events and feeds the executor glue). -/
def step (o : MutexOrders) (c : Cfg) (s : St) (a : Nat) : St :=
  if runnable s.m a then { instr o c.toMutex s a with m := (Mutex.agentStep c.toMutex s.m a a).1 } else s

def run (o : MutexOrders) (c : Cfg) (sched : List Nat) : St := sched.foldl (step o c) (St.init c)

end Cocls.MutexClock
