/-
Model of the life cycle of `cocls::async<T>` (async.h) together with the part of `future<T>` / `promise<T>`
(future.h) and of the executor that decides *whether and how often* a coroutine body runs, who receives its
result and when its frame dies.

Coroutines are scripted (`List Act`); every instance `c : Nat` runs the script `prog c`.  One `Op.step c` executes one
micro-step of coroutine `c` (begin the body, one act, the ready-check / subscription of a `co_await`, the resumption
after a wake-up, or the whole `co_return`/`throw` → `final_awaiter` sequence).  The other operations are what normal
code does with an `async<T>` object (create, drop unstarted, `detach`, `start()`, `start(promise)`) and with the
promises of the `nExt` driver-owned futures (`set`, drop).  An operation list is therefore one *schedule* of a program on
any number of threads; theorems quantify over all programs, all `nExt` and all operation lists.

Futures: ids `< nExt` are driver-owned (`future<T>` + its `promise<T>`); ids `≥ nExt` are created by `start()`
(`future<T>` constructed from the coroutine) or by `co_await child` (`async::co_awaiter`, which *is* a `future<T>`
whose awaiter chain is preset to the calling coroutine).

Result types: `State.ctorExc` says for which `co_return` operands the construction of the result value (inside the bound
future, `future::set`) throws and what — any function; `resultOf` is what the coroutine then ends with.

Operations whose guard is false (e.g. `start` on an `async` object whose handle was already handed over — the code
asserts "There is no coroutine to start") are no-ops with `Res.bad`; the harness never issues them to the real code.
-/
namespace Cocls.Async

inductive Outcome where
  | val (v : Nat)
  | exc (c : Nat)
  | canceled            -- promise dropped: `await_canceled_exception`
  deriving DecidableEq, Repr, Inhabited

inductive Act where
  | compute
  | awaitFut (k : Nat) (caught : Bool)                    -- `co_await ext[k]`
  | awaitChild (j : Nat) (direct : Bool) (caught : Bool)  -- `co_await child` / `future f = child.start(); co_await f`
  | detachChild (j : Nat) (awaited : Bool)                -- `child.detach()` discarded / `co_await child.detach()`
  | dropChild (j : Nat)                                   -- child created and destroyed unstarted
  | throw (c : Nat)
  | ret (v : Nat) (copy : Bool := false)                  -- `co_return v` (result converted from the operand) / `co_return obj` (copied)
  deriving DecidableEq, Repr, Inhabited

inductive St where
  | absent                              -- coroutine function not called yet
  | unstarted                           -- frame exists, handle held by the `async<T>` object
  | scheduled                           -- handle handed over by `start_coro`, body not begun yet
  | running
  | wantAwait (f : Nat) (caught : Bool) -- running, next action is `co_await f`
  | awaiting (f : Nat) (caught : Bool)  -- suspended, subscribed to `f`
  | resumable (f : Nat) (caught : Bool) -- made ready by `f`'s resolution, not resumed yet
  | yielded                             -- suspended by `co_await suspend_point`, sits in the ready queue
  | done                                -- frame destroyed by `final_awaiter`
  | dropped                             -- frame destroyed by `~async` without ever being started
  deriving DecidableEq, Repr, Inhabited

structure Coro where
  st : St := St.absent
  pc : List Act := []
  bound : Option Nat := none           -- `async_promise::_future`
  acc : Nat := 0
  -- ghost
  allocs : Nat := 0
  bodyStarts : Nat := 0
  frameFrees : Nat := 0
  argDtors : Nat := 0
  localDtors : Nat := 0
  startsOk : Nat := 0                  -- successful start operations
  suspends : Nat := 0                  -- subscriptions to a future
  wakes : Nat := 0                     -- times its handle was taken from an awaiter chain
  outcome : Option Outcome := none     -- what the body produced
  deliveredTo : List Nat := []         -- futures the result was stored into
  saw : List (Nat × Outcome) := []     -- (future, outcome) of every completed `co_await`, newest first
  notifiedAtFree : Option Bool := none -- set when the frame is destroyed: was the bound party already notified (future resolved)?
  deriving Repr, Inhabited

structure Fut where
  claimed : Bool := false              -- promise claimed (`promise::_owner` exchanged to null) / no promise exists
  out : Option Outcome := none         -- `_state`/value
  ready : Bool := false                -- `_awaiter == &disabled`
  waiters : List Nat := []             -- the awaiter chain (coroutines)
  cb : Bool := false                   -- a completion callback (non-coroutine awaiter) sits on the chain
  -- ghost
  owner : Option Nat := none           -- coroutine that created it
  setBy : List (Option Nat) := []      -- who stored a value: `some c` coroutine, `none` the driver
  isOp : Bool := false                 -- result future of an "operation" object whose last owner is the coroutine's frame
  cbCalls : Nat := 0                   -- how often the completion callback was called
  deriving Repr, Inhabited

structure State where
  prog : Nat → List Act
  nExt : Nat
  /-- the result type: `ctorExc copy v = some e` when constructing the result value from the `co_return` operand `v`
  (converting constructor, or copy constructor when `copy`) throws `e`; `fun _ _ => none` for `int`, `void`, references -/
  ctorExc : Bool → Nat → Option Nat := fun _ _ => none
  co : Nat → Coro
  fut : Nat → Fut
  nextFut : Nat

inductive Op where
  | create (c : Nat)
  | dropU (c : Nat)
  | detach (c : Nat)
  | start (c : Nat) (op : Bool := false)   -- `op`: bound to the result future of an operation object owned by the frame
  | startP (c k : Nat)
  | setF (k : Nat) (o : Outcome)
  | dropP (k : Nat)
  | step (c : Nat)
  deriving DecidableEq, Repr

inductive Res where
  | unit
  | fut (f : Nat)
  | flag (b : Bool)
  | bad
  deriving DecidableEq, Repr

def upd {α : Type} (m : Nat → α) (i : Nat) (v : α) : Nat → α := fun j => if j = i then v else m j

def init (prog : Nat → List Act) (nExt : Nat) (ctorExc : Bool → Nat → Option Nat := fun _ _ => none) : State :=
  { prog := prog, nExt := nExt, ctorExc := ctorExc, co := fun _ => {}, fut := fun _ => {}, nextFut := nExt }

def setCo (s : State) (c : Nat) (x : Coro) : State := { s with co := upd s.co c x }
def setFut (s : State) (f : Nat) (x : Fut) : State := { s with fut := upd s.fut f x }

/-- the coroutine function is called: frame allocated, arguments moved in, `initial_suspend` = always -/
def create (s : State) (c : Nat) : State :=
  setCo s c { s.co c with st := St.unstarted, pc := s.prog c, allocs := (s.co c).allocs + 1 }

/-- `~async` with a non-null handle: `_h.destroy()` -/
def dropU (s : State) (c : Nat) : State :=
  setCo s c { s.co c with st := St.dropped, frameFrees := (s.co c).frameFrees + 1, argDtors := (s.co c).argDtors + 1 }

/-- `start_coro`: the handle leaves the `async` object -/
def startCoro (s : State) (c : Nat) (b : Option Nat) : State :=
  setCo s c { s.co c with st := St.scheduled, bound := b, startsOk := (s.co c).startsOk + 1 }

/-- a `future<T>` constructed with a claimed promise (`start()`) or as `co_awaiter` (chain preset to the caller) -/
def newFut (s : State) (owner : Option Nat) (waiters : List Nat) (op : Bool := false) : State :=
  { setFut s s.nextFut { claimed := true, owner := owner, waiters := waiters, cb := op, isOp := op } with
    nextFut := s.nextFut + 1 }

def wakeOne (x : Coro) (n : Nat) : Coro :=
  { x with st := (match x.st with
                  | St.awaiting f ct => if n = 0 then St.awaiting f ct else St.resumable f ct
                  | o => o),
           wakes := x.wakes + n }

/-- `future::resolve()`: exchange the chain for `disabled`, walk it, every awaiter's handle becomes ready,
a completion callback on the chain is called (inline, by the resolving thread) -/
def resolve (s : State) (f : Nat) : State :=
  { s with co := fun c => wakeOne (s.co c) ((s.fut f).waiters.count c),
           fut := upd s.fut f { s.fut f with
             ready := true, waiters := [], cb := false,
             cbCalls := (s.fut f).cbCalls + (if (s.fut f).cb then 1 else 0) } }

/-- the result is stored into the bound future, then `final_awaiter` resolves it -/
def deliver (s : State) (c f : Nat) (o : Outcome) : State :=
  resolve (setFut s f { s.fut f with out := some o, setBy := some c :: (s.fut f).setBy }) f

/-- locals destroyed, frame destroyed (`me.destroy()` in `final_awaiter`); `rdy` records whether the bound party had
been notified at that moment (the arguments of the frame may be the last owner of the bound future) -/
def retire (s : State) (c : Nat) (o : Outcome) (to : List Nat) (rdy : Bool) : State :=
  setCo s c { s.co c with st := St.done, outcome := some o, localDtors := (s.co c).localDtors + 1,
                          deliveredTo := to ++ (s.co c).deliveredTo, notifiedAtFree := some rdy,
                          frameFrees := (s.co c).frameFrees + 1, argDtors := (s.co c).argDtors + 1 }

/-- `co_return` / `unhandled_exception` then `final_awaiter`: store the result into the bound future (if any),
destroy locals, resolve the future, *then* destroy the frame (`final_awaiter::await_suspend`: `f->resolve()` precedes
`me.destroy()`) -/
def finish (s : State) (c : Nat) (o : Outcome) : State :=
  match (s.co c).bound with
  | none => retire s c o [] true
  | some f => retire (deliver s c f o) c o [f] ((deliver s c f o).fut f).ready

/-- the seeded variant "release the frame first": the frame dies before `resolve()`; when the frame's arguments are the last
owner of the bound future (`isOp`), the future dies pending with them and its callback is never called -/
def finishDestroyFirst (s : State) (c : Nat) (o : Outcome) : State :=
  match (s.co c).bound with
  | none => retire s c o [] true
  | some f =>
      if (s.fut f).isOp then retire s c o [f] (s.fut f).ready
      else deliver (retire s c o [f] (s.fut f).ready) c f o

/-- the seeded variant "`_resolved` flag taken before `set()`" of `async_promise::resolve` / `unhandled_exception` (each does
`if (_future && !std::exchange(_resolved, true)) _future->set(...)`): when the construction of the result throws inside
`set()`, the flag is already taken, `unhandled_exception()` stores nothing and `final_awaiter` resolves the bound future
without a value — the bound party sees `await_canceled_exception` instead of the exception the coroutine ended with -/
def finishFlagFirst (s : State) (c : Nat) (cp : Bool) (v : Nat) : State :=
  match (s.co c).bound with
  | none => retire s c (Outcome.val v) [] true
  | some f =>
      match s.ctorExc cp v with
      | none => finish s c (Outcome.val v)
      | some e => retire (resolve s f) c (Outcome.exc e) [] true

/-- `await_resume` on a ready future -/
def consume (s : State) (c f : Nat) (caught : Bool) : State :=
  match ((s.fut f).out).getD Outcome.canceled with
  | Outcome.val v =>
      setCo s c { s.co c with st := St.running, acc := (s.co c).acc + v, saw := (f, Outcome.val v) :: (s.co c).saw }
  | o => if caught then setCo s c { s.co c with st := St.running, saw := (f, o) :: (s.co c).saw }
         else finish s c o

/-- the awaiter of `c` is pushed on `f`'s chain and `c` suspends (`co_awaiter::await_suspend` →
`subscribe_check_ready`; for `async::co_awaiter` the chain of the fresh future is preset to the caller) -/
def subscribe (s : State) (c f : Nat) (ct : Bool) : State :=
  setCo (setFut s f { s.fut f with waiters := c :: (s.fut f).waiters }) c
    { s.co c with st := St.awaiting f ct, suspends := (s.co c).suspends + 1 }

/-- child `j` is created and started bound to a fresh future owned by `c` -/
def spawnBound (s : State) (c j : Nat) : State :=
  startCoro (newFut (create s j) (some c) []) j (some s.nextFut)

def setSt (s : State) (c : Nat) (st : St) : State := setCo s c { s.co c with st := st }

/-- what `co_return v` produces (`coro_unified_return::return_value` → `async_promise::resolve` → `future::set`):
a detached coroutine (`_future == nullptr`) constructs nothing, so nothing can throw; a bound one constructs the result value
*inside the bound future* (`new(&_value) value_type(std::forward<Args>(args)...)`) — when that constructor throws, `_state`
is still `not_value`, the exception leaves `return_value`, unwinds the body and reaches `unhandled_exception()`, which stores
it into the same future: the outcome of the coroutine is then that exception -/
def resultOf (cx : Bool → Nat → Option Nat) (bound : Option Nat) (copy : Bool) (v : Nat) : Outcome :=
  match bound with
  | none => Outcome.val v
  | some _ => match cx copy v with
              | none => Outcome.val v
              | some e => Outcome.exc e

def execAct (s : State) (c : Nat) (a : Act) : State :=
  match a with
  | Act.compute => s
  | Act.awaitFut k ct =>
      if k < s.nExt then setSt s c (St.wantAwait k ct) else s
  | Act.awaitChild j direct ct =>
      if (s.co j).st = St.absent ∧ j ≠ c then
        if direct then subscribe (spawnBound s c j) c s.nextFut ct
        else setSt (spawnBound s c j) c (St.wantAwait s.nextFut ct)
      else s
  | Act.detachChild j awaited =>
      if (s.co j).st = St.absent ∧ j ≠ c then
        if awaited then setSt (startCoro (create s j) j none) c St.yielded else startCoro (create s j) j none
      else s
  | Act.dropChild j =>
      if (s.co j).st = St.absent ∧ j ≠ c then dropU (create s j) j else s
  | Act.throw e => finish s c (Outcome.exc e)
  | Act.ret v cp => finish s c (resultOf s.ctorExc (s.co c).bound cp (v + (s.co c).acc))

/-- one micro-step of coroutine `c` -/
def stepCo (s : State) (c : Nat) : State × Res :=
  match (s.co c).st with
  | St.scheduled => (setCo s c { s.co c with st := St.running, bodyStarts := (s.co c).bodyStarts + 1 }, Res.unit)
  | St.yielded => (setSt s c St.running, Res.unit)
  | St.resumable f ct => (consume s c f ct, Res.unit)
  | St.wantAwait f ct =>
      if (s.fut f).ready then (consume s c f ct, Res.unit) else (subscribe s c f ct, Res.unit)
  | St.running =>
      match (s.co c).pc with
      | [] => (finish s c (resultOf s.ctorExc (s.co c).bound false (s.co c).acc), Res.unit)
      | a :: rest => (execAct (setCo s c { s.co c with pc := rest }) c a, Res.unit)
  | _ => (s, Res.bad)

/-- `promise(value)` / `promise(exception_ptr)` by the driver: claim, set, resolve -/
def setF (s : State) (k : Nat) (o : Outcome) : State × Res :=
  if k < s.nExt then
    if (s.fut k).claimed then (s, Res.flag false)
    else (resolve (setFut s k { s.fut k with claimed := true, out := some o, setBy := none :: (s.fut k).setBy }) k,
          Res.flag true)
  else (s, Res.bad)

/-- `~promise` by the driver: resolve without a value -/
def dropP (s : State) (k : Nat) : State × Res :=
  if k < s.nExt then
    if (s.fut k).claimed then (s, Res.flag false)
    else (resolve (setFut s k { s.fut k with claimed := true }) k, Res.flag true)
  else (s, Res.bad)

def step (s : State) (op : Op) : State × Res :=
  match op with
  | Op.create c => if (s.co c).st = St.absent then (create s c, Res.unit) else (s, Res.bad)
  | Op.dropU c => if (s.co c).st = St.unstarted then (dropU s c, Res.unit) else (s, Res.bad)
  | Op.detach c => if (s.co c).st = St.unstarted then (startCoro s c none, Res.unit) else (s, Res.bad)
  | Op.start c op =>
      if (s.co c).st = St.unstarted then (startCoro (newFut s none [] op) c (some s.nextFut), Res.fut s.nextFut)
      else (s, Res.bad)
  | Op.startP c k =>
      if (s.co c).st = St.unstarted ∧ k < s.nExt then
        if (s.fut k).claimed then
          -- `promise._future = p.claim()` stores null, the coroutine stays in the `async` object
          (setCo s c { s.co c with bound := none }, Res.flag false)
        else (startCoro (setFut s k { s.fut k with claimed := true }) c (some k), Res.flag true)
      else (s, Res.bad)
  | Op.setF k o => setF s k o
  | Op.dropP k => dropP s k
  | Op.step c => stepCo s c

def run (s : State) (ops : List Op) : State := ops.foldl (fun s op => (step s op).1) s

end Cocls.Async
