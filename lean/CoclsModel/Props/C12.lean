import CoclsModel.SchedulerProofs
import CoclsModel.SchedulerHeap
/-!
# C12 — scheduler: never early, in deadline order, cancel hits exactly its target

Model: `CoclsModel/Scheduler.lean` (one step per lock region of `cocls::scheduler`; the vector `_scheduled` in array
order with cancelled entries left in place; worker iterations as `poll`/`wake`).  Every theorem quantifies over

* every heap implementation `H` that meets the contract of `std::push_heap`/`std::pop_heap` (`HeapSpec H`) — hence every
  tie-break among equal deadlines and every choice among equal identifiers; `c12_stdHeap_spec` proves the contract for the
  transcription of libstdc++'s algorithms that the driver runs against the real header;
* every operation list (`Reachable`): any history of schedule / get_expired / remove / cancel / destroy / worker
  iterations of any number of workers, with arbitrary (equal, past) time points and identifiers.  Every public method is
  one lock region, so an interleaving of threads is an operation list.

Below that level three things are modelled as programs over the scheduler mutex: `interval()`'s stop callback and the
worker's loop body (`workerIter`: which part of an iteration runs under `_mx` and which does not — the promise is resolved
with `_mx` released, so an awaiter that is a callback may call the scheduler again) as lock programs (`runProg`), and the
stop handshake between `~scheduler()` and the worker as a micro-step model (`Stop.*`, every interleaving).  Five defects
of the pinned code are kept as witnesses on as-is variants (`c12_asis_*`).
-/
namespace Cocls.Sched

/-- every reachable state -/
def Reachable (H : Heap) (s : State) : Prop := ∃ ops, s = run H init ops

theorem reachable_inv {H : Heap} (hH : HeapSpec H) {s : State} (h : Reachable H s) : Inv s := by
  obtain ⟨ops, rfl⟩ := h
  exact inv_run hH ops inv_init

/-- The transcription of libstdc++'s `__push_heap`/`__adjust_heap` used by the driver meets the contract the theorems
assume: results are permutations and heaps. -/
theorem c12_stdHeap_spec : HeapSpec stdHeap := stdHeap_spec

/-! ## never early -/

/-- Whatever `get_expired(now)` hands out (manual mode) and whatever a worker resolves at clock reading `now` is a live
entry whose time point is `≤ now` — for *any* heap implementation, correct or not, and any state. -/
theorem c12_never_early_step (H : Heap) (s : State) (now : Nat) (e : Entry) :
    ((step H s (Op.getExpired now)).2 = Res.expired e → e.tp ≤ now ∧ e.alive = true) ∧
    (∀ w, (step H s (Op.poll w now)).2 = Res.expired e → e.tp ≤ now ∧ e.alive = true) := by
  have key : ∀ n h, ∀ e, (popLoop H (dueOrDead now) n h).2 = some e → e.tp ≤ now ∧ e.alive = true := by
    intro n
    induction n with
    | zero => intro h e he; simp [popLoop] at he
    | succ n ih =>
      intro h e he
      cases h with
      | nil => simp [popLoop] at he
      | cons x xs =>
        by_cases hc : dueOrDead now x = true
        · by_cases ha : x.alive = true
          · simp [popLoop, hc, ha] at he; subst he
            simp [dueOrDead, ha] at hc
            exact ⟨hc, ha⟩
          · simp only [popLoop, hc, ha, if_true] at he
            exact ih _ e he
        · simp [popLoop, hc] at he
  unfold step
  by_cases hal : s.alive = true
  · simp only [hal, if_true]
    constructor
    · intro h
      unfold stepGetExpired at h
      cases hr : getExpiredLk H s.heap now with
      | mk h' r =>
        rw [hr] at h
        cases r with
        | none => simp at h
        | some e' => simp at h; subst h; exact key _ _ _ (by unfold getExpiredLk at hr; rw [hr])
    · intro w h
      unfold stepPoll at h
      cases hr : getExpiredLk H s.heap now with
      | mk h' r =>
        rw [hr] at h
        cases r with
        | none => simp at h
        | some e' => simp at h; subst h; exact key _ _ _ (by unfold getExpiredLk at hr; rw [hr])
  · simp [hal]

/-- History form: in every reachable state, every sleep that completed by expiry did so at a clock reading that was not
before its time point. -/
theorem c12_never_early {H : Heap} (hH : HeapSpec H) {s : State} (h : Reachable H s) :
    ∀ d ∈ s.log, ∀ now, d.fate = Fate.expired now → d.tp ≤ now :=
  (reachable_inv hH h).not_early

/-! ## deadline order -/

/-- The entry handed out by `get_expired` / resolved by a worker has the smallest time point of all sleeps pending at
that moment (equal time points: any of them). -/
theorem c12_deadline_order_step {H : Heap} (hH : HeapSpec H) {s : State} (h : Reachable H s) (now : Nat) (e : Entry) :
    ((step H s (Op.getExpired now)).2 = Res.expired e → ∀ y ∈ s.heap, y.alive = true → e.tp ≤ y.tp) ∧
    (∀ w, (step H s (Op.poll w now)).2 = Res.expired e → ∀ y ∈ s.heap, y.alive = true → e.tp ≤ y.tp) := by
  have hi := reachable_inv hH h
  obtain ⟨_, t2, _, _⟩ := getExpiredLk_spec hH now hi.heap_ok
  unfold step
  by_cases hal : s.alive = true
  · simp only [hal, if_true]
    constructor
    · intro h
      unfold stepGetExpired at h
      cases hr : getExpiredLk H s.heap now with
      | mk h' r =>
        rw [hr] at h t2
        cases r with
        | none => simp at h
        | some e' => simp at h; subst h; exact (t2 e' rfl).2
    · intro w h
      unfold stepPoll at h
      cases hr : getExpiredLk H s.heap now with
      | mk h' r =>
        rw [hr] at h t2
        cases r with
        | none => simp at h
        | some e' => simp at h; subst h; exact (t2 e' rfl).2
  · simp [hal]

/-- History form: if `x` expired before `y` did and `y` was already scheduled when `x` expired (`y.serial < x.stamp`, so
both were pending together), then `x`'s time point is not later than `y`'s — sleepers complete in time-point order,
for every sequence of `now` values and every interleaving with cancels and new sleeps. -/
theorem c12_deadline_order {H : Heap} (hH : HeapSpec H) {s : State} (h : Reachable H s) :
    s.log.Pairwise (fun x y => x.isExpired = true → y.isExpired = true → y.serial < x.stamp → x.tp ≤ y.tp) :=
  (reachable_inv hH h).ord_log

/-- … and not later than anything that was pending then and is still pending now. -/
theorem c12_deadline_order_pending {H : Heap} (hH : HeapSpec H) {s : State} (h : Reachable H s) :
    ∀ d ∈ s.log, d.isExpired = true → ∀ y ∈ s.heap, y.alive = true → y.serial < d.stamp → d.tp ≤ y.tp :=
  (reachable_inv hH h).ord_heap

/-! ## exactly once -/

/-- Every sleep ever scheduled is, at any time, either still pending in the vector (exactly one live entry) or has
completed exactly once (expiry xor cancel xor remove xor destruction); never both, never twice, never lost. -/
theorem c12_once {H : Heap} (hH : HeapSpec H) {s : State} (h : Reachable H s) (i : Nat) :
    (aliveSerials s.heap).count i + (s.log.map (·.serial)).count i = if i < s.nextSerial then 1 else 0 :=
  (reachable_inv hH h).once i

/-- A sleep never completes inside `schedule()`/`sleep_until()` itself (not even with a time point in the past): after
the call it is pending, exactly once, and nothing else completed. -/
theorem c12_schedule_pending {H : Heap} (hH : HeapSpec H) {s : State} (h : Reachable H s) (hal : s.alive = true)
    (tp id : Nat) :
    (stepSchedule H s tp id).1.log = s.log ∧
    (aliveSerials (stepSchedule H s tp id).1.heap).count s.nextSerial = 1 := by
  have hi := reachable_inv hH h
  have h1 := (inv_schedule hH hi hal tp id).once s.nextSerial
  have h0 := hi.once s.nextSerial
  have hlog : (stepSchedule H s tp id).1.log = s.log := rfl
  have hn : (stepSchedule H s tp id).1.nextSerial = s.nextSerial + 1 := rfl
  rw [hlog, hn] at h1
  simp only [Nat.lt_irrefl, if_false] at h0
  simp only [Nat.lt_succ_self, if_true] at h1
  exact ⟨rfl, by omega⟩

/-! ## not late -/

/-- `get_expired(now)` answers with a time point only when no pending sleep is due, and the time point is exactly the
earliest pending deadline (`none` = `time_point::max()` only when nothing is pending): nothing that is due is withheld. -/
theorem c12_nothing_due_withheld {H : Heap} (hH : HeapSpec H) {s : State} (h : Reachable H s) (now : Nat)
    (t : Option Nat) (hr : (step H s (Op.getExpired now)).2 = Res.next t) :
    (∀ y ∈ s.heap, y.alive = true → ∃ t', t = some t' ∧ now < t' ∧ t' ≤ y.tp) ∧
    (∀ t', t = some t' → ∃ y ∈ s.heap, y.alive = true ∧ y.tp = t') := by
  have hi := reachable_inv hH h
  obtain ⟨_, _, t3, t4⟩ := getExpiredLk_spec hH now hi.heap_ok
  unfold step at hr
  by_cases hal : s.alive = true
  · simp only [hal, if_true] at hr
    unfold stepGetExpired at hr
    cases hg : getExpiredLk H s.heap now with
    | mk h' r =>
      rw [hg] at hr t3 t4
      cases r with
      | some e => simp at hr
      | none =>
        simp at hr; subst hr
        exact ⟨t3 rfl, fun t' ht => t4 t' rfl ht⟩
  · simp [hal] at hr

/-- A worker parked in `wait_until(d)` has `d ≤` the time point of every pending sleep, in every reachable state, for any
number of workers and whatever other threads did in between (`schedule` of an earlier time point notifies, see
`c12_schedule_notify`).  The steps are the code's lock regions: of a worker iteration the part that matters (`Op.poll`:
stop check, clock read, `get_expired_lk`, then `wait_until`, which releases `_mx` atomically — or `lk.unlock()` when a
promise was handed out) is ONE region; the resolution of the promise happens outside of it (`c12_worker_resolves_unlocked`)
and is followed by a region that only evaluates the loop condition.  So `Reachable` ranges over
every interleaving of public calls of other threads (and of callbacks run by the worker itself) with the worker's
iterations at exactly the granularity at which the real threads can interleave (the harness' `worker-lock-regions`
suite stalls the real worker in front of every
acquisition of `_mx` and runs public calls there).  `c12_asis_gap_stale_wait` shows that the statement fails as soon as
the mutex is dropped between computing the time point and `wait_until`.  Under virtual time an idle worker therefore wakes no later than the earliest deadline, and
`c12_nothing_due_withheld` + `c12_never_early_step` say that the iteration after the wake-up hands out exactly what is due. -/
theorem c12_worker_not_late {H : Heap} (hH : HeapSpec H) {s : State} (h : Reachable H s) :
    ∀ p ∈ s.waits, ∀ y ∈ s.heap, y.alive = true → waitOk p.2 y.tp :=
  fun p hp y hy _ => (reachable_inv hH h).waits_ok p hp y hy

/-- The statement of `c12_worker_not_late` is false for a worker whose iteration drops `_mx` between computing the time
point and `wait_until` (the seeded change "release `_mx` around `pool->any_enqueued()`"): `sleep(10)`; first half of the
iteration (remembers 10); another thread's `sleep(5)` falls into the gap — it finds nobody waiting to notify —; second
half: the worker parks until the stale 10 while a sleep until 5 is pending.  On an empty vector the stale deadline is
`time_point::max()`: the sleeper is never woken (replayed on that change: corpus/c12step_basic.txt, case 4). -/
theorem c12_asis_gap_stale_wait :
    let s1 := (stepPollGapA stdHeap (run stdHeap init [Op.schedule 10 1]) 0 0)
    let s3 := stepPollGapB (step stdHeap s1.1 (Op.schedule 5 2)).1 0 (some 10)
    let t1 := (stepPollGapA stdHeap init 0 0)
    let t3 := stepPollGapB (step stdHeap t1.1 (Op.schedule 5 2)).1 0 none
    (s1.2 = Res.next (some 10) ∧ s3.waits = [(0, some 10)] ∧ s3.heap.map (fun e => (e.tp, e.alive)) = [(5, true), (10, true)] ∧
      ¬ (∀ p ∈ s3.waits, ∀ y ∈ s3.heap, y.alive = true → waitOk p.2 y.tp)) ∧
    (t1.2 = Res.next none ∧ t3.waits = [(0, none)] ∧ t3.heap.map (fun e => (e.tp, e.alive)) = [(5, true)] ∧
      ¬ (∀ p ∈ t3.waits, ∀ y ∈ t3.heap, y.alive = true → waitOk p.2 y.tp)) := by
  refine ⟨⟨by decide, by decide, by decide, ?_⟩, ⟨by decide, by decide, by decide, ?_⟩⟩
  · intro h
    have := h (0, some 10) (by decide) { serial := 1, tp := 5, id := 2, alive := true } (by decide) rfl
    simp [waitOk] at this
  · intro h
    have := h (0, none) (by decide) { serial := 0, tp := 5, id := 2, alive := true } (by decide) rfl
    simp [waitOk] at this

/-- a worker that finds nothing due parks itself with exactly the earliest pending deadline -/
theorem c12_worker_waits_for_earliest {H : Heap} (hH : HeapSpec H) {s : State} (h : Reachable H s) (w now : Nat)
    (t : Option Nat) (hr : (step H s (Op.poll w now)).2 = Res.next t) :
    (w, t) ∈ (step H s (Op.poll w now)).1.waits ∧
    (∀ y ∈ s.heap, y.alive = true → ∃ t', t = some t' ∧ now < t' ∧ t' ≤ y.tp) ∧
    (∀ t', t = some t' → ∃ y ∈ s.heap, y.alive = true ∧ y.tp = t') := by
  have hi := reachable_inv hH h
  obtain ⟨_, _, t3, t4⟩ := getExpiredLk_spec hH now hi.heap_ok
  unfold step at hr ⊢
  by_cases hal : s.alive = true
  · simp only [hal, if_true] at hr ⊢
    unfold stepPoll at hr ⊢
    cases hg : getExpiredLk H s.heap now with
    | mk h' r =>
      rw [hg] at hr t3 t4
      cases r with
      | some e => simp at hr
      | none =>
        simp at hr; subst hr
        exact ⟨by simp, t3 rfl, fun t' ht => t4 t' rfl ht⟩
  · simp [hal] at hr

/-- `schedule()` wakes the parked workers exactly when the vector was empty or the new time point is earlier than the
current top; otherwise nobody is disturbed. -/
theorem c12_schedule_notify (H : Heap) (s : State) (tp id : Nat) :
    (stepSchedule H s tp id).2 = Res.scheduled s.nextSerial (decide (∀ x ∈ s.heap.head?, x.tp > tp)) ∧
    ((∀ x ∈ s.heap.head?, x.tp > tp) → (stepSchedule H s tp id).1.waits = []) ∧
    (¬ (∀ x ∈ s.heap.head?, x.tp > tp) → (stepSchedule H s tp id).1.waits = s.waits) := by
  unfold stepSchedule
  cases hh : s.heap with
  | nil => simp
  | cons x xs =>
    by_cases hgt : x.tp > tp <;> simp [hgt]

/-! ## the worker resolves with `_mx` released (fix db0b685) -/

/-- What the repair buys.  The worker's loop body (`workerIter`: `lk.lock()`, stop check, `get_expired_lk(now)`,
`lk.unlock()`, `x()`, `lk.lock()`, loop condition, `lk.unlock()`) always runs to its end on the worker's own thread, in
every state, at every clock reading, and whatever public calls `cb` — any number of `schedule()` / `sleep_until()` /
`cancel()` / `remove()` / `get_expired()` — the awaiter of the resolved promise makes from inside `x()` (a `make_promise`
callback re-arming its timer, a timeout handler cancelling another sleeper): the worker holds no lock while the promise
is resolved, so it cannot block on itself.  It ends with `_mx` released and its effect is exactly the operation list
`poll w now :: cb` (`afterIter`), to which every theorem of this file applies (`c12_worker_callback_reachable`). -/
theorem c12_worker_resolves_unlocked (H : Heap) (s : State) (w now : Nat) (cb : List Op) :
    ∃ m, runProg H (workerIter w now cb) { s := s } = some m ∧ m.owner = false ∧ m.got = none ∧
      m.s = afterIter H s w now cb := by
  unfold workerIter afterIter
  cases hr : step H s (Op.poll w now) with
  | mk s1 r =>
    cases r <;> simp [runProg, hr]

/-- … in particular `_mx` is free at the moment `x()` is entered: the prefix of the loop body up to the resolution ends
with the lock released, whatever `get_expired_lk` returned. -/
theorem c12_worker_unlocked_at_resolution (H : Heap) (s : State) (w now : Nat) :
    ∃ m, runProg H ((workerIter w now []).take 3) { s := s } = some m ∧ m.owner = false ∧
      m.s = (step H s (Op.poll w now)).1 := by
  cases hr : step H s (Op.poll w now) with
  | mk s1 r =>
    cases r <;> simp [workerIter, runProg, hr]

/-- The state after an iteration whose callback called the scheduler again is reachable, hence satisfies the invariant:
never early, deadline order, exactly once, no worker parked past a pending time point — also for the sleeps the
callback scheduled or cancelled. -/
theorem c12_worker_callback_reachable {H : Heap} {s : State} (h : Reachable H s) (w now : Nat) (cb : List Op) :
    Reachable H (afterIter H s w now cb) := by
  obtain ⟨ops, rfl⟩ := h
  unfold afterIter
  cases hr : step H (run H init ops) (Op.poll w now) with
  | mk s1 r =>
    have h1 : s1 = run H init (ops ++ [Op.poll w now]) := by
      simp [run, List.foldl_append] at hr ⊢
      rw [hr]
    cases r with
    | expired e => exact ⟨ops ++ [Op.poll w now] ++ cb, by simp only [h1, run, List.foldl_append]⟩
    | _ => exact ⟨ops ++ [Op.poll w now], h1⟩

/-- The loop body as it was (`x()` called with `_mx` held, /repo before db0b685) never returns as soon as a sleep is due
whose awaiter calls the scheduler again — in every state, for every such call: the worker blocks on the mutex it
owns.  (Replayed on the header: corpus/c12mt_callback_reenter.txt — the harness' mutex reports the relock by its owner.) -/
theorem c12_asis_worker_callback_deadlock (H : Heap) (s : State) (w now : Nat) (e : Entry) (op : Op) (cb : List Op)
    (hdue : (step H s (Op.poll w now)).2 = Res.expired e) :
    runProg H (workerIterAsIs w now (op :: cb)) { s := s } = none := by
  unfold workerIterAsIs
  cases hr : step H s (Op.poll w now) with
  | mk s1 r =>
    rw [hr] at hdue
    simp at hdue
    subst hdue
    simp [runProg, hr]

/-- the state of the witnesses below: a timer until 5 (identifier 1) and a sleeper until 8 (identifier 2) -/
def cbDemo : State := run stdHeap init [Op.schedule 5 1, Op.schedule 8 2]

/-- Concrete witness: at clock 5 the timer is due.  As it was, the worker hangs both when the timer's callback re-arms it
(`sleep_until(10, 1)`) and when it cancels the other sleeper (`cancel(2)`); repaired, the first leaves `8, 10` pending
and the second completes sleeper 1 (serial) with `await_canceled_exception`, both with `_mx` released at the end. -/
theorem c12_asis_worker_callback_deadlock_witness :
    (step stdHeap cbDemo (Op.poll 0 5)).2 = Res.expired { serial := 0, tp := 5, id := 1, alive := true } ∧
    (runProg stdHeap (workerIterAsIs 0 5 [Op.schedule 10 1]) { s := cbDemo }).isNone = true ∧
    (runProg stdHeap (workerIterAsIs 0 5 [Op.cancel 2 0]) { s := cbDemo }).isNone = true ∧
    (runProg stdHeap (workerIter 0 5 [Op.schedule 10 1]) { s := cbDemo }).map
        (fun m => (m.owner, m.s.heap.map (fun e => (e.tp, e.id, e.alive)), m.s.log.map (fun d => (d.serial, d.fate))))
      = some (false, [(8, 2, true), (10, 1, true)], [(0, Fate.expired 5)]) ∧
    (runProg stdHeap (workerIter 0 5 [Op.cancel 2 0]) { s := cbDemo }).map
        (fun m => (m.owner, m.s.heap.map (fun e => (e.tp, e.id, e.alive)), m.s.log.map (fun d => (d.serial, d.fate))))
      = some (false, [], [(0, Fate.expired 5), (1, Fate.cancelled 0)]) :=
  ⟨by decide, by decide, by decide, by decide, by decide⟩

/-- Why the pinned code's own tests never saw it: with awaiters that are coroutines (they are only made ready by `x()`,
`cb = []`) the old loop body terminates with the same effect as the repaired one. -/
theorem c12_asis_worker_ok_without_callback (H : Heap) (s : State) (w now : Nat) :
    ∃ m, runProg H (workerIterAsIs w now []) { s := s } = some m ∧ m.owner = false ∧
      m.s = afterIter H s w now [] := by
  unfold workerIterAsIs afterIter
  cases hr : step H s (Op.poll w now) with
  | mk s1 r =>
    cases r <;> simp [runProg, hr, run]

/-- What the hang meant for everybody else: a worker that stays in its lock region (`locked`: it owns `_mx` and never
gets to `lk.unlock()` / `wait_until`) keeps the stop callback of `~scheduler()` in front of the mutex for ever — whatever
the stopping thread does, `request_stop()` never completes, so `~scheduler()` never returns (and every other public
call, which starts with the same `lock_guard`, blocks the same way). -/
theorem c12_asis_stuck_worker_blocks_destruction (acts : List Stop.Act) (h : ∀ a ∈ acts, a.isStopper = true) :
    (Stop.run Stop.step { w := Stop.WPc.locked } acts).w = Stop.WPc.locked ∧
    ((Stop.run Stop.step { w := Stop.WPc.locked } acts).sp = Stop.SPc.start ∨
     (Stop.run Stop.step { w := Stop.WPc.locked } acts).sp = Stop.SPc.flagged) := by
  have key : ∀ (acts : List Stop.Act) (s : Stop.St), (∀ a ∈ acts, a.isStopper = true) → s.w = Stop.WPc.locked →
      (s.sp = Stop.SPc.start ∨ s.sp = Stop.SPc.flagged) →
      (Stop.run Stop.step s acts).w = Stop.WPc.locked ∧
      ((Stop.run Stop.step s acts).sp = Stop.SPc.start ∨ (Stop.run Stop.step s acts).sp = Stop.SPc.flagged) := by
    intro acts
    induction acts with
    | nil => intro s _ hw hs; exact ⟨hw, hs⟩
    | cons a acts ih =>
      intro s ha hw hs
      have ha' : ∀ b ∈ acts, b.isStopper = true := fun b hb => ha b (List.mem_cons_of_mem _ hb)
      have h0 := ha a List.mem_cons_self
      simp only [Stop.run, List.foldl_cons]
      obtain ⟨w, sp, flag⟩ := s
      simp only at hw hs
      subst hw
      cases a <;> simp [Stop.Act.isStopper] at h0 <;>
        rcases hs with hs | hs <;> subst hs <;>
        exact ih _ ha' (by simp [Stop.step]) (by simp [Stop.step])
  exact key acts _ h rfl (Or.inl rfl)

/-! ## cancel / remove -/

/-- what `remove`/`cancel` do to the set of pending sleeps when they hit entry `e` -/
def TookOne (s s' : State) (e : Entry) : Prop :=
  e ∈ s.heap ∧ e.alive = true ∧
  (∀ i, (aliveSerials s'.heap).count i + (if i = e.serial then 1 else 0) = (aliveSerials s.heap).count i) ∧
  (∀ y ∈ s.heap, y.alive = true → y ≠ e → y ∈ s'.heap) ∧
  s'.nextSerial = s.nextSerial ∧ s'.waits = s.waits ∧ s'.alive = s.alive

/-- what they do when they hit nothing -/
def TookNone (s s' : State) : Prop :=
  (∀ i, (aliveSerials s'.heap).count i = (aliveSerials s.heap).count i) ∧
  (∀ y ∈ s.heap, y.alive = true → y ∈ s'.heap) ∧ (∀ y ∈ s'.heap, y.alive = true → y ∈ s.heap) ∧
  s'.log = s.log ∧ s'.nextSerial = s.nextSerial ∧ s'.waits = s.waits ∧ s'.alive = s.alive

theorem c12_cancel_cases {H : Heap} (hH : HeapSpec H) {s : State} (hi : Inv s) (id exc : Nat) :
    (∃ e, (stepCancel H s id exc).2 = Res.flag true ∧ e.id = id ∧ TookOne s (stepCancel H s id exc).1 e ∧
          (stepCancel H s id exc).1.log = s.log ++ [mkDone e (Fate.cancelled exc) s.nextSerial]) ∨
    ((stepCancel H s id exc).2 = Res.flag false ∧ TookNone s (stepCancel H s id exc).1 ∧
          ∀ y ∈ s.heap, y.alive = true → y.id ≠ id) := by
  obtain ⟨t1, t2, t3⟩ := removeLk_spec hH id hi.heap_ok
  unfold stepCancel
  cases hr : removeLk H s.heap id with
  | mk h r =>
    rw [hr] at t1 t2 t3
    cases r with
    | some e =>
      left
      refine ⟨e, rfl, t2 e rfl, ⟨(t1.mem e rfl).1, (t1.mem e rfl).2, ?_, ?_, rfl, rfl, rfl⟩, rfl⟩
      · intro i; simpa [got] using t1.cnt i
      · intro y hy ha hne
        rcases t1.sup y hy ha with h' | h'
        · exact h'
        · simp at h'; exact absurd h'.symm hne
    | none =>
      right
      refine ⟨rfl, ⟨?_, ?_, t1.sub, rfl, rfl, rfl, rfl⟩, t3 rfl⟩
      · intro i; simpa [got] using t1.cnt i
      · intro y hy ha
        rcases t1.sup y hy ha with h' | h'
        · exact h'
        · cases h'

/-- `cancel(id, e)` reports true **iff** a pending sleep carries that identifier, and then exactly one such sleep — a
live entry with that identifier — completes, with the given exception (`exc = 0`: `await_canceled_exception`), and every
other pending sleep stays pending. -/
theorem c12_cancel_true {H : Heap} (hH : HeapSpec H) {s : State} (h : Reachable H s) (hal : s.alive = true)
    (id exc : Nat) :
    ((∃ y ∈ s.heap, y.alive = true ∧ y.id = id) ↔ (step H s (Op.cancel id exc)).2 = Res.flag true) ∧
    ((step H s (Op.cancel id exc)).2 = Res.flag true →
      ∃ e, e.id = id ∧ TookOne s (step H s (Op.cancel id exc)).1 e ∧
        (step H s (Op.cancel id exc)).1.log = s.log ++ [mkDone e (Fate.cancelled exc) s.nextSerial]) := by
  have hi := reachable_inv hH h
  unfold step
  simp only [hal, if_true]
  rcases c12_cancel_cases hH hi id exc with ⟨e, c1, c2, c3, c4⟩ | ⟨c1, c2, c3⟩
  · refine ⟨⟨fun _ => c1, fun _ => ⟨e, c3.1, c3.2.1, c2⟩⟩, fun _ => ⟨e, c2, c3, c4⟩⟩
  · refine ⟨⟨?_, ?_⟩, ?_⟩
    · rintro ⟨y, hy, ha, hid⟩; exact absurd hid (c3 y hy ha)
    · intro hc; rw [c1] at hc; cases hc
    · intro hc; rw [c1] at hc; cases hc

/-- `cancel(id)` with no pending sleep carrying that identifier — unknown id, repeated cancel, cancel after expiry —
reports false and changes nothing observable: same pending sleeps, same completions, same parked workers.  The step is
a total function whose loops are bounded by the vector's length: no crash, no hang. -/
theorem c12_cancel_false_noop {H : Heap} (hH : HeapSpec H) {s : State} (h : Reachable H s) (hal : s.alive = true)
    (id exc : Nat) (hno : ∀ y ∈ s.heap, y.alive = true → y.id ≠ id) :
    (step H s (Op.cancel id exc)).2 = Res.flag false ∧ TookNone s (step H s (Op.cancel id exc)).1 := by
  have hi := reachable_inv hH h
  unfold step
  simp only [hal, if_true]
  rcases c12_cancel_cases hH hi id exc with ⟨e, _, c2, c3, _⟩ | ⟨c1, c2, _⟩
  · exact absurd c2 (hno e c3.1 c3.2.1)
  · exact ⟨c1, c2⟩

/-- a second `cancel(id)` right after a successful one finds nothing unless another pending sleep carries the same
identifier: with distinct identifiers, repeated cancels report false -/
theorem c12_cancel_twice {H : Heap} (hH : HeapSpec H) {s : State} (h : Reachable H s) (hal : s.alive = true)
    (id exc exc' : Nat) (huniq : ∀ y ∈ s.heap, ∀ z ∈ s.heap, y.alive = true → z.alive = true → y.id = id → z.id = id → y = z) :
    (step H (step H s (Op.cancel id exc)).1 (Op.cancel id exc')).2 = Res.flag false := by
  have hi := reachable_inv hH h
  have h1 : Reachable H (step H s (Op.cancel id exc)).1 := by
    obtain ⟨ops, rfl⟩ := h
    exact ⟨ops ++ [Op.cancel id exc], by simp [run, List.foldl_append]⟩
  have hi1 := reachable_inv hH h1
  have hstep : (step H s (Op.cancel id exc)).1 = (stepCancel H s id exc).1 := by
    unfold step; simp [hal]
  rcases c12_cancel_cases hH hi id exc with ⟨e, _, c2, c3, _⟩ | ⟨_, c2, c3⟩
  · have hal1 : (step H s (Op.cancel id exc)).1.alive = true := by rw [hstep, c3.2.2.2.2.2.2]; exact hal
    refine (c12_cancel_false_noop hH h1 hal1 id exc' ?_).1
    rw [hstep]
    intro y hy ha hid
    -- a live entry with that id after the cancel was live with that id before, hence is `e`; but `e` is gone
    have hi1' : Inv (stepCancel H s id exc).1 := hstep ▸ hi1
    obtain ⟨t1, _, _⟩ := removeLk_spec hH id hi.heap_ok
    have hy0 : y ∈ s.heap := by
      unfold stepCancel at hy
      cases hr : removeLk H s.heap id with
      | mk h' r =>
        rw [hr] at hy t1
        cases r <;> exact t1.sub y hy ha
    have hye : y = e := huniq y hy0 e c3.1 ha c3.2.1 hid c2
    subst hye
    have cnt := c3.2.2.1 y.serial
    have once0 := hi.once y.serial
    have pos1 : 0 < (aliveSerials (stepCancel H s id exc).1.heap).count y.serial := by
      apply List.count_pos_iff.mpr
      simp only [aliveSerials, List.mem_map, List.mem_filter]
      exact ⟨y, ⟨hy, ha⟩, rfl⟩
    simp only [if_true] at cnt
    split at once0 <;> omega
  · have hal1 : (step H s (Op.cancel id exc)).1.alive = true := by rw [hstep, c2.2.2.2.2.2.2]; exact hal
    refine (c12_cancel_false_noop hH h1 hal1 id exc' ?_).1
    rw [hstep]
    intro y hy ha
    exact c3 y (c2.2.2.1 y hy ha) ha

/-- `remove(id)` returns the promise of a live entry with that identifier iff there is one, and takes exactly that one
sleep out of the pending ones; otherwise it returns the empty promise and nothing changes. -/
theorem c12_remove {H : Heap} (hH : HeapSpec H) {s : State} (h : Reachable H s) (hal : s.alive = true) (id : Nat) :
    (∃ e, (step H s (Op.remove id)).2 = Res.removed (some e) ∧ e.id = id ∧ TookOne s (step H s (Op.remove id)).1 e ∧
          (step H s (Op.remove id)).1.log = s.log ++ [mkDone e Fate.removed s.nextSerial]) ∨
    ((step H s (Op.remove id)).2 = Res.removed none ∧ TookNone s (step H s (Op.remove id)).1 ∧
          ∀ y ∈ s.heap, y.alive = true → y.id ≠ id) := by
  have hi := reachable_inv hH h
  obtain ⟨t1, t2, t3⟩ := removeLk_spec hH id hi.heap_ok
  unfold step
  simp only [hal, if_true]
  unfold stepRemove
  cases hr : removeLk H s.heap id with
  | mk h' r =>
    rw [hr] at t1 t2 t3
    cases r with
    | some e =>
      left
      refine ⟨e, rfl, t2 e rfl, ⟨(t1.mem e rfl).1, (t1.mem e rfl).2, ?_, ?_, rfl, rfl, rfl⟩, rfl⟩
      · intro i; simpa [got] using t1.cnt i
      · intro y hy ha hne
        rcases t1.sup y hy ha with h' | h'
        · exact h'
        · simp at h'; exact absurd h'.symm hne
    | none =>
      right
      refine ⟨rfl, ⟨?_, ?_, t1.sub, rfl, rfl, rfl, rfl⟩, t3 rfl⟩
      · intro i; simpa [got] using t1.cnt i
      · intro y hy ha
        rcases t1.sup y hy ha with h' | h'
        · exact h'
        · cases h'

/-! ## cancellation through a stop token (`interval`) -/

/-- The repaired stop callback of `interval()` — `this->cancel(&tag)` run on the thread that calls `request_stop()`
while it does not hold `_mx` — terminates, releases the mutex and has exactly the effect of `cancel(&tag)`:
by `c12_cancel_true` the generator's pending sleep (the only one carrying `&tag`) completes with
`await_canceled_exception`, and when the generator is not sleeping nothing happens. -/
theorem c12_stop_token (H : Heap) (s : State) (tag : Nat) :
    ∃ m, runProg H (stopCallback tag) { s := s } = some m ∧ m.owner = false ∧ m.s = (stepCancel H s tag 0).1 ∧
      (stepCancel H s tag 0).2 = Res.flag (m.result = some true) := by
  unfold stopCallback cancelProg stepCancel
  cases hr : removeLk H s.heap tag with
  | mk h r =>
    cases r with
    | some e => simp [runProg, hr]
    | none => simp [runProg, hr]

/-- The callback as it was (`std::lock_guard _(_mx); this->cancel(&tag);`) never returns, in every state:
the thread blocks on the mutex it already owns (replayed on the header: corpus/c12_interval_stop.txt). -/
theorem c12_asis_stop_deadlock (H : Heap) (s : State) (tag : Nat) :
    runProg H (stopCallbackAsIs tag) { s := s } = none := by
  simp [stopCallbackAsIs, cancelProg, runProg]

/-! ## destruction -/

/-- … and with an iteration split by an unlock/lock pair even the repaired stop callback loses the request: the
callback takes `_mx` in the gap, finds nobody waiting, and the worker then parks for good. -/
theorem c12_asis_gap_stop_lost :
    Stop.Lost (Stop.run Stop.stepGap {} [Stop.Act.wLock, Stop.Act.wPollRelease, Stop.Act.sFlag, Stop.Act.sLock,
      Stop.Act.sNotify, Stop.Act.sUnlock, Stop.Act.wRelockWait]) := ⟨by decide, by decide⟩

/-- The stop request of `~scheduler()` (and of `start()` when its awaitable completes) is never lost, for every
interleaving of the worker's and the stopper's steps and whatever the vector holds — including a request that arrives
while the worker is resolving a promise with `_mx` released (`resolving`, fix db0b685): once `request_stop()` has
returned, the worker is not parked in `wait_until` — it has exited, or it is at the loop top on its way to the stop
check, or it is resolving and on its way to the loop condition, and either test fails (the flag is set) — so
destruction never has to wait for a sleeper's deadline (or forever, on an empty vector). -/
theorem c12_stop_not_lost (acts : List Stop.Act) :
    ¬ Stop.Lost (Stop.run Stop.step {} acts) ∧
    ((Stop.run Stop.step {} acts).sp = Stop.SPc.done →
      ((Stop.run Stop.step {} acts).w = Stop.WPc.exited ∨
       Stop.step (Stop.run Stop.step {} acts) Stop.Act.wLock =
         some { Stop.run Stop.step {} acts with w := Stop.WPc.exited } ∨
       Stop.step (Stop.run Stop.step {} acts) Stop.Act.wRelock =
         some { Stop.run Stop.step {} acts with w := Stop.WPc.exited })) := by
  have hi : Stop.Inv (Stop.run Stop.step {} acts) :=
    Stop.inv_run acts {} ⟨by simp, by simp, by simp, by simp⟩
  constructor
  · rintro ⟨h1, h2⟩
    rcases hi.after (Or.inr h1) with h | h | h <;> rw [h2] at h <;> cases h
  · intro hd
    have hf := hi.flagged (by rw [hd]; simp)
    rcases hi.after (Or.inr hd) with h | h | h
    · right; left; simp [Stop.step, Stop.workerStep, h, hd, hf]
    · left; exact h
    · right; right; simp [Stop.step, Stop.workerStep, h, hd, hf]

/-- … and nothing else is open to it: after the stop request has completed, every step of the machine that is enabled
at all ends the worker (no further iteration, no further wait). -/
theorem c12_stop_then_worker_exits (acts : List Stop.Act) (a : Stop.Act) (s' : Stop.St)
    (hd : (Stop.run Stop.step {} acts).sp = Stop.SPc.done)
    (hs : Stop.step (Stop.run Stop.step {} acts) a = some s') : s'.w = Stop.WPc.exited := by
  have hi : Stop.Inv (Stop.run Stop.step {} acts) :=
    Stop.inv_run acts {} ⟨by simp, by simp, by simp, by simp⟩
  have hf := hi.flagged (by rw [hd]; simp)
  generalize Stop.run Stop.step {} acts = s at *
  obtain ⟨w, sp, flag⟩ := s
  simp only at hd hf
  subst hd hf
  have ha := hi.after (Or.inr rfl)
  simp only at ha
  cases a <;> rcases ha with h | h | h <;> subst h <;> simp [Stop.step, Stop.workerStep] at hs <;> (subst hs; rfl)

/-- a stop request that arrives while the worker resolves a promise without the mutex: the loop condition after the
re-lock sees it -/
theorem c12_stop_while_resolving :
    Stop.run Stop.step {} [Stop.Act.wLock, Stop.Act.wPollResolve, Stop.Act.sFlag, Stop.Act.sLock,
      Stop.Act.sNotify, Stop.Act.sUnlock, Stop.Act.wRelock] = { w := Stop.WPc.exited, sp := Stop.SPc.done, flag := true } := by
  decide

/-- The callback as it was (`_cond.notify_all()` without `_mx`) loses the request when it arrives between the worker's
stop check and its `wait_until`: the worker parks although the stop request is complete, and nothing but the deadline
of its own wait can move it (replayed on the header: corpus/c12stop_race.txt — `~scheduler()` returned only when the
virtual clock reached the next sleeper's time point). -/
theorem c12_asis_stop_lost :
    let s := Stop.run Stop.stepAsIs {} [Stop.Act.wLock, Stop.Act.sFlag, Stop.Act.sNotify, Stop.Act.wPollWait]
    Stop.Lost s ∧ ∀ a, a ≠ Stop.Act.wTimeout → Stop.stepAsIs s a = none := by
  refine ⟨⟨by decide, by decide⟩, ?_⟩
  intro a ha
  cases a <;> first | rfl | exact absurd rfl ha

/-- Destroying the scheduler completes every sleep that is still pending (the promise is dropped: the sleeper sees
`await_canceled_exception`) and only those. -/
theorem c12_destroy_step (s : State) :
    (stepDestroy s).1.log = s.log ++ (s.heap.filter (·.alive)).map (fun e => mkDone e Fate.dropped s.nextSerial) ∧
    (stepDestroy s).1.heap = [] :=
  ⟨rfl, rfl⟩

/-- After destruction nothing is left hanging: every sleep ever scheduled has completed exactly once. -/
theorem c12_destroy_cancels {H : Heap} (hH : HeapSpec H) {s : State} (h : Reachable H s) (hd : s.alive = false)
    (i : Nat) (hi : i < s.nextSerial) : (s.log.map (·.serial)).count i = 1 := by
  have inv := reachable_inv hH h
  have := inv.once i
  rw [inv.gone hd] at this
  simpa [hi] using this

/-! ## the pinned (unrepaired) code violated the property -/

def sleepOps : List Op := [Op.schedule 20 1, Op.schedule 10 2, Op.cancel 1 0, Op.getExpired 15]

/-- `sleep(a, 20); sleep(b, 10); cancel(a); get_expired(15); cancel(a)`: the second cancel reads `_scheduled[0]` of an
empty vector (heap-buffer-overflow on the header, corpus/c12_remove_overflow.txt). -/
theorem c12_asis_overflow :
    (stepAsIs stdHeap (runAsIs stdHeap init sleepOps) (Op.cancel 1 0)).2 = Res.crash := by decide

/-- `sleep(top); sleep(a); cancel(a); sleep(a); cancel(a)`: the second cancel finds the emptied entry of the first,
reports false and leaves the second sleep (serial 2, identifier 1) pending (corpus/c12_cancel_reused_id.txt). -/
theorem c12_asis_missed_cancel :
    let s := runAsIs stdHeap init [Op.schedule 5 9, Op.schedule 10 1, Op.cancel 1 0, Op.schedule 12 1]
    (stepAsIs stdHeap s (Op.cancel 1 0)).2 = Res.flag false ∧
    (s.heap.filter (fun e => e.alive && e.id == 1)).map (·.serial) = [2] := by decide

/-- the repaired step on the same inputs -/
theorem c12_fixed_witnesses :
    (step stdHeap (run stdHeap init sleepOps) (Op.cancel 1 0)).2 = Res.flag false ∧
    (step stdHeap (run stdHeap init [Op.schedule 5 9, Op.schedule 10 1, Op.cancel 1 0, Op.schedule 12 1])
      (Op.cancel 1 0)).2 = Res.flag true := by decide

/-! ## non-vacuity -/

/-- a reachable state with equal deadlines, a cancelled entry left in place, an expired sleep and a parked worker -/
def demoOps : List Op :=
  [Op.schedule 5 1, Op.schedule 5 2, Op.schedule 3 3, Op.schedule 7 1, Op.schedule 9 4, Op.cancel 4 0,
   Op.getExpired 4, Op.poll 0 4]

example : Reachable stdHeap (run stdHeap init demoOps) := ⟨_, rfl⟩
example : (run stdHeap init demoOps).heap.map (fun e => (e.tp, e.id, e.alive))
      = [(5, 1, true), (5, 2, true), (9, 4, false), (7, 1, true)]
    ∧ (run stdHeap init demoOps).log.map (fun d => (d.serial, d.fate)) = [(4, Fate.cancelled 0), (2, Fate.expired 4)]
    ∧ (run stdHeap init demoOps).waits = [(0, some 5)] := by decide
example : (step stdHeap (run stdHeap init demoOps) (Op.cancel 1 7)).2 = Res.flag true := by decide
example : (step stdHeap (run stdHeap init demoOps) (Op.cancel 4 0)).2 = Res.flag false := by decide

end Cocls.Sched
