import CoclsModel.Chain
/-! # C01 — property theorems (placeholder while the invariant proofs are being written) -/
namespace Cocls.Chain

/-- a losing call leaves no trace: the only thing a failed claim changes is the caller's own program counter -/
theorem c01_loser_no_trace (c : Cfg) (s : State) (t : Nat) (hpc : s.pc t = Pc.rClaim) (hown : s.owner = false) :
    (astep c s t).1 = setPc s t Pc.rFinLost := by
  unfold astep; simp [hpc, hown]

end Cocls.Chain
