import CoclsModel.ChainProofs
/-!
# C01 — a future is resolved exactly once, by exactly one winner

Model: `Chain.lean` (micro-step model of `promise::operator()` / `~promise` / `~promise_with_default` / `future::set` /
`resolve`, validated step-for-step against `future.h` / `awaiter.h` by the baton harness).  Every theorem quantifies over
**every** configuration `c : Cfg` — any number of resolver calls of any payload kind (value, exception, drop), destructor
agents (`Kind.dtor`: `~promise`, resolves to no-value; `Kind.ddef v`: destruction of a `promise_with_default` /
`_v` / `_vp`, resolves to the default value `v`) and waiters of every kind — and **every** schedule (`Reachable c s` = `∃ sched, s = run c (init c) sched`;
the proofs are by induction over the schedule through the invariant `Inv` of `ChainProofs.lean`).  The only
configuration hypothesis, used by the quiescence statements alone, is `WF c`: there is a resolving party at all.

Ghost fields read by the statements: `wins` (number of successful claims: `claim()` exchanges / destructor loads that
found the owner pointer set), `winner` (who made it).  `Ev.ret t b` is the boolean carried by the suspend point that
call `t` returns.
-/
namespace Cocls.Chain

/-- a small but non-trivial configuration for the witnesses: a value resolver, a drop resolver, a coroutine waiter,
a blocking waiter and the destructor -/
def exCfg : Cfg :=
  { n := 5
    kind := fun i => match i with
      | 0 => Kind.res (RK.value 7)
      | 1 => Kind.res RK.drop
      | 2 => Kind.wait WK.coro
      | 3 => Kind.wait WK.sync
      | _ => Kind.dtor }

/-- both waiters subscribe, the value resolver wins the claim against the drop resolver, walks the chain; everybody finishes -/
def schedA : List Nat := [2, 2, 3, 3, 3, 0, 1, 0, 0, 0, 1, 3, 3, 4, 4, 2]
/-- as `schedA` but the drop resolver wins -/
def schedB : List Nat := [2, 2, 3, 3, 3, 1, 0, 1, 1, 1, 1, 0, 3, 3, 3, 4, 4, 2]
/-- only waiters and the destructor: the destructor resolves -/
def exCfgD : Cfg :=
  { n := 3
    kind := fun i => match i with
      | 0 => Kind.wait WK.cb
      | 1 => Kind.wait WK.hasv
      | _ => Kind.dtor }
def schedD : List Nat := [0, 0, 1, 1, 1, 2, 2, 2, 2, 0, 1]
/-- a value resolver, a coroutine waiter, a blocking waiter and the destruction of a `promise_with_default` (default 42) -/
def exCfgP (withCall : Bool) : Cfg :=
  { n := 4
    kind := fun i => match i with
      | 0 => if withCall then Kind.res (RK.value 7) else Kind.wait WK.hasv
      | 1 => Kind.wait WK.coro
      | 2 => Kind.wait WK.sync
      | _ => Kind.ddef 42 }
/-- the waiters subscribe; the destructor claims (`xchg owner`), sets the default, exchanges the slot, walks the chain
(`store` for the blocking waiter, the coroutine resumed when the suspend point is flushed), then the base `~promise`
loads the owner pointer (null) -/
def schedP : List Nat := [1, 1, 2, 2, 2, 0, 0, 0, 0, 3, 3, 3, 3, 3, 3, 2, 2, 1]

/-! ## exactly one winner -/

/-- **Unique winner (safety).**  In every reachable state at most one claim has succeeded; `wins = 1` exactly when a
winner is recorded, and exactly when the owner pointer has been taken. -/
theorem c01_unique_winner (c : Cfg) (s : State) (hr : Reachable c s) :
    s.wins ≤ 1 ∧ (s.wins = 1 ↔ ∃ w, s.winner = some w) ∧ (s.wins = 1 ↔ s.owner = false) := by
  have h := hr.inv
  cases ho : s.owner
  · obtain ⟨h1, h2⟩ := h.own_f ho
    exact ⟨by omega, ⟨fun _ => h2, fun _ => h1⟩, ⟨fun _ => rfl, fun _ => h1⟩⟩
  · obtain ⟨h1, h2⟩ := h.own_t ho
    refine ⟨by omega, ⟨fun h3 => by omega, fun ⟨w, hw⟩ => by rw [h2] at hw; cases hw⟩, ⟨fun h3 => by omega, fun h3 => by cases h3⟩⟩

/-- **Unique winner (at quiescence).**  When all agents have finished and the configuration contains a resolving party,
exactly one claim has succeeded — and the winner is a resolver call or the destructor of the configuration. -/
theorem c01_unique_winner_quiescent (c : Cfg) (s : State) (hr : Reachable c s) (hwf : WF c) (hq : Quiescent c s) :
    s.wins = 1 ∧ ∃ w, s.winner = some w ∧ w < c.n ∧ (c.kind w).resolving = true := by
  obtain ⟨t, ht, hk⟩ := hwf
  obtain ⟨h1, _, w, hw⟩ := quiescent_ready c s hr.inv t ht hk (hq.all hr.inv)
  obtain ⟨h2, h3, _⟩ := hr.inv.winpc w hw
  exact ⟨h1, w, hw, h2, (resolving_iff _).2 h3⟩

example : (run exCfg (init exCfg) schedA).wins = 1 ∧ (run exCfg (init exCfg) schedA).winner = some 0 := by decide
example : WF exCfg ∧ Quiescent exCfg (run exCfg (init exCfg) schedA) := by decide
example : (run exCfgD (init exCfgD) schedD).winner = some 2 ∧ Quiescent exCfgD (run exCfgD (init exCfgD) schedD) := by decide
/-- without a resolving party nobody wins (so `WF` cannot be dropped from the quiescence statement) -/
example : (run { n := 1, kind := fun _ => Kind.wait WK.coro } (init { n := 1, kind := fun _ => Kind.wait WK.coro }) [0, 0, 0]).wins = 0 := by
  decide

/-- **The winner never changes.**  Once a winner is recorded no step of any agent (enabled or not) changes it or
the number of wins. -/
theorem c01_winner_stable (c : Cfg) (s : State) (hr : Reachable c s) (w : Nat) (hw : s.winner = some w) (t : Nat) :
    (astep c s t).1.winner = some w ∧ (astep c s t).1.wins = s.wins :=
  astep_winner c t s hr.inv w hw

example : (run exCfg (init exCfg) (schedA.take 6)).winner = some 0 := by decide

/-- **Exactly one call reports success** (trace level).  In the event trace of *any* schedule, resolver call `t` has
emitted `ret t b` exactly once if it has finished — with `b = true` iff `t` is the recorded winner — and never
otherwise; no other `ret` events exist.  Hence: every call returns at most once, at most one call ever returns
`true`, that call is the winner, and every other finished call returned `false`. -/
theorem c01_returns (c : Cfg) (sched : List Nat) (t : Nat) (b : Bool) :
    (runEv c (init c) sched).2.count (Ev.ret t b) =
      if isResCall c t = true ∧ (run c (init c) sched).pc t = Pc.done
          ∧ b = decide ((run c (init c) sched).winner = some t) then 1 else 0 := by
  rw [ret_count]
  simp only [isResCall_iff, and_assoc]

/-- corollary: two calls that both reported success are the same call -/
theorem c01_one_success (c : Cfg) (sched : List Nat) (t t' : Nat)
    (h1 : Ev.ret t true ∈ (runEv c (init c) sched).2) (h2 : Ev.ret t' true ∈ (runEv c (init c) sched).2) : t = t' := by
  have k1 := c01_returns c sched t true
  have k2 := c01_returns c sched t' true
  have p1 := List.count_pos_iff.2 h1
  have p2 := List.count_pos_iff.2 h2
  split at k1
  · split at k2
    · rename_i a1 a2
      have e1 := a1.2.2; have e2 := a2.2.2
      simp only [true_eq_decide_iff] at e1 e2
      rw [e1] at e2; injection e2
    · omega
  · omega

/-- corollary: at quiescence every resolver call has returned exactly once, `true` for the winner and `false` for all others -/
theorem c01_returns_quiescent (c : Cfg) (sched : List Nat) (hq : Quiescent c (run c (init c) sched)) (t : Nat)
    (ht : isResCall c t = true) :
    (runEv c (init c) sched).2.count (Ev.ret t (decide ((run c (init c) sched).winner = some t))) = 1
    ∧ (runEv c (init c) sched).2.count (Ev.ret t (!decide ((run c (init c) sched).winner = some t))) = 0 := by
  have hd := hq t ((isResCall_iff c t).1 ht).1
  constructor
  · rw [c01_returns]; simp [ht, hd]
  · rw [c01_returns]; simp [ht, hd]

example : (runEv exCfg (init exCfg) schedA).2.count (Ev.ret 0 true) = 1
    ∧ (runEv exCfg (init exCfg) schedA).2.count (Ev.ret 1 false) = 1
    ∧ (runEv exCfg (init exCfg) schedA).2.count (Ev.ret 1 true) = 0 := by decide

/-! ## the result is the winner's payload and is stable -/

/-- **Result = the winner's payload.**  In every reachable state with the slot `ready` there is a recorded winner, it is
a resolver call or a destructor, and the stored payload is exactly what that agent delivers: `RK.payload` of its
kind (value / exception / no-value for `drop`) for a resolver call, no-value for `~promise`, the default value for
the destruction of a `promise_with_default`. -/
theorem c01_result_is_winners (c : Cfg) (s : State) (hr : Reachable c s) (hs : s.slot = Slot.ready) :
    ∃ w, s.winner = some w ∧ w < c.n ∧
      ((∃ k, c.kind w = Kind.res k ∧ s.payload = k.payload) ∨ (c.kind w = Kind.dtor ∧ s.payload = Outcome.none)
        ∨ (∃ v, c.kind w = Kind.ddef v ∧ s.payload = Outcome.val v)) := by
  obtain ⟨w, hw, _, hp⟩ := hr.inv.ready_phase hs
  obtain ⟨h2, h3, _⟩ := hr.inv.winpc w hw
  refine ⟨w, hw, h2, ?_⟩
  unfold winPayload at hp
  cases hk : c.kind w with
  | res k => left; exact ⟨k, rfl, by simpa [hk] using hp⟩
  | dtor => right; left; exact ⟨rfl, by simpa [hk] using hp⟩
  | wait k => simp [hk, Kind.cls] at h3
  | ddef v => right; right; exact ⟨v, rfl, by simpa [hk] using hp⟩

/-- before the resolution nothing is stored: the payload is written only by the winner -/
theorem c01_no_result_before (c : Cfg) (s : State) (hr : Reachable c s) (hs : s.slot ≠ Slot.ready) :
    s.payload = Outcome.none := by
  rcases slot_cases s with h | ⟨l, hl⟩
  · exact absurd h hs
  · exact (hr.inv.chain_phase l hl).1

example : (run exCfg (init exCfg) (schedA.take 7)).slot ≠ Slot.ready ∧ (run exCfg (init exCfg) (schedA.take 7)).wins = 1 := by decide
example : (run exCfg (init exCfg) schedA).slot = Slot.ready ∧ (run exCfg (init exCfg) schedA).payload = Outcome.val 7 := by decide
example : (run exCfg (init exCfg) schedB).winner = some 1 ∧ (run exCfg (init exCfg) schedB).payload = Outcome.none := by decide
/-- the new steps are used: nobody calls the promise, `~promise_with_default` wins through its own claim, delivers the
default, and then runs the base destructor's load (`dFin`) -/
example : (run (exCfgP false) (init (exCfgP false)) (schedP.take 10)).pc 3 = Pc.rResolve false
    ∧ (run (exCfgP false) (init (exCfgP false)) (schedP.take 13)).pc 3 = Pc.dFin
    ∧ (run (exCfgP false) (init (exCfgP false)) schedP).winner = some 3
    ∧ (run (exCfgP false) (init (exCfgP false)) schedP).payload = Outcome.val 42
    ∧ Quiescent (exCfgP false) (run (exCfgP false) (init (exCfgP false)) schedP) := by decide
/-- a call won before: `~promise_with_default` loses its claim (`dLoad`), its base destructor finds the pointer null -/
example : (run (exCfgP true) (init (exCfgP true)) (schedP.take 10)).pc 3 = Pc.dLoad
    ∧ (run (exCfgP true) (init (exCfgP true)) schedP).winner = some 0
    ∧ (run (exCfgP true) (init (exCfgP true)) schedP).payload = Outcome.val 7
    ∧ Ev.opLoadOwner 3 false ∈ (runEv (exCfgP true) (init (exCfgP true)) schedP).2
    ∧ Quiescent (exCfgP true) (run (exCfgP true) (init (exCfgP true)) schedP) := by decide

/-! ### move-assignment of a `promise_with_default`

`a = std::move(b)` hands the future `b` owned over to `a`; the object whose destruction finally resolves it is `a`.  The
pinned code executed `def = std::move(def)` in `operator=`: `a` kept its *own* default (`assignedDefaultAsIs`), so the
future was not resolved with the payload of the promise that owned it.  Repaired in `/repo` (`def = std::move(other.def)`,
`assignedDefault`); the harness scenario is `assign-from`. -/

/-- after `a = std::move(b)` (defaults `va`, `vb`) the destruction of `a` resolves the future with `b`'s default -/
theorem c01_pwd_assign (c : Cfg) (s : State) (hr : Reachable c s) (w va vb : Nat)
    (hk : c.kind w = Kind.ddef (assignedDefault va vb)) (hw : s.winner = some w) (hs : s.slot = Slot.ready) :
    s.payload = Outcome.val vb := by
  obtain ⟨w', hw', _, hp⟩ := c01_result_is_winners c s hr hs
  rw [hw] at hw'; injection hw' with hw'; subst hw'
  rcases hp with ⟨k, h1, _⟩ | ⟨h1, _⟩ | ⟨v, h1, h2⟩
  · rw [hk] at h1; cases h1
  · rw [hk] at h1; cases h1
  · rw [hk] at h1; injection h1 with h1; rw [h2, ← h1]; rfl

/-- as-is witness (the code before `/repo` commit 4ed6196; replay `corpus/c01_pwd_assign_default.txt`): with the self-move the
same scenario (a waiter, nobody calls, `a` with default 61 takes over the future of `b` with default 43 and is destroyed)
resolves the future with 61 -/
theorem c01_pwd_assign_asis_witness :
    let c : Cfg := { n := 2, kind := fun i => if i = 0 then Kind.wait WK.coro else Kind.ddef (assignedDefaultAsIs 61 43) }
    (run c (init c) [0, 0, 1, 1, 1, 1]).slot = Slot.ready ∧ (run c (init c) [0, 0, 1, 1, 1, 1]).winner = some 1
      ∧ (run c (init c) [0, 0, 1, 1, 1, 1]).payload = Outcome.val 61
      ∧ Ev.obs 0 (Obs.val 61) ∈ (runEv c (init c) [0, 0, 1, 1, 1, 1]).2 := by decide

example :
    let c : Cfg := { n := 2, kind := fun i => if i = 0 then Kind.wait WK.coro else Kind.ddef (assignedDefault 61 43) }
    (run c (init c) [0, 0, 1, 1, 1, 1]).payload = Outcome.val 43 := by decide

/-! Move-assignment *over* a `promise_with_default*` that still owns the pending future ends the replaced promise as its
destruction would: the future gets the default (`assignOverKind`).  The pinned code went through `promise<T>::operator=`
(`set_value(drop)`) in all three classes (`assignOverKindAsIs`); repaired in `/repo`; harness scenario `assign-end` with a
`pwd` line. -/

/-- a promise with default `v` that is replaced by move-assignment resolves its future with `v`; a plain promise with no-value -/
theorem c01_pwd_assign_over (c : Cfg) (s : State) (hr : Reachable c s) (w : Nat) (pwd : Option Nat)
    (hk : c.kind w = assignOverKind pwd) (hw : s.winner = some w) (hs : s.slot = Slot.ready) :
    s.payload = match pwd with
      | some v => Outcome.val v
      | none => Outcome.none := by
  obtain ⟨w', hw', _, hp⟩ := c01_result_is_winners c s hr hs
  rw [hw] at hw'; injection hw' with hw'; subst hw'
  cases pwd with
  | none =>
    simp only [assignOverKind] at hk
    rcases hp with ⟨k, h1, _⟩ | ⟨_, h2⟩ | ⟨v, h1, _⟩
    · rw [hk] at h1; cases h1
    · exact h2
    · rw [hk] at h1; cases h1
  | some v =>
    simp only [assignOverKind] at hk
    rcases hp with ⟨k, h1, _⟩ | ⟨h1, _⟩ | ⟨v', h1, h2⟩
    · rw [hk] at h1; cases h1
    · rw [hk] at h1; cases h1
    · rw [hk] at h1; injection h1 with h1; rw [h2, ← h1]

/-- as-is witness (the code before `/repo` commit e4e0094 "fix: move-assignment over a promise_with_default dropped its future
instead of delivering the default"; replay `corpus/c01_pwd_assign_over.txt`): a `has_value()` awaiter and a coroutine wait, the
promise (default 45) is replaced by move-assignment: with the pinned operators the future is resolved without a value and the
waiters see `has_value() == false` / canceled -/
theorem c01_pwd_assign_over_asis_witness :
    let c : Cfg := { n := 3, kind := fun i => match i with
      | 0 => Kind.wait WK.hasv | 1 => Kind.wait WK.coro | _ => assignOverKindAsIs (some 45) }
    (run c (init c) [0, 0, 1, 1, 1, 2, 2, 2, 2]).slot = Slot.ready
      ∧ (run c (init c) [0, 0, 1, 1, 1, 2, 2, 2, 2]).payload = Outcome.none
      ∧ Ev.obs 0 (Obs.hv false) ∈ (runEv c (init c) [0, 0, 1, 1, 1, 2, 2, 2, 2]).2
      ∧ Ev.obs 1 Obs.canceled ∈ (runEv c (init c) [0, 0, 1, 1, 1, 2, 2, 2, 2]).2 := by decide

example :
    let c : Cfg := { n := 3, kind := fun i => match i with
      | 0 => Kind.wait WK.hasv | 1 => Kind.wait WK.coro | _ => assignOverKind (some 45) }
    (run c (init c) [0, 0, 1, 1, 1, 2, 2, 2, 2]).payload = Outcome.val 45
      ∧ Ev.obs 0 (Obs.hv true) ∈ (runEv c (init c) [0, 0, 1, 1, 1, 2, 2, 2, 2]).2
      ∧ Ev.obs 1 (Obs.val 45) ∈ (runEv c (init c) [0, 0, 1, 1, 1, 2, 2, 2, 2]).2 := by decide

/-- **Stability.**  Once the slot is `ready`, no step of any agent (enabled or not) changes the slot or the payload. -/
theorem c01_stable (c : Cfg) (s : State) (hr : Reachable c s) (t : Nat) (hs : s.slot = Slot.ready) :
    (astep c s t).1.slot = Slot.ready ∧ (astep c s t).1.payload = s.payload :=
  astep_stable c t s hr.inv hs

/-- stability along every continuation of the schedule -/
theorem c01_stable_run (c : Cfg) (s : State) (hr : Reachable c s) (hs : s.slot = Slot.ready) (sched : List Nat) :
    (run c s sched).slot = Slot.ready ∧ (run c s sched).payload = s.payload :=
  run_stable c s hr.inv hs sched

example : (run exCfg (init exCfg) (schedA.take 8)).slot = Slot.ready
    ∧ (run exCfg (init exCfg) (schedA.take 8)).payload = (run exCfg (init exCfg) schedA).payload := by decide

/-! ## losers -/

/-- a losing call leaves no trace: the only thing a failed claim changes is the caller's own program counter -/
theorem c01_loser_no_trace (c : Cfg) (s : State) (t : Nat) (hpc : s.pc t = Pc.rClaim) (hown : s.owner = false) :
    (astep c s t).1 = setPc s t Pc.rFinLost := by
  unfold astep; simp [hpc, hown]

/-- **Every other call reports failure and leaves no trace.**  A call that claims in a reachable state where somebody
has already won: its two steps change nothing but its own program counter, and it returns `false`. -/
theorem c01_loser_returns_false (c : Cfg) (s : State) (hr : Reachable c s) (t : Nat) (hpc : s.pc t = Pc.rClaim)
    (hwon : s.wins = 1) :
    astep c s t = (setPc s t Pc.rFinLost, [Ev.opXchgOwner t false])
    ∧ astep c (setPc s t Pc.rFinLost) t = (setPc s t Pc.done, [Ev.ret t false, Ev.fin t]) := by
  have hown : s.owner = false := ((c01_unique_winner c s hr).2.2).1 hwon
  constructor
  · unfold astep; simp [hpc, hown]
  · unfold astep; simp [setPc_setPc]

example : (run exCfg (init exCfg) (schedA.take 6)).pc 1 = Pc.rClaim ∧ (run exCfg (init exCfg) (schedA.take 6)).wins = 1 := by decide

/-! ## drop / destruction is observed as "canceled", not as a hang -/

/-- what awaiting code observes on a future resolved without a value: `value()` throws `await_canceled_exception`,
the `has_value()` awaiter yields `false` -/
theorem c01_drop_value (s : State) (k : WK) (hp : s.payload = Outcome.none) :
    obsOf s k Seen.ready = if k = WK.hasv then Obs.hv false else Obs.canceled := by
  unfold obsOf; cases k <;> simp [hp]

/-- **Drop / destruction observed.**  If the winner is a `drop` call or the destructor, then in every reachable state
with the slot `ready` the payload is no-value, and *every* result read emitted by any step (by a woken waiter, by a
waiter that found the future ready, or by the walker on behalf of a callback / coroutine) is `canceled`
(`hv false` for the `has_value()` awaiter) — never a value, never "not ready".  That no waiter is left hanging is
`c02_no_lost_wakeup` / `c02_not_stuck`. -/
theorem c01_drop_observed (c : Cfg) (s : State) (hr : Reachable c s) (w : Nat) (hw : s.winner = some w)
    (hk : c.kind w = Kind.res RK.drop ∨ c.kind w = Kind.dtor) :
    (s.slot = Slot.ready → s.payload = Outcome.none) ∧
    ∀ t x o, Ev.obs x o ∈ (astep c s t).2 → o = if wkOf c x = WK.hasv then Obs.hv false else Obs.canceled := by
  have hp : s.slot = Slot.ready → s.payload = Outcome.none := by
    intro hs
    obtain ⟨w', hw', _, hp⟩ := hr.inv.ready_phase hs
    rw [hw] at hw'; injection hw' with hw'; subst hw'
    rw [hp]; unfold winPayload
    rcases hk with hk | hk <;> simp [hk, RK.payload]
  refine ⟨hp, ?_⟩
  intro t x o he
  obtain ⟨hs, ho, _, _⟩ := astep_obs c t s hr.inv x o he
  rw [ho]; exact c01_drop_value s _ (hp hs)

/-- whole-run form: for every schedule whose final winner is a `drop` call or the destructor, every result read that
occurs anywhere in the trace is `canceled` (`hv false` for the `has_value()` awaiter) -/
theorem c01_drop_observed_trace (c : Cfg) (sched : List Nat) (w : Nat)
    (hw : (run c (init c) sched).winner = some w) (hk : c.kind w = Kind.res RK.drop ∨ c.kind w = Kind.dtor)
    (x : Nat) (o : Obs) (he : Ev.obs x o ∈ (runEv c (init c) sched).2) :
    o = if wkOf c x = WK.hasv then Obs.hv false else Obs.canceled := by
  obtain ⟨pre, t, post, hsched, _, hmem⟩ := runEv_mem c sched _ he
  have hr := reachable_run c pre
  obtain ⟨hs, ho, _, _⟩ := astep_obs c t _ hr.inv x o hmem
  have hrun : run c (init c) sched = run c (run c (init c) pre) (t :: post) := by rw [hsched, run_append]
  obtain ⟨hs', hp'⟩ := run_stable c _ hr.inv hs (t :: post)
  rw [← hrun] at hs' hp'
  have hnone := (c01_drop_observed c _ (reachable_run c sched) w hw hk).1 hs'
  rw [ho]; exact c01_drop_value _ _ (by rw [← hp', hnone])

example : Ev.obs 2 Obs.canceled ∈ (runEv exCfg (init exCfg) schedB).2 ∧ Ev.obs 3 Obs.canceled ∈ (runEv exCfg (init exCfg) schedB).2 := by
  decide
example : Ev.obs 0 Obs.canceled ∈ (runEv exCfgD (init exCfgD) schedD).2 ∧ Ev.obs 1 (Obs.hv false) ∈ (runEv exCfgD (init exCfgD) schedD).2 := by
  decide

end Cocls.Chain
