import CoclsModel.SignalProofs
/-!
# C15 — signal: every waiting listener gets every value; disconnect wakes all

Model: `CoclsModel/Signal.lean` (shared state of `signal<T>`: strong-reference count, awaiter chain, current-value
pointer, owned copy; scripted coroutine listeners and connected callbacks; one `Op` per public call or per
resumption of one released coroutine).  Every theorem quantifies over *all* operation lists — any number of
listeners of any script, callbacks of any budget, collector calls by value / by reference, handle copies and
destruction, flushes in any order — `Reachable`; those that need the documented contract (the suspend point
returned by a collector call is flushed before the next call / before the state dies) quantify over all
operation lists satisfying `Flushed` — `FlushedReachable`.

Operation lists include `emitter::operator=` (`assign`: what a busy listener's emitter denotes — the shared state or nothing),
`connect` through a signal object without state (`connect0`) and `connect` of an *lvalue* callable which the caller destroys
right afterwards (`connectL`: the connection owns a copy, `c15_connect_owns_callback`; the pinned code kept a reference,
`c15_asis_connect_lvalue_dangling`, `/repo` commit d8a7c3e); `c15_assign_only_retargets`, `c15_assign_then_await`,
`c15_callbacks_unconnected` say what these do, every other theorem quantifies over them.

Operation lists also include collector calls that FAIL (`emitFail`: the constructor of the value throws inside the by-value
overloads): `c15_failed_emit_loses_nobody` (the step), `c15_failed_emits_then_next_delivers` / `c15_failed_emits_then_disconnect`
(whoever was waiting before any number of failed calls gets the next value / the cancellation), `c15_failed_emit_stale_pointer_unread`
and `c15_never_owed_dead` (the stale `_cur_val` such a call leaves behind is never read under the contract), with the negative
lemma `c15_unflushed_failed_emit_reads_destroyed`; the global theorems count successful calls only (`emitted`, `expect`).

Also here: `c15_hookup_receives_registration_value` (`hook_up` subscribes before the registration function runs),
`c15_model_is_the_loop` (the closed forms the proofs use are the awaiter-by-awaiter loops of the code, which is
what the driver runs against the headers) and the publication discipline of `awaiter::subscribe`
(`c15_subscribe_no_touch_after_publish`, with the `decide` witness `c15_asis_subscribe_uaf` for the pinned code).

Ghost vocabulary: `got l` = what listener `l` has observed so far, in order; `expect l` = for a coroutine listener
the outcomes issued *while it was waiting in the chain* (`val v` appended by `emit v`, `canceled` by the state
destructor / by awaiting a dead emitter) — `c15_expect_emit` / `c15_expect_disconnect` pin that meaning down;
`emitted` = all values passed to a collector; `subAt l` = `emitted.length` when `l` was created;
`pure l` = `l` was created by `listen` and has since done nothing but re-await (no `gate`, no `exit`).
-/
namespace Cocls.Signal

def Reachable (s : State) : Prop := ∃ ops, s = run init ops
def FlushedReachable (s : State) : Prop := ∃ ops, Flushed init ops ∧ s = run init ops

theorem reachable_inv {s : State} (h : Reachable s) : Inv s := by
  obtain ⟨ops, rfl⟩ := h
  exact inv_run init ops inv_init

theorem flushed_reachable {s : State} (h : FlushedReachable s) : Reachable s := by
  obtain ⟨ops, _, rfl⟩ := h; exact ⟨ops, rfl⟩

theorem flushed_inv {s : State} (h : FlushedReachable s) : FInv s := by
  obtain ⟨ops, hf, rfl⟩ := h
  exact finv_run init ops inv_init finv_init hf

/-- what listener `l` has observed, including the outcome it reads when it is resumed from the suspend point it sits in -/
def observed (s : State) (l : Nat) : List Out := s.got l ++ (if l ∈ s.rel then [readNow s] else [])

/-- meaning of the ghost `expect` (1): a collector call adds its value to exactly the listeners in the chain -/
theorem c15_expect_emit (s : State) (r : Bool) (v : Nat) (h0 : s.handles ≠ 0) (l : Nat) :
    (stepEmit s r v).1.expect l = if l ∈ s.chain then s.expect l ++ [Out.val v] else s.expect l := by
  simp [stepEmit, h0]

/-- meaning of the ghost `expect` (2): destroying the last handle adds `canceled` to exactly the listeners in the chain -/
theorem c15_expect_disconnect (s : State) (h1 : s.handles = 1) (l : Nat) :
    (stepDrop s).1.expect l = if l ∈ s.chain then s.expect l ++ [Out.canceled] else s.expect l := by
  simp [stepDrop, h1]

/-- Exactly once, every history (even outside the contract): each time a waiting coroutine listener is released —
by a collector call or by disconnection — it is resumed exactly once: #observed + (1 if currently released) =
#outcomes issued while it was waiting. -/
theorem c15_each_once {s : State} (h : Reachable s) (l : Nat) (hl : l < s.next) (hk : s.isCb l = false) :
    (s.got l).length + (if l ∈ s.rel then 1 else 0) = (s.expect l).length :=
  (reachable_inv h).once l hl hk

/-- Broadcast, all flushed histories: every coroutine listener observes exactly the values emitted while it was
waiting — all of them, each once, that value, in order — and the cancellation if it was waiting at disconnection. -/
theorem c15_broadcast {s : State} (h : FlushedReachable s) (l : Nat) (hl : l < s.next) (hk : s.isCb l = false) :
    observed s l = s.expect l :=
  ((flushed_inv h).ex.exact l hl hk).symm

/-- Broadcast, one collector call in ghost-free terms: in any reachable state with nothing unflushed, the call
puts exactly the waiting coroutine listeners into the returned suspend point (each once), every one of them reads `v`
when it runs, every waiting callback is called with `v` right away (and released iff it answers false), and nobody
else observes anything. -/
theorem c15_broadcast_step {s : State} (h : Reachable s) (hrel : s.rel = []) (h0 : s.handles ≠ 0) (r : Bool) (v : Nat) :
    (stepEmit s r v).1.rel = corosOf s ∧ (corosOf s).Nodup ∧ (stepEmit s r v).2 = Res.num (corosOf s).length ∧
    readNow (stepEmit s r v).1 = Out.val v ∧
    (∀ c, c ∈ cbsOf s → (stepEmit s r v).1.got c = s.got c ++ Out.val v :: (if 0 < s.left c then [] else [Out.free])) ∧
    (∀ l, l ∉ s.chain → (stepEmit s r v).1.got l = s.got l ∧ l ∉ (stepEmit s r v).1.rel) := by
  have hi := reachable_inv h
  refine ⟨by simp [stepEmit, h0, hrel], nodup_filter' _ hi.chain_nodup, by simp [stepEmit, h0], ?_, ?_, ?_⟩
  · have := deref_emit s r v
    simp only [stepEmit, h0, if_false, readNow]
    simp only [deref] at this ⊢
    rw [this]
  · intro c hc
    simp only [stepEmit, h0, if_false, hc, if_true, cbOuts]
    split <;> rfl
  · intro l hl
    have hn : l ∉ cbsOf s := fun hh => hl (mem_cbsOf.mp hh).1
    refine ⟨by simp [stepEmit, h0, hn], ?_⟩
    simp only [stepEmit, h0, if_false, hrel, List.nil_append]
    exact fun hh => hl (mem_corosOf.mp hh).1

/-- …and a released listener that is resumed before the next collector call reads that value, exactly once:
it leaves the suspend point and (re-)subscribes, gates or exits according to its script. -/
theorem c15_resume_reads_current {s : State} (h : Reachable s) (l : Nat) (hl : l ∈ s.rel) :
    (stepResume s l).1.got l = s.got l ++ [readNow s] ∧ l ∉ (stepResume s l).1.rel := by
  have hi := reachable_inv h
  have hme : l ∉ s.rel.erase l := fun hh => ((List.Nodup.mem_erase_iff hi.rel_nodup).mp hh).1 rfl
  unfold stepResume
  rw [if_pos hl]
  split
  next v hv =>
    rw [hv]
    have hcn := hi.rel_conn _ hl
    unfold afterValue await reawait
    dsimp only
    have h0 : s.handles ≠ 0 := by intro h0; simp [readNow, h0] at hv
    split <;> simp [h0, hme, hcn]
  next hv =>
    rw [hv]
    have hcn := hi.rel_conn _ hl
    unfold afterValue await reawait
    dsimp only
    have h0 : s.handles ≠ 0 := by intro h0; simp [readNow, h0] at hv
    split <;> simp [h0, hme, hcn]
  next => simp [hme]

/-- No miss, all flushed histories: a listener that does nothing between signals except re-await has observed
(or is about to read) *every* value emitted since it subscribed, in order, followed by the cancellation once the
last handle is gone. -/
theorem c15_no_miss {s : State} (h : FlushedReachable s) (l : Nat) (hl : l < s.next) (hp : s.pure l = true) :
    observed s l = (s.emitted.drop (s.subAt l)).map Out.val ++ (if s.handles = 0 then [Out.canceled] else []) := by
  have hf := flushed_inv h
  have hi := reachable_inv (flushed_reachable h)
  rw [c15_broadcast h l hl (hi.pure_coro l hp)]
  exact hf.ex.form l hl hp

/-- such a listener is never lost while the signal is connected: it is waiting in the chain or sits in a suspend point -/
theorem c15_no_miss_present {s : State} (h : FlushedReachable s) (l : Nat) (hl : l < s.next) (hp : s.pure l = true)
    (h0 : s.handles ≠ 0) : l ∈ s.chain ∨ l ∈ s.rel :=
  (flushed_inv h).present l hl hp h0

/-- Callbacks, every history: a connected callback with budget `n` (answers `true` n times) has been called with
exactly the first `n+1` values emitted since `connect`, once each, in order; it is released (`free`, exactly once, as
its last event) iff it answered false or the last handle is gone; it stays connected exactly as long as neither happened. -/
theorem c15_callbacks {s : State} (h : Reachable s) (c : Nat) (hc : c < s.next) (hk : s.isCb c = true)
    (hcn : s.conn c = true) :
    s.got c = ((s.emitted.drop (s.subAt c)).take (s.budget c + 1)).map Out.val
                ++ (if c ∈ s.chain then [] else [Out.free]) ∧
    (c ∈ s.chain ↔ s.handles ≠ 0 ∧ s.emitted.length - s.subAt c ≤ s.budget c) := by
  have sp := (reachable_inv h).cb c hc hk hcn
  by_cases hm : c ∈ s.chain
  · obtain ⟨h0, hle, _, hg⟩ := sp.1 hm
    refine ⟨?_, ⟨fun _ => ⟨h0, hle⟩, fun _ => hm⟩⟩
    simp only [hm, if_true, List.append_nil, hg]
    rw [List.take_of_length_le (by simp; omega)]
  · obtain ⟨hg, hfull⟩ := sp.2 hm
    refine ⟨by simp only [hm, if_false, hg], ⟨fun hh => absurd hh hm, fun hh => ?_⟩⟩
    rcases hfull with e | e
    · exact absurd e hh.1
    · omega

/-- **The connection owns its callback.**  `connect(fn)` with an lvalue callable that the caller destroys (or modifies, or
reuses) as soon as `connect` has returned is the same step as `connect` of a temporary: the awaiter stores `std::decay_t<Fn>`,
a copy.  The new callback is waiting in the chain, has observed nothing — in particular it has *not* been released by the
caller's destruction of its own object — and `c15_callbacks` (which quantifies over every operation list, `connectL` included)
says what it observes from here on: the next `n + 1` values, once each, then its release, exactly once, as its last event.
(The pinned code stored a reference: `c15_asis_connect_lvalue_dangling`.) -/
theorem c15_connect_owns_callback (s : State) (n : Nat) :
    step s (Op.connectL n) = step s (Op.connect n)
    ∧ (s.handles ≠ 0 →
        (step s (Op.connectL n)).2 = Res.id s.next
        ∧ s.next ∈ (step s (Op.connectL n)).1.chain
        ∧ (step s (Op.connectL n)).1.got s.next = []
        ∧ (step s (Op.connectL n)).1.isCb s.next = true
        ∧ (step s (Op.connectL n)).1.conn s.next = true
        ∧ (step s (Op.connectL n)).1.budget s.next = n
        ∧ (step s (Op.connectL n)).1.subAt s.next = s.emitted.length) := by
  refine ⟨rfl, fun h0 => ?_⟩
  simp [step, stepConnect, h0, fresh]

/-- …and a callback connected through a `signal` object that has no state (moved-from): `initial_reg` cannot lock the
weak pointer, the awaiter deletes itself at once — released exactly once, never called, never in the chain (every history). -/
theorem c15_callbacks_unconnected {s : State} (h : Reachable s) (c : Nat) (hc : c < s.next) (hk : s.isCb c = true)
    (hcn : s.conn c = false) : s.got c = [Out.free] ∧ c ∉ s.chain := by
  refine ⟨(reachable_inv h).cb0 c hc hk hcn, fun hm => ?_⟩
  have := (reachable_inv h).chain_conn c hm
  rw [hcn] at this; cases this

/-- Emitter assignment (`emitter::operator=`, only the weak pointer is copied), every history: assigning to the emitter of
a listener that is busy elsewhere changes nothing but what that emitter denotes — every subscribed or released listener
stays where it is, the state it denoted before loses no reference (emitters hold none) and nobody observes anything;
every listener that is waiting or released denotes the shared state (so the broadcast theorems apply to it unchanged). -/
theorem c15_assign_only_retargets {s : State} (h : Reachable s) (l : Nat) (b : Bool) :
    (stepAssign s l b).1.chain = s.chain ∧ (stepAssign s l b).1.rel = s.rel ∧ (stepAssign s l b).1.handles = s.handles
    ∧ (stepAssign s l b).1.got = s.got ∧ (stepAssign s l b).1.gated = s.gated
    ∧ (∀ l', l' ∈ s.chain ∨ l' ∈ s.rel → (stepAssign s l b).1.conn l' = true) := by
  have hi := reachable_inv h
  unfold stepAssign
  split
  next hl =>
    refine ⟨rfl, rfl, rfl, rfl, rfl, ?_⟩
    intro l' hm
    have e : l' ≠ l := by
      intro e; subst e
      rcases hm with hm | hm
      · exact hi.disj_cg _ hm hl
      · exact hi.disj_rg _ hm hl
    dsimp only
    rw [upd_other _ _ e]
    rcases hm with hm | hm
    · exact hi.chain_conn _ hm
    · exact hi.rel_conn _ hm
  next =>
    refine ⟨rfl, rfl, rfl, rfl, rfl, ?_⟩
    intro l' hm
    rcases hm with hm | hm
    · exact hi.chain_conn _ hm
    · exact hi.rel_conn _ hm

/-- …and what the assigned-to emitter denotes afterwards decides the listener's next `co_await`: an emitter assigned
from a connected one subscribes (while the signal is connected), one assigned from an emitter without state fails at
once with the cancellation and is not parked. -/
theorem c15_assign_then_await {s : State} (h : Reachable s) (l : Nat) (hl : l ∈ s.gated) :
    (s.handles ≠ 0 → l ∈ (stepWake (stepAssign s l true).1 l).1.chain) ∧
    ((stepWake (stepAssign s l false).1 l).1.got l = s.got l ++ [Out.canceled]
      ∧ l ∉ (stepWake (stepAssign s l false).1 l).1.chain ∧ l ∉ (stepWake (stepAssign s l false).1 l).1.gated) := by
  have hi := reachable_inv h
  have hme : l ∉ s.gated.erase l := fun hh => ((List.Nodup.mem_erase_iff hi.gated_nodup).mp hh).1 rfl
  have hc : l ∉ s.chain := fun hc => hi.disj_cg _ hc hl
  refine ⟨fun h0 => ?_, ?_⟩
  · simp [stepAssign, stepWake, await, reawait, hl, h0]
  · simp [stepAssign, stepWake, await, cancelNow, hl, hme, hc]

/-- Disconnect (1), every history: once the last handle is gone nobody is parked in the chain — every callback
has been released (by `c15_callbacks`) and every coroutine listener is in a suspend point, busy elsewhere, or finished. -/
theorem c15_disconnect_nobody_parked {s : State} (h : Reachable s) (h0 : s.handles = 0) :
    s.chain = [] ∧ (∀ c, c < s.next → s.isCb c = true → (s.got c).getLast? = some Out.free) ∧
    (∀ l, l ∈ s.rel → readNow s = Out.canceled) := by
  refine ⟨(reachable_inv h).dead_chain h0, ?_, fun _ _ => by simp [readNow, h0]⟩
  intro c hc hk
  by_cases hcn : s.conn c = true
  · have := (c15_callbacks h c hc hk hcn).1
    have hm : c ∉ s.chain := by rw [(reachable_inv h).dead_chain h0]; simp
    rw [this]; simp [hm]
  · rw [(reachable_inv h).cb0 c hc hk (by simpa using hcn)]; rfl

/-- Disconnect (2), the step: destroying the last handle releases the whole chain: every waiting coroutine listener
goes into the destructor's suspend point and will read the cancellation, every callback is released, the chain is empty. -/
theorem c15_disconnect_wakes_all (s : State) (h1 : s.handles = 1) :
    (stepDrop s).1.chain = [] ∧ (stepDrop s).1.rel = s.rel ++ corosOf s ∧
    (∀ l, l ∈ s.chain → s.isCb l = false → l ∈ (stepDrop s).1.rel) ∧
    (∀ c, c ∈ s.chain → s.isCb c = true → (stepDrop s).1.got c = s.got c ++ [Out.free]) ∧
    readNow (stepDrop s).1 = Out.canceled ∧ (stepDrop s).1.handles = 0 := by
  refine ⟨by simp [stepDrop, h1], by simp [stepDrop, h1], ?_, ?_, by simp [stepDrop, h1, readNow], by simp [stepDrop, h1]⟩
  · intro l hl hk
    simp only [stepDrop, h1]
    exact mem_rel_coros.mpr (Or.inr ⟨hl, hk⟩)
  · intro c hc hk
    have : c ∈ cbsOf s := mem_cbsOf.mpr ⟨hc, hk⟩
    simp [stepDrop, h1, this]

/-- Disconnect (3): a listener resumed after disconnection observes `await_canceled_exception` and is finished
(it does not wait anywhere any more). -/
theorem c15_disconnect_resumes_canceled {s : State} (h : Reachable s) (h0 : s.handles = 0) (l : Nat) (hl : l ∈ s.rel) :
    (stepResume s l).1.got l = s.got l ++ [Out.canceled] ∧
    l ∉ (stepResume s l).1.chain ∧ l ∉ (stepResume s l).1.rel ∧ l ∉ (stepResume s l).1.gated := by
  have hi := reachable_inv h
  have hme : l ∉ s.rel.erase l := fun hh => ((List.Nodup.mem_erase_iff hi.rel_nodup).mp hh).1 rfl
  have hr : readNow s = Out.canceled := by simp [readNow, h0]
  have hc : l ∉ s.chain := by rw [hi.dead_chain h0]; simp
  have hg : l ∉ s.gated := hi.disj_rg _ hl
  simp [stepResume, hl, hr, hme, hc, hg]

/-- Awaiting a disconnected emitter fails immediately: a new listener, a gated listener that re-awaits, and a listener
on a never-connected emitter observe the cancellation at once and are not parked. -/
theorem c15_await_disconnected_fails {s : State} (h : Reachable s) (h0 : s.handles = 0) (sc : List Act) :
    ((stepListen s sc).1.got s.next = [Out.canceled] ∧ (stepListen s sc).1.chain = [] ∧ (stepListen s sc).1.rel = s.rel) ∧
    (∀ l, l ∈ s.gated → (stepWake s l).1.got l = s.got l ++ [Out.canceled] ∧ (stepWake s l).1.chain = []
        ∧ l ∉ (stepWake s l).1.gated ∧ (stepWake s l).1.rel = s.rel) := by
  have hi := reachable_inv h
  have hc := hi.dead_chain h0
  refine ⟨by simp [stepListen, reawait, fresh, h0, hc], ?_⟩
  intro l hl
  have hme : l ∉ s.gated.erase l := fun hh => ((List.Nodup.mem_erase_iff hi.gated_nodup).mp hh).1 rfl
  by_cases hcn : s.conn l = true
  · simp [stepWake, await, reawait, hl, h0, hc, hme, hcn]
  · simp [stepWake, await, cancelNow, hl, hc, hme, hcn]

/-- …and a never-connected (default constructed) emitter fails the same way in every state -/
theorem c15_await_unconnected_fails (s : State) (sc : List Act) :
    (stepListen0 s sc).1.got s.next = [Out.canceled] ∧ (stepListen0 s sc).1.chain = s.chain
    ∧ (stepListen0 s sc).1.rel = s.rel := by
  simp [stepListen0, cancelNow, fresh]

/-- Negative lemma — why `Flushed` is needed: three collector calls whose suspend points are not flushed in between
(emitting coroutine that discards them, or a thread that keeps them) make a purely re-awaiting listener observe only
the *third* value, once: the first is overwritten before it runs and the other two find the chain empty. The history
is reachable but not `Flushed`; `c15_each_once` still holds for it. (Replayed on the headers: corpus/c15_unflushed.txt.) -/
theorem c15_unflushed_can_miss :
    (run init [Op.listen [], Op.emit false 1, Op.emit false 2, Op.emit false 3, Op.resume 0]).got 0 = [Out.val 3]
    ∧ (run init [Op.listen [], Op.emit false 1, Op.emit false 2, Op.emit false 3, Op.resume 0]).expect 0 = [Out.val 1]
    ∧ (run init [Op.listen [], Op.emit false 1, Op.emit false 2, Op.emit false 3, Op.resume 0]).emitted = [1, 2, 3]
    ∧ ¬ Flushed init [Op.listen [], Op.emit false 1, Op.emit false 2, Op.emit false 3, Op.resume 0] := by decide

theorem reachable_step {s : State} (h : Reachable s) (op : Op) : Reachable (step s op).1 := by
  obtain ⟨ops, rfl⟩ := h
  exact ⟨ops ++ [op], by simp [run, List.foldl_append]⟩

/-! ### Failed emissions: a by-value collector call whose value cannot be constructed

`Op.emitFail` = `collector::operator()` by value (in-place arguments — the route of a const lvalue as well —, or rvalue) where the
constructor of `T` throws inside `_value_storage.emplace(...)`; the lvalue-reference overload constructs nothing and cannot fail.
Every theorem above quantifies over operation lists that contain any number of such calls anywhere: `c15_broadcast`,
`c15_no_miss`, `c15_callbacks`, `c15_each_once` say that `emitted` / `expect` — what listeners are owed — consist of the
*successful* calls only and that all of it is delivered; the theorems below say what the failed call itself does. -/

/-- **A failed emission delivers nothing and loses nobody** (the step, every state with a live handle): the exception reaches
the caller; the chain of waiting listeners (coroutines and callbacks), the listeners sitting in suspend points, the gated ones,
everything anybody has observed or is owed, the callbacks' budgets, the handle count and `_cur_val` are exactly what they
were; only `_value_storage` is now empty. -/
theorem c15_failed_emit_loses_nobody (s : State) (h0 : s.handles ≠ 0) :
    (stepEmitFail s).2 = Res.threw ∧
    (stepEmitFail s).1.chain = s.chain ∧ (stepEmitFail s).1.rel = s.rel ∧ (stepEmitFail s).1.gated = s.gated ∧
    (stepEmitFail s).1.got = s.got ∧ (stepEmitFail s).1.expect = s.expect ∧ (stepEmitFail s).1.emitted = s.emitted ∧
    (stepEmitFail s).1.left = s.left ∧ (stepEmitFail s).1.handles = s.handles ∧ (stepEmitFail s).1.cur = s.cur ∧
    (stepEmitFail s).1.stored = none ∧
    cbsOf (stepEmitFail s).1 = cbsOf s ∧ corosOf (stepEmitFail s).1 = corosOf s := by
  simp [stepEmitFail, h0, cbsOf, corosOf]

/-- any number of failed emissions in a row -/
def failN : Nat → State → State
  | 0, s => s
  | n + 1, s => failN n (stepEmitFail s).1

theorem failN_reachable {s : State} (h : Reachable s) (n : Nat) : Reachable (failN n s) := by
  induction n generalizing s with
  | zero => exact h
  | succ n ih => exact ih (reachable_step h Op.emitFail)

theorem failN_same (n : Nat) (s : State) (h0 : s.handles ≠ 0) :
    (failN n s).chain = s.chain ∧ (failN n s).rel = s.rel ∧ (failN n s).handles = s.handles ∧ (failN n s).got = s.got
    ∧ (failN n s).left = s.left ∧ (failN n s).isCb = s.isCb ∧ (failN n s).expect = s.expect
    ∧ (failN n s).emitted = s.emitted := by
  induction n generalizing s with
  | zero => simp [failN]
  | succ n ih =>
    have h1 : (stepEmitFail s).1.handles ≠ 0 := by simp [stepEmitFail, h0]
    have := ih (stepEmitFail s).1 h1
    simpa [failN, stepEmitFail, h0] using this

/-- **Across failed emissions** (every reachable state with nothing unflushed, any number `n` of failed calls in a row): the next
collector call that succeeds — of any flavour — finds everybody who was waiting before the failures: exactly the waiting
coroutines go into its suspend point, each reads `v`; every waiting callback is called with `v` (and released iff it answers
false); nobody else observes anything. -/
theorem c15_failed_emits_then_next_delivers {s : State} (h : Reachable s) (hrel : s.rel = []) (h0 : s.handles ≠ 0)
    (n : Nat) (r : Bool) (v : Nat) :
    (stepEmit (failN n s) r v).1.rel = corosOf s ∧ (stepEmit (failN n s) r v).2 = Res.num (corosOf s).length ∧
    readNow (stepEmit (failN n s) r v).1 = Out.val v ∧
    (∀ c, c ∈ cbsOf s → (stepEmit (failN n s) r v).1.got c = s.got c ++ Out.val v :: (if 0 < s.left c then [] else [Out.free])) ∧
    (∀ l, l ∉ s.chain → (stepEmit (failN n s) r v).1.got l = s.got l ∧ l ∉ (stepEmit (failN n s) r v).1.rel) := by
  obtain ⟨hc, hr, hh, hg, hl, hk, _, _⟩ := failN_same n s h0
  have hcb : cbsOf (failN n s) = cbsOf s := by simp [cbsOf, hc, hk]
  have hco : corosOf (failN n s) = corosOf s := by simp [corosOf, hc, hk]
  obtain ⟨a, _, b, c, d, e⟩ := c15_broadcast_step (failN_reachable h n) (by rw [hr, hrel]) (by rw [hh]; exact h0) r v
  rw [hco] at a b
  rw [hcb, hg, hl] at d
  rw [hc, hg] at e
  exact ⟨a, b, c, d, e⟩

/-- …and destroying the last handle after failed emissions wakes everybody who was waiting before them: every waiting
coroutine goes into the destructor's suspend point and reads the cancellation, every waiting callback is released. -/
theorem c15_failed_emits_then_disconnect (s : State) (h1 : s.handles = 1) (n : Nat) :
    (stepDrop (failN n s)).1.chain = [] ∧ (stepDrop (failN n s)).1.rel = s.rel ++ corosOf s ∧
    (∀ l, l ∈ s.chain → s.isCb l = false → l ∈ (stepDrop (failN n s)).1.rel) ∧
    (∀ c, c ∈ s.chain → s.isCb c = true → (stepDrop (failN n s)).1.got c = s.got c ++ [Out.free]) ∧
    readNow (stepDrop (failN n s)).1 = Out.canceled := by
  obtain ⟨hc, hr, hh, hg, _, hk, _, _⟩ := failN_same n s (by omega)
  have hco : corosOf (failN n s) = corosOf s := by simp [corosOf, hc, hk]
  obtain ⟨a, b, c, d, e, _⟩ := c15_disconnect_wakes_all (failN n s) (by rw [hh]; exact h1)
  rw [hr, hco] at b
  rw [hc, hk] at c d
  rw [hg] at d
  exact ⟨a, b, c, d, e⟩

/-- **The stale `_cur_val` is never read under the contract** (all flushed histories): after a failed emission `_cur_val` may
still point at `_value_storage`, which holds no object any more — but a listener that is about to run never reads a destroyed
value: what it reads is the last thing it is owed, a value that was really emitted or the cancellation. -/
theorem c15_failed_emit_stale_pointer_unread {s : State} (h : FlushedReachable s) (l : Nat) (hl : l ∈ s.rel) :
    readNow s ≠ Out.dead ∧ ∀ o, o ∈ observed s l → o ≠ Out.dead := by
  have hi := reachable_inv (flushed_reachable h)
  have hb := c15_broadcast h l (hi.rel_lt _ hl) (hi.rel_coro _ hl)
  have hx : ExpLive s := by
    obtain ⟨ops, _, rfl⟩ := h
    exact explive_run init ops explive_init
  have key : ∀ o, o ∈ observed s l → o ≠ Out.dead := by
    intro o ho e
    rw [hb, e] at ho
    exact hx l ho
  refine ⟨fun e => key (readNow s) ?_ e, key⟩
  simp [observed, hl]

/-- …every history, contract or not: no coroutine listener is ever *owed* a destroyed value, and callbacks never see one
(a callback reads inside the very collector call that stored the value: `c15_callbacks`). -/
theorem c15_never_owed_dead {s : State} (h : Reachable s) (l : Nat) : Out.dead ∉ s.expect l := by
  obtain ⟨ops, rfl⟩ := h
  exact explive_run init ops explive_init l

/-- Negative lemma — the contract matters here too: a listener released by a by-value call whose suspend point is still held
when the next by-value call fails is handed a reference to the copy that the failed `emplace` has destroyed (`_cur_val` is
stale).  Reachable, not `Flushed`; on the headers: corpus/c15_failed_emit.txt, second case (`vdead`). -/
theorem c15_unflushed_failed_emit_reads_destroyed :
    (run init [Op.listen [], Op.emit false 1, Op.emitFail, Op.resume 0]).got 0 = [Out.dead]
    ∧ ¬ Flushed init [Op.listen [], Op.emit false 1, Op.emitFail, Op.resume 0]
    ∧ (run init [Op.listen [], Op.emit true 1, Op.emitFail, Op.resume 0]).got 0 = [Out.val 1] := by decide

/-- non-vacuity: a flushed history with failed emissions before anything was stored, between by-value and by-reference
calls, twice in a row, with re-awaiting / gating / leaving coroutines and a callback waiting; everybody gets every value of the
successful calls, nothing from the failed ones, and the cancellation / release at the end -/
def demoFail : List Op :=
  [Op.listen [], Op.listen [Act.gate], Op.connect 2, Op.emitFail,
   Op.emit false 5, Op.resume 1, Op.resume 0,
   Op.emitFail, Op.emitFail, Op.wake 1,
   Op.emit true 6, Op.resume 0, Op.resume 1,
   Op.emitFail,
   Op.emit false 7, Op.resume 1, Op.resume 0,
   Op.emitFail, Op.dropHandle, Op.resume 0, Op.resume 1]

example : FlushedReachable (run init demoFail) := ⟨demoFail, by decide, rfl⟩
example : (run init demoFail).got 0 = [Out.val 5, Out.val 6, Out.val 7, Out.canceled]
    ∧ (run init demoFail).got 1 = [Out.val 5, Out.val 6, Out.val 7, Out.canceled]
    ∧ (run init demoFail).got 2 = [Out.val 5, Out.val 6, Out.val 7, Out.free]
    ∧ (run init demoFail).emitted = [5, 6, 7] ∧ (run init demoFail).pure 0 = true := by decide
/-- a reachable state right after a failed emission with two coroutines and a callback waiting and the stale pointer in place
(hypotheses of `c15_failed_emits_then_next_delivers` / `c15_failed_emit_loses_nobody`) -/
example : (run init (demoFail.take 8)).rel = [] ∧ (run init (demoFail.take 8)).handles = 1
    ∧ (run init (demoFail.take 8)).chain = [0, 2] ∧ (run init (demoFail.take 8)).gated = [1]
    ∧ (run init (demoFail.take 8)).cur = some Ptr.owned ∧ (run init (demoFail.take 8)).stored = none := by decide

/-- `hook_up` (signal.h:324-343): the first `co_await` creates the state, subscribes the coroutine and only THEN runs the
registration function.  So a collector call made by the registration function itself (a generator that replays its
current value on registration) — or by anyone who got the collector from it — finds the coroutine waiting: it is put
into the returned suspend point and reads that value when it runs (after its `await_suspend` has returned).
Stated for any reachable state with nothing unflushed; `hook_up` itself starts from `init`. -/
theorem c15_hookup_receives_registration_value {s : State} (h : Reachable s) (hrel : s.rel = []) (h0 : s.handles ≠ 0)
    (sc : List Act) (r : Bool) (v : Nat) :
    s.next ∈ (stepListen s sc).1.chain ∧
    s.next ∈ (stepEmit (stepListen s sc).1 r v).1.rel ∧
    readNow (stepEmit (stepListen s sc).1 r v).1 = Out.val v ∧
    (stepResume (stepEmit (stepListen s sc).1 r v).1 s.next).1.got s.next = [Out.val v] := by
  have h1 : Reachable (stepListen s sc).1 := reachable_step h (Op.listen sc)
  have h2 : Reachable (stepEmit (stepListen s sc).1 r v).1 := reachable_step h1 (Op.emit r v)
  have hc : s.next ∈ (stepListen s sc).1.chain := by simp [stepListen, reawait, fresh, h0]
  have hk : (stepListen s sc).1.isCb s.next = false := by simp [stepListen, reawait, fresh, h0]
  have hh : (stepListen s sc).1.handles ≠ 0 := by simp [stepListen, reawait, fresh, h0]
  have hr1 : (stepListen s sc).1.rel = [] := by simpa [stepListen, reawait, fresh, h0] using hrel
  have hg1 : (stepListen s sc).1.got s.next = [] := by simp [stepListen, reawait, fresh, h0]
  obtain ⟨hrel2, _, _, hread, _, _⟩ := c15_broadcast_step h1 hr1 hh r v
  have hm : s.next ∈ (stepEmit (stepListen s sc).1 r v).1.rel := by
    rw [hrel2]; exact mem_corosOf.mpr ⟨hc, hk⟩
  have hg2 : (stepEmit (stepListen s sc).1 r v).1.got s.next = [] := by
    have hn : s.next ∉ cbsOf (stepListen s sc).1 := fun hh' => by
      have := (mem_cbsOf.mp hh').2; rw [hk] at this; cases this
    simp only [stepEmit, hh, if_false, hn]
    exact hg1
  refine ⟨hc, hm, hread, ?_⟩
  rw [(c15_resume_reads_current h2 s.next hm).1, hg2, hread]
  rfl

/-- the hook-up history of the demo: registration replays 1, the generator then emits 2 and 3 and lets the collector go -/
example : (run init [Op.listen [], Op.emit false 1, Op.resume 0, Op.emit false 2, Op.resume 0, Op.emit false 3,
    Op.resume 0, Op.dropHandle, Op.resume 0]).got 0 = [Out.val 1, Out.val 2, Out.val 3, Out.canceled] := by decide

/-- Model fidelity: on every reachable state the closed forms used by `step` are exactly the loops of the code —
`resume_chain_lk` walking the detached chain awaiter by awaiter inside the collector call and inside `~state`. -/
theorem c15_model_is_the_loop {s : State} (h : Reachable s) (r : Bool) (v : Nat) :
    stepEmitLoop s r v = stepEmit s r v ∧ stepDropLoop s = stepDrop s :=
  ⟨stepEmit_eq_loop s (reachable_inv h).chain_nodup r v, stepDrop_eq_loop s (reachable_inv h).chain_nodup⟩

/-- Publication discipline (found by the baton harness, repaired in /repo 58a90f6): in the repaired `awaiter::subscribe`
nothing follows the CAS that publishes the awaiter, so under every schedule of any number of subscribing threads and
chain releases no destroyed awaiter is ever read. -/
theorem c15_subscribe_no_touch_after_publish (ops : List Pub.Op) (h : ∀ l, Pub.Op.post l ∉ ops) :
    (Pub.run ops).uaf = false :=
  Pub.foldl_uaf ops {} h rfl

/-- The pinned code evaluated `assert(_next != this)` after the publishing CAS: subscriber publishes, the collector's
thread releases the chain and the one-shot listener's awaiter dies, then the subscriber reads it
(heap-use-after-free on the headers with assertions enabled: corpus/c15t_subscribe_assert_uaf.txt). -/
theorem c15_asis_subscribe_uaf :
    (Pub.run [Pub.Op.cas 0, Pub.Op.release, Pub.Op.post 0]).uaf = true := by decide

/-- The pinned `signal::connect` (before `/repo` commit d8a7c3e "fix: signal::connect kept a reference to an lvalue callback
instead of owning it"; replayed on the headers in corpus/c15_connect_lvalue.txt): a callable with budget 2 is connected as an
lvalue and destroyed by its owner right after `connect` returned — the callback has been released (`free`) while its awaiter is
still waiting in the chain, and the next value is "delivered" by calling the destroyed callable (`free` is not its last event:
`c15_callbacks` fails).  The repaired code delivers 7 to the owned copy and releases it once, at disconnection. -/
theorem c15_asis_connect_lvalue_dangling :
    (runAsIs init [Op.connectL 2]).got 0 = [Out.free]
    ∧ 0 ∈ (runAsIs init [Op.connectL 2]).chain
    ∧ (runAsIs init [Op.connectL 2, Op.emit false 7]).got 0 = [Out.free, Out.val 7]
    ∧ 0 ∈ (runAsIs init [Op.connectL 2, Op.emit false 7]).chain
    ∧ (run init [Op.connectL 2, Op.emit false 7]).got 0 = [Out.val 7]
    ∧ (run init [Op.connectL 2, Op.emit false 7, Op.dropHandle]).got 0 = [Out.val 7, Out.free] := by decide

/-! ### non-vacuity: flushed histories with re-awaiting, gating and leaving listeners, callbacks, by-value and
by-reference calls, a held-then-flushed suspend point, and disconnection -/

def demo : List Op :=
  [Op.listen [], Op.listen [Act.gate], Op.connect 1, Op.listen [Act.exit], Op.addHandle,
   Op.emit false 5, Op.resume 3, Op.resume 1, Op.resume 0,
   Op.emit true 6, Op.resume 0,
   Op.wake 1, Op.dropHandle,
   Op.emit false 7, Op.resume 1, Op.resume 0,
   Op.dropHandle, Op.resume 0, Op.resume 1, Op.listen []]

example : FlushedReachable (run init demo) := ⟨demo, by decide, rfl⟩
example : (run init demo).pure 0 = true ∧ (run init demo).handles = 0 ∧ (run init demo).emitted = [5, 6, 7] := by decide
example : (run init demo).got 0 = [Out.val 5, Out.val 6, Out.val 7, Out.canceled]
    ∧ (run init demo).got 1 = [Out.val 5, Out.val 7, Out.canceled]
    ∧ (run init demo).got 2 = [Out.val 5, Out.val 6, Out.free]
    ∧ (run init demo).got 3 = [Out.val 5]
    ∧ (run init demo).got 4 = [Out.canceled] := by decide
/-- a reachable state with nothing unflushed, a live handle, waiting coroutines and a waiting callback (`c15_broadcast_step`) -/
example : (run init (demo.take 5)).rel = [] ∧ (run init (demo.take 5)).handles = 2
    ∧ corosOf (run init (demo.take 5)) = [3, 1, 0] ∧ cbsOf (run init (demo.take 5)) = [2] := by decide
/-- a reachable state with the last handle about to go and two parked listeners (`c15_disconnect_wakes_all`) -/
example : (run init (demo.take 16)).handles = 1 ∧ (run init (demo.take 16)).chain = [0, 1] := by decide

/-- reachable states that use the new steps: a listener is gated, its emitter is assigned from an emitter without state
(`assign 0 false`), it re-awaits and is cancelled at once while listener 1 keeps receiving; a callback connected through a
moved-from signal (`connect0`) is released at once; assigning a connected emitter again (`assign 2 true`) re-subscribes -/
def demoAssign : List Op :=
  [Op.listen [Act.gate], Op.listen [], Op.listen [Act.gate, Act.gate], Op.connect0 3,
   Op.emit false 1, Op.resume 2, Op.resume 1, Op.resume 0,
   Op.assign 0 false, Op.wake 0, Op.assign 2 false, Op.assign 2 true, Op.wake 2,
   Op.emit true 2, Op.resume 2, Op.resume 1]

example : FlushedReachable (run init demoAssign) := ⟨demoAssign, by decide, rfl⟩
example : (run init demoAssign).got 0 = [Out.val 1, Out.canceled]
    ∧ (run init demoAssign).got 1 = [Out.val 1, Out.val 2]
    ∧ (run init demoAssign).got 2 = [Out.val 1, Out.val 2]
    ∧ (run init demoAssign).got 3 = [Out.free]
    ∧ (run init demoAssign).conn 0 = false ∧ (run init demoAssign).conn 2 = true
    ∧ (run init demoAssign).chain = [1] ∧ (run init demoAssign).gated = [2] := by decide

/-- a reachable (flushed) history with a callback connected as an lvalue (`connectL`, budget 1): it gets the two values emitted
while it is connected, answers false to the second and is released exactly once -/
example : FlushedReachable (run init [Op.listen [], Op.connectL 1, Op.emit false 4, Op.resume 0, Op.emit true 5, Op.resume 0,
      Op.emit false 6, Op.resume 0]) := ⟨_, by decide, rfl⟩
example : (run init [Op.listen [], Op.connectL 1, Op.emit false 4, Op.resume 0, Op.emit true 5, Op.resume 0,
      Op.emit false 6, Op.resume 0]).got 1 = [Out.val 4, Out.val 5, Out.free] := by decide

end Cocls.Signal
