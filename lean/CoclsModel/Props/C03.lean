import CoclsModel.Clock
import CoclsModel.LockDisc
import CoclsModel.Generated.AtomicSites
import CoclsModel.Generated.LockTables
import CoclsModel.Generated.SharedAccess
import CoclsModel.LockProg
import CoclsModel.Generated.LockProgs
import CoclsModel.ChainClockProofs
import CoclsModel.MutexClockProofs
/-!
# C03 — cross-thread operations are data-race free and publish results safely

Three kinds of obligations, all over tables that `extract/` regenerates from `/repo`'s headers on every run:

1. **Memory orders of the lock-free protocols.** Every publication protocol of the library is an instance of release/acquire
   message passing (`Clock.lean`: C++20 release sequences continued by RMWs of any thread, acquire fences, stale reads,
   any number of threads, every schedule). `protocols` names, for each protocol, the publishing and the observing
   operation by (class, function, kind, n-th); `ordersOf` looks the orders up in the extracted table; `Sufficient` is the
   decidable conjunction "every protocol's orders are sufficient"; `mp_safe_iff` (Clock.lean) shows that condition is
   exactly necessary and sufficient for race freedom of the machine.
2. **Lock discipline of the lock-based services** (`LockDisc.lean`): every access to a mutex-guarded field of
   `queue`, `limited_queue`, `thread_pool`, `scheduler`, `publisher::queue` happens inside a lock region (or in a
   constructor/destructor); `lock_discipline_safe` is what that buys.
3. **Position facts** about plain accesses to published nodes (no touch after the publishing CAS, read-before-resume).
-/
namespace Cocls.C03
open Cocls Cocls.Clock

/-- (class, function, kind, n-th such operation outside assertions) -/
structure SiteRef where
  cls : String
  fn : String
  kind : OpKind
  nth : Nat := 0
  deriving Repr, DecidableEq

def findSite (tbl : List Site) (r : SiteRef) : Option Site :=
  (tbl.filter (fun s => s.cls == r.cls && s.fn == r.fn && s.kind == r.kind && !s.inAssert))[r.nth]?

structure Proto where
  name : String
  pub : SiteRef                 -- operation that publishes (store / RMW)
  obs : SiteRef                 -- operation through which another thread learns about it
  obsUsesFailureOrder : Bool := false   -- the observation is a *failing* CAS (its failure order counts)
  fence : Option SiteRef := none        -- acquire fence executed after the observation, before the data is touched
  mid : Option SiteRef := none          -- RMWs other threads may perform in between (release-sequence bystanders)
  deriving Repr

def protocols : List Proto := [
  -- the result of a future: future::set; resolve() exchange  →  ready() load
  { name := "payload via ready()",
    pub := ⟨"awaiter", "resume_chain_set_ready", OpKind.xchg, 0⟩, obs := ⟨"future_common", "ready", OpKind.load, 0⟩ },
  -- … → refused subscribe (failing CAS sees the ready marker) + acquire fence
  { name := "payload via refused subscribe",
    pub := ⟨"awaiter", "resume_chain_set_ready", OpKind.xchg, 0⟩, obs := ⟨"awaiter", "subscribe_check_ready", OpKind.cas, 0⟩,
    obsUsesFailureOrder := true, fence := some ⟨"awaiter", "subscribe_check_ready", OpKind.fence, 0⟩ },
  -- … → blocking waiter: flag store by the walker → flag.wait
  { name := "payload / lock hand-over via sync_awaiter flag",
    pub := ⟨"sync_awaiter", "wakeup", OpKind.store, 0⟩, obs := ⟨"co_awaiter", "sync", OpKind.wait, 0⟩ },
  { name := "payload via sync_awaiter flag (force_sync)",
    pub := ⟨"sync_awaiter", "wakeup", OpKind.store, 0⟩, obs := ⟨"co_awaiter", "force_sync", OpKind.wait, 0⟩ },
  -- a waiter's node (handle, resume function, _next): subscribe CAS → resolver's exchange, other waiters push in between
  { name := "awaiter node via future chain",
    pub := ⟨"awaiter", "subscribe_check_ready", OpKind.cas, 0⟩, obs := ⟨"awaiter", "resume_chain_set_ready", OpKind.xchg, 0⟩,
    mid := some ⟨"awaiter", "subscribe_check_ready", OpKind.cas, 0⟩ },
  { name := "awaiter node via signal chain",
    pub := ⟨"awaiter", "subscribe", OpKind.cas, 0⟩, obs := ⟨"awaiter", "resume_chain", OpKind.xchg, 0⟩,
    mid := some ⟨"awaiter", "subscribe", OpKind.cas, 0⟩ },
  -- coroutine mutex: data of the critical section, unlock fast path → try_lock / ready()
  { name := "mutex unlock → ready()",
    pub := ⟨"mutex", "unlock", OpKind.cas, 0⟩, obs := ⟨"mutex", "ready", OpKind.cas, 0⟩ },
  -- … → subscriber that finds the mutex free: its publishing CAS continues the release sequence, build_queue acquires
  { name := "mutex unlock → subscribe(found free) → build_queue",
    pub := ⟨"mutex", "unlock", OpKind.cas, 0⟩, obs := ⟨"mutex", "build_queue", OpKind.xchg, 0⟩,
    mid := some ⟨"mutex", "subscribe", OpKind.cas, 0⟩ },
  -- request node: subscribe CAS → owner's build_queue
  { name := "mutex request node",
    pub := ⟨"mutex", "subscribe", OpKind.cas, 0⟩, obs := ⟨"mutex", "build_queue", OpKind.xchg, 0⟩,
    mid := some ⟨"mutex", "subscribe", OpKind.cas, 0⟩ },
  -- thread-safe reusable storage: the shared block and _ptr/_capacity
  { name := "reusable_storage_mtsafe block hand-over",
    pub := ⟨"reusable_storage_mtsafe", "dealloc", OpKind.store, 0⟩, obs := ⟨"reusable_storage_mtsafe", "alloc", OpKind.xchg, 0⟩ },
  -- … given back by `alloc` itself when growing the block threw (/repo fix a532e23): the emptied `_ptr/_capacity` are handed to the next claimant
  { name := "reusable_storage_mtsafe block hand-over after a failed growth",
    pub := ⟨"reusable_storage_mtsafe", "alloc", OpKind.store, 0⟩, obs := ⟨"reusable_storage_mtsafe", "alloc", OpKind.xchg, 0⟩ },
  -- generator, synchronous access to an asynchronous body
  { name := "generator result via _block",
    pub := ⟨"generator::promise_type", "unblock_sync", OpKind.store, 0⟩, obs := ⟨"generator::promise_type", "next_sync", OpKind.wait, 0⟩ }
]

/-- orders of a protocol according to the extracted table; `none` when a named site no longer exists -/
def ordersOf (tbl : List Site) (p : Proto) : Option MPOrders :=
  match findSite tbl p.pub, findSite tbl p.obs with
  | some pb, some ob =>
    let fenceOk : Option Bool := match p.fence with
      | none => some false
      | some f => (findSite tbl f).map (fun s => s.succ.isAcq)
    let midOrd : Option Order := match p.mid with
      | none => some Order.relaxed
      | some m => (findSite tbl m).map (·.succ)
    match fenceOk, midOrd with
    | some fo, some mo =>
      some { pub := pb.succ, obs := if p.obsUsesFailureOrder then ob.fail else ob.succ, obsFence := fo, mid := mo }
    | _, _ => none
  | _, _ => none

def protoOk (tbl : List Site) (p : Proto) : Bool :=
  match ordersOf tbl p with
  | some o => o.sufficient
  | none => false

/-- every protocol's publishing operation releases and its observation acquires (directly or by its fence) -/
def Sufficient (tbl : List Site) : Bool := protocols.all (protoOk tbl)

/-- no lock-free cross-thread operation uses an order the machine does not model as at least relaxed atomics:
every extracted site that is not inside an assertion is an atomic operation by construction; consume is not used -/
def noConsume (tbl : List Site) : Bool := tbl.all (fun s => s.succ != Order.consume && s.fail != Order.consume)

/-- **Obligation 1 on the current source**: the memory orders written in /repo are sufficient. -/
theorem c03_current_orders : Sufficient Generated.atomicSites = true := by decide

theorem c03_no_consume : noConsume Generated.atomicSites = true := by decide

/-- What `Sufficient` buys: for every protocol, on the happens-before machine instantiated with the orders found in the
table, no execution (any number of threads, any schedule, any admissible stale read, any bystander RMWs) races on the
published data. -/
theorem c03_publish_safe (tbl : List Site) (h : Sufficient tbl = true) :
    ∀ p ∈ protocols, ∃ o, ordersOf tbl p = some o ∧
      ∀ (cfg : Cfg) (sched : List (Nat × Nat)), (run o cfg sched).raced = false := by
  intro p hp
  have hp' : protoOk tbl p = true := by
    unfold Sufficient at h
    exact List.all_eq_true.mp h p hp
  unfold protoOk at hp'
  cases ho : ordersOf tbl p with
  | none => simp [ho] at hp'
  | some o =>
    simp only [ho] at hp'
    exact ⟨o, rfl, mp_safe_of_sufficient o hp'⟩

/-- instantiated with the current tree -/
theorem c03_current_safe :
    ∀ p ∈ protocols, ∃ o, ordersOf Generated.atomicSites p = some o ∧
      ∀ (cfg : Cfg) (sched : List (Nat × Nat)), (run o cfg sched).raced = false :=
  c03_publish_safe _ c03_current_orders

/-- a thread that learns "ready" has the publisher's write of the data in its clock (safe publication) -/
theorem c03_ready_sees_payload :
    ∀ p ∈ protocols, ∃ o, ordersOf Generated.atomicSites p = some o ∧
      ∀ (cfg : Cfg) (sched : List (Nat × Nat)) (t : Nat), t ≠ cfg.pubTid → (run o cfg sched).pc t = Pc.acc →
        (run o cfg sched).wr.1 = cfg.pubTid ∧ 1 ≤ (run o cfg sched).wr.2 ∧
        (run o cfg sched).wr.2 ≤ (run o cfg sched).clk t cfg.pubTid := by
  intro p hp
  obtain ⟨o, ho, _⟩ := c03_current_safe p hp
  have hs : o.sufficient = true := by
    have hp' : protoOk Generated.atomicSites p = true := by
      have h := c03_current_orders
      unfold Sufficient at h
      exact List.all_eq_true.mp h p hp
    unfold protoOk at hp'
    simpa [ho] using hp'
  simp only [MPOrders.sufficient, Bool.and_eq_true, Bool.or_eq_true] at hs
  exact ⟨o, ho, fun cfg sched t ht hpc => mp_sees_payload o hs.1 hs.2 cfg sched t ht hpc⟩

/-- the requirement is not gratuitous: a protocol whose orders are not sufficient has a racing execution -/
theorem c03_orders_necessary (o : MPOrders) (h : o.sufficient = false) :
    ∃ (cfg : Cfg) (sched : List (Nat × Nat)), (run o cfg sched).raced = true := by
  apply Classical.byContradiction
  intro hne
  have hall : ∀ (cfg : Cfg) (sched : List (Nat × Nat)), (run o cfg sched).raced = false := by
    intro cfg sched
    cases hr : (run o cfg sched).raced with
    | false => rfl
    | true => exact absurd ⟨cfg, sched, hr⟩ hne
  have := (mp_safe_iff o).mp hall
  simp [MPOrders.sufficient, this.1] at h
  rcases this.2 with h2 | h2 <;> simp [h2] at h

/-- the pinned commit exchanged the ready marker with `acquire` only: with that order the table obligation fails -/
theorem c03_pinned_orders_insufficient :
    ({ pub := Order.acquire, obs := Order.acquire, obsFence := false, mid := Order.relaxed } : MPOrders).sufficient = false := by
  decide

/-! ## Obligation 2: lock discipline -/

def disciplined (tbl : List GuardedAccess) : Bool := tbl.all (fun a => a.locked || a.ctorDtor)

/-- every access to a mutex-guarded field of queue / limited_queue / thread_pool / scheduler / publisher::queue (and every
call of a `*_lk` helper) is inside a lock region of the object's mutex, or in a constructor/destructor -/
theorem c03_lock_tables : disciplined Generated.guardedAccesses = true := by decide

/-- the classes the table must cover are all present (a class that vanished from the table would make the
obligation vacuous) -/
def coversClasses (tbl : List GuardedAccess) : Bool :=
  ["queue", "limited_queue", "thread_pool", "scheduler", "publisher::queue"].all (fun c => tbl.any (fun a => a.cls == c))

theorem c03_lock_tables_cover : coversClasses Generated.guardedAccesses = true := by decide

/-- no pointer into lock-guarded data can outlive the lock region it was obtained in: nowhere in the guarded classes is the address of
a guarded field (or of an element of a guarded container) taken, and no lock-held helper / locking member function returns a pointer or
a reference — results leave the lock region by value only.  (Seeded change r5-c16-copy-value-outside-lock: `get_value_lk` returned
`&_q[relpos]` and `get_value` copied `*v` after the `lock_guard` was gone, while `push_lk` may trim exactly that element.)  The accesses
the lock tables classify are accesses to the *fields*; this closes the gap for accesses through pointers derived from them. -/
theorem c03_guarded_data_does_not_escape : Generated.guardedEscapes = [] := by decide

/-- what lock discipline buys, for any number of client threads calling any sequence of disciplined member functions -/
theorem c03_lock_discipline_safe (progs : Nat → List LockDisc.Act) (h : ∀ t, LockDisc.Disciplined (progs t) = true) :
    ∀ sched : List Nat, (LockDisc.run progs sched).raced = false :=
  LockDisc.lock_discipline_safe progs h

/-! ## Obligation 3: position facts about published nodes -/

/-- positions (in source order) of the rows of one function whose field is in `fields` -/
def positions (tbl : List PlainAccess) (cls fn : String) (fields : List String) : List Nat :=
  (tbl.filter (fun a => a.cls == cls && a.fn == fn && !a.inAssert && fields.contains a.field)).map (·.pos)

def allBefore (xs ys : List Nat) : Bool := xs.all (fun x => ys.all (fun y => x < y))

/-- `mutex::subscribe` never touches a request node (`_next` of anything) after the CAS that publishes it — the defect
of the pinned commit: every such access precedes the first synchronising operation of the function -/
def mutexNoTouchAfterPublish (tbl : List PlainAccess) : Bool :=
  (tbl.filter (fun a => a.cls == "mutex" && a.fn == "subscribe" && !a.inAssert && a.field == "_next")).all (fun a => a.nOps == 0)

theorem c03_mutex_no_touch_after_publish : mutexNoTouchAfterPublish Generated.plainAccesses = true := by decide

/-- `awaiter::subscribe` / `subscribe_check_ready` do not touch the awaiter (`_next`, assertions included) after the CAS that
publishes it; accesses in the body of `while (!cas)` run only after a *failed* exchange and count as before it -/
def awaiterNoTouchAfterPublish (tbl : List PlainAccess) : Bool :=
  (tbl.filter (fun a => a.cls == "awaiter" && (a.fn == "subscribe" || a.fn == "subscribe_check_ready") && a.field == "_next")).all
    (fun a => a.nOps == 0)

theorem c03_awaiter_no_touch_after_publish : awaiterNoTouchAfterPublish Generated.plainAccesses = true := by decide

/-- positions of the rows of one function with the given base object ("" = this) and field -/
def positionsOf (tbl : List PlainAccess) (cls fn base field : String) (wr : Bool) : List Nat :=
  (tbl.filter (fun a => a.cls == cls && a.fn == fn && !a.inAssert && a.base == base && a.field == field && a.write == wr)).map (·.pos)

def anyBefore (xs ys : List Nat) : Bool := xs.any (fun x => ys.all (fun y => x < y))

/-- `shared_future`'s resolve tracer takes its keep-alive reference (`this->_ptr = ptr`) BEFORE it publishes itself by subscribing
(afterwards the resolver's callback writes the same non-atomic `shared_ptr` from another thread) -/
theorem c03_tracer_ref_before_publish :
    anyBefore (positionsOf Generated.plainAccesses "resolve_cb" "charge" "" "_ptr" true)
              (positions Generated.plainAccesses "resolve_cb" "charge" ["call:subscribe"]) = true
    ∧ (positions Generated.plainAccesses "resolve_cb" "charge" ["call:subscribe"]).length = 1 := by decide

/-- `reusable_storage_mtsafe::dealloc` hands the shared block back by its release store of `_busy` and writes nothing afterwards —
neither the storage's own fields nor anything through a pointer into the block (`*s = …`): from that store on another thread may
already have a live frame there (seeded change r5-c19-dealloc-clears-trailer-after-release) -/
def mtsafeDeallocWritesBeforeRelease (tbl : List PlainAccess) : Bool :=
  (tbl.filter (fun a => a.cls == "reusable_storage_mtsafe" && a.fn == "dealloc" && !a.inAssert && a.write)).all (fun a => a.nOps == 0)

theorem c03_mtsafe_dealloc_no_write_after_release : mtsafeDeallocWritesBeforeRelease Generated.plainAccesses = true := by decide

/-- …and `alloc` writes into the block (the trailer `*s = owner`) only after it has acquired `_busy` (non-vacuity of the pointer-write rows) -/
theorem c03_mtsafe_alloc_writes_after_acquire :
    (Generated.plainAccesses.filter (fun a => a.cls == "reusable_storage_mtsafe" && a.fn == "alloc" && a.write && a.field == "*s")).all (fun a => a.nOps ≥ 1) = true
    ∧ (Generated.plainAccesses.filter (fun a => a.cls == "reusable_storage_mtsafe" && a.fn == "alloc" && a.write && a.field == "*s")).length ≥ 1 := by decide

/-- `scheduler::start_in(thread_pool&)` stores the pool pointer into the global state BEFORE it hands the worker coroutine to the pool
(`pool.resume(...)`): the enqueue under the pool's mutex is the only thing that orders the starting thread before the worker, whose
first statement reads `_glob_state->_pool` (seeded change r5-c03-start-in-sets-pool-after-handover; this is the fact the exemption of
`_glob_state` from the lock-guarded fields of `scheduler` rests on: set up before the worker exists) -/
theorem c03_start_in_sets_pool_before_handover :
    allBefore (positionsOf Generated.plainAccesses "scheduler" "start_in" "operator->" "_pool" true)
              (positions Generated.plainAccesses "scheduler" "start_in" ["call:resume"]) = true
    ∧ (positionsOf Generated.plainAccesses "scheduler" "start_in" "operator->" "_pool" true).length = 1
    ∧ (positions Generated.plainAccesses "scheduler" "start_in" ["call:resume"]).length = 1 := by decide

/-- the RELAXED hint loads of a future (`pending()`, `initialized()`) are called, outside assertions, only where no access to the
result depends on the answer: `future::value()` after it has found no value (to tell "not ready" from "canceled"), and `shared_future`
deciding whether to charge its tracer before the state is shared.  Anything that gates a read of the result must go through the
acquire load `ready()` (seeded change r5-c03-has-value-polls-pending: `awaitable_bool` asked `pending()` and then read `_state`) -/
def hintCallAllowed (c : String × String × String) : Bool :=
  c == ("future", "value", "pending") || c == ("shared_future", "operator<<", "pending")
  || c == ("shared_future", "shared_future<T, Base>", "pending")

theorem c03_hint_loads_gate_nothing : Generated.hintCalls.all hintCallAllowed = true := by decide

/-- the walker reads and clears a node's `_next` before it resumes that node (after which the node may be gone) -/
theorem c03_walk_reads_next_before_resume :
    allBefore (positions Generated.plainAccesses "awaiter" "resume_chain_lk" ["_next"])
              (positions Generated.plainAccesses "awaiter" "resume_chain_lk" ["call:resume"]) = true
    ∧ (positions Generated.plainAccesses "awaiter" "resume_chain_lk" ["call:resume"]).length = 1
    ∧ (positions Generated.plainAccesses "awaiter" "resume_chain_lk" ["_next"]).length ≥ 2 := by decide

/-- `mutex::unlock` unlinks the new owner before resuming it -/
theorem c03_unlock_unlinks_before_resume :
    allBefore (positions Generated.plainAccesses "mutex" "unlock" ["_next", "_queue"])
              (positions Generated.plainAccesses "mutex" "unlock" ["call:fn"]) = true
    ∧ (positions Generated.plainAccesses "mutex" "unlock" ["call:fn"]).length = 1 := by decide

/-- `mutex::build_queue` looks at the owner-private list `_queue` (assertions included) only after its acquire exchange on
`_requests`.  A requester whose publishing CAS in `subscribe()` found the mutex unlocked is ordered after the previous owners
*only* by that exchange (its own CAS is release-only); the pinned code asserted on `_queue` before it (data race with the last
owner's writes in debug builds, repaired by a4116c4) -/
def buildQueueAcquiresFirst (tbl : List PlainAccess) : Bool :=
  let rows := tbl.filter (fun a => a.cls == "mutex" && a.fn == "build_queue" && a.base == "" && a.field == "_queue")
  rows.all (fun a => a.nOps ≥ 1) && rows.length ≥ 2

theorem c03_build_queue_acquires_before_queue : buildQueueAcquiresFirst Generated.plainAccesses = true := by decide

/-- the as-is shape of the pinned commit (assert first) fails the obligation -/
example : buildQueueAcquiresFirst
    [{ cls := "mutex", fn := "build_queue", base := "", field := "_queue", write := false, pos := 0, nOps := 0, inAssert := true },
     { cls := "mutex", fn := "build_queue", base := "", field := "_queue", write := true, pos := 4, nOps := 1, inAssert := false }] = false := by decide

/-- split the rows of one function into its overloads (the position counter restarts at 0 for every body) -/
def overloadSegments (rows : List PlainAccess) : List (List PlainAccess) :=
  rows.foldr (fun a acc =>
    match acc with
    | [] => [[a]]
    | seg :: rest => if (seg.head?.map (·.pos)).getD 0 == 0 then [a] :: seg :: rest else (a :: seg) :: rest) []

/-- in every overload of `future::set` the payload (`_value`, `_exception`, `_ptr_value`) is written before `_state` says that
there is one: a constructor that throws must leave a future that still says "no value" (the catch path of `promise::set_value`,
fix 185ea23, resolves it as such), and a thread that learns of readiness never finds `State::value` over raw storage -/
def setConstructsBeforeState (tbl : List PlainAccess) : Bool :=
  let segs := overloadSegments (tbl.filter (fun a => a.cls == "future" && a.fn == "set"))
  segs.length ≥ 2 &&
  segs.all (fun seg =>
    let pay := (seg.filter (fun a => !a.inAssert && ["_value", "_exception", "_ptr_value"].contains a.field)).map (·.pos)
    let st := (seg.filter (fun a => !a.inAssert && a.field == "_state" && a.write)).map (·.pos)
    pay.length ≥ 1 && st.length == 1 && allBefore pay st)

theorem c03_set_constructs_before_state : setConstructsBeforeState Generated.plainAccesses = true := by decide

/-- the shape "state first, construction afterwards" is rejected -/
example : setConstructsBeforeState
    [{ cls := "future", fn := "set", base := "", field := "_state", write := false, pos := 0, nOps := 0, inAssert := true },
     { cls := "future", fn := "set", base := "", field := "_state", write := true, pos := 1, nOps := 0, inAssert := false },
     { cls := "future", fn := "set", base := "", field := "_value", write := false, pos := 2, nOps := 0, inAssert := false },
     { cls := "future", fn := "set", base := "", field := "_state", write := false, pos := 0, nOps := 0, inAssert := true },
     { cls := "future", fn := "set", base := "", field := "_exception", write := false, pos := 1, nOps := 0, inAssert := false },
     { cls := "future", fn := "set", base := "", field := "_state", write := true, pos := 2, nOps := 0, inAssert := false }] = false := by decide

/-- an async coroutine's frame is destroyed only after its future has been resolved -/
theorem c03_final_resolve_before_destroy :
    allBefore (positions Generated.plainAccesses "async_promise::final_awaiter" "await_suspend" ["call:resolve"])
              (positions Generated.plainAccesses "async_promise::final_awaiter" "await_suspend" ["call:destroy"]) = true
    ∧ (positions Generated.plainAccesses "async_promise::final_awaiter" "await_suspend" ["call:destroy"]).length = 1
    ∧ (positions Generated.plainAccesses "async_promise::final_awaiter" "await_suspend" ["call:resolve"]).length ≥ 1 := by decide


/-! ## Completeness of the tie and atomicity shapes -/

/-- sites that take part in no publication (initialisation, same-thread hand-shakes, notifications, claims of an owner token that
carry no data): (class, function, kind, object) -/
def otherSites : List (String × String × OpKind × String) := [
  ("sync_awaiter", "wait_sync", OpKind.wait, "flag"), ("sync_awaiter", "wakeup", OpKind.notify, "flag"),
  ("future_common", "initialized", OpKind.load, "_awaiter"), ("future_common", "pending", OpKind.load, "_awaiter"),
  ("future", "get_promise", OpKind.xchg, "_awaiter"),
  -- `future_with_cb::operator<<` (/repo fix edcba93) takes its own registration out of the still private future (no promise exists
  -- yet: the assert next to it demands that the slot holds `this`) before the future is re-created in place
  ("future_with_cb", "operator<<", OpKind.xchg, "_awaiter"),
  ("promise", "~promise<T>", OpKind.load, "_owner"), ("promise", "claim", OpKind.xchg, "_owner"),
  -- `promise::operator=(promise&&)`: `_owner = other.claim()` — the operator spelling of a seq_cst store (the translator did not see
  -- operator spellings of atomic operations until the false-alarm round, DESIGN §15).  The assigned-to promise has just given up its
  -- future (`set_value(drop)` claimed it) and receives the token the source's `claim()` exchange took out: an owner token, no data
  ("promise", "operator=", OpKind.store, "_owner"),
  -- implicit conversions of the atomic `_owner` (seq_cst loads) in `operator bool`, `operator!` and `get_id`: a validity test / the
  -- identity of the owner token; whoever acts on the answer still has to win `claim()`, nothing of the result is reached through them
  ("promise", "operator bool", OpKind.load, "_owner"), ("promise", "operator!", OpKind.load, "_owner"),
  ("promise", "get_id", OpKind.load, "_owner"),
  ("async::co_awaiter", "await_ready", OpKind.load, "_awaiter"), ("async::co_awaiter", "await_suspend", OpKind.store, "_awaiter"),
  ("generator::promise_type", "unblock_sync", OpKind.notify, "_block"), ("generator::promise_type", "next_sync", OpKind.store, "_block"),
  -- the learned frame size of `scheduler::start` (a hint that only sizes an `alloca`; every call works on its own copy, nothing is
  -- published through it, so relaxed suffices).  A plain member until /repo fix 549691b: concurrent first calls of `start()` raced.
  ("scheduler", "start", OpKind.load, "_elide_state"), ("scheduler", "start", OpKind.store, "_elide_state")
]

def siteInProtocols (s : Site) : Bool :=
  protocols.any (fun p =>
    let hit (r : SiteRef) : Bool := r.cls == s.cls && r.fn == s.fn && r.kind == s.kind
    hit p.pub || hit p.obs || (match p.fence with | some f => hit f | none => false) || (match p.mid with | some m => hit m | none => false))

/-- every synchronising operation found in the source is either part of a listed protocol or a listed non-publishing site:
a NEW atomic operation (e.g. an exchange split into load + store, a new flag) is not silently outside the analysis -/
def sitesAccounted (tbl : List Site) : Bool :=
  tbl.all (fun s => s.inAssert || siteInProtocols s ||
    otherSites.any (fun o => o.1 == s.cls && o.2.1 == s.fn && o.2.2.1 == s.kind && o.2.2.2 == s.obj))

theorem c03_sites_accounted : sitesAccounted Generated.atomicSites = true := by decide

/-- the non-assert synchronising operations of one function, as (kind, object) in source order -/
def shapeOf (tbl : List Site) (cls fn : String) : List (OpKind × String) :=
  (tbl.filter (fun s => s.cls == cls && s.fn == fn && !s.inAssert)).map (fun s => (s.kind, s.obj))

/-- the claim / detach / test-and-set steps are single read-modify-write operations (not a load followed by a store) -/
theorem c03_rmw_shapes :
    shapeOf Generated.atomicSites "promise" "claim" = [(OpKind.xchg, "_owner")]
    ∧ shapeOf Generated.atomicSites "awaiter" "resume_chain" = [(OpKind.xchg, "chain")]
    ∧ shapeOf Generated.atomicSites "awaiter" "resume_chain_set_ready" = [(OpKind.xchg, "chain")]
    ∧ shapeOf Generated.atomicSites "awaiter" "subscribe" = [(OpKind.cas, "chain")]
    ∧ shapeOf Generated.atomicSites "awaiter" "subscribe_check_ready" = [(OpKind.cas, "chain"), (OpKind.fence, "")]
    ∧ shapeOf Generated.atomicSites "mutex" "ready" = [(OpKind.cas, "_requests")]
    ∧ shapeOf Generated.atomicSites "mutex" "subscribe" = [(OpKind.cas, "_requests")]
    ∧ shapeOf Generated.atomicSites "mutex" "build_queue" = [(OpKind.xchg, "_requests")]
    ∧ shapeOf Generated.atomicSites "mutex" "unlock" = [(OpKind.cas, "_requests")]
    ∧ shapeOf Generated.atomicSites "reusable_storage_mtsafe" "alloc" = [(OpKind.xchg, "_busy"), (OpKind.store, "_busy")]
    ∧ shapeOf Generated.atomicSites "reusable_storage_mtsafe" "dealloc" = [(OpKind.store, "_busy")] := by decide

/-- non-vacuity: the current table resolves every protocol -/
example : (protocols.map (fun p => (ordersOf Generated.atomicSites p).isSome)).all id = true := by decide


/-! ### Lock discipline from the *structured* member functions (extract/lockprog.py transcribes syntax only)

`Generated.LockProgs.allLockProgs` holds, for every member function of the mutex-guarded classes that takes the lock or touches a
guarded field, its statement structure (sequence / if / loops / early return / RAII lock scopes / `unlock()`-`lock()` / condition
waits / inlined `*_lk` helpers / `co_await`) over `LockDisc.Act`.  The branch- and loop-sensitive lock-state reasoning is
`LockProg.check` — a Lean function, proved sound (`LockProg.check_sound`, `checkFn_sound`): every linearisation (all branch
outcomes, any number of loop iterations, an exception leaving any construct) of a function the checker accepts is a
`LockDisc.Balanced` act sequence.  So the translator is trusted for the transcription of syntax, not for the reasoning. -/

/-- every extracted member function keeps the lock discipline on every path (entries from the free state and ending free on every
exit; `*_lk` helpers from the held state) -/
theorem c03_lock_programs_disciplined :
    Generated.LockProgs.allLockProgs.all LockProg.LockFn.ok = true := by decide

/-- the structured extraction and the flat guarded-access table name the same (class, function, field) triples: the two
extractions cross-check each other -/
theorem c03_lock_programs_cover :
    LockProg.sameTriples Generated.LockProgs.lockFields Generated.LockProgs.allLockProgs
      Generated.guardedAccesses = true := by decide

/-- every guarded class of the library is present with at least one entry point (an empty table would make the two theorems above vacuous) -/
theorem c03_lock_programs_classes :
    ["queue", "limited_queue", "thread_pool", "scheduler", "publisher::queue"].all
      (fun c => Generated.LockProgs.allLockProgs.any (fun f => f.cls == c && f.entry)) = true := by decide

/-- race freedom on the guarded fields for ANY number of threads, each calling ANY sequence of the extracted entry points, each
call following ANY of its control paths, under EVERY schedule -/
theorem c03_lock_programs_safe (calls : Nat → List (List LockDisc.Act))
    (hc : ∀ t, ∀ c ∈ calls t, ∃ f ∈ Generated.LockProgs.allLockProgs, f.entry = true ∧ LockProg.Lin f.prog c) :
    ∀ sched : List Nat, (LockDisc.run (fun t => (calls t).flatten) sched).raced = false :=
  LockProg.lockfns_safe _ c03_lock_programs_disciplined calls hc

/-! ## Promise/future/awaiter protocol on the happens-before machine -/

/-! The list `protocols` above pairs sites by hand.  `ChainClock.lean` puts the happens-before machine UNDER the micro-step model of
the whole promise / future / awaiter-chain protocol (`Chain.lean`, the model of C01 / C02): all agents, all atomic sites and all plain
accesses at once.  `ChainClockProofs.chain_race_free` proves race freedom for every configuration, schedule and stale-read choice from
`ChainOrders.sufficient`; here the orders are looked up in the extracted table (`chainOrdersOf`), so weakening any order in
`awaiter.h` / `future.h` breaks `c03_chain_orders_current` at `lake build`.

Model assumption about plain accesses → table obligation that checks it against the source:

| assumption of `ChainClock.lean` | obligation |
|---|---|
| `future::set` is plain code (no atomic operation inside), wholly before the resolving exchange | `c03_chain_set_before_resolve` |
| the payload is one location: value / exception first, `_state` last | `c03_set_constructs_before_state` |
| `resolve()` is the single exchange `resume_chain_set_ready`, the walk `resume_chain_lk` has no atomic operation and runs on the exchange's result | `c03_rmw_shapes`, `c03_chain_walk_accesses` |
| per node the walker reads `_next`, writes `_next`, then `resume()` (handle / resume fn), nothing after `resume()` | `c03_chain_walk_accesses`, `c03_walk_reads_next_before_resume` |
| the waiter's accesses to its `_next` in `subscribe_check_ready`: CAS write-back, test, clear — none after a successful CAS; fence last | `c03_chain_subscribe_accesses`, `c03_awaiter_no_touch_after_publish`, `c03_rmw_shapes` |
| `pending()` gates no access | `c03_hint_loads_gate_nothing` |
-/

/-- the strongest order that all of `l` provide as far as acquiring goes: the first non-acquiring one, else the head -/
def weakestAcq (l : List Order) : Order := (l.find? (fun x => !x.isAcq)).getD (l.headD Order.relaxed)

/-- the memory orders of the promise / future / awaiter-chain protocol according to the extracted table, looked up by class /
function / kind like `findSite`; `none` when a site no longer exists.  A missing fence is not a missing site: `fence := false`. -/
def chainOrdersOf (tbl : List Site) : Option ChainClock.ChainOrders :=
  match findSite tbl ⟨"awaiter", "resume_chain_set_ready", OpKind.xchg, 0⟩,
        findSite tbl ⟨"awaiter", "subscribe_check_ready", OpKind.cas, 0⟩,
        findSite tbl ⟨"future_common", "ready", OpKind.load, 0⟩,
        findSite tbl ⟨"sync_awaiter", "wakeup", OpKind.store, 0⟩,
        findSite tbl ⟨"co_awaiter", "sync", OpKind.wait, 0⟩,
        findSite tbl ⟨"co_awaiter", "force_sync", OpKind.wait, 0⟩,
        findSite tbl ⟨"promise", "claim", OpKind.xchg, 0⟩,
        findSite tbl ⟨"promise", "~promise<T>", OpKind.load, 0⟩,
        findSite tbl ⟨"future_common", "pending", OpKind.load, 0⟩ with
  | some x, some cs, some rd, some fs, some w1, some w2, some cl, some dl, some pe =>
    some { resolve := x.succ, casSucc := cs.succ, casFail := cs.fail, ready := rd.succ,
           fence := match findSite tbl ⟨"awaiter", "subscribe_check_ready", OpKind.fence, 0⟩ with
             | some f => f.succ.isAcq
             | none => false
           flagStore := fs.succ, flagWait := weakestAcq [w1.succ, w2.succ],
           claim := cl.succ, dtorLoad := dl.succ, pending := pe.succ }
  | _, _, _, _, _, _, _, _, _ => none

/-- **Table obligation**: the orders written in `awaiter.h` / `future.h` are sufficient for the whole protocol. -/
theorem c03_chain_orders_current : (chainOrdersOf Generated.atomicSites).map (·.sufficient) = some true := by decide

/-- what the obligation buys, for any table: no access of the promise / future / awaiter protocol races — for every configuration
(any number of resolver calls, destructors, waiters of every kind), every schedule, every stale-read choice; every waiter about to
read the result has the winner's payload write in its clock; and the runs with all loads reading the latest message are, after
erasing the clocks, exactly the runs of `Chain.lean` (the executions C01 / C02 are about). -/
theorem c03_chain_publish_safe (tbl : List Site) (h : (chainOrdersOf tbl).map (·.sufficient) = some true) :
    ∃ o, chainOrdersOf tbl = some o
      ∧ (∀ (c : Chain.Cfg) (sched : List (Nat × Nat)), (ChainClock.run o c sched).raced = false)
      ∧ (∀ (c : Chain.Cfg) (sched : List (Nat × Nat)) (t : Nat), (ChainClock.run o c sched).base.pc t = Chain.Pc.wRead →
          (ChainClock.run o c sched).pay.wr.2 ≤ (ChainClock.run o c sched).clk t (ChainClock.run o c sched).pay.wr.1
          ∧ ∃ w, (ChainClock.run o c sched).base.winner = some w
              ∧ ((ChainClock.run o c sched).pay.wr.2 = 0 ∨ (ChainClock.run o c sched).pay.wr.1 = w))
      ∧ (∀ (c : Chain.Cfg) (sched : List Nat),
          (ChainClock.run o c (sched.map (fun t => (t, 0)))).base = Chain.run c (Chain.init c) sched) := by
  cases ho : chainOrdersOf tbl with
  | none => simp [ho] at h
  | some o =>
    have hs : o.sufficient = true := by simpa [ho] using h
    exact ⟨o, rfl, ChainClock.chain_race_free o hs, fun c sched t hpc => ChainClock.chain_sees_payload o hs c sched t hpc,
      fun c sched => ChainClock.base_latest o c sched⟩

/-- instantiated with the current tree -/
theorem c03_chain_protocol_race_free :
    ∃ o, chainOrdersOf Generated.atomicSites = some o
      ∧ (∀ (c : Chain.Cfg) (sched : List (Nat × Nat)), (ChainClock.run o c sched).raced = false)
      ∧ (∀ (c : Chain.Cfg) (sched : List (Nat × Nat)) (t : Nat), (ChainClock.run o c sched).base.pc t = Chain.Pc.wRead →
          (ChainClock.run o c sched).pay.wr.2 ≤ (ChainClock.run o c sched).clk t (ChainClock.run o c sched).pay.wr.1
          ∧ ∃ w, (ChainClock.run o c sched).base.winner = some w
              ∧ ((ChainClock.run o c sched).pay.wr.2 = 0 ∨ (ChainClock.run o c sched).pay.wr.1 = w))
      ∧ (∀ (c : Chain.Cfg) (sched : List Nat),
          (ChainClock.run o c (sched.map (fun t => (t, 0)))).base = Chain.run c (Chain.init c) sched) :=
  c03_chain_publish_safe _ c03_chain_orders_current

/-- the clock facts above are not vacuous: whenever the future holds a value or an exception, the last write of the payload is a
real epoch (`≥ 1`; 0 = never written) of the winner — "has the winner's write in its clock" means ordered after `future::set` -/
theorem c03_chain_payload_write_real :
    ∃ o, chainOrdersOf Generated.atomicSites = some o
      ∧ ∀ (c : Chain.Cfg) (sched : List (Nat × Nat)), (ChainClock.run o c sched).base.payload ≠ Chain.Outcome.none →
          ∃ w, (ChainClock.run o c sched).base.winner = some w ∧ (ChainClock.run o c sched).pay.wr.1 = w
            ∧ 1 ≤ (ChainClock.run o c sched).pay.wr.2 := by
  cases ho : chainOrdersOf Generated.atomicSites with
  | none => have h := c03_chain_orders_current; simp [ho] at h
  | some o =>
    have hs : o.sufficient = true := by have h := c03_chain_orders_current; simpa [ho] using h
    exact ⟨o, rfl, fun c sched hp => ChainClock.chain_payload_write_real o hs c sched hp⟩

/-- the pinned commit's table (resolving exchange `acquire` only) fails the obligation -/
example : ({ ChainClock.srcOrders with resolve := Order.acquire }).sufficient = false := by decide

/-! necessity: each clause of `ChainOrders.sufficient`, weakened alone from the source's orders, has a racing execution -/

theorem c03_chain_needs_release_cas :
    (ChainClock.run { ChainClock.srcOrders with casSucc := Order.relaxed } ChainClock.cfgCoro ChainClock.schedAwait).raced = true :=
  ChainClock.chain_needs_release_cas
theorem c03_chain_needs_release_xchg :
    (ChainClock.run { ChainClock.srcOrders with resolve := Order.acquire } ChainClock.cfgCoro ChainClock.schedPoll).raced = true :=
  ChainClock.chain_needs_release_xchg
theorem c03_chain_needs_acquire_xchg :
    (ChainClock.run { ChainClock.srcOrders with resolve := Order.release } ChainClock.cfgCoro ChainClock.schedAwait).raced = true :=
  ChainClock.chain_needs_acquire_xchg
theorem c03_chain_needs_acquire_ready :
    (ChainClock.run { ChainClock.srcOrders with ready := Order.relaxed } ChainClock.cfgCoro ChainClock.schedPoll).raced = true :=
  ChainClock.chain_needs_acquire_ready
theorem c03_chain_needs_fence :
    (ChainClock.run { ChainClock.srcOrders with fence := false } ChainClock.cfgCoro ChainClock.schedRefused).raced = true :=
  ChainClock.chain_needs_fence
theorem c03_chain_needs_release_flag :
    (ChainClock.run { ChainClock.srcOrders with flagStore := Order.relaxed } ChainClock.cfgSync ChainClock.schedBlock).raced = true :=
  ChainClock.chain_needs_release_flag
theorem c03_chain_needs_acquire_flag :
    (ChainClock.run { ChainClock.srcOrders with flagWait := Order.relaxed } ChainClock.cfgSync ChainClock.schedBlock).raced = true :=
  ChainClock.chain_needs_acquire_flag

/-- `claim`, the `~promise` load and `pending()` (relaxed in the source) are not constrained at all: with ANY orders at the three
sites — relaxed included — the protocol stays race free.  (Deliberately no obligation that they ARE relaxed: strengthening them is
harmless and must not break the build.) -/
theorem c03_chain_hint_sites_unconstrained (a b d : Order) :
    ∃ o, chainOrdersOf Generated.atomicSites = some o
      ∧ ∀ (c : Chain.Cfg) (sched : List (Nat × Nat)),
          (ChainClock.run { o with claim := a, dtorLoad := b, pending := d } c sched).raced = false := by
  cases ho : chainOrdersOf Generated.atomicSites with
  | none => have h := c03_chain_orders_current; simp [ho] at h
  | some o =>
    have hs : o.sufficient = true := by have h := c03_chain_orders_current; simpa [ho] using h
    exact ⟨o, rfl, ChainClock.chain_hint_orders_free o hs a b d⟩

/-- non-vacuity: a concrete run under the source's orders with three waiters of different kinds (coroutine, blocking, callback), a
losing competitor, CAS retries and a late `has_value` poller, in which every kind of plain access happens: all agents finish, all
four waiters read the result, the payload is written once (by agent 0) and read four times, the walker has rewritten the nodes'
`_next` — and nothing races -/
example : (ChainClock.run ChainClock.srcOrders ChainClock.cfgMany ChainClock.schedMany).raced = false
    ∧ (∀ t, t < 6 → (ChainClock.run ChainClock.srcOrders ChainClock.cfgMany ChainClock.schedMany).base.pc t = Chain.Pc.done)
    ∧ (∀ t, t < 5 → 1 ≤ t → (ChainClock.run ChainClock.srcOrders ChainClock.cfgMany ChainClock.schedMany).base.observed t = 1)
    ∧ (ChainClock.run ChainClock.srcOrders ChainClock.cfgMany ChainClock.schedMany).pay.wr = (0, 1)
    ∧ (ChainClock.run ChainClock.srcOrders ChainClock.cfgMany ChainClock.schedMany).pay.rd.length = 4
    ∧ ((ChainClock.run ChainClock.srcOrders ChainClock.cfgMany ChainClock.schedMany).nxt 1).wr.1 = 0
    ∧ ((ChainClock.run ChainClock.srcOrders ChainClock.cfgMany ChainClock.schedMany).hnd 3).rd.length = 1 := by decide

/-! plain accesses the model assumes, checked against the extracted table -/

/-- (base, field, is-write) of the non-assert rows of one function, in source order -/
def accessShape (tbl : List PlainAccess) (cls fn : String) : List (String × String × Bool) :=
  (tbl.filter (fun a => a.cls == cls && a.fn == fn && !a.inAssert)).map (fun a => (a.base, a.field, a.write))

/-- `resume_chain_lk` per node: read `chain->_next`, write `y->_next`, `y->resume()` — exactly the accesses of `ChainClock.hbWalk` —
and no atomic operation of its own (it runs on the value the caller's exchange returned) -/
theorem c03_chain_walk_accesses :
    accessShape Generated.plainAccesses "awaiter" "resume_chain_lk"
      = [("chain", "_next", false), ("y", "_next", true), ("", "call:resume", false)]
    ∧ shapeOf Generated.atomicSites "awaiter" "resume_chain_lk" = [] := by decide

/-- `subscribe_check_ready` touches the awaiter's `_next` exactly as `ChainClock.hbWCas` says: the CAS (expected value passed by
reference: read, and written back on failure), the test against the ready marker, the clearing store — all of them positioned before
the successful CAS (`nOps = 0`: the loop body runs only after a failed exchange) -/
theorem c03_chain_subscribe_accesses :
    accessShape Generated.plainAccesses "awaiter" "subscribe_check_ready"
      = [("", "_next", true), ("", "_next", false), ("", "_next", true)]
    ∧ (Generated.plainAccesses.filter (fun a => a.cls == "awaiter" && a.fn == "subscribe_check_ready")).all (fun a => a.nOps == 0) = true := by
  decide

/-- `promise::set_value`: in every overload the payload is stored (`future::set`, plain code without any atomic operation) before the
future is resolved (`resolve()` = the exchange) -/
def setBeforeResolve (tbl : List PlainAccess) : Bool :=
  let segs := overloadSegments (tbl.filter (fun a => a.cls == "promise" && a.fn == "set_value"))
  segs.length ≥ 2
  && segs.any (fun seg => seg.any (fun a => a.field == "call:set"))
  && segs.all (fun seg =>
      allBefore ((seg.filter (fun a => a.field == "call:set")).map (·.pos)) ((seg.filter (fun a => a.field == "call:resolve")).map (·.pos))
      && (seg.filter (fun a => a.field == "call:resolve")).length ≥ 1)

theorem c03_chain_set_before_resolve :
    setBeforeResolve Generated.plainAccesses = true
    ∧ shapeOf Generated.atomicSites "future" "set" = [] ∧ shapeOf Generated.atomicSites "future" "set_ref" = []
    ∧ shapeOf Generated.atomicSites "future" "resolve" = [] := by decide

/-- "resolve first, store afterwards" is rejected -/
example : setBeforeResolve
    [{ cls := "promise", fn := "set_value", base := "", field := "call:resolve", write := false, pos := 0, nOps := 0, inAssert := false },
     { cls := "promise", fn := "set_value", base := "", field := "call:set", write := false, pos := 1, nOps := 0, inAssert := false },
     { cls := "promise", fn := "set_value", base := "", field := "call:resolve", write := false, pos := 0, nOps := 0, inAssert := false }] = false := by
  decide

end Cocls.C03

/-! ## Mutex protocol on the happens-before machine

`protocols` above ties the mutex to the generic message-passing theorem by three hand-picked publish/observe pairs.  This section
puts the happens-before machine under the coroutine mutex protocol AS A WHOLE (`MutexClock.lean`: the micro-step model `Mutex.lean`
instrumented with vector clocks, the release-sequence clock of `_requests`, the flags of blocking waiters and FastTrack metadata for
the protected datum, `_queue`, and `_next` / handle of every request node) and instantiates `MutexClock.mutex_race_free` with the
orders of the nine synchronising sites found in the extracted table. -/
namespace Cocls.C03
open Cocls

/-- of the two blocking-wait sites (`co_awaiter::sync`, `force_sync`) the one that does not acquire, if any -/
def weakerAcq (a b : Order) : Order := if a.isAcq then b else a

/-- the orders of the synchronising operations of the mutex protocol according to the extracted table (lookups like `findSite`);
`none` when a site no longer exists -/
def mutexOrdersOf (tbl : List Site) : Option MutexClock.MutexOrders :=
  match findSite tbl ⟨"mutex", "ready", OpKind.cas, 0⟩, findSite tbl ⟨"mutex", "subscribe", OpKind.cas, 0⟩,
        findSite tbl ⟨"mutex", "build_queue", OpKind.xchg, 0⟩, findSite tbl ⟨"mutex", "unlock", OpKind.cas, 0⟩,
        findSite tbl ⟨"sync_awaiter", "wakeup", OpKind.store, 0⟩, findSite tbl ⟨"co_awaiter", "sync", OpKind.wait, 0⟩,
        findSite tbl ⟨"co_awaiter", "force_sync", OpKind.wait, 0⟩ with
  | some rd, some sb, some bq, some ul, some fs, some w1, some w2 =>
    some { ready := rd.succ, readyFail := rd.fail, subOk := sb.succ, subFail := sb.fail, build := bq.succ,
           unlockOk := ul.succ, unlockFail := ul.fail, flagStore := fs.succ, flagWait := weakerAcq w1.succ w2.succ }
  | _, _, _, _, _, _, _ => none

/-- **Obligation on the current source**: the orders written at the nine sites of the mutex protocol are sufficient
(unlock CAS ⊇ release, `ready()` CAS ⊇ acquire, `build_queue` exchange ⊇ acquire — the extractor resolves an order passed as a
parameter to the weakest call-site order —, subscribe CAS ⊇ release, flag store ⊇ release, flag wait ⊇ acquire) -/
theorem c03_mutex_orders_current : (mutexOrdersOf Generated.atomicSites).map (·.sufficient) = some true := by decide

/-- what the obligation buys, for any table -/
theorem c03_mutex_protocol_safe (tbl : List Site) (h : (mutexOrdersOf tbl).map (·.sufficient) = some true) :
    ∃ o, mutexOrdersOf tbl = some o ∧
      ∀ (cfg : MutexClock.Cfg) (sched : List Nat), (MutexClock.run o cfg sched).raced = false := by
  cases ho : mutexOrdersOf tbl with
  | none => simp [ho] at h
  | some o =>
    simp only [ho, Option.map_some, Option.some.injEq] at h
    exact ⟨o, rfl, MutexClock.mutex_race_free o h⟩

/-- **The coroutine mutex protocol as a whole is data-race free under the orders of the current source**: any number of contenders,
each running any number of rounds of `try_lock` / `co_await lock()` / blocking `lock().wait()` → critical section → `unlock`, under
every schedule: no race on the protected datum, on `_queue`, on `_next` or the handle / resume function of any request node -/
theorem c03_mutex_protocol_race_free :
    ∃ o, mutexOrdersOf Generated.atomicSites = some o ∧
      ∀ (cfg : MutexClock.Cfg) (sched : List Nat), (MutexClock.run o cfg sched).raced = false :=
  c03_mutex_protocol_safe _ c03_mutex_orders_current

/-- … and every critical section is ordered after the previous one: whoever is about to enter has the last write of the datum in its clock -/
theorem c03_mutex_handoff_ordered :
    ∃ o, mutexOrdersOf Generated.atomicSites = some o ∧
      ∀ (cfg : MutexClock.Cfg) (sched : List Nat) (a : Nat), (MutexClock.run o cfg sched).m.pc a = Mutex.Pc.crit →
        (MutexClock.run o cfg sched).data.wr.2 ≤ (MutexClock.run o cfg sched).clk a (MutexClock.run o cfg sched).data.wr.1 := by
  cases ho : mutexOrdersOf Generated.atomicSites with
  | none => have h := c03_mutex_orders_current; simp [ho] at h
  | some o =>
    have h := c03_mutex_orders_current
    simp only [ho, Option.map_some, Option.some.injEq] at h
    exact ⟨o, rfl, fun cfg sched a hpc => MutexClock.mutex_handoff_ordered o h cfg sched a hpc⟩

/-- the runs the two theorems speak about are runs of the C07/C08 model `Mutex.lean` (clocks erased: same schedule, same states) -/
theorem c03_mutex_runs_are_mutex_runs (o : MutexClock.MutexOrders) (cfg : MutexClock.Cfg) (sched : List Nat) :
    (MutexClock.run o cfg sched).m = sched.foldl (MutexClock.mstep cfg.toMutex) (Mutex.init cfg.toMutex)
    ∧ Mutex.Reachable cfg.toMutex (MutexClock.run o cfg sched).m :=
  ⟨MutexClock.run_erase o cfg sched, MutexClock.run_reachable o cfg sched⟩

/-- … and of the pointer-level model `MutexPtr.lean`: the erased run is the `Mutex.arun` of the guarded activity list
`MutexClock.acts` (the contenders of the schedule that can run, in order), and the pointer-level machine run on that list — real
`_next` links, `_queue` pointer, pending `build_queue` loops — denotes exactly its `req` / `queue` (`MutexPtr.Repr`) -/
theorem c03_mutex_runs_are_pointer_runs (o : MutexClock.MutexOrders) (cfg : MutexClock.Cfg) (sched : List Nat) :
    Mutex.Guarded cfg.toMutex (Mutex.init cfg.toMutex) (MutexClock.acts cfg.toMutex (Mutex.init cfg.toMutex) sched)
    ∧ (MutexClock.run o cfg sched).m
        = Mutex.arun cfg.toMutex (Mutex.init cfg.toMutex) (MutexClock.acts cfg.toMutex (Mutex.init cfg.toMutex) sched)
    ∧ MutexPtr.Repr cfg.toMutex
        (MutexPtr.arun cfg.toMutex cfg.n (MutexPtr.init cfg.toMutex) (MutexClock.acts cfg.toMutex (Mutex.init cfg.toMutex) sched))
        (MutexClock.run o cfg sched).m :=
  ⟨(MutexClock.run_is_arun o cfg sched).1, (MutexClock.run_is_arun o cfg sched).2,
   MutexClock.run_ptr_repr o cfg sched cfg.n (Nat.le_refl _)⟩

/-! each clause of `MutexOrders.sufficient` is needed: a concrete racing run of the machine when it is dropped (`decide`d in
`MutexClockProofs.lean`; all other orders as in the source) -/

theorem c03_mutex_needs_unlock_release :
    ∃ cfg sched, (MutexClock.run { MutexClock.ordersNow with unlockOk := Order.relaxed } cfg sched).raced = true :=
  ⟨_, _, MutexClock.mutex_needs_unlock_release⟩
theorem c03_mutex_needs_ready_acquire :
    ∃ cfg sched, (MutexClock.run { MutexClock.ordersNow with ready := Order.relaxed } cfg sched).raced = true :=
  ⟨_, _, MutexClock.mutex_needs_ready_acquire⟩
theorem c03_mutex_needs_subscribe_release :
    ∃ cfg sched, (MutexClock.run { MutexClock.ordersNow with subOk := Order.relaxed } cfg sched).raced = true :=
  ⟨_, _, MutexClock.mutex_needs_subscribe_release⟩
/-- the seeded change `r5-c08-unlock-relaxed-build-queue`: acquire on `unlock`'s failing CAS does not make up for a relaxed exchange
in `build_queue(doorman)` — a request pushed between the two is walked unsynchronised -/
theorem c03_mutex_needs_build_acquire :
    ∃ cfg sched, (MutexClock.run { MutexClock.ordersNow with build := Order.relaxed, unlockFail := Order.acquire } cfg sched).raced = true :=
  ⟨_, _, MutexClock.mutex_needs_build_acquire⟩
theorem c03_mutex_needs_build_acquire_found_free :
    ∃ cfg sched, (MutexClock.run { MutexClock.ordersNow with build := Order.relaxed } cfg sched).raced = true :=
  ⟨_, _, MutexClock.mutex_needs_build_acquire_found_free⟩
theorem c03_mutex_needs_flag_release :
    ∃ cfg sched, (MutexClock.run { MutexClock.ordersNow with flagStore := Order.relaxed } cfg sched).raced = true :=
  ⟨_, _, MutexClock.mutex_needs_flag_release⟩
theorem c03_mutex_needs_flag_acquire :
    ∃ cfg sched, (MutexClock.run { MutexClock.ordersNow with flagWait := Order.relaxed } cfg sched).raced = true :=
  ⟨_, _, MutexClock.mutex_needs_flag_acquire⟩

/-- for the pure CAS hand-over (`ready()` / `unlock` fast path) the two clauses are necessary in full generality: EVERY order table
whose `ready()` CAS does not acquire or whose `unlock` CAS does not release has a racing run, whatever its other orders are -/
theorem c03_mutex_cas_handover_orders_necessary (o : MutexClock.MutexOrders)
    (h : o.ready.isAcq = false ∨ o.unlockOk.isRel = false) :
    ∃ cfg sched, (MutexClock.run o cfg sched).raced = true := by
  rcases h with h | h
  · exact ⟨_, _, MutexClock.mutex_ready_acquire_necessary o h⟩
  · exact ⟨_, _, MutexClock.mutex_unlock_release_necessary o h⟩

/-- the table of the seeded change (exchange relaxed, failing unlock CAS acquire) fails the obligation -/
example : ({ MutexClock.ordersNow with build := Order.relaxed, unlockFail := Order.acquire } : MutexClock.MutexOrders).sufficient = false := by
  decide

/-- non-vacuity: the table resolves all nine sites -/
example : (mutexOrdersOf Generated.atomicSites).isSome = true := by decide

/-- non-vacuity of the theorems: three contenders of three flavours (0 `try_lock`, 1 `co_await lock()`, 2 blocking `lock().wait()`).
0 takes the lock; 1 subscribes and is suspended; 0's unlock CAS fails (contended: slow path); 2 subscribes in the window before the
exchange; 0 runs `build_queue(doorman)`, resumes 1; 1 hands over to the blocking waiter 2 through its flag; 2 unlocks on the fast
path.  All three critical sections run, in arrival order, the last write of the datum is 2's, the mutex ends free, nothing raced. -/
example : (MutexClock.run MutexClock.ordersNow MutexClock.cfg3 MutexClock.sched3).raced = false
    ∧ (MutexClock.run MutexClock.ordersNow MutexClock.cfg3 MutexClock.sched3).m.grantLog = [0, 1, 2]
    ∧ (MutexClock.run MutexClock.ordersNow MutexClock.cfg3 MutexClock.sched3).data.wr.1 = 2
    ∧ (MutexClock.run MutexClock.ordersNow MutexClock.cfg3 MutexClock.sched3).m.req = []
    ∧ (MutexClock.run MutexClock.ordersNow MutexClock.cfg3 (MutexClock.sched3.take 6)).m.pc 0 = Mutex.Pc.relBuild
    ∧ (MutexClock.run MutexClock.ordersNow MutexClock.cfg3 (MutexClock.sched3.take 14)).m.flag 2 = true := by decide

end Cocls.C03
