import CoclsModel.Clock
import CoclsModel.LockDisc
import CoclsModel.Generated.AtomicSites
import CoclsModel.Generated.LockTables
import CoclsModel.Generated.SharedAccess
import CoclsModel.LockProg
import CoclsModel.Generated.LockProgs
/-!
# C03 — cross-thread operations are data-race free and publish results safely

Three kinds of obligations, all over tables that `extract/` regenerates from `/repo`'s headers on every run:

1. **Memory orders of the lock-free protocols.** Every publication protocol of the library is an instance of release/acquire
   message passing (`Clock.lean`: C++20 release sequences continued by RMWs of any thread, acquire fences, stale reads,
   any number of threads, every schedule). `protocols` names, for each protocol, the publishing and the observing
   operation by (class, function, kind, n-th); `ordersOf` looks the orders up in the extracted table; `Sufficient` is the
   decidable conjunction "every protocol's orders are sufficient"; `mp_safe_iff` (Clock.lean) shows that condition is
   exactly necessary and sufficient for race freedom of the machine.
2. **Lock discipline of the lock-based services** (`LockDisc.lean`): every access to a mutex-guarded field of
   `queue`, `limited_queue`, `thread_pool`, `scheduler`, `publisher::queue` happens inside a lock region (or in a
   constructor/destructor); `lock_discipline_safe` is what that buys.
3. **Position facts** about plain accesses to published nodes (no touch after the publishing CAS, read-before-resume).
-/
namespace Cocls.C03
open Cocls Cocls.Clock

/-- (class, function, kind, n-th such operation outside assertions) -/
structure SiteRef where
  cls : String
  fn : String
  kind : OpKind
  nth : Nat := 0
  deriving Repr, DecidableEq

def findSite (tbl : List Site) (r : SiteRef) : Option Site :=
  (tbl.filter (fun s => s.cls == r.cls && s.fn == r.fn && s.kind == r.kind && !s.inAssert))[r.nth]?

structure Proto where
  name : String
  pub : SiteRef                 -- operation that publishes (store / RMW)
  obs : SiteRef                 -- operation through which another thread learns about it
  obsUsesFailureOrder : Bool := false   -- the observation is a *failing* CAS (its failure order counts)
  fence : Option SiteRef := none        -- acquire fence executed after the observation, before the data is touched
  mid : Option SiteRef := none          -- RMWs other threads may perform in between (release-sequence bystanders)
  deriving Repr

def protocols : List Proto := [
  -- the result of a future: future::set; resolve() exchange  →  ready() load
  { name := "payload via ready()",
    pub := ⟨"awaiter", "resume_chain_set_ready", OpKind.xchg, 0⟩, obs := ⟨"future_common", "ready", OpKind.load, 0⟩ },
  -- … → refused subscribe (failing CAS sees the ready marker) + acquire fence
  { name := "payload via refused subscribe",
    pub := ⟨"awaiter", "resume_chain_set_ready", OpKind.xchg, 0⟩, obs := ⟨"awaiter", "subscribe_check_ready", OpKind.cas, 0⟩,
    obsUsesFailureOrder := true, fence := some ⟨"awaiter", "subscribe_check_ready", OpKind.fence, 0⟩ },
  -- … → blocking waiter: flag store by the walker → flag.wait
  { name := "payload / lock hand-over via sync_awaiter flag",
    pub := ⟨"sync_awaiter", "wakeup", OpKind.store, 0⟩, obs := ⟨"co_awaiter", "sync", OpKind.wait, 0⟩ },
  { name := "payload via sync_awaiter flag (force_sync)",
    pub := ⟨"sync_awaiter", "wakeup", OpKind.store, 0⟩, obs := ⟨"co_awaiter", "force_sync", OpKind.wait, 0⟩ },
  -- a waiter's node (handle, resume function, _next): subscribe CAS → resolver's exchange, other waiters push in between
  { name := "awaiter node via future chain",
    pub := ⟨"awaiter", "subscribe_check_ready", OpKind.cas, 0⟩, obs := ⟨"awaiter", "resume_chain_set_ready", OpKind.xchg, 0⟩,
    mid := some ⟨"awaiter", "subscribe_check_ready", OpKind.cas, 0⟩ },
  { name := "awaiter node via signal chain",
    pub := ⟨"awaiter", "subscribe", OpKind.cas, 0⟩, obs := ⟨"awaiter", "resume_chain", OpKind.xchg, 0⟩,
    mid := some ⟨"awaiter", "subscribe", OpKind.cas, 0⟩ },
  -- coroutine mutex: data of the critical section, unlock fast path → try_lock / ready()
  { name := "mutex unlock → ready()",
    pub := ⟨"mutex", "unlock", OpKind.cas, 0⟩, obs := ⟨"mutex", "ready", OpKind.cas, 0⟩ },
  -- … → subscriber that finds the mutex free: its publishing CAS continues the release sequence, build_queue acquires
  { name := "mutex unlock → subscribe(found free) → build_queue",
    pub := ⟨"mutex", "unlock", OpKind.cas, 0⟩, obs := ⟨"mutex", "build_queue", OpKind.xchg, 0⟩,
    mid := some ⟨"mutex", "subscribe", OpKind.cas, 0⟩ },
  -- request node: subscribe CAS → owner's build_queue
  { name := "mutex request node",
    pub := ⟨"mutex", "subscribe", OpKind.cas, 0⟩, obs := ⟨"mutex", "build_queue", OpKind.xchg, 0⟩,
    mid := some ⟨"mutex", "subscribe", OpKind.cas, 0⟩ },
  -- thread-safe reusable storage: the shared block and _ptr/_capacity
  { name := "reusable_storage_mtsafe block hand-over",
    pub := ⟨"reusable_storage_mtsafe", "dealloc", OpKind.store, 0⟩, obs := ⟨"reusable_storage_mtsafe", "alloc", OpKind.xchg, 0⟩ },
  -- … given back by `alloc` itself when growing the block threw (/repo fix a532e23): the emptied `_ptr/_capacity` are handed to the next claimant
  { name := "reusable_storage_mtsafe block hand-over after a failed growth",
    pub := ⟨"reusable_storage_mtsafe", "alloc", OpKind.store, 0⟩, obs := ⟨"reusable_storage_mtsafe", "alloc", OpKind.xchg, 0⟩ },
  -- generator, synchronous access to an asynchronous body
  { name := "generator result via _block",
    pub := ⟨"generator::promise_type", "unblock_sync", OpKind.store, 0⟩, obs := ⟨"generator::promise_type", "next_sync", OpKind.wait, 0⟩ }
]

/-- orders of a protocol according to the extracted table; `none` when a named site no longer exists -/
def ordersOf (tbl : List Site) (p : Proto) : Option MPOrders :=
  match findSite tbl p.pub, findSite tbl p.obs with
  | some pb, some ob =>
    let fenceOk : Option Bool := match p.fence with
      | none => some false
      | some f => (findSite tbl f).map (fun s => s.succ.isAcq)
    let midOrd : Option Order := match p.mid with
      | none => some Order.relaxed
      | some m => (findSite tbl m).map (·.succ)
    match fenceOk, midOrd with
    | some fo, some mo =>
      some { pub := pb.succ, obs := if p.obsUsesFailureOrder then ob.fail else ob.succ, obsFence := fo, mid := mo }
    | _, _ => none
  | _, _ => none

def protoOk (tbl : List Site) (p : Proto) : Bool :=
  match ordersOf tbl p with
  | some o => o.sufficient
  | none => false

/-- every protocol's publishing operation releases and its observation acquires (directly or by its fence) -/
def Sufficient (tbl : List Site) : Bool := protocols.all (protoOk tbl)

/-- no lock-free cross-thread operation uses an order the machine does not model as at least relaxed atomics:
every extracted site that is not inside an assertion is an atomic operation by construction; consume is not used -/
def noConsume (tbl : List Site) : Bool := tbl.all (fun s => s.succ != Order.consume && s.fail != Order.consume)

/-- **Obligation 1 on the current source**: the memory orders written in /repo are sufficient. -/
theorem c03_current_orders : Sufficient Generated.atomicSites = true := by decide

theorem c03_no_consume : noConsume Generated.atomicSites = true := by decide

/-- What `Sufficient` buys: for every protocol, on the happens-before machine instantiated with the orders found in the
table, no execution (any number of threads, any schedule, any admissible stale read, any bystander RMWs) races on the
published data. -/
theorem c03_publish_safe (tbl : List Site) (h : Sufficient tbl = true) :
    ∀ p ∈ protocols, ∃ o, ordersOf tbl p = some o ∧
      ∀ (cfg : Cfg) (sched : List (Nat × Nat)), (run o cfg sched).raced = false := by
  intro p hp
  have hp' : protoOk tbl p = true := by
    unfold Sufficient at h
    exact List.all_eq_true.mp h p hp
  unfold protoOk at hp'
  cases ho : ordersOf tbl p with
  | none => simp [ho] at hp'
  | some o =>
    simp only [ho] at hp'
    exact ⟨o, rfl, mp_safe_of_sufficient o hp'⟩

/-- instantiated with the current tree -/
theorem c03_current_safe :
    ∀ p ∈ protocols, ∃ o, ordersOf Generated.atomicSites p = some o ∧
      ∀ (cfg : Cfg) (sched : List (Nat × Nat)), (run o cfg sched).raced = false :=
  c03_publish_safe _ c03_current_orders

/-- a thread that learns "ready" has the publisher's write of the data in its clock (safe publication) -/
theorem c03_ready_sees_payload :
    ∀ p ∈ protocols, ∃ o, ordersOf Generated.atomicSites p = some o ∧
      ∀ (cfg : Cfg) (sched : List (Nat × Nat)) (t : Nat), t ≠ cfg.pubTid → (run o cfg sched).pc t = Pc.acc →
        (run o cfg sched).wr.1 = cfg.pubTid ∧ 1 ≤ (run o cfg sched).wr.2 ∧
        (run o cfg sched).wr.2 ≤ (run o cfg sched).clk t cfg.pubTid := by
  intro p hp
  obtain ⟨o, ho, _⟩ := c03_current_safe p hp
  have hs : o.sufficient = true := by
    have hp' : protoOk Generated.atomicSites p = true := by
      have h := c03_current_orders
      unfold Sufficient at h
      exact List.all_eq_true.mp h p hp
    unfold protoOk at hp'
    simpa [ho] using hp'
  simp only [MPOrders.sufficient, Bool.and_eq_true, Bool.or_eq_true] at hs
  exact ⟨o, ho, fun cfg sched t ht hpc => mp_sees_payload o hs.1 hs.2 cfg sched t ht hpc⟩

/-- the requirement is not gratuitous: a protocol whose orders are not sufficient has a racing execution -/
theorem c03_orders_necessary (o : MPOrders) (h : o.sufficient = false) :
    ∃ (cfg : Cfg) (sched : List (Nat × Nat)), (run o cfg sched).raced = true := by
  apply Classical.byContradiction
  intro hne
  have hall : ∀ (cfg : Cfg) (sched : List (Nat × Nat)), (run o cfg sched).raced = false := by
    intro cfg sched
    cases hr : (run o cfg sched).raced with
    | false => rfl
    | true => exact absurd ⟨cfg, sched, hr⟩ hne
  have := (mp_safe_iff o).mp hall
  simp [MPOrders.sufficient, this.1] at h
  rcases this.2 with h2 | h2 <;> simp [h2] at h

/-- the pinned commit exchanged the ready marker with `acquire` only: with that order the table obligation fails -/
theorem c03_pinned_orders_insufficient :
    ({ pub := Order.acquire, obs := Order.acquire, obsFence := false, mid := Order.relaxed } : MPOrders).sufficient = false := by
  decide

/-! ## Obligation 2: lock discipline -/

def disciplined (tbl : List GuardedAccess) : Bool := tbl.all (fun a => a.locked || a.ctorDtor)

/-- every access to a mutex-guarded field of queue / limited_queue / thread_pool / scheduler / publisher::queue (and every
call of a `*_lk` helper) is inside a lock region of the object's mutex, or in a constructor/destructor -/
theorem c03_lock_tables : disciplined Generated.guardedAccesses = true := by decide

/-- the classes the table must cover are all present (a class that vanished from the table would make the
obligation vacuous) -/
def coversClasses (tbl : List GuardedAccess) : Bool :=
  ["queue", "limited_queue", "thread_pool", "scheduler", "publisher::queue"].all (fun c => tbl.any (fun a => a.cls == c))

theorem c03_lock_tables_cover : coversClasses Generated.guardedAccesses = true := by decide

/-- no pointer into lock-guarded data can outlive the lock region it was obtained in: nowhere in the guarded classes is the address of
a guarded field (or of an element of a guarded container) taken, and no lock-held helper / locking member function returns a pointer or
a reference — results leave the lock region by value only.  (Seeded change r5-c16-copy-value-outside-lock: `get_value_lk` returned
`&_q[relpos]` and `get_value` copied `*v` after the `lock_guard` was gone, while `push_lk` may trim exactly that element.)  The accesses
the lock tables classify are accesses to the *fields*; this closes the gap for accesses through pointers derived from them. -/
theorem c03_guarded_data_does_not_escape : Generated.guardedEscapes = [] := by decide

/-- what lock discipline buys, for any number of client threads calling any sequence of disciplined member functions -/
theorem c03_lock_discipline_safe (progs : Nat → List LockDisc.Act) (h : ∀ t, LockDisc.Disciplined (progs t) = true) :
    ∀ sched : List Nat, (LockDisc.run progs sched).raced = false :=
  LockDisc.lock_discipline_safe progs h

/-! ## Obligation 3: position facts about published nodes -/

/-- positions (in source order) of the rows of one function whose field is in `fields` -/
def positions (tbl : List PlainAccess) (cls fn : String) (fields : List String) : List Nat :=
  (tbl.filter (fun a => a.cls == cls && a.fn == fn && !a.inAssert && fields.contains a.field)).map (·.pos)

def allBefore (xs ys : List Nat) : Bool := xs.all (fun x => ys.all (fun y => x < y))

/-- `mutex::subscribe` never touches a request node (`_next` of anything) after the CAS that publishes it — the defect
of the pinned commit: every such access precedes the first synchronising operation of the function -/
def mutexNoTouchAfterPublish (tbl : List PlainAccess) : Bool :=
  (tbl.filter (fun a => a.cls == "mutex" && a.fn == "subscribe" && !a.inAssert && a.field == "_next")).all (fun a => a.nOps == 0)

theorem c03_mutex_no_touch_after_publish : mutexNoTouchAfterPublish Generated.plainAccesses = true := by decide

/-- `awaiter::subscribe` / `subscribe_check_ready` do not touch the awaiter (`_next`, assertions included) after the CAS that
publishes it; accesses in the body of `while (!cas)` run only after a *failed* exchange and count as before it -/
def awaiterNoTouchAfterPublish (tbl : List PlainAccess) : Bool :=
  (tbl.filter (fun a => a.cls == "awaiter" && (a.fn == "subscribe" || a.fn == "subscribe_check_ready") && a.field == "_next")).all
    (fun a => a.nOps == 0)

theorem c03_awaiter_no_touch_after_publish : awaiterNoTouchAfterPublish Generated.plainAccesses = true := by decide

/-- positions of the rows of one function with the given base object ("" = this) and field -/
def positionsOf (tbl : List PlainAccess) (cls fn base field : String) (wr : Bool) : List Nat :=
  (tbl.filter (fun a => a.cls == cls && a.fn == fn && !a.inAssert && a.base == base && a.field == field && a.write == wr)).map (·.pos)

def anyBefore (xs ys : List Nat) : Bool := xs.any (fun x => ys.all (fun y => x < y))

/-- `shared_future`'s resolve tracer takes its keep-alive reference (`this->_ptr = ptr`) BEFORE it publishes itself by subscribing
(afterwards the resolver's callback writes the same non-atomic `shared_ptr` from another thread) -/
theorem c03_tracer_ref_before_publish :
    anyBefore (positionsOf Generated.plainAccesses "resolve_cb" "charge" "" "_ptr" true)
              (positions Generated.plainAccesses "resolve_cb" "charge" ["call:subscribe"]) = true
    ∧ (positions Generated.plainAccesses "resolve_cb" "charge" ["call:subscribe"]).length = 1 := by decide

/-- `reusable_storage_mtsafe::dealloc` hands the shared block back by its release store of `_busy` and writes nothing afterwards —
neither the storage's own fields nor anything through a pointer into the block (`*s = …`): from that store on another thread may
already have a live frame there (seeded change r5-c19-dealloc-clears-trailer-after-release) -/
def mtsafeDeallocWritesBeforeRelease (tbl : List PlainAccess) : Bool :=
  (tbl.filter (fun a => a.cls == "reusable_storage_mtsafe" && a.fn == "dealloc" && !a.inAssert && a.write)).all (fun a => a.nOps == 0)

theorem c03_mtsafe_dealloc_no_write_after_release : mtsafeDeallocWritesBeforeRelease Generated.plainAccesses = true := by decide

/-- …and `alloc` writes into the block (the trailer `*s = owner`) only after it has acquired `_busy` (non-vacuity of the pointer-write rows) -/
theorem c03_mtsafe_alloc_writes_after_acquire :
    (Generated.plainAccesses.filter (fun a => a.cls == "reusable_storage_mtsafe" && a.fn == "alloc" && a.write && a.field == "*s")).all (fun a => a.nOps ≥ 1) = true
    ∧ (Generated.plainAccesses.filter (fun a => a.cls == "reusable_storage_mtsafe" && a.fn == "alloc" && a.write && a.field == "*s")).length ≥ 1 := by decide

/-- `scheduler::start_in(thread_pool&)` stores the pool pointer into the global state BEFORE it hands the worker coroutine to the pool
(`pool.resume(...)`): the enqueue under the pool's mutex is the only thing that orders the starting thread before the worker, whose
first statement reads `_glob_state->_pool` (seeded change r5-c03-start-in-sets-pool-after-handover; this is the fact the exemption of
`_glob_state` from the lock-guarded fields of `scheduler` rests on: set up before the worker exists) -/
theorem c03_start_in_sets_pool_before_handover :
    allBefore (positionsOf Generated.plainAccesses "scheduler" "start_in" "operator->" "_pool" true)
              (positions Generated.plainAccesses "scheduler" "start_in" ["call:resume"]) = true
    ∧ (positionsOf Generated.plainAccesses "scheduler" "start_in" "operator->" "_pool" true).length = 1
    ∧ (positions Generated.plainAccesses "scheduler" "start_in" ["call:resume"]).length = 1 := by decide

/-- the RELAXED hint loads of a future (`pending()`, `initialized()`) are called, outside assertions, only where no access to the
result depends on the answer: `future::value()` after it has found no value (to tell "not ready" from "canceled"), and `shared_future`
deciding whether to charge its tracer before the state is shared.  Anything that gates a read of the result must go through the
acquire load `ready()` (seeded change r5-c03-has-value-polls-pending: `awaitable_bool` asked `pending()` and then read `_state`) -/
def hintCallAllowed (c : String × String × String) : Bool :=
  c == ("future", "value", "pending") || c == ("shared_future", "operator<<", "pending")
  || c == ("shared_future", "shared_future<T, Base>", "pending")

theorem c03_hint_loads_gate_nothing : Generated.hintCalls.all hintCallAllowed = true := by decide

/-- the walker reads and clears a node's `_next` before it resumes that node (after which the node may be gone) -/
theorem c03_walk_reads_next_before_resume :
    allBefore (positions Generated.plainAccesses "awaiter" "resume_chain_lk" ["_next"])
              (positions Generated.plainAccesses "awaiter" "resume_chain_lk" ["call:resume"]) = true
    ∧ (positions Generated.plainAccesses "awaiter" "resume_chain_lk" ["call:resume"]).length = 1
    ∧ (positions Generated.plainAccesses "awaiter" "resume_chain_lk" ["_next"]).length ≥ 2 := by decide

/-- `mutex::unlock` unlinks the new owner before resuming it -/
theorem c03_unlock_unlinks_before_resume :
    allBefore (positions Generated.plainAccesses "mutex" "unlock" ["_next", "_queue"])
              (positions Generated.plainAccesses "mutex" "unlock" ["call:fn"]) = true
    ∧ (positions Generated.plainAccesses "mutex" "unlock" ["call:fn"]).length = 1 := by decide

/-- `mutex::build_queue` looks at the owner-private list `_queue` (assertions included) only after its acquire exchange on
`_requests`.  A requester whose publishing CAS in `subscribe()` found the mutex unlocked is ordered after the previous owners
*only* by that exchange (its own CAS is release-only); the pinned code asserted on `_queue` before it (data race with the last
owner's writes in debug builds, repaired by a4116c4) -/
def buildQueueAcquiresFirst (tbl : List PlainAccess) : Bool :=
  let rows := tbl.filter (fun a => a.cls == "mutex" && a.fn == "build_queue" && a.base == "" && a.field == "_queue")
  rows.all (fun a => a.nOps ≥ 1) && rows.length ≥ 2

theorem c03_build_queue_acquires_before_queue : buildQueueAcquiresFirst Generated.plainAccesses = true := by decide

/-- the as-is shape of the pinned commit (assert first) fails the obligation -/
example : buildQueueAcquiresFirst
    [{ cls := "mutex", fn := "build_queue", base := "", field := "_queue", write := false, pos := 0, nOps := 0, inAssert := true },
     { cls := "mutex", fn := "build_queue", base := "", field := "_queue", write := true, pos := 4, nOps := 1, inAssert := false }] = false := by decide

/-- split the rows of one function into its overloads (the position counter restarts at 0 for every body) -/
def overloadSegments (rows : List PlainAccess) : List (List PlainAccess) :=
  rows.foldr (fun a acc =>
    match acc with
    | [] => [[a]]
    | seg :: rest => if (seg.head?.map (·.pos)).getD 0 == 0 then [a] :: seg :: rest else (a :: seg) :: rest) []

/-- in every overload of `future::set` the payload (`_value`, `_exception`, `_ptr_value`) is written before `_state` says that
there is one: a constructor that throws must leave a future that still says "no value" (the catch path of `promise::set_value`,
fix 185ea23, resolves it as such), and a thread that learns of readiness never finds `State::value` over raw storage -/
def setConstructsBeforeState (tbl : List PlainAccess) : Bool :=
  let segs := overloadSegments (tbl.filter (fun a => a.cls == "future" && a.fn == "set"))
  segs.length ≥ 2 &&
  segs.all (fun seg =>
    let pay := (seg.filter (fun a => !a.inAssert && ["_value", "_exception", "_ptr_value"].contains a.field)).map (·.pos)
    let st := (seg.filter (fun a => !a.inAssert && a.field == "_state" && a.write)).map (·.pos)
    pay.length ≥ 1 && st.length == 1 && allBefore pay st)

theorem c03_set_constructs_before_state : setConstructsBeforeState Generated.plainAccesses = true := by decide

/-- the shape "state first, construction afterwards" is rejected -/
example : setConstructsBeforeState
    [{ cls := "future", fn := "set", base := "", field := "_state", write := false, pos := 0, nOps := 0, inAssert := true },
     { cls := "future", fn := "set", base := "", field := "_state", write := true, pos := 1, nOps := 0, inAssert := false },
     { cls := "future", fn := "set", base := "", field := "_value", write := false, pos := 2, nOps := 0, inAssert := false },
     { cls := "future", fn := "set", base := "", field := "_state", write := false, pos := 0, nOps := 0, inAssert := true },
     { cls := "future", fn := "set", base := "", field := "_exception", write := false, pos := 1, nOps := 0, inAssert := false },
     { cls := "future", fn := "set", base := "", field := "_state", write := true, pos := 2, nOps := 0, inAssert := false }] = false := by decide

/-- an async coroutine's frame is destroyed only after its future has been resolved -/
theorem c03_final_resolve_before_destroy :
    allBefore (positions Generated.plainAccesses "async_promise::final_awaiter" "await_suspend" ["call:resolve"])
              (positions Generated.plainAccesses "async_promise::final_awaiter" "await_suspend" ["call:destroy"]) = true
    ∧ (positions Generated.plainAccesses "async_promise::final_awaiter" "await_suspend" ["call:destroy"]).length = 1
    ∧ (positions Generated.plainAccesses "async_promise::final_awaiter" "await_suspend" ["call:resolve"]).length ≥ 1 := by decide


/-! ## Completeness of the tie and atomicity shapes -/

/-- sites that take part in no publication (initialisation, same-thread hand-shakes, notifications, claims of an owner token that
carry no data): (class, function, kind, object) -/
def otherSites : List (String × String × OpKind × String) := [
  ("sync_awaiter", "wait_sync", OpKind.wait, "flag"), ("sync_awaiter", "wakeup", OpKind.notify, "flag"),
  ("future_common", "initialized", OpKind.load, "_awaiter"), ("future_common", "pending", OpKind.load, "_awaiter"),
  ("future", "get_promise", OpKind.xchg, "_awaiter"),
  -- `future_with_cb::operator<<` (/repo fix edcba93) takes its own registration out of the still private future (no promise exists
  -- yet: the assert next to it demands that the slot holds `this`) before the future is re-created in place
  ("future_with_cb", "operator<<", OpKind.xchg, "_awaiter"),
  ("promise", "~promise<T>", OpKind.load, "_owner"), ("promise", "claim", OpKind.xchg, "_owner"),
  ("async::co_awaiter", "await_ready", OpKind.load, "_awaiter"), ("async::co_awaiter", "await_suspend", OpKind.store, "_awaiter"),
  ("generator::promise_type", "unblock_sync", OpKind.notify, "_block"), ("generator::promise_type", "next_sync", OpKind.store, "_block"),
  -- the learned frame size of `scheduler::start` (a hint that only sizes an `alloca`; every call works on its own copy, nothing is
  -- published through it, so relaxed suffices).  A plain member until /repo fix 549691b: concurrent first calls of `start()` raced.
  ("scheduler", "start", OpKind.load, "_elide_state"), ("scheduler", "start", OpKind.store, "_elide_state")
]

def siteInProtocols (s : Site) : Bool :=
  protocols.any (fun p =>
    let hit (r : SiteRef) : Bool := r.cls == s.cls && r.fn == s.fn && r.kind == s.kind
    hit p.pub || hit p.obs || (match p.fence with | some f => hit f | none => false) || (match p.mid with | some m => hit m | none => false))

/-- every synchronising operation found in the source is either part of a listed protocol or a listed non-publishing site:
a NEW atomic operation (e.g. an exchange split into load + store, a new flag) is not silently outside the analysis -/
def sitesAccounted (tbl : List Site) : Bool :=
  tbl.all (fun s => s.inAssert || siteInProtocols s ||
    otherSites.any (fun o => o.1 == s.cls && o.2.1 == s.fn && o.2.2.1 == s.kind && o.2.2.2 == s.obj))

theorem c03_sites_accounted : sitesAccounted Generated.atomicSites = true := by decide

/-- the non-assert synchronising operations of one function, as (kind, object) in source order -/
def shapeOf (tbl : List Site) (cls fn : String) : List (OpKind × String) :=
  (tbl.filter (fun s => s.cls == cls && s.fn == fn && !s.inAssert)).map (fun s => (s.kind, s.obj))

/-- the claim / detach / test-and-set steps are single read-modify-write operations (not a load followed by a store) -/
theorem c03_rmw_shapes :
    shapeOf Generated.atomicSites "promise" "claim" = [(OpKind.xchg, "_owner")]
    ∧ shapeOf Generated.atomicSites "awaiter" "resume_chain" = [(OpKind.xchg, "chain")]
    ∧ shapeOf Generated.atomicSites "awaiter" "resume_chain_set_ready" = [(OpKind.xchg, "chain")]
    ∧ shapeOf Generated.atomicSites "awaiter" "subscribe" = [(OpKind.cas, "chain")]
    ∧ shapeOf Generated.atomicSites "awaiter" "subscribe_check_ready" = [(OpKind.cas, "chain"), (OpKind.fence, "")]
    ∧ shapeOf Generated.atomicSites "mutex" "ready" = [(OpKind.cas, "_requests")]
    ∧ shapeOf Generated.atomicSites "mutex" "subscribe" = [(OpKind.cas, "_requests")]
    ∧ shapeOf Generated.atomicSites "mutex" "build_queue" = [(OpKind.xchg, "_requests")]
    ∧ shapeOf Generated.atomicSites "mutex" "unlock" = [(OpKind.cas, "_requests")]
    ∧ shapeOf Generated.atomicSites "reusable_storage_mtsafe" "alloc" = [(OpKind.xchg, "_busy"), (OpKind.store, "_busy")]
    ∧ shapeOf Generated.atomicSites "reusable_storage_mtsafe" "dealloc" = [(OpKind.store, "_busy")] := by decide

/-- non-vacuity: the current table resolves every protocol -/
example : (protocols.map (fun p => (ordersOf Generated.atomicSites p).isSome)).all id = true := by decide


/-! ### Lock discipline from the *structured* member functions (extract/lockprog.py transcribes syntax only)

`Generated.LockProgs.allLockProgs` holds, for every member function of the mutex-guarded classes that takes the lock or touches a
guarded field, its statement structure (sequence / if / loops / early return / RAII lock scopes / `unlock()`-`lock()` / condition
waits / inlined `*_lk` helpers / `co_await`) over `LockDisc.Act`.  The branch- and loop-sensitive lock-state reasoning is
`LockProg.check` — a Lean function, proved sound (`LockProg.check_sound`, `checkFn_sound`): every linearisation (all branch
outcomes, any number of loop iterations, an exception leaving any construct) of a function the checker accepts is a
`LockDisc.Balanced` act sequence.  So the translator is trusted for the transcription of syntax, not for the reasoning. -/

/-- every extracted member function keeps the lock discipline on every path (entries from the free state and ending free on every
exit; `*_lk` helpers from the held state) -/
theorem c03_lock_programs_disciplined :
    Generated.LockProgs.allLockProgs.all LockProg.LockFn.ok = true := by decide

/-- the structured extraction and the flat guarded-access table name the same (class, function, field) triples: the two
extractions cross-check each other -/
theorem c03_lock_programs_cover :
    LockProg.sameTriples Generated.LockProgs.lockFields Generated.LockProgs.allLockProgs
      Generated.guardedAccesses = true := by decide

/-- every guarded class of the library is present with at least one entry point (an empty table would make the two theorems above vacuous) -/
theorem c03_lock_programs_classes :
    ["queue", "limited_queue", "thread_pool", "scheduler", "publisher::queue"].all
      (fun c => Generated.LockProgs.allLockProgs.any (fun f => f.cls == c && f.entry)) = true := by decide

/-- race freedom on the guarded fields for ANY number of threads, each calling ANY sequence of the extracted entry points, each
call following ANY of its control paths, under EVERY schedule -/
theorem c03_lock_programs_safe (calls : Nat → List (List LockDisc.Act))
    (hc : ∀ t, ∀ c ∈ calls t, ∃ f ∈ Generated.LockProgs.allLockProgs, f.entry = true ∧ LockProg.Lin f.prog c) :
    ∀ sched : List Nat, (LockDisc.run (fun t => (calls t).flatten) sched).raced = false :=
  LockProg.lockfns_safe _ c03_lock_programs_disciplined calls hc

end Cocls.C03
