import CoclsModel.MutexProofs
import CoclsModel.MutexPtrProofs
/-!
# C07 — coroutine mutex: mutual exclusion, exactly-once grant (property theorems)

Model: `Mutex.lean` (micro-step model of `cocls::mutex`, tied to `mutex.h` by the step-for-step replay of
`checks/c07.py`).  Proofs: `MutexProofs.lean` (invariant `Inv`, preserved by every activity).

Quantifier of every theorem: **every** configuration `c` (any number of agents, any rounds: acquisition flavour
`lock`/`try_`/`co`/`cb`, way of giving the ownership up `x`/`d`/`a`/`g`/`m`, own ownership object or the shared slot; the
transfer to OS threads additionally needs `c.WFT`), and **every** state `s` with
`Reachable c s`, i.e. every state reached from `init c` by **any** finite sequence of agent activities `(t, a)`
("agent `a`'s code runs on OS thread `t` up to and including its next atomic operation") each of which is permitted by
the guard `canRun` — `s.pc a ∉ {parked, done}` and (`s.pc a = blocked → s.flag a`) — an over-approximation of what the
executor glue `threadStep` can do (`threadStep_is_arun`, `trun_init_reachable`: every schedule of enabled OS threads
stays inside `Reachable`).  No bound on agents, rounds or run length.
-/
namespace Cocls.Mutex
variable {c : Cfg} {s : State}

/-- `try_lock`/`ready()` is one step and succeeds iff the mutex is free -/
theorem c07_ready_iff_free (c : Cfg) (s : State) (t a : Nat) (r : Round) (hpc : s.pc a = Pc.top)
    (hr : curRound c s a = some r) :
    ((agentStep c s t a).1.pc a = Pc.crit ↔ s.req = []) := by
  unfold agentStep
  simp only [hpc, hr]
  cases h : s.req with
  | nil => simp [setPc]
  | cons x xs => cases r.fl <;> simp [setPc]

example : (agentStep cfgEx (init cfgEx) 0 0).1.pc 0 = Pc.crit ∧
    (agentStep cfgEx (arun cfgEx (init cfgEx) [(0,0)]) 1 1).1.pc 1 = Pc.sub Seen.null := by decide


/-- **Mutual exclusion.** In every state reachable by guarded agent activities (any number of agents, rounds,
    flavours, release styles, any interleaving, any assignment of activities to OS threads) at most one agent is an
    owner. -/
theorem c07_mutex (hs : Reachable c s) : ∀ a b, Owner s a → Owner s b → a = b :=
  (inv_reachable hs).excl

/- after the hand-over of scenario `runB`, 1 is the owner, 0 is not any more, 2 is still queued -/
example : Reachable cfgEx sB := reachable_of_run _ runB (by decide)
example : Owner sB 1 ∧ ¬ Owner sB 0 ∧ ¬ Owner sB 2 ∧ sB.queue = [2] := by decide
/- a blocking waiter is not an owner before its flag is stored -/
example : Reachable cfgSy sS ∧ Owner sS 0 ∧ ¬ Owner sS 1 ∧ sS.pc 1 = Pc.blocked := ⟨reachable_of_run _ runS (by decide), by decide⟩

/-- the critical-section counter never exceeds one -/
theorem c07_mutex_incs (hs : Reachable c s) : s.incs ≤ 1 := by
  have h := inv_reachable hs
  by_cases hex : ∃ a, s.pc a = Pc.afterCs
  · obtain ⟨a, ha⟩ := hex
    rw [h.incsA a ha]; exact Nat.le_refl 1
  · rw [h.incsN (fun a ha => hex ⟨a, ha⟩)]; exact Nat.zero_le 1

example : (arun cfgEx (init cfgEx) (runB ++ [(0,1)])).incs = 1 ∧ sB.incs = 0 := by decide

/-- the overlap flag of every critical-section event is false -/
theorem c07_no_overlap (hs : Reachable c s) (t a : Nat) (x r : Nat) (ov : Bool)
    (hev : Ev.cs x r ov ∈ (agentStep c s t a).2.1) : ov = false := by
  have h := inv_reachable hs
  obtain ⟨hpc, _, _, hov⟩ := step_cs_event c s t a x r ov hev
  have : s.incs = 0 := by
    apply h.incsN
    intro b hb
    have := h.excl a b (by rcases hpc with e | e <;> simp [Owner, e, isOwner]) (by simp [Owner, hb, isOwner])
    subst this
    rcases hpc with e | e <;> rw [e] at hb <;> cases hb
  simp [hov, this]

example : (agentStep cfgEx sB 0 1).2.1 = [Ev.cs 1 0 false, Ev.csOp 0 1] := by decide

/-- **Each request is granted exactly once (counting form).** `grants a` + failed `try_lock`s = completed rounds
    (+ 1 while the agent holds the lock in its current round). -/
theorem c07_grant_once (hs : Reachable c s) (a : Nat) :
    s.grants a + s.fails a = s.round a + (if Holding s a then 1 else 0) ∧ s.grants a ≤ s.round a + 1 := by
  have h := (inv_reachable hs).gr a
  refine ⟨h, ?_⟩
  split at h <;> omega

example : Reachable cfgEx sZ ∧ (sZ.grants 2, sZ.fails 2, sZ.round 2) = (2, 0, 2) ∧ ¬ Holding sZ 2 :=
  ⟨reachable_of_run _ runZ (by decide), by decide⟩
example : (sB.grants 1, sB.fails 1, sB.round 1) = (1, 0, 0) ∧ Holding sB 1 := by decide
example : (sS.grants 2, sS.fails 2, sS.round 2) = (0, 1, 1) := by decide

/-- **Each request `(agent, round)` is granted at most once**; it has been granted or (for `try_lock`) failed exactly
    once iff the round is completed or the agent currently holds the lock for it. -/
theorem c07_grant_once_request (hs : Reachable c s) (a r : Nat) :
    s.grantReqs.count (a, r) ≤ 1 ∧
    s.grantReqs.count (a, r) + s.failReqs.count (a, r) = (if r < s.round a ∨ (r = s.round a ∧ Holding s a) then 1 else 0) ∧
    ((a, r) ∈ s.failReqs → ∃ rd, (c.rounds a)[r]? = some rd ∧ rd.fl = Flavour.try_) := by
  have h := inv_reachable hs
  have hg := h.greq a r
  refine ⟨?_, hg, h.failT a r⟩
  split at hg <;> omega

example : sZ.grantReqs = [(0, 0), (1, 0), (2, 0), (2, 1)] ∧ sZ.failReqs = [] ∧ sS.failReqs = [(2, 0)] := by decide

theorem c07_grantReqs_nodup (hs : Reachable c s) : s.grantReqs.Nodup := by
  rw [List.nodup_iff_count]
  intro ⟨a, r⟩
  exact (c07_grant_once_request hs a r).1

example : sB.grantReqs = [(0, 0), (1, 0)] := by decide

/-- at quiescence every configured request has been granted exactly once (or, for `try_lock`, failed) -/
theorem c07_granted_at_quiescence (hs : Reachable c s) (a : Nat) (ha : a < c.n) (hd : s.pc a = Pc.done)
    (r : Nat) (hr : r < (c.rounds a).length) :
    s.grantReqs.count (a, r) + s.failReqs.count (a, r) = 1 := by
  have h := inv_reachable hs
  have := (h.rnd a).2.2 hd ha
  rw [(c07_grant_once_request hs a r).2.1, if_pos (Or.inl (by omega))]

example : (∀ a, a < 3 → sZ.pc a = Pc.done) ∧ sZ.grantReqs.length = 4 := by decide

/-- every grant leads to exactly one critical-section entry -/
theorem c07_enter_once (hs : Reachable c s) (a : Nat) :
    s.grantLog.count a + (if Entering s a then 1 else 0) = s.grants a :=
  (inv_reachable hs).glog a

example : sZ.grantLog = [0, 1, 2, 2] ∧ sB.grantLog = [0] ∧ Entering sB 1 := by decide

/-- **A waiting agent is registered exactly once**: a parked coroutine (and a blocked waiter whose flag is not set)
    has exactly one node in `queue ++ stack`; nobody else (except the found-null acquirer before its `build_queue`)
    has one. -/
theorem c07_resume_once (hs : Reachable c s) (a : Nat) :
    s.queue.count a + (nodesOf s.req).count a = (if Listed s a then 1 else 0) ∧
    (s.pc a = Pc.parked → s.queue.count a + (nodesOf s.req).count a = 1) ∧
    (s.queue ++ nodesOf s.req).Nodup := by
  have h := inv_reachable hs
  refine ⟨h.cnt a, ?_, ?_⟩
  · intro hp
    rw [h.cnt a, if_pos (show Listed s a from Or.inl (by simp [hp, isWaiting]))]
  · rw [List.nodup_iff_count]
    intro x
    have := h.cnt x
    rw [List.count_append]
    split at this <;> omega

example : Reachable cfgEx sP ∧ sP.pc 1 = Pc.parked ∧ sP.pc 2 = Pc.parked ∧ nodesOf sP.req = [2, 1] ∧ sP.queue = [] :=
  ⟨reachable_of_run _ runP (by decide), by decide⟩
example : sA.pc 1 = Pc.parked ∧ nodesOf sA.req = [] ∧ sA.queue = [1, 2] := by decide

/-- **A parked coroutine is resumed only by a hand-over, once**: an activity of another agent `x` leaves it parked
    unless `x` is the owner handing the lock to the head of the queue, which is `a`; then `a` is at `crit`,
    owner, granted once more and no longer registered anywhere — so no second hand-over can reach it. -/
theorem c07_resume_once_step (hs : Reachable c s) (t x a : Nat) (hx : canRun s x = true)
    (hp : s.pc a = Pc.parked) :
    let s' := (agentStep c s t x).1
    (s'.pc a = Pc.parked ∧ s'.grants a = s.grants a) ∨
    (grantee c s x = some a ∧ s'.pc a = Pc.crit ∧ s'.grants a = s.grants a + 1 ∧ a ∉ s'.queue ∧ a ∉ nodesOf s'.req) := by
  intro s'
  have h := inv_reachable hs
  have hax : a ≠ x := by rintro rfl; simp [canRun, hp] at hx
  have h' : Inv c s' := inv_step h t hx
  have hF := h.step_frame t x
  have hpc := hF.pc a hax
  have hgr := hF.grants a hax
  by_cases hg : grantee c s x = some a
  · right
    have hk := h.kindP a hp
    have hpc' : s'.pc a = Pc.crit := by rw [hpc, if_pos ⟨hg, hk⟩]
    have hc := h'.cnt a
    rw [if_neg (by simp [Listed, hpc', isWaiting])] at hc
    refine ⟨hg, hpc', ?_, ?_, ?_⟩
    · show (agentStep c s t x).1.grants a = _
      rw [hgr, if_pos hg]
    · rw [← List.count_eq_zero]; omega
    · rw [← List.count_eq_zero]; omega
  · left
    have hpc' : s'.pc a = Pc.parked := by rw [hpc, if_neg (fun hh => hg hh.1), hp]
    refine ⟨hpc', ?_⟩
    show (agentStep c s t x).1.grants a = _
    rw [hgr, if_neg hg]

/- `sA → sB` is the hand-over to 1 (second alternative); the step before it left 1 parked (first alternative) -/
example : grantee cfgEx sA 0 = some 1 ∧ sA.pc 1 = Pc.parked ∧ sB.pc 1 = Pc.crit ∧ sB.grants 1 = sA.grants 1 + 1 ∧
    1 ∉ sB.queue ∧ 1 ∉ nodesOf sB.req := by decide
example : grantee cfgEx sP 0 = none ∧ (agentStep cfgEx sP 0 0).1.pc 1 = Pc.parked := by decide

/-- **A blocked thread is woken only by a hand-over, once**: the flag of a blocking waiter whose request is pending
    stays clear under every activity of another agent `x`, unless `x` is the owner handing the lock to the head of
    the queue, which is `a`; then the flag is set, `a` is the owner, granted once more and registered nowhere. -/
theorem c07_wake_once_step (hs : Reachable c s) (t x a : Nat) (hx : canRun s x = true) (hax : a ≠ x)
    (hw : (s.pc a = Pc.waitFlag ∨ s.pc a = Pc.blocked) ∧ s.flag a = false) :
    let s' := (agentStep c s t x).1
    s'.pc a = s.pc a ∧
    ((s'.flag a = false ∧ s'.grants a = s.grants a) ∨
     (grantee c s x = some a ∧ s'.flag a = true ∧ Owner s' a ∧ s'.grants a = s.grants a + 1 ∧
      a ∉ s'.queue ∧ a ∉ nodesOf s'.req)) := by
  intro s'
  have h := inv_reachable hs
  have h' : Inv c s' := inv_step h t hx
  have hk : flOf c s a ≠ some Flavour.co := by
    rcases h.kindW a hw.1 with e | e <;> rw [e] <;> simp
  have hF := h.step_frame t x
  have hpc : s'.pc a = s.pc a := by
    show (agentStep c s t x).1.pc a = _
    rw [hF.pc a hax, if_neg (fun hh => hk hh.2)]
  have hfl := hF.flag a hax
  have hgr := hF.grants a hax
  refine ⟨hpc, ?_⟩
  by_cases hg : grantee c s x = some a
  · right
    have hf' : s'.flag a = true := by
      show (agentStep c s t x).1.flag a = _
      rw [hfl, if_pos ⟨hg, hk⟩]
    have hown : Owner s' a := by
      unfold Owner; rw [hpc, hf']; rcases hw.1 with e | e <;> simp [e, isOwner]
    have hc := h'.cnt a
    rw [if_neg (by
      unfold Listed; rw [hpc, hf']; rcases hw.1 with e | e <;> simp [e, isWaiting])] at hc
    refine ⟨hg, hf', hown, ?_, ?_, ?_⟩
    · show (agentStep c s t x).1.grants a = _
      rw [hgr, if_pos hg]
    · rw [← List.count_eq_zero]; omega
    · rw [← List.count_eq_zero]; omega
  · left
    constructor
    · show (agentStep c s t x).1.flag a = _
      rw [hfl, if_neg (fun hh => hg hh.1)]; exact hw.2
    · show (agentStep c s t x).1.grants a = _
      rw [hgr, if_neg hg]

/- scenario `runS`: blocking waiter 1 behind owner 0; 0's critical section leaves the flag clear, its hand-over sets it -/
example : sS.pc 1 = Pc.blocked ∧ sS.flag 1 = false ∧ (agentStep cfgSy sS 0 0).1.flag 1 = false ∧
    (arun cfgSy sS [(0,0), (0,0), (0,0), (0,0)]).flag 1 = true ∧
    Owner (arun cfgSy sS [(0,0), (0,0), (0,0), (0,0)]) 1 := by decide

/-- **Never resumed while still suspending (step form).** The publishing CAS of a coroutine behind an owner is the
    last thing the publishing activity does with the agent: in the same step the agent becomes `parked`, the
    publishing thread drops it (`cur t = none`), the thread's step ends (`Outcome.op`), the agent is registered once
    in the stack and its code is not runnable. -/
theorem c07_not_while_suspending (hs : Reachable c s) (t a : Nat) (prev : Seen)
    (hpc : s.pc a = Pc.sub prev) (hseen : seenOf s.req = prev) (hprev : prev ≠ Seen.null)
    (hk : flOf c s a = some Flavour.co) :
    let r := agentStep c s t a
    r.1.pc a = Pc.parked ∧ r.2.2 = Outcome.op ∧ r.1.cur t = none ∧ canRun r.1 a = false ∧
    r.1.req = Elem.node a (keyOf c s a) :: s.req ∧ (nodesOf r.1.req).count a = 1 ∧ r.1.queue.count a = 0 := by
  intro r
  have hr : r = agentStep c s t a := rfl
  have hcan : canRun s a = true := by simp [canRun, hpc]
  have h' : Inv c r.1 := inv_step (inv_reachable hs) t hcan
  unfold agentStep at hr
  simp only [hpc, hseen, if_true, hprev, if_false, hk, ne_eq, not_false_eq_true, and_self] at hr
  have hp : r.1.pc a = Pc.parked := by rw [hr]; simp [setPc]
  have hc := h'.cnt a
  rw [if_pos (show Listed r.1 a from Or.inl (by simp [hp, isWaiting]))] at hc
  have hreq : r.1.req = Elem.node a (keyOf c s a) :: s.req := by rw [hr]
  have hn : (nodesOf r.1.req).count a ≥ 1 := by rw [hreq]; simp
  refine ⟨hp, by rw [hr], by rw [hr]; simp, by simp [canRun, hp], hreq, by omega, by omega⟩

/- the publishing CAS of coroutine 1 behind owner 0 (third activity of 1), agent level and OS-thread level -/
example : (arun cfgEx (init cfgEx) [(0,0), (1,1), (1,1)]).pc 1 = Pc.sub Seen.door ∧
    (arun cfgEx (init cfgEx) [(0,0), (1,1), (1,1), (1,1)]).pc 1 = Pc.parked := by decide
example : (trun cfgEx 100 (init cfgEx) [0, 1, 1]).cur 1 = some 1 ∧ (trun cfgEx 100 (init cfgEx) [0, 1, 1, 1]).cur 1 = none ∧
    (trun cfgEx 100 (init cfgEx) [0, 1, 1, 1]).pc 1 = Pc.parked := by decide

/-- **Never resumed while still suspending (run form).** From a state in which coroutine `a` is parked, along every
    guarded run in which no activity is a hand-over to `a`, `a` stays parked and *no activity of `a` exists* — on
    any thread, in particular not on the thread that published it.  Its code runs again only after the owner's
    hand-over made it `crit` (`c07_resume_once_step`). -/
theorem c07_no_activity_while_parked (a : Nat) : ∀ (l : List (Nat × Nat)) (s : State), Reachable c s →
    s.pc a = Pc.parked → Guarded c s l →
    (∀ l1 p l2, l = l1 ++ p :: l2 → grantee c (arun c s l1) p.2 ≠ some a) →
    (arun c s l).pc a = Pc.parked ∧ ∀ p ∈ l, p.2 ≠ a := by
  intro l
  induction l with
  | nil => intro s _ hp _ _; exact ⟨hp, by simp⟩
  | cons p l ih =>
    intro s hs hp hg hno
    have hpa : p.2 ≠ a := by rintro rfl; have := hg.1; simp [canRun, hp] at this
    have hstep := c07_resume_once_step hs p.1 p.2 a hg.1 hp
    have hp1 : (agentStep c s p.1 p.2).1.pc a = Pc.parked := by
      rcases hstep with h1 | h1
      · exact h1.1
      · exact absurd h1.1 (hno [] p l rfl)
    have := ih _ (reachable_step hs p.1 hg.1) hp1 hg.2 (fun l1 q l2 e => by
      have := hno (p :: l1) q l2 (by rw [e]; rfl)
      simpa [arun] using this)
    refine ⟨this.1, ?_⟩
    intro q hq
    rcases List.mem_cons.1 hq with e | e
    · rw [e]; exact hpa
    · exact this.2 q e


/- in scenario `runA` coroutine 1 is parked after the 4th activity; none of the following activities is one of 1 -/
example : (arun cfgEx (init cfgEx) (runA.take 4)).pc 1 = Pc.parked ∧ (∀ p ∈ runA.drop 4, p.2 ≠ 1) ∧ sA.pc 1 = Pc.parked := by
  decide

/-! ## ownership objects

`s.held o`: ownership object `o` is armed for the mutex (`objOf c s a`: the object agent `a` uses in its current round — its
own one or the slot shared by all contenders).  An ownership is *stored* into the object by the `crit` step (construction,
move-assignment, `ownership(co_awaiter&&)`) or, for a callback contender granted as a waiter, by the callback running inside
the previous owner's `unlock` (`handOver`); it is *given up* through the object by `release()` (discarded or awaited),
destruction, assignment of an empty ownership, move into a temporary that is destroyed, move-assignment of the ownership of
another (the agent's auxiliary) mutex — all of which enter `unlock` (`unlockStart`) only if the object is armed and disarm it
first. -/

/-- **Ownership objects and owners.** The object of an agent that has stored its ownership and not yet started to give it
    up is armed; an armed object is the object of the unique owner, who is in that phase — so at most one object is armed
    and nothing is armed while nobody owns the mutex; an ownership is never stored into an object that is still armed
    (`bad = false`: the store never runs the deleter, in particular not when the next owner stores into the very object
    the previous owner released from). -/
theorem c07_ownership_objects (hs : Reachable c s) :
    (∀ a, Armed c s a → s.held (objOf c s a) = true) ∧
    (∀ o a, s.held o = true → Owner s a → Armed c s a ∧ objOf c s a = o) ∧
    (∀ o1 o2, s.held o1 = true → s.held o2 = true → o1 = o2) ∧
    ((∀ a, ¬ Owner s a) → ∀ o, s.held o = false) ∧ s.bad = false := by
  have h := inv_reachable hs
  refine ⟨h.heldA, h.heldO, ?_, h.heldN, h.noBad⟩
  intro o1 o2 h1 h2
  apply Classical.byContradiction
  intro hne
  by_cases hex : ∃ a, Owner s a
  · obtain ⟨a, ha⟩ := hex
    exact hne ((h.heldO o1 a h1 ha).2.symm.trans (h.heldO o2 a h2 ha).2)
  · have := h.heldN (fun a ha => hex ⟨a, ha⟩) o1
    rw [h1] at this; cases this

/- scenario `runO1/runO2`: 0 keeps its ownership in the shared slot (object 4); it releases through the slot, and the callback
   of the next owner 1 stores 1's ownership into the same slot inside 0's `unlock` -/
example : Reachable cfgOw sO2 := reachable_of_run _ runO2 (by decide)
example : sO1.held 4 = true ∧ Armed cfgOw sO1 0 ∧ objOf cfgOw sO1 0 = 4 := by decide
example : (arun cfgOw (init cfgOw) (runO1 ++ [(0,0)])).held 4 = false ∧ sO2.held 4 = true ∧ sO2.pc 0 = Pc.relDone ∧
    Armed cfgOw sO2 1 ∧ Owner sO2 1 ∧ objOf cfgOw sO2 1 = 4 ∧ sO2.bad = false := by decide

/-- **Every way of giving the ownership up finds its object armed and enters `unlock`**: `release()` / destruction / move
    into a temporary / assignment of an empty ownership (`afterCs`, rel ≠ `g`) and the hand-over-hand assignment (`asg`). -/
theorem c07_release_armed (hs : Reachable c s) (x : Nat)
    (hpc : (s.pc x = Pc.afterCs ∧ relOf c s x ≠ some Rel.g) ∨ s.pc x = Pc.asg) :
    s.held (objOf c s x) = true ∧ unlocking c s x := by
  have h := inv_reachable hs
  have harm : Armed c s x := by rcases hpc with ⟨e, _⟩ | e <;> simp [Armed, e, isArmed]
  have hh := h.heldA x harm
  refine ⟨hh, ?_⟩
  rcases hpc with ⟨e, hr⟩ | e
  · exact Or.inl ⟨e, hr, hh⟩
  · exact Or.inr (Or.inl ⟨e, hh⟩)

example : sO3.pc 3 = Pc.asg ∧ sO3.held 3 = true ∧ sO3.aux 3 = true ∧ unlocking cfgOw sO3 3 := by decide

/-- **A mutex whose every ownership has been released, destroyed or overwritten is free or handed over.** If no ownership
    object is armed, the mutex is free (nobody owns it, `_requests = nullptr`, queue empty), or its owner is in a
    transient phase: the acquisition / hand-over is in progress (the granted ownership is not yet stored: `build`, `crit`,
    a woken blocking waiter) or its `unlock` is in progress (`relBuild`, `relHand`). -/
theorem c07_all_released_free (hs : Reachable c s) (hnone : ∀ o, s.held o = false) :
    (s.req = [] ∧ s.queue = [] ∧ ∀ a, ¬ Owner s a) ∨
    ∃ a, Owner s a ∧ (s.pc a = Pc.build ∨ s.pc a = Pc.crit ∨ s.pc a = Pc.relBuild ∨ s.pc a = Pc.relHand ∨
      ((s.pc a = Pc.waitFlag ∨ s.pc a = Pc.blocked) ∧ s.flag a = true ∧ flOf c s a ≠ some Flavour.cb)) := by
  have h := inv_reachable hs
  by_cases hex : ∃ a, Owner s a
  · right
    obtain ⟨a, ha⟩ := hex
    refine ⟨a, ha, ?_⟩
    have hna : ¬ Armed c s a := by
      intro harm; have := h.heldA a harm; rw [hnone] at this; cases this
    unfold Owner at ha
    unfold Armed at hna
    generalize s.pc a = p at *
    cases p <;> simp_all [isOwner, isArmed]
    all_goals (intro e; simp [e] at hna)
  · left
    have hno : ∀ a, ¬ Owner s a := fun a ha => hex ⟨a, ha⟩
    exact ⟨(h.free hno).1, (h.free hno).2, hno⟩

/-- at quiescence nothing is armed, every auxiliary mutex is free, the mutex is free -/
theorem c07_quiescent_released (hs : Reachable c s) (hd : ∀ a, s.pc a = Pc.done) :
    (∀ o, s.held o = false) ∧ (∀ a, s.aux a = false) ∧ s.req = [] ∧ s.queue = [] := by
  have h := inv_reachable hs
  have hno : ∀ a, ¬ Owner s a := fun a ha => by simp [Owner, hd a, isOwner] at ha
  refine ⟨h.heldN hno, ?_, (h.free hno).1, (h.free hno).2⟩
  intro a
  cases ha : s.aux a with
  | false => rfl
  | true => have := (h.auxOk a ha).2; simp [hd a] at this

example : Reachable cfgOw sOZ ∧ (∀ a, a < 4 → sOZ.pc a = Pc.done) ∧ (∀ o, o < 5 → sOZ.held o = false) ∧ sOZ.req = [] :=
  ⟨reachable_of_run _ runOZ (by decide), by decide⟩

/-! ## transfer to the OS-thread level (the level the harness exercises) -/

/-- **C07 holds for every schedule of OS threads**: after any schedule `ts` of enabled threads (executor glue
    `threadStep`, any fuel) from `init c` at most one agent is an owner, the critical-section counter is at most one,
    every request has been granted at most once. -/
theorem c07_thread_level (hwf : c.WFT) (fuel : Nat) (ts : List Nat) (hg : TGuarded c fuel (init c) ts) :
    let s := trun c fuel (init c) ts
    (∀ a b, Owner s a → Owner s b → a = b) ∧ s.incs ≤ 1 ∧ s.grantReqs.Nodup ∧ s.bad = false := by
  intro s
  have hs : Reachable c s := trun_init_reachable hwf fuel ts hg
  exact ⟨c07_mutex hs, c07_mutex_incs hs, c07_grantReqs_nodup hs, (inv_reachable hs).noBad⟩

example : TGuarded cfgEx 100 (init cfgEx) schedB ∧ Owner (trun cfgEx 100 (init cfgEx) schedB) 1 ∧
    (trun cfgEx 100 (init cfgEx) schedB).grantReqs = [(0, 0), (1, 0)] := by decide

end Cocls.Mutex

/-!
# C07 at pointer level (`MutexPtr.lean`, `MutexPtrProofs.lean`): nobody touches a node it no longer owns

The list-level model cannot say what happens to the `awaiter::_next` field and the awaiter object of a request: a list has
no dangling links.  The pointer-level model has the links, the ghost `live` (a request node is alive from the segment that
sets it up until its owner, granted the lock, continues) and the ghost access log `acc` of every activity.  It is tied to
the real header by the suite `ptr-level` of `checks/c08.py` (pointer digest after every operation) and refines the list-level
model (`c08_ptr_refines_list`).  Quantifier: every configuration `c`, every loop fuel `wf ≥ c.n`, every activity list
permitted by `canRun` (every schedule of enabled OS threads for `c.WFT`), any thread `t` for the next activity.
-/
namespace Cocls.MutexPtr
open Cocls.Mutex (Elem Seen Flavour Rel Round AKind Cfg Pc TMain Ev Outcome upd nodesL nodesOf seenOf Inv Listed Owner
  Waiting canRun cfgEx runP runA runB runN runZ sP sA sB sN sZ)
variable {c : Cfg}

/-- **No access to a dead node, to null or to the doorman.**  Along every permitted activity list and along every schedule
    of enabled OS threads the ghost flag `viol` stays clear — and it stays clear under the next activity of *any* agent on
    any thread from such a state: every `_next` read/write of `subscribe`, of the loop of `build_queue`, of `unlock`, and the
    read of the awaiter by `resume()`, touches a request node that is alive at that moment. -/
theorem c07_no_dead_access_ptr (wf : Nat) (hwf : c.n ≤ wf) :
    (∀ l, Mutex.Guarded c (Mutex.init c) l → (arun c wf (init c) l).viol = false ∧
      ∀ t a, (agentStep c wf (arun c wf (init c) l) t a).1.viol = false) ∧
    (c.WFT → ∀ fuel ts, Mutex.TGuarded c fuel (Mutex.init c) ts → (trun c wf fuel (init c) ts).viol = false) := by
  refine ⟨fun l hg => ⟨(repr_run wf hwf l hg).2.noViol, fun t a => ?_⟩,
    fun hw fuel ts hg => (trun_init_sim hw wf hwf fuel ts hg).1.2.noViol⟩
  have hs := Mutex.reachable_of_run c l hg
  exact (step_no_viol wf (repr_run wf hwf l hg) (Mutex.inv_reachable hs) (by have := queue_length_le hs; omega) t a).1

example : (arun cfgEx 3 (init cfgEx) runZ).viol = false ∧ (trun cfgEx 3 100 (init cfgEx) Mutex.schedZ).viol = false := by decide

/-- **The requester never touches its node after the publishing CAS.**  Every node access of the next activity of `a` is
    made while `a` is inside `subscribe` (pc `sub`: the plain writes *before* the CAS, on its own node) — or touches a node
    of *another* agent (the owner walking / popping the nodes of waiting requesters).  At the pcs of a published request
    (`parked`, `waitFlag`, `blocked`, `build`) the activity has no node access at all; neither has the activity that follows
    a hand-over (`relDone`): the former owner never touches the node again. -/
theorem c07_no_touch_after_publish_ptr (wf : Nat) (hwf : c.n ≤ wf) (l : List (Nat × Nat))
    (hg : Mutex.Guarded c (Mutex.init c) l) (t a : Nat) :
    (∀ x ∈ (agentStep c wf (arun c wf (init c) l) t a).1.acc, x.agent = a ∧
      ((∃ p, (Mutex.arun c (Mutex.init c) l).pc a = Pc.sub p) ∨ ∀ k, x.node ≠ Seen.node a k)) ∧
    ((Mutex.arun c (Mutex.init c) l).pc a = Pc.parked ∨ (Mutex.arun c (Mutex.init c) l).pc a = Pc.waitFlag ∨
      (Mutex.arun c (Mutex.init c) l).pc a = Pc.blocked ∨ (Mutex.arun c (Mutex.init c) l).pc a = Pc.build ∨
      (Mutex.arun c (Mutex.init c) l).pc a = Pc.relDone → (agentStep c wf (arun c wf (init c) l) t a).1.acc = []) := by
  have hR := repr_run wf hwf l hg
  have hs := Mutex.reachable_of_run c l hg
  have hI := Mutex.inv_reachable hs
  have hq : (Mutex.arun c (Mutex.init c) l).queue.length ≤ wf := by have := queue_length_le hs; omega
  generalize arun c wf (init c) l = ps at *
  generalize Mutex.arun c (Mutex.init c) l = ls at *
  constructor
  · intro x hx
    obtain ⟨h1, h2⟩ := agentStep_acc wf hR hI hq t a x hx
    refine ⟨h1, ?_⟩
    rcases h2 with ⟨h, _⟩ | ⟨hown, n, hn, hm⟩
    · exact Or.inl h
    · right
      intro k hk
      rw [hn] at hk
      injection hk with e1 _
      have hl := inv_listed_of_mem hI (Or.inl (e1 ▸ hm))
      rcases hl with hw | hb
      · revert hw hown
        unfold Owner
        generalize ls.pc a = p
        generalize ls.flag a = f
        cases p <;> cases f <;> simp [Mutex.isOwner, Mutex.isWaiting]
      · have := (hI.bld a hb).2
        rw [this] at hm; cases hm
  · intro hpc
    apply Classical.byContradiction
    intro hne
    have := agentStep_acc_pc wf hR hI hq t a hne
    rcases this with ⟨p, h⟩ | h | h | h | h <;> rcases hpc with h' | h' | h' | h' | h' <;> rw [h] at h' <;> cases h'

/- coroutine 1 of scenario `runP` is parked behind owner 0: its node is linked and alive, and no activity of 1 touches it -/
example : sP.pc 1 = Pc.parked ∧ (arun cfgEx 3 (init cfgEx) runP).next (2, 0) = Seen.node 1 0 ∧
    (arun cfgEx 3 (init cfgEx) runP).live (1, 0) = true ∧
    (agentStep cfgEx 3 (arun cfgEx 3 (init cfgEx) runP) 1 1).1.acc = [] := by decide
/- the last activity of 1 inside `subscribe` (its publishing CAS) wrote `_next` of its own node, before the CAS -/
example : (arun cfgEx 3 (init cfgEx) (runP.take 4)).acc = [⟨1, Seen.node 1 0, Field.next, true⟩] ∧
    (arun cfgEx 3 (init cfgEx) (runP.take 3)).acc =
      [⟨1, Seen.node 1 0, Field.body, true⟩, ⟨1, Seen.node 1 0, Field.next, true⟩] := by decide

/-- **`unlock` unlinks the new owner before resuming it and never touches it afterwards.**  When the next activity of `x`
    hands the lock to `b` (`grantee … x = some b`), its node accesses are: those of the `build_queue` loop (if its exchange
    ended the previous segment), then exactly `read head->_next; write head->_next = nullptr; read head (resume)` on the node
    `(b, k)` of `b`'s current request, in this order.  Afterwards `_next` of that node is null, the node is still alive (it
    dies only when `b` itself continues), `x` is at `relDone`, and the next activity of `x` touches no node. -/
theorem c07_unlock_unlinks_before_resume_ptr (wf : Nat) (hwf : c.n ≤ wf) (l : List (Nat × Nat))
    (hg : Mutex.Guarded c (Mutex.init c) l) (t x b : Nat) (hx : canRun (Mutex.arun c (Mutex.init c) l) x = true)
    (hgr : Mutex.grantee c (Mutex.arun c (Mutex.init c) l) x = some b) :
    ∃ (k : Nat) (w : List Node),
      (agentStep c wf (arun c wf (init c) l) t x).1.acc = walkAcc x w ++ popAcc x b k ∧
      (agentStep c wf (arun c wf (init c) l) t x).1.next (b, k) = Seen.null ∧
      (agentStep c wf (arun c wf (init c) l) t x).1.live (b, k) = true ∧
      k = keyOf c (arun c wf (init c) l) b ∧
      (agentStep c wf (arun c wf (init c) l) t x).1.pc x = Pc.relDone ∧
      ∀ t', (agentStep c wf (agentStep c wf (arun c wf (init c) l) t x).1 t' x).1.acc = [] := by
  have hR := repr_run wf hwf l hg
  have hs := Mutex.reachable_of_run c l hg
  have hq : (Mutex.arun c (Mutex.init c) l).queue.length ≤ wf := by have := queue_length_le hs; omega
  obtain ⟨k, w, h1, h2, h3, h4, h5⟩ := handover_step wf hR (Mutex.inv_reachable hs) hq t x b hgr
  refine ⟨k, w, h1, h2, h3, h4, h5, fun t' => ?_⟩
  have hl : Mutex.Guarded c (Mutex.init c) (l ++ [(t, x)]) :=
    (Mutex.guarded_append l (Mutex.init c) [(t, x)]).2 ⟨hg, hx, trivial⟩
  have h := (c07_no_touch_after_publish_ptr wf hwf (l ++ [(t, x)]) hl t' x).2
  have e1 : arun c wf (init c) (l ++ [(t, x)]) = (agentStep c wf (arun c wf (init c) l) t x).1 := by
    simp [arun, List.foldl_append]
  have e2 : Mutex.arun c (Mutex.init c) (l ++ [(t, x)]) = (Mutex.agentStep c (Mutex.arun c (Mutex.init c) l) t x).1 := by
    simp [Mutex.arun, List.foldl_append]
  rw [e1, e2] at h
  apply h
  right; right; right; right
  have := (agentStep_sim wf hR (Mutex.inv_reachable hs) hq t x).2.1
  rw [this]
  exact h5

/- `pA → pA'` (scenario `runA`, owner 0 at `relHand`): the loop moves n2.0, n1.0; then n1.0 is read, cleared, resumed -/
example : Mutex.grantee cfgEx sA 0 = some 1 ∧
    (agentStep cfgEx 3 (arun cfgEx 3 (init cfgEx) runA) 0 0).1.acc = walkAcc 0 [(2, 0), (1, 0)] ++ popAcc 0 1 0 ∧
    (agentStep cfgEx 3 (arun cfgEx 3 (init cfgEx) runA) 0 0).1.next (1, 0) = Seen.null ∧
    (agentStep cfgEx 3 (arun cfgEx 3 (init cfgEx) runA) 0 0).1.live (1, 0) = true := by decide

/-- **No two agents' next segments touch the same node** (race freedom on the plain node fields at interleaving level):
    for `a ≠ b`, whatever threads run them. -/
theorem c07_no_conflict_ptr (wf : Nat) (hwf : c.n ≤ wf) (l : List (Nat × Nat)) (hg : Mutex.Guarded c (Mutex.init c) l)
    (a b : Nat) (hab : a ≠ b) (t t' : Nat) :
    ∀ x ∈ (agentStep c wf (arun c wf (init c) l) t a).1.acc, ∀ y ∈ (agentStep c wf (arun c wf (init c) l) t' b).1.acc,
      x.node ≠ y.node := by
  have hs := Mutex.reachable_of_run c l hg
  exact step_no_conflict wf (repr_run wf hwf l hg) (Mutex.inv_reachable hs) (by have := queue_length_le hs; omega) hab t t'

/- in `pA` the owner's next segment touches n2.0 and n1.0; a new requester (agent 2 in its second round would be at `top`) … the
   only other agents are parked: their next activities touch nothing -/
example : (agentStep cfgEx 3 (arun cfgEx 3 (init cfgEx) runA) 1 1).1.acc = [] ∧
    (agentStep cfgEx 3 (arun cfgEx 3 (init cfgEx) runA) 2 2).1.acc = [] := by decide
/- scenario `runN` before 2's publishing CAS: owner-to-be 1 is at `build` (no access), requester 2 writes its own node -/
example : (arun cfgEx 3 (init cfgEx) (runN.take 7)).pc 1 = Pc.build ∧
    (agentStep cfgEx 3 (arun cfgEx 3 (init cfgEx) (runN.take 7)) 1 1).1.acc = [] ∧
    (agentStep cfgEx 3 (arun cfgEx 3 (init cfgEx) (runN.take 7)) 2 2).1.acc = [⟨2, Seen.node 2 0, Field.next, true⟩] := by
  decide

/-! ### AS-IS negative witness: the pinned commit's `subscribe` (before a810fc1)

`subscribe` published the awaiter with `aw->subscribe(_requests)` and then read `aw->_next` again to find out whether the
mutex had been free.  `agentStepAsIs` is that variant of the step (`recheck`: the re-read still to be done by the publishing
thread).  Two coroutine contenders; thread 1 publishes the request of coroutine 1 behind owner 0; owner 0 runs `unlock`
completely (fast path fails, exchange, loop, pop, resume) and coroutine 1 — resumed on thread 0 — enters its critical section
(its awaiter is gone); then thread 1 continues `subscribe` and reads `_next` of the dead awaiter: `viol`.  (It reads null,
which `unlock` stored there, and goes on as if it had found the mutex free: pc `build` — the double resume of DESIGN §6
row 10.)  This shows that the safety theorems above are not vacuous: the flag is reachable for a step function that
violates them. -/

def cfg2 : Cfg := { n := 2, kind := fun _ => AKind.coro, rounds := fun _ => [{ fl := Flavour.co, rel := Rel.x }] }
def asisRun : List (Nat × Nat) := [(0,0), (1,1), (1,1), (1,1), (0,0), (0,0), (0,0), (0,0), (0,1), (1,1)]

theorem c07_asis_touch_after_resume_ptr :
    (arunAsIs cfg2 2 { s := init cfg2 } asisRun).s.viol = true ∧
    (arunAsIs cfg2 2 { s := init cfg2 } (asisRun.take 9)).s.viol = false ∧
    (arunAsIs cfg2 2 { s := init cfg2 } (asisRun.take 9)).s.live (1, 0) = false ∧
    (arunAsIs cfg2 2 { s := init cfg2 } (asisRun.take 9)).recheck 1 = some (1, (1, 0)) ∧
    (arunAsIs cfg2 2 { s := init cfg2 } asisRun).s.acc = [⟨1, Seen.node 1 0, Field.next, false⟩] ∧
    (arunAsIs cfg2 2 { s := init cfg2 } asisRun).s.pc 1 = Pc.build := by decide

/- the repaired step under the same activity list: no violation, coroutine 1 simply finished its round -/
example : Mutex.Guarded cfg2 (Mutex.init cfg2) asisRun ∧ (arun cfg2 2 (init cfg2) asisRun).viol = false ∧
    (arun cfg2 2 (init cfg2) asisRun).pc 1 = Pc.relDone := by decide

end Cocls.MutexPtr
