import CoclsModel.QueueProofs
/-!
# C09 — awaitable queue: each item delivered exactly once, in order

Model: `CoclsModel/Queue.lean` (one step per lock region of `queue<T>`; the promise resolutions that `push` and
`unblock_pop` perform after dropping the lock are separate `deliver` steps).  An operation list is therefore an
arbitrary interleaving of the lock regions and out-of-lock resolutions of *any number* of producers and consumers
(the labels `prod`/`cons` carried by `Op.push`/`Op.pop` are ghost); every theorem below quantifies over all of them.

"Consumer `c` receives" = the values its `pop()` calls obtain, in the order of those calls (`received`).
-/
namespace Cocls.Q

/-- items handed to pops, in hand-over order -/
def delivered (s : State) : List Item := vals s.served
/-- the items consumer `c` obtained, in the order of its `pop()` calls -/
def received (s : State) (c : Nat) : List Item := vals (s.served.filter (fun e => e.pop.cons == c))
/-- the items producer `p` pushed, in its order -/
def pushedBy (s : State) (p : Nat) : List Item := s.pushed.filter (fun it => it.prod == p)

/-- The anchor's invariant: the item queue and the waiting-consumer queue are never both non-empty. -/
theorem c09_invariant {s : State} (h : Reachable s) : ¬ (s.items ≠ [] ∧ s.waiters ≠ []) := by
  intro ⟨hi, hw⟩
  exact hi ((reachable_inv h).never_both hw)

/-- FIFO refinement (history form): the items handed to pops, in hand-over order, followed by the items still
queued, are exactly the pushed items in push order — under every interleaving.  Nothing lost, nothing duplicated,
nothing reordered, nothing invented. -/
theorem c09_fifo {s : State} (h : Reachable s) : delivered s ++ s.items = s.pushed :=
  (reachable_inv h).fifo

/-- Exactly once: every push (by serial number) has its item in exactly one place — handed to one pop or still
queued — and no other serial number occurs. -/
theorem c09_exactly_once {s : State} (h : Reachable s) (i : Nat) :
    ((delivered s).map (·.id)).count i + (s.items.map (·.id)).count i = if i < s.nextPush then 1 else 0 := by
  have hi := reachable_inv h
  have := congrArg (fun l => (l.map (·.id)).count i) hi.fifo
  simp only [List.map_append, List.count_append, hi.push_ids, List.count_range] at this
  exact this

/-- every decision taken under the lock is carried out exactly once: the resolutions in flight plus the performed
ones are a permutation of the decisions -/
theorem c09_resolution_exactly_once {s : State} (h : Reachable s) : (s.inflight ++ s.completed).Perm s.served :=
  perm_of_inv (reachable_inv h)

/-- every pop future is in exactly one place: parked, being resolved, or resolved once (never twice, never lost) -/
theorem c09_pop_once {s : State} (h : Reachable s) (i : Nat) :
    (s.waiters.map (·.id)).count i + (popIds s.inflight).count i + (popIds s.completed).count i
      = if i < s.nextPop then 1 else 0 := by
  have hi := reachable_inv h
  have h1 := congrArg (fun l => l.count i) hi.pops_fifo
  simp only [List.count_append, List.count_range] at h1
  have h2 := ((c09_resolution_exactly_once h).map (·.pop.id)).count_eq i
  simp only [List.map_append, List.count_append] at h2
  simp only [popIds] at *
  omega

/-- Waiting pops are served in arrival order: the pops decided so far (in decision order) followed by the parked
pops (oldest first) are exactly pops `0,1,…,nextPop-1` in arrival order. -/
theorem c09_waiters_fifo {s : State} (h : Reachable s) :
    popIds s.served ++ s.waiters.map (·.id) = List.range s.nextPop :=
  (reachable_inv h).pops_fifo

/-- A single consumer receives the items in exactly the order they were pushed (a prefix of the push sequence,
the rest is still queued). -/
theorem c09_single_consumer_order {s : State} (h : Reachable s) (c : Nat)
    (hc : ∀ e ∈ s.served, e.pop.cons = c) : received s c ++ s.items = s.pushed := by
  have : s.served.filter (fun e => e.pop.cons == c) = s.served := by
    rw [List.filter_eq_self]
    intro e he
    simp [hc e he]
  unfold received
  rw [this]
  exact (reachable_inv h).fifo

/-- Several consumers: what each consumer receives is a subsequence of the global push sequence … -/
theorem c09_consumer_sees_push_order {s : State} (h : Reachable s) (c : Nat) : (received s c).Sublist s.pushed := by
  have h1 : (received s c).Sublist (vals s.served) := List.Sublist.filterMap _ List.filter_sublist
  have h2 : (vals s.served).Sublist s.pushed := by
    rw [← (reachable_inv h).fifo]; exact List.sublist_append_left _ _
  exact h1.trans h2

/-- … in particular each consumer sees every producer's items in that producer's order. -/
theorem c09_per_producer_order {s : State} (h : Reachable s) (c p : Nat) :
    ((received s c).filter (fun it => it.prod == p)).Sublist (pushedBy s p) :=
  (c09_consumer_sees_push_order h c).filter _

/-- A pop future is resolved (or being resolved) only (a) with an item that was pushed, (b) by a successful
`unblock_pop(c)` that took exactly this pop, with that exception, (c) as canceled after the queue was destroyed, or
(d) as canceled by a `push` that had taken this pop's promise and whose item construction then threw. -/
theorem c09_pop_completes_only_when {s : State} (h : Reachable s) (e : Ev) (he : e ∈ s.inflight ++ s.completed) :
    (∃ it, e.out = Out.val it ∧ it ∈ s.pushed) ∨ (∃ c, e.out = Out.exc c ∧ (e.pop, c) ∈ s.unblocks)
      ∨ (e.out = Out.canceled ∧ s.alive = false) ∨ (e.out = Out.canceled ∧ e.pop ∈ s.throws) := by
  have hi := reachable_inv h
  have hs := mem_served_of_resolved hi he
  cases ho : e.out with
  | val it =>
    left
    refine ⟨it, rfl, ?_⟩
    rw [← hi.fifo]
    apply List.mem_append_left
    simp only [vals, List.mem_filterMap]
    exact ⟨e, hs, by simp [ho, outItem]⟩
  | ok => exact absurd ho (hi.no_ok e hs)
  | exc c =>
    right; left
    refine ⟨c, rfl, ?_⟩
    rw [← hi.exc_unblock]
    simp only [excs, List.mem_filterMap]
    exact ⟨e, hs, by simp [excOf, ho]⟩
  | canceled =>
    right; right
    rcases hi.cancel_dead e hs ho with hd | ht
    · exact Or.inl ⟨rfl, hd⟩
    · exact Or.inr ⟨rfl, ht⟩

/-- … and a parked pop is not resolved at all. -/
theorem c09_parked_pop_pending {s : State} (h : Reachable s) (w : Pop) (hw : w ∈ s.waiters) :
    w.id ∉ popIds (s.inflight ++ s.completed) := by
  intro hm
  have h1 := c09_pop_once h w.id
  have h2 : 0 < (s.waiters.map (·.id)).count w.id := List.count_pos_iff.mpr (List.mem_map.mpr ⟨w, hw, rfl⟩)
  have h3 : 0 < (popIds (s.inflight ++ s.completed)).count w.id := List.count_pos_iff.mpr hm
  simp only [popIds_append, List.count_append] at h3
  split at h1 <;> omega

/-- `pop()` lock region: on an empty queue the promise is parked behind the older ones and nothing else changes;
otherwise the pop is resolved at once with the oldest item. -/
theorem c09_pop_decision (s : State) (c : Nat) :
    (s.items = [] → (stepPop s c).2 = Res.pop s.nextPop none
        ∧ (stepPop s c).1.waiters = s.waiters ++ [⟨s.nextPop, c⟩]
        ∧ (stepPop s c).1.served = s.served ∧ (stepPop s c).1.completed = s.completed
        ∧ (stepPop s c).1.inflight = s.inflight) ∧
    (∀ x xs, s.items = x :: xs → (stepPop s c).2 = Res.pop s.nextPop (some (Out.val x))
        ∧ (stepPop s c).1.items = xs ∧ (stepPop s c).1.waiters = s.waiters
        ∧ (stepPop s c).1.completed = s.completed ++ [⟨⟨s.nextPop, c⟩, Out.val x⟩]) := by
  unfold stepPop
  constructor
  · intro h; simp [h]
  · intro x xs h; simp [h]

/-- `push()` lock region: with consumers waiting the item goes to the *oldest* one (resolved outside the lock) and is
not enqueued; otherwise it is appended to the queue and no future changes. -/
theorem c09_push_decision (s : State) (p v : Nat) :
    (∀ w ws, s.waiters = w :: ws → (stepPush s p v).2 = Res.push s.nextPush true
        ∧ (stepPush s p v).1.waiters = ws ∧ (stepPush s p v).1.items = s.items
        ∧ (stepPush s p v).1.inflight = s.inflight ++ [⟨w, Out.val ⟨s.nextPush, p, v⟩⟩]) ∧
    (s.waiters = [] → (stepPush s p v).2 = Res.push s.nextPush false
        ∧ (stepPush s p v).1.items = s.items ++ [⟨s.nextPush, p, v⟩]
        ∧ (stepPush s p v).1.inflight = s.inflight ∧ (stepPush s p v).1.completed = s.completed) := by
  unfold stepPush
  constructor
  · intro w ws h; simp [h]
  · intro h; simp [h]

/-- A `push` whose item constructor throws: the caller sees the exception and no item comes into existence (nothing is
queued, `pushed` and the push serials are untouched).  With nobody waiting nothing changes at all; with pops waiting
exactly the oldest one is taken and completes as canceled (resolved outside the lock), the others stay parked. -/
theorem c09_push_throw (s : State) :
    (stepPushThrow s).2 = Res.threw ∧ (stepPushThrow s).1.items = s.items ∧ (stepPushThrow s).1.pushed = s.pushed
    ∧ (stepPushThrow s).1.nextPush = s.nextPush ∧ (stepPushThrow s).1.completed = s.completed ∧
    (s.waiters = [] → (stepPushThrow s).1 = s) ∧
    (∀ w ws, s.waiters = w :: ws → (stepPushThrow s).1.waiters = ws
        ∧ (stepPushThrow s).1.inflight = s.inflight ++ [⟨w, Out.canceled⟩]
        ∧ (stepPushThrow s).1.throws = s.throws ++ [w]) := by
  unfold stepPushThrow
  cases hw : s.waiters with
  | nil => simp
  | cons w ws => simp

/-- Bounded backing stores (`Queue` / `CoroQueue` = `primitives::single_item_queue`: capacity 1): they are never
over-filled … -/
theorem c09_capacity {s : State} (h : Reachable s) :
    (∀ n, s.cap = some n → s.items.length ≤ n) ∧ (∀ n, s.wcap = some n → s.waiters.length ≤ n) :=
  ⟨(reachable_capinv h).items_le, (reachable_capinv h).waiters_le⟩

/-- … because the operation that would over-fill one is refused *without any effect*: a `push` that finds nobody waiting
and the item store full, and a `pop` that finds the queue empty and the store of parked promises full, leave the state
exactly as it was and report the store's exception (`Res.full`) - nothing is overwritten, nothing is lost silently;
every other `push` / `pop` behaves as on the unbounded queue. -/
theorem c09_full_is_refused (s : State) (p v c : Nat) :
    (s.waiters = [] → itemsFull s = true → stepPushC s p v = (s, Res.full) ∧ stepPushThrowC s = (s, Res.full)) ∧
    (¬ (s.waiters = [] ∧ itemsFull s = true) → stepPushC s p v = stepPush s p v ∧ stepPushThrowC s = stepPushThrow s) ∧
    (s.items = [] → waitersFull s = true → stepPopC s c = (s, Res.full)) ∧
    (¬ (s.items = [] ∧ waitersFull s = true) → stepPopC s c = stepPop s c) := by
  unfold stepPushC stepPushThrowC stepPopC
  refine ⟨?_, ?_, ?_, ?_⟩
  · intro hw hf; simp [hw, hf]
  · intro h
    have : (s.waiters.isEmpty && itemsFull s) = false := by
      cases hw : s.waiters <;> cases hf : itemsFull s <;> simp_all
    simp [this]
  · intro hi hf; simp [hi, hf]
  · intro h
    have : (s.items.isEmpty && waitersFull s) = false := by
      cases hi : s.items <;> cases hf : waitersFull s <;> simp_all
    simp [this]

/-- A `pop` on a non-empty queue whose hand-over throws (the item's move constructor throws while the future's value
is built): the caller gets the exception instead of a future, and the queue - items, waiters, every future, the pop
serials - is exactly what it was; in particular the item is still at the front, for the next pop.  On an empty
queue nothing is handed over: an ordinary `pop`. -/
theorem c09_pop_throw_keeps_item (s : State) (c : Nat) :
    (∀ x xs, s.items = x :: xs →
        (stepPopThrowC s c).2 = Res.threw ∧ (stepPopThrowC s c).1 = { s with rethrown := s.rethrown ++ [x] }
        ∧ (stepPopThrowC s c).1.items = x :: xs ∧ (stepPopThrowC s c).1.nextPop = s.nextPop
        ∧ (stepPopThrowC s c).1.served = s.served ∧ (stepPopThrowC s c).1.completed = s.completed) ∧
    (s.items = [] → stepPopThrowC s c = stepPopC s c) := by
  unfold stepPopThrowC
  constructor
  · intro x xs h; simp [h]
  · intro h; simp [h]

/-- Exactly-once includes the items whose hand-over threw (any number of times): each of them was pushed and is, like
every pushed item, in exactly one place - handed to exactly one pop or still queued - never dropped by the failed
hand-over, never delivered twice. -/
theorem c09_rethrown_exactly_once {s : State} (h : Reachable s) (it : Item) (hit : it ∈ s.rethrown) :
    it ∈ s.pushed ∧ (delivered s ++ s.items).count it = 1 := by
  have hi := reachable_inv h
  have hp := reachable_rinv h it hit
  refine ⟨hp, ?_⟩
  have hf : delivered s ++ s.items = s.pushed := hi.fifo
  rw [hf, (nodup_pushed hi).count]
  simp [hp]

/-- `unblock_pop(c)` fails exactly the oldest waiting pop with the given exception and touches nothing else;
with nobody waiting it reports false and is a no-op. -/
theorem c09_unblock_oldest (s : State) (c : Nat) :
    (s.waiters = [] → stepUpop s c = (s, Res.flag false)) ∧
    (∀ w ws, s.waiters = w :: ws →
        (stepUpop s c).2 = Res.flag true ∧ (stepUpop s c).1.waiters = ws
        ∧ (stepUpop s c).1.inflight = s.inflight ++ [⟨w, Out.exc c⟩]
        ∧ (stepUpop s c).1.items = s.items ∧ (stepUpop s c).1.completed = s.completed
        ∧ (stepUpop s c).1.pushed = s.pushed) := by
  unfold stepUpop
  constructor
  · intro h; simp [h]
  · intro w ws h; simp [h]

/-- destruction resolves every parked pop as canceled (oldest first), and nothing else -/
theorem c09_destroy_cancels_waiters (s : State) :
    (stepDestroy s).1.waiters = [] ∧ (stepDestroy s).1.alive = false
    ∧ (stepDestroy s).1.completed = s.completed ++ s.waiters.map (fun w => ⟨w, Out.canceled⟩)
    ∧ (stepDestroy s).1.inflight = s.inflight := by
  unfold stepDestroy; simp

/-- after destruction no pop stays parked (no consumer hangs on a dead queue) -/
theorem c09_dead_no_waiters {s : State} (h : Reachable s) (hd : s.alive = false) : s.waiters = [] :=
  (reachable_inv h).dead_no_waiters hd

/-- At quiescence (no resolution in flight) the values actually received by the pop futures are exactly the items
handed out - so with `c09_fifo`: every pushed item has reached exactly one pop future or is still queued, and it is
queued only while nobody waits. -/
theorem c09_quiescent_all_delivered {s : State} (h : Reachable s) (hq : s.inflight = []) :
    (vals s.completed).Perm (delivered s) ∧ (s.waiters ≠ [] → s.items = []) := by
  have hp := c09_resolution_exactly_once h
  rw [hq, List.nil_append] at hp
  exact ⟨hp.filterMap _, (reachable_inv h).never_both⟩

/-- non-vacuity: two consumers parked, two producers, an unblock, a late delivery, destruction -/
example : Reachable (run init [Op.pop 0, Op.pop 1, Op.push 7 70, Op.pop 0, Op.upop 3, Op.push 8 80, Op.push 7 71,
    Op.deliver 1, Op.pop 1, Op.pop 1, Op.destroy, Op.deliver 0]) := ⟨none, none, _, rfl⟩
example : (run init [Op.pop 0, Op.pop 1, Op.push 7 70, Op.pop 0, Op.upop 3, Op.push 8 80, Op.push 7 71,
    Op.deliver 1, Op.pop 1, Op.pop 1, Op.destroy, Op.deliver 0]).completed =
    [⟨⟨1, 1⟩, Out.exc 3⟩, ⟨⟨3, 1⟩, Out.val ⟨2, 7, 71⟩⟩, ⟨⟨4, 1⟩, Out.canceled⟩, ⟨⟨0, 0⟩, Out.val ⟨0, 7, 70⟩⟩] := by
  decide

/-- non-vacuity, configuration `single_item_queue` for both stores: the second push and the second parked pop are
refused, the queue carries on -/
example : (run (initCfg (some 1) (some 1)) [Op.push 0 1, Op.push 0 2, Op.pop 0, Op.pop 0, Op.pop 0, Op.push 0 3,
      Op.deliver 0]).completed = [⟨⟨0, 0⟩, Out.val ⟨0, 0, 1⟩⟩, ⟨⟨1, 0⟩, Out.val ⟨1, 0, 3⟩⟩]
    ∧ (step (run (initCfg (some 1) (some 1)) [Op.push 0 1]) (Op.push 0 2)).2 = Res.full
    ∧ (step (run (initCfg (some 1) (some 1)) [Op.pop 0]) (Op.pop 0)).2 = Res.full := by decide

/-- non-vacuity: the hand-over of item 0 throws twice, the third pop receives it, the next one item 1 -/
example : (run init [Op.push 0 7, Op.push 0 8, Op.popthrow 0, Op.popthrow 1, Op.pop 0, Op.pop 0]).completed
      = [⟨⟨0, 0⟩, Out.val ⟨0, 0, 7⟩⟩, ⟨⟨1, 0⟩, Out.val ⟨1, 0, 8⟩⟩]
    ∧ (run init [Op.push 0 7, Op.push 0 8, Op.popthrow 0, Op.popthrow 1, Op.pop 0, Op.pop 0]).rethrown
      = [⟨0, 0, 7⟩, ⟨0, 0, 7⟩] := by decide

/-- non-vacuity of disjunct (d): two pops wait, a push throws, the oldest completes as canceled, the queue lives on -/
example : (run init [Op.pop 0, Op.pop 1, Op.pushthrow, Op.deliver 0, Op.push 0 5]).completed = [⟨⟨0, 0⟩, Out.canceled⟩]
    ∧ (run init [Op.pop 0, Op.pop 1, Op.pushthrow, Op.deliver 0, Op.push 0 5]).alive = true
    ∧ (run init [Op.pop 0, Op.pop 1, Op.pushthrow, Op.deliver 0, Op.push 0 5]).throws = [⟨0, 0⟩] := by decide

end Cocls.Q

/-! ## `queue<void>`: a counting semaphore whose count is conserved -/
namespace Cocls.VQ
open Cocls.Q

/-- `queue<void>` behaves exactly like `queue<T>` with the items reduced to their number: for every operation list
the `queue<void>` model is the image of the `queue<T>` model (every observable result included, see `step_abs`). -/
theorem c09_void_refines (wcap : Option Nat) (ops : List Op) :
    VQ.run (VQ.initCfg wcap) ops = abs (Q.run (Q.initCfg none wcap) ops) :=
  run_init_abs wcap ops

/-- every single step of `queue<void>` - new state *and* returned result - is the image of the `queue<T>` step -/
theorem c09_void_step_refines (s : Q.State) (op : Op) (hc : s.cap = none) :
    VQ.step (abs s) op = (abs (Q.step s op).1, forgetRes (Q.step s op).2) := step_abs s op hc

/-- The count is conserved: pushes = counts handed to pops + the counter, under every interleaving. -/
theorem c09_void_count {t : VQ.State} (h : Reachable t) :
    (t.served.filter (fun e => e.out == Out.ok)).length + t.sz = t.nPush := by
  obtain ⟨s, hs, rfl⟩ := reachable_abs h
  have hi := Q.reachable_inv hs
  have h1 := congrArg List.length hi.fifo
  have h2 := congrArg List.length hi.push_ids
  simp only [List.length_append, List.length_map, List.length_range] at h1 h2
  simp only [abs]
  rw [length_filter_ok s.served hi.no_ok]
  omega

/-- consumers wait only while the count is zero -/
theorem c09_void_never_both {t : VQ.State} (h : Reachable t) : t.waiters ≠ [] → t.sz = 0 := by
  obtain ⟨s, hs, rfl⟩ := reachable_abs h
  intro hw
  have := (Q.reachable_inv hs).never_both hw
  simp [abs, this]

/-- waiting pops are served in arrival order -/
theorem c09_void_waiters_fifo {t : VQ.State} (h : Reachable t) :
    popIds t.served ++ t.waiters.map (·.id) = List.range t.nextPop := by
  obtain ⟨s, hs, rfl⟩ := reachable_abs h
  have := (Q.reachable_inv hs).pops_fifo
  simp only [abs, popIds, List.map_map] at this ⊢
  exact this

/-- every decision is carried out exactly once -/
theorem c09_void_resolution_exactly_once {t : VQ.State} (h : Reachable t) :
    (t.inflight ++ t.completed).Perm t.served := by
  obtain ⟨s, hs, rfl⟩ := reachable_abs h
  have := (Q.c09_resolution_exactly_once hs).map forget
  simp only [List.map_append] at this
  exact this

/-- the clamp of `std_queue<void>::pop` never fires: `pop` is reached only with a positive count and takes exactly one -/
theorem c09_void_pop_takes_one (t : VQ.State) (c : Nat) :
    (t.sz ≠ 0 → (VQ.stepPop t c).1.sz + 1 = t.sz ∧ (VQ.stepPop t c).2 = Res.pop t.nextPop (some Out.ok)) ∧
    (t.sz = 0 → (VQ.stepPop t c).1.sz = 0 ∧ (VQ.stepPop t c).2 = Res.pop t.nextPop none
        ∧ (VQ.stepPop t c).1.waiters = t.waiters ++ [⟨t.nextPop, c⟩]) := by
  unfold VQ.stepPop
  constructor
  · intro h
    simp only [h, if_false]
    have : Nat.max 1 t.sz = t.sz := Nat.max_eq_right (by omega)
    constructor
    · simp only [this]; omega
    · trivial
  · intro h; simp [h]

/-- `push()` on `queue<void>`: wakes the oldest waiting pop without touching the count, else increments the count -/
theorem c09_void_push_decision (t : VQ.State) :
    (∀ w ws, t.waiters = w :: ws → (VQ.stepPush t).2 = Res.push t.nPush true ∧ (VQ.stepPush t).1.sz = t.sz
        ∧ (VQ.stepPush t).1.waiters = ws ∧ (VQ.stepPush t).1.inflight = t.inflight ++ [⟨w, Out.ok⟩]) ∧
    (t.waiters = [] → (VQ.stepPush t).2 = Res.push t.nPush false ∧ (VQ.stepPush t).1.sz = t.sz + 1
        ∧ (VQ.stepPush t).1.inflight = t.inflight) := by
  unfold VQ.stepPush
  constructor
  · intro w ws h; simp [h]
  · intro h; simp [h]

/-- non-vacuity -/
example : (VQ.run VQ.init [Op.push 0 0, Op.push 0 0, Op.pop 0, Op.pop 1, Op.pop 2, Op.upop 5, Op.pop 0, Op.push 1 0]).sz = 0
    ∧ (VQ.run VQ.init [Op.push 0 0, Op.push 0 0, Op.pop 0, Op.pop 1, Op.pop 2, Op.upop 5, Op.pop 0, Op.push 1 0]).inflight
      = [⟨⟨2, 2⟩, Out.exc 5⟩, ⟨⟨3, 0⟩, Out.ok⟩] := by decide

end Cocls.VQ
