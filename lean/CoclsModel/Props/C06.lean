import CoclsModel.SuspendPoint
namespace Cocls.SP
theorem c06_placeholder : True := trivial
end Cocls.SP
