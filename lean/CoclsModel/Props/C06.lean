import CoclsModel.SuspendPointProofs
/-!
# C06 — a suspend point never loses or duplicates a ready coroutine

Model: `CoclsModel/SuspendPoint.lean` — `suspend_point` at the level of its real representation (`_count_flag`
with the heap bit, 3 inline cells, heap block with doubling, a ghost heap with live blocks / allocation events /
invalid-free events) plus the thread's ready queue.  `handles s i : List Ptr` (what `[begin(), end())` of object
`i` yields) is the abstraction.

Every theorem quantifies over *all* reachable states: any pool size `n` (any number of suspend points), both
modes (`a = false`: operations performed by plain code, `a = true`: by a coroutine running under `coro_queue`),
and *every* operation list — so any number of handles, across the inline→heap transition and every doubling.

Explicit preconditions: operations on a slot that holds no object (or constructing into an occupied slot, or
`typed = std::move(untyped)`, which does not compile) are refused (`Res.bad`, no effect); the `co_await` theorems assume
that the awaiting coroutine is not already waiting in the ready queue.  The awaiting coroutine's own handle may be
inside the awaited suspend point in any position (`c06_await_own_handle`).  Two defects of the pinned commit are kept as
as-is variants with `decide` witnesses: self-merge (`c06_asis_self_assign_loses_handles`) and own handle last
(`c06_asis_await_own_handle_last_resumed_twice`); both repaired by `fix:` commits and modelled as repaired.
-/
namespace Cocls.SP

/-- every state reachable from `n` empty slots in mode `a` -/
def Reachable (n : Nat) (a : Bool) (s : State) : Prop := ∃ ops, s = run (init n a) ops

theorem reachable_inv {n : Nat} {a : Bool} {s : State} (h : Reachable n a s) : Inv s := by
  obtain ⟨ops, rfl⟩ := h
  exact inv_run (inv_init n a) ops

theorem reachable_step {n : Nat} {a : Bool} {s : State} (h : Reachable n a s) (op : Op) :
    Reachable n a (step s op).1 := by
  obtain ⟨ops, rfl⟩ := h
  exact ⟨ops ++ [op], by simp [run, List.foldl_append]⟩

/-! ## conservation: nothing lost, nothing duplicated -/

/-- **Multiset preserved.** Over any operation sequence on any number of suspend points, every handle handed
in (`given`: constructors, `<< h`, awaiting coroutines) is, counted with multiplicity, in exactly one place:
held by some suspend point, waiting in the thread's ready queue, already resumed, or handed back by `pop()`. -/
theorem c06_multiset_preserved {n : Nat} {a : Bool} {s : State} (h : Reachable n a s) (x : Ptr) :
    s.given.count x = (held s).count x + s.queue.count x + (resumed s).count x + s.popped.count x :=
  (reachable_inv h).conserve x

/-- **Never twice.** At no point of any history has a coroutine been resumed (or handed back by `pop`) more
often than it was handed in; in particular a coroutine handed in once is never resumed twice. -/
theorem c06_never_twice {n : Nat} {a : Bool} {s : State} (h : Reachable n a s) (x : Ptr) :
    (resumed s).count x + s.popped.count x ≤ s.given.count x := by
  have := c06_multiset_preserved h x; omega

/-- **Exactly once at end of life.** After any operation list, once every suspend point of the pool has been
destroyed (plain destruction, in slot order) and the running coroutine has ended: nothing is held or queued any
more and every coroutine was resumed (or handed back by `pop`) exactly as often as it was handed in — none
dropped, none resumed twice. -/
theorem c06_exactly_once_at_end (n : Nat) (a : Bool) (ops : List Op) (x : Ptr) :
    let s := run (init n a) (ops ++ endOps n)
    (resumed s).count x + s.popped.count x = s.given.count x ∧ s.queue = [] ∧ held s = [] := by
  intro s
  have I := inv_run (inv_init n a) ops
  have hl : (run (init n a) ops).objs.length = n := by rw [run_len (inv_init n a)]; simp [init]
  have E := end_state I
  rw [hl, ← run_append] at E
  obtain ⟨IE, hnone, hq⟩ := E
  have hh : held s = [] := held_nil_of_all_none hnone
  have c := IE.conserve x
  refine ⟨?_, hq, hh⟩
  show (resumed s).count x + s.popped.count x = s.given.count x
  have c' : s.given.count x = (held s).count x + s.queue.count x + (resumed s).count x + s.popped.count x := c
  rw [hh, show s.queue = [] from hq] at c'
  simp only [List.count_nil] at c'; omega

/-! ## the representation is an exact implementation of the list abstraction, operation by operation -/

/-- construction from a handle holds exactly that handle; default / value-only construction holds nothing -/
theorem c06_construct {n : Nat} {a : Bool} {s : State} (h : Reachable n a s) {i : Nat} (hv : vacant s i = true)
    (x : Ptr) (v : Nat) :
    handles (step s (Op.ctor i)).1 i = [] ∧ handles (step s (Op.ctorV i v)).1 i = []
    ∧ handles (step s (Op.ctorH i x)).1 i = [x] ∧ handles (step s (Op.ctorHV i x v)).1 i = [x] := by
  have I := reachable_inv h
  refine ⟨?_, ?_, ?_, ?_⟩ <;> simp only [step, hv, if_true]
  · have := (ctor_spec I hv {} [] (by simp) rfl (by simp) (by simp)).2.1
    rw [state_given_nil] at this; exact this
  · have := (ctor_spec I hv { typed := true, value := some v } [] (by simp) rfl (by simp) (by simp)).2.1
    rw [state_given_nil] at this; exact this
  · exact (ctor_spec I hv { cf := 2, inl := [x, junk, junk] } [x] (by simp) rfl (by simp) (by simp)).2.1
  · exact (ctor_spec I hv { cf := 2, inl := [x, junk, junk], typed := true, value := some v } [x] (by simp) rfl
      (by simp) (by simp)).2.1

/-- `coro_queue::create_suspend_point(fn)`: the coroutines `fn` made ready (in the order `hs`) end up in the new
suspend point — all of them, each once, in that order (the order in which dropping them one by one would have resumed
them; the pinned code reversed it, `c06_create_asis_reversed`, /repo fix 34c6158) —, the
ready queue is as before, nothing is resumed, no other suspend point changes; a non-void result of `fn` is the
attached value.  Whatever the count (inline, heap, every doubling). -/
theorem c06_create {n : Nat} {a : Bool} {s : State} (h : Reachable n a s) {i : Nat} (hv : vacant s i = true)
    (hs : List Ptr) (v : Option Nat) :
    handles (step s (Op.create i hs v)).1 i = hs
    ∧ (∀ k, k ≠ i → handles (step s (Op.create i hs v)).1 k = handles s k)
    ∧ (step s (Op.create i hs v)).1.queue = s.queue
    ∧ resumed (step s (Op.create i hs v)).1 = resumed s
    ∧ (step s (Op.create i hs v)).1.given = s.given ++ hs
    ∧ ∃ o, (step s (Op.create i hs v)).1.obj i = some o ∧ o.typed = v.isSome ∧ o.value = v := by
  have C := create_spec (reachable_inv h) hv hs v
  simp only [step, hv, if_true]
  exact ⟨C.2.1, C.2.2.1, C.2.2.2.2.2.2.1, C.2.2.2.2.2.2.2.1, C.2.2.2.2.2.2.2.2.2, C.2.2.2.1⟩

/-- as-is fact (pinned commit, before `/repo` commit 34c6158): three coroutines made ready in the order 1, 2, 3 under
`create_suspend_point` came out as 3, 2, 1 — dropping the result resumed them in the opposite order to the same calls without
the wrapper.  Each of them is still held (and later resumed) exactly once, so this is *not* a violation of C06, whose statement
has no order clause; the order is what C05 (FIFO) demands: `c05_asis_create_reversed` in `Props/C05.lean`.  Kept here because the
model and the correspondence (`corpus/c06_create_order.txt`) follow the repaired order. -/
theorem c06_create_asis_reversed : handles (createAsIs (init 1 true) 0 [1, 2, 3] none) 0 = [3, 2, 1] := by decide

/-- `sp << h` appends `h`, whatever the current count (inline, inline→heap, heap, heap doubling); no other
suspend point changes -/
theorem c06_add {n : Nat} {a : Bool} {s : State} (h : Reachable n a s) {i : Nat} {o : Obj}
    (hi : s.obj i = some o) (x : Ptr) :
    handles (step s (Op.addH i x)).1 i = handles s i ++ [x]
    ∧ ∀ k, k ≠ i → handles (step s (Op.addH i x)).1 k = handles s k := by
  have A := addH_spec (reachable_inv h) hi x
  simp only [step, hi]
  exact ⟨A.2.1, A.2.2.1⟩

/-- `a << std::move(b)` and `a = std::move(b)` (two distinct objects): `a` holds its handles followed by
`b`'s, `b` is empty, nothing else changes -/
theorem c06_merge {n : Nat} {a : Bool} {s : State} (h : Reachable n a s) {i j : Nat} {oi oj : Obj}
    (hi : s.obj i = some oi) (hj : s.obj j = some oj) (hij : i ≠ j) :
    (handles (step s (Op.merge i j)).1 i = handles s i ++ handles s j
      ∧ handles (step s (Op.merge i j)).1 j = []
      ∧ ∀ k, k ≠ i → k ≠ j → handles (step s (Op.merge i j)).1 k = handles s k)
    ∧ ((step s (Op.assign i j)).2 = Res.unit →
        handles (step s (Op.assign i j)).1 i = handles s i ++ handles s j
        ∧ handles (step s (Op.assign i j)).1 j = []
        ∧ ∀ k, k ≠ i → k ≠ j → handles (step s (Op.assign i j)).1 k = handles s k) := by
  have M := merge_spec (reachable_inv h) hi hj hij
  refine ⟨?_, ?_⟩
  · simp only [step, hi, hj, if_neg hij]; exact ⟨M.2.1, M.2.2.1, M.2.2.2.1⟩
  · simp only [step, hi, hj, if_neg hij]
    split
    · intro hh; cases hh
    · split
      · intro _
        have V1 := setVal_spec M.1 i oj.value
        have V := (setVal_spec V1.1 j none).2.1
        exact ⟨by rw [V, V1.2.1]; exact M.2.1, by rw [V, V1.2.1]; exact M.2.2.1,
          fun k h1 h2 => by rw [V, V1.2.1]; exact M.2.2.2.1 k h1 h2⟩
      · intro _; exact ⟨M.2.1, M.2.2.1, M.2.2.2.1⟩

/-- merging a suspend point into itself (`sp << std::move(sp)`, `sp = std::move(sp)`) changes nothing (repaired
code; see `c06_asis_self_assign_loses_handles` for the pinned commit) -/
theorem c06_self_merge_noop (s : State) (i : Nat) :
    (step s (Op.merge i i)).1 = s ∧ (step s (Op.assign i i)).1 = s := by
  refine ⟨?_, ?_⟩ <;> simp only [step] <;> split <;> simp

/-- move construction (same type, sliced to the base, or into a typed suspend point with a value): the new
object holds exactly the source's handles in the same order, the moved-from source holds nothing -/
theorem c06_move {n : Nat} {a : Bool} {s : State} (h : Reachable n a s) {i j : Nat} {oj : Obj}
    (hv : vacant s i = true) (hj : s.obj j = some oj) (v : Nat) :
    ∀ op, op = Op.mov i j ∨ op = Op.movBase i j ∨ op = Op.ctorSV i j v →
      handles (step s op).1 i = handles s j ∧ handles (step s op).1 j = []
      ∧ ∀ k, k ≠ i → k ≠ j → handles (step s op).1 k = handles s k := by
  have I := reachable_inv h
  intro op hop
  rcases hop with rfl | rfl | rfl <;> simp only [step, hj, hv, if_true]
  · have M := move_spec I hv hj oj.typed oj.value
    split
    · have V := (setVal_spec M.1 j none).2.1
      exact ⟨by rw [V]; exact M.2.1, by rw [V]; exact M.2.2.1, fun k h1 h2 => by rw [V]; exact M.2.2.2.1 k h1 h2⟩
    · exact ⟨M.2.1, M.2.2.1, M.2.2.2.1⟩
  · have M := move_spec I hv hj false none; exact ⟨M.2.1, M.2.2.1, M.2.2.2.1⟩
  · have M := move_spec I hv hj true (some v); exact ⟨M.2.1, M.2.2.1, M.2.2.2.1⟩

/-- `pop()`: on a non-empty suspend point it returns the *last* handle and removes exactly that one; on an empty
one it returns `noop_coroutine` and changes nothing -/
theorem c06_pop {n : Nat} {a : Bool} {s : State} (h : Reachable n a s) {i : Nat} {o : Obj} (hi : s.obj i = some o) :
    (handles s i = [] → step s (Op.pop i) = (s, Res.handle none))
    ∧ (handles s i ≠ [] → ∃ x, (step s (Op.pop i)).2 = Res.handle (some x)
        ∧ handles s i = handles (step s (Op.pop i)).1 i ++ [x]
        ∧ (step s (Op.pop i)).1.popped = s.popped ++ [x]
        ∧ ∀ k, k ≠ i → handles (step s (Op.pop i)).1 k = handles s k) := by
  have I := reachable_inv h
  by_cases hc : o.cf / 2 = 0
  · have h0 := handles_of_count_zero hi hc
    refine ⟨fun _ => by simp only [step, hi, hc, if_true], fun hne => absurd h0 hne⟩
  · have P := pop_spec I hi hc
    refine ⟨fun h0 => ?_, fun _ => ⟨popValue s o, ?_⟩⟩
    · rw [P.2.1] at h0; simp at h0
    · have e : step s (Op.pop i)
          = ({ setObj s i (some { o with cf := o.cf - 2 }) with popped := s.popped ++ [popValue s o] },
             Res.handle (some (popValue s o))) := by
        simp only [step, hi, hc, if_false]
      rw [e]
      exact ⟨rfl, P.2.1, rfl, P.2.2⟩

/-- `clear()` and plain destruction: exactly the handles of the suspend point, each once and in order, are
resumed (normal mode) or appended to the thread's ready queue (coroutine mode); the suspend point is left empty
(`clear`) / gone (destructor); no other suspend point changes -/
theorem c06_consume {n : Nat} {a : Bool} {s : State} (h : Reachable n a s) {i : Nat} {o : Obj}
    (hi : s.obj i = some o) :
    (handles (step s (Op.clear i)).1 i = []
      ∧ (step s (Op.clear i)).1.queue = s.queue ++ (if s.active then handles s i else [])
      ∧ resumed (step s (Op.clear i)).1 = resumed s ++ (if s.active then [] else handles s i)
      ∧ ∀ k, k ≠ i → handles (step s (Op.clear i)).1 k = handles s k)
    ∧ ((step s (Op.dtor i)).1.obj i = none
      ∧ (step s (Op.dtor i)).1.queue = s.queue ++ (if s.active then handles s i else [])
      ∧ resumed (step s (Op.dtor i)).1 = resumed s ++ (if s.active then [] else handles s i)
      ∧ ∀ k, k ≠ i → handles (step s (Op.dtor i)).1 k = handles s k) := by
  have I := reachable_inv h
  have S := suspendNow_spec I hi
  have D := dtor_spec I hi
  refine ⟨?_, ?_⟩ <;> simp only [step, hi]
  · exact ⟨S.2.1, S.2.2.2.1, S.2.2.2.2.1, S.2.2.1⟩
  · exact ⟨D.2.1, D.2.2.2.2.1, D.2.2.2.2.2.1, D.2.2.1⟩

/-- `co_await sp` by coroutine `me` (not itself among the handles, not already queued).  Empty suspend point:
no suspension, nothing happens.  Otherwise the last handle is resumed first (symmetric transfer), then whatever
was already queued, then the remaining handles in order, then `me` — each exactly once; the suspend point and
the queue are left empty.  In normal mode the queue is empty to begin with, so the same formula holds. -/
theorem c06_await {n : Nat} {a : Bool} {s : State} (h : Reachable n a s) {i : Nat} {o : Obj}
    (hi : s.obj i = some o) (me : Ptr) (hme : me ∉ handles s i) (hq : me ∉ s.queue) :
    (handles s i = [] → (step s (Op.await i me)).1 = s)
    ∧ (handles s i ≠ [] → ∃ rest last, handles s i = rest ++ [last]
        ∧ resumed (step s (Op.await i me)).1 = resumed s ++ [last] ++ s.queue ++ rest ++ [me]
        ∧ (step s (Op.await i me)).1.queue = []
        ∧ handles (step s (Op.await i me)).1 i = []
        ∧ ∀ k, k ≠ i → handles (step s (Op.await i me)).1 k = handles s k) := by
  have I := reachable_inv h
  by_cases hc : o.cf / 2 = 0
  · have h0 := handles_of_count_zero hi hc
    exact ⟨fun _ => by simp only [step, hi, awaitObj, hc, if_true], fun hne => absurd h0 hne⟩
  · refine ⟨fun h0 => ?_, fun _ => ?_⟩
    · have := (pop_spec I hi hc).2.1; rw [this] at h0; simp at h0
    · simp only [step, hi, awaitObj, hc, if_false]
      by_cases ha : s.active = true
      · simp only [ha, if_true]
        obtain ⟨-, h1, g1, g2, hqq, hr, -, -, -, -⟩ := awaitQueue_spec I ha hi hc me
        have hrest : me ∉ handlesOf s { o with cf := o.cf - 2 } := by
          intro hm; apply hme; rw [h1]; simp [hm]
        have hpv : ¬ popValue s o = me := by
          intro e; apply hme; rw [h1, e]; simp
        simp only [if_neg hpv]
        have hE : awaitExtra s o me = [me] := by simp [awaitExtra, hrest, hpv]
        rw [hE] at hqq
        generalize hY : resumeAll (awaitQueue s i o me) [popValue s o] = Y at g1 g2 hqq hr
        have hnot : me ∉ s.queue ++ handlesOf s { o with cf := o.cf - 2 } := by
          simp only [List.mem_append, not_or]; exact ⟨hq, hrest⟩
        have hidx : Y.queue.idxOf me + 1 = Y.queue.length := by
          rw [hqq, ← List.append_assoc, idxOf_append_self _ _ hnot]
          simp only [List.length_append, List.length_cons, List.length_nil]
        refine ⟨handlesOf s { o with cf := o.cf - 2 }, popValue s o, h1, ?_, ?_, ?_, ?_⟩
        · rw [resumed_flushUntil, hidx, List.take_length, hr, hqq]; simp
        · show Y.queue.drop (Y.queue.idxOf me + 1) = []
          rw [hidx, List.drop_length]
        · rw [handles_of_eq (s' := flushUntil Y me) (s := Y) rfl rfl]; exact g1
        · intro k hk; rw [handles_of_eq (s' := flushUntil Y me) (s := Y) rfl rfl]; exact g2 k hk
      · have ha' : s.active = false := by simpa using ha
        simp only [ha', Bool.false_eq_true, if_false]
        have hi' : ({ s with active := true } : State).obj i = some o := hi
        obtain ⟨-, h1, g1, g2, hqq, hr, -, -, -, -⟩ := awaitQueue_spec (inv_active I) rfl hi' hc me
        have h1' : handles s i = handlesOf s { o with cf := o.cf - 2 } ++ [popValue s o] := h1
        have hrest : me ∉ handlesOf s { o with cf := o.cf - 2 } := by
          intro hm; apply hme; rw [h1']; simp [hm]
        have hE : awaitExtra { s with active := true } o me = [me] := by
          have : handlesOf { s with active := true } { o with cf := o.cf - 2 } = handlesOf s { o with cf := o.cf - 2 } := rfl
          have hpv0 : ¬ popValue { s with active := true } o = me := by
            intro e; apply hme; rw [h1']; simp [show popValue s o = me from e]
          simp [awaitExtra, this, hrest, hpv0]
        rw [hE] at hqq
        have hq0 : s.queue = [] := I.idle ha'
        have hpv : popValue { s with active := true } o = popValue s o := rfl
        rw [hpv] at g1 g2 hqq hr
        generalize hY : resumeAll (awaitQueue { s with active := true } i o me) [popValue s o] = Y at g1 g2 hqq hr ⊢
        refine ⟨handlesOf s { o with cf := o.cf - 2 }, popValue s o, h1', ?_, rfl, ?_, ?_⟩
        · have e : resumed { flushAll Y with active := false } = resumed Y ++ Y.queue := resumed_flushAll Y
          rw [e, hr, hqq, hq0]
          show resumed s ++ [popValue s o] ++ ([] ++ (handlesOf s { o with cf := o.cf - 2 } ++ [me])) = _
          simp
        · rw [handles_of_eq (s' := { flushAll Y with active := false }) (s := Y) rfl rfl]; exact g1
        · intro k hk; rw [handles_of_eq (s' := { flushAll Y with active := false }) (s := Y) rfl rfl]; exact g2 k hk

/-- `co_await sp` by a coroutine whose **own handle is among the handles, but not the last one** (the yield idiom
`sp = co_await self(); sp << others…; co_await sp;`).  `await_suspend` recognises the own handle and does not push
the awaiting coroutine a second time: nothing new is handed in (`given` unchanged), and the multiset
"resumed ++ still queued" grows by exactly the handles of the suspend point — the own handle is queued, and
resumed, exactly once.  Precisely: the last handle runs first, then what was queued, then the remaining handles up
to and including the (first) own handle, at which point `me` continues; in coroutine mode the handles behind the
own one are still queued, in that order; in normal mode (the queue is flushed before `co_await` returns to plain
code) all of them have run.  (Own handle *last*: `c06_await_own_handle_last`.) -/
theorem c06_await_own_handle_not_last {n : Nat} {a : Bool} {s : State} (h : Reachable n a s) {i : Nat} {o : Obj}
    (hi : s.obj i = some o) (me : Ptr) (hq : me ∉ s.queue) :
    ∀ rest last, handles s i = rest ++ [last] → me ∈ rest → last ≠ me →
      (step s (Op.await i me)).1.given = s.given
      ∧ handles (step s (Op.await i me)).1 i = []
      ∧ (∀ k, k ≠ i → handles (step s (Op.await i me)).1 k = handles s k)
      ∧ resumed (step s (Op.await i me)).1 ++ (step s (Op.await i me)).1.queue
          = resumed s ++ [last] ++ s.queue ++ rest
      ∧ (s.active = true →
          resumed (step s (Op.await i me)).1 = resumed s ++ [last] ++ s.queue ++ rest.take (rest.idxOf me + 1)
          ∧ (step s (Op.await i me)).1.queue = rest.drop (rest.idxOf me + 1))
      ∧ (s.active = false →
          resumed (step s (Op.await i me)).1 = resumed s ++ [last] ++ rest
          ∧ (step s (Op.await i me)).1.queue = []) := by
  have I := reachable_inv h
  intro rest last hdec hmem hlast
  have hc : o.cf / 2 ≠ 0 := by
    intro hc; have := handles_of_count_zero hi hc; rw [this] at hdec; simp at hdec
  -- the decomposition is the model's own: rest = handles after the pop, last = the popped value
  have h1 := (pop_spec I hi hc).2.1
  have hrest0 : handles { setObj s i (some { o with cf := o.cf - 2 }) with popped := s.popped ++ [popValue s o] } i
      = handlesOf s { o with cf := o.cf - 2 } := by
    simp only [handles, State.obj, setObj, List.getElem?_set, obj_lt hi, if_true]; rfl
  rw [hrest0] at h1
  have hd : rest = handlesOf s { o with cf := o.cf - 2 } ∧ last = popValue s o := by
    rw [h1] at hdec
    have := List.append_inj' hdec.symm (by simp)
    exact ⟨this.1, by simpa using this.2⟩
  obtain ⟨hd1, hd2⟩ := hd
  have hpv : ¬ popValue s o = me := by rw [← hd2]; exact hlast
  by_cases ha : s.active = true
  · have hstep : (step s (Op.await i me)).1 = flushUntil (resumeAll (awaitQueue s i o me) [popValue s o]) me := by
      simp only [step, hi, awaitObj, hc, ha, if_true, if_false, if_neg hpv]
    rw [hstep]
    obtain ⟨-, -, g1, g2, hqq, hr, -, -, -, hgv⟩ := awaitQueue_spec I ha hi hc me
    have hE : awaitExtra s o me = [] := by simp [awaitExtra, ← hd1, hmem]
    rw [hE, List.append_nil, ← hd1] at hqq
    rw [hE, List.append_nil] at hgv
    generalize hY : resumeAll (awaitQueue s i o me) [popValue s o] = Y at g1 g2 hqq hr hgv ⊢
    rw [← hd2] at hr
    have hidx : Y.queue.idxOf me + 1 = s.queue.length + (rest.idxOf me + 1) := by
      rw [hqq, idxOf_append_right _ _ _ hq]; omega
    have htake : Y.queue.take (Y.queue.idxOf me + 1) = s.queue ++ rest.take (rest.idxOf me + 1) := by
      rw [hidx, hqq, take_append_len]
    have hdrop : Y.queue.drop (Y.queue.idxOf me + 1) = rest.drop (rest.idxOf me + 1) := by
      rw [hidx, hqq, drop_append_len]
    have hres : resumed (flushUntil Y me) = resumed s ++ [last] ++ s.queue ++ rest.take (rest.idxOf me + 1) := by
      rw [resumed_flushUntil, htake, hr]; simp
    have hque : (flushUntil Y me).queue = rest.drop (rest.idxOf me + 1) := hdrop
    refine ⟨hgv, ?_, ?_, ?_, fun _ => ⟨hres, hque⟩, fun hf => by rw [ha] at hf; cases hf⟩
    · rw [handles_of_eq (s' := flushUntil Y me) (s := Y) rfl rfl]; exact g1
    · intro k hk; rw [handles_of_eq (s' := flushUntil Y me) (s := Y) rfl rfl]; exact g2 k hk
    · rw [hres, hque]
      simp only [List.append_assoc, List.take_append_drop]
  · have ha' : s.active = false := by simpa using ha
    have hstep : (step s (Op.await i me)).1
        = { flushAll (resumeAll (awaitQueue { s with active := true } i o me) [popValue s o]) with active := false } := by
      simp only [step, hi, awaitObj, hc, ha', if_false, Bool.false_eq_true]
    rw [hstep]
    have hi' : ({ s with active := true } : State).obj i = some o := hi
    obtain ⟨-, -, g1, g2, hqq, hr, -, -, -, hgv⟩ := awaitQueue_spec (inv_active I) rfl hi' hc me
    have hE : awaitExtra { s with active := true } o me = [] := by
      have : handlesOf { s with active := true } { o with cf := o.cf - 2 } = handlesOf s { o with cf := o.cf - 2 } := rfl
      simp [awaitExtra, this, ← hd1, hmem]
    have hpv' : popValue { s with active := true } o = popValue s o := rfl
    have hq0 : s.queue = [] := I.idle ha'
    rw [hE, List.append_nil] at hqq hgv
    rw [hpv'] at g1 g2 hqq hr hgv
    have hqq' : (resumeAll (awaitQueue { s with active := true } i o me) [popValue s o]).queue = rest := by
      rw [hqq, hd1]; show s.queue ++ handlesOf s { o with cf := o.cf - 2 } = _; rw [hq0]; rfl
    have hr' : resumed (resumeAll (awaitQueue { s with active := true } i o me) [popValue s o]) = resumed s ++ [last] := by
      rw [hr, hd2]; rfl
    have hgv' : (resumeAll (awaitQueue { s with active := true } i o me) [popValue s o]).given = s.given := hgv
    generalize hY : resumeAll (awaitQueue { s with active := true } i o me) [popValue s o] = Y at g1 g2 hqq' hr' hgv' ⊢
    have hres : resumed { flushAll Y with active := false } = resumed s ++ [last] ++ rest := by
      have e : resumed { flushAll Y with active := false } = resumed Y ++ Y.queue := resumed_flushAll Y
      rw [e, hr', hqq']
    refine ⟨hgv', ?_, ?_, ?_, (fun hf => by rw [ha'] at hf; cases hf), fun _ => ⟨hres, rfl⟩⟩
    · rw [handles_of_eq (s' := { flushAll Y with active := false }) (s := Y) rfl rfl]; exact g1
    · intro k hk; rw [handles_of_eq (s' := { flushAll Y with active := false }) (s := Y) rfl rfl]; exact g2 k hk
    · rw [hres]; show _ ++ [] = _; rw [hq0]; simp

/-- `co_await sp` by a coroutine whose **own handle is the last one** (`suspend_point<void> me = co_await self();
co_await me;`, or the own handle added last): `pop()` takes the own handle for the symmetric transfer, the guard of the
repaired `await_suspend` starts from the popped handle, so the awaiting coroutine is resumed exactly once — by the
transfer — and is *not* queued again; nothing new is handed in.  In coroutine mode the remaining handles are queued
behind what was already queued and the coroutine continues at once; in normal mode they have all run when `co_await`
returns to plain code.  (The pinned code queued the own handle as well: `c06_asis_await_own_handle_last_resumed_twice`.) -/
theorem c06_await_own_handle_last {n : Nat} {a : Bool} {s : State} (h : Reachable n a s) {i : Nat} {o : Obj}
    (hi : s.obj i = some o) (me : Ptr) :
    ∀ rest, handles s i = rest ++ [me] →
      (step s (Op.await i me)).1.given = s.given
      ∧ handles (step s (Op.await i me)).1 i = []
      ∧ (∀ k, k ≠ i → handles (step s (Op.await i me)).1 k = handles s k)
      ∧ resumed (step s (Op.await i me)).1 ++ (step s (Op.await i me)).1.queue
          = resumed s ++ [me] ++ s.queue ++ rest
      ∧ (s.active = true →
          resumed (step s (Op.await i me)).1 = resumed s ++ [me]
          ∧ (step s (Op.await i me)).1.queue = s.queue ++ rest)
      ∧ (s.active = false →
          resumed (step s (Op.await i me)).1 = resumed s ++ [me] ++ rest
          ∧ (step s (Op.await i me)).1.queue = []) := by
  have I := reachable_inv h
  intro rest hdec
  have hc : o.cf / 2 ≠ 0 := by
    intro hc; have := handles_of_count_zero hi hc; rw [this] at hdec; simp at hdec
  have h1 := (pop_spec I hi hc).2.1
  have hrest0 : handles { setObj s i (some { o with cf := o.cf - 2 }) with popped := s.popped ++ [popValue s o] } i
      = handlesOf s { o with cf := o.cf - 2 } := by
    simp only [handles, State.obj, setObj, List.getElem?_set, obj_lt hi, if_true]; rfl
  rw [hrest0] at h1
  have hd : rest = handlesOf s { o with cf := o.cf - 2 } ∧ me = popValue s o := by
    rw [h1] at hdec
    have := List.append_inj' hdec.symm (by simp)
    exact ⟨this.1, by simpa using this.2⟩
  obtain ⟨hd1, hd2⟩ := hd
  have hpv : popValue s o = me := hd2.symm
  by_cases ha : s.active = true
  · have hstep : (step s (Op.await i me)).1 = resumeAll (awaitQueue s i o me) [popValue s o] := by
      simp only [step, hi, awaitObj, hc, ha, if_true, if_false, if_pos hpv]
    rw [hstep]
    obtain ⟨-, -, g1, g2, hqq, hr, -, -, -, hgv⟩ := awaitQueue_spec I ha hi hc me
    have hE : awaitExtra s o me = [] := by simp [awaitExtra, hpv]
    rw [hE, List.append_nil, ← hd1] at hqq
    rw [hE, List.append_nil] at hgv
    generalize hY : resumeAll (awaitQueue s i o me) [popValue s o] = Y at g1 g2 hqq hr hgv ⊢
    rw [hpv] at hr
    refine ⟨hgv, g1, g2, ?_, fun _ => ⟨hr, hqq⟩, fun hf => by rw [ha] at hf; cases hf⟩
    rw [hr, hqq]; simp
  · have ha' : s.active = false := by simpa using ha
    have hstep : (step s (Op.await i me)).1
        = { flushAll (resumeAll (awaitQueue { s with active := true } i o me) [popValue s o]) with active := false } := by
      simp only [step, hi, awaitObj, hc, ha', if_false, Bool.false_eq_true]
    rw [hstep]
    have hi' : ({ s with active := true } : State).obj i = some o := hi
    obtain ⟨-, -, g1, g2, hqq, hr, -, -, -, hgv⟩ := awaitQueue_spec (inv_active I) rfl hi' hc me
    have hpv' : popValue { s with active := true } o = popValue s o := rfl
    have hE : awaitExtra { s with active := true } o me = [] := by simp [awaitExtra, hpv', hpv]
    have hq0 : s.queue = [] := I.idle ha'
    rw [hE, List.append_nil] at hqq hgv
    rw [hpv'] at g1 g2 hqq hr hgv
    have hqq' : (resumeAll (awaitQueue { s with active := true } i o me) [popValue s o]).queue = rest := by
      rw [hqq, hd1]; show s.queue ++ handlesOf s { o with cf := o.cf - 2 } = _; rw [hq0]; rfl
    have hr' : resumed (resumeAll (awaitQueue { s with active := true } i o me) [popValue s o]) = resumed s ++ [me] := by
      rw [hr, hpv]; rfl
    have hgv' : (resumeAll (awaitQueue { s with active := true } i o me) [popValue s o]).given = s.given := hgv
    generalize hY : resumeAll (awaitQueue { s with active := true } i o me) [popValue s o] = Y at g1 g2 hqq' hr' hgv' ⊢
    have hres : resumed { flushAll Y with active := false } = resumed s ++ [me] ++ rest := by
      have e : resumed { flushAll Y with active := false } = resumed Y ++ Y.queue := resumed_flushAll Y
      rw [e, hr', hqq']
    refine ⟨hgv', ?_, ?_, ?_, (fun hf => by rw [ha'] at hf; cases hf), fun _ => ⟨hres, rfl⟩⟩
    · rw [handles_of_eq (s' := { flushAll Y with active := false }) (s := Y) rfl rfl]; exact g1
    · intro k hk; rw [handles_of_eq (s' := { flushAll Y with active := false }) (s := Y) rfl rfl]; exact g2 k hk
    · rw [hres]; show _ ++ [] = _; rw [hq0]; simp

/-- **Own handle in any position: resumed exactly once.**  A coroutine awaits a suspend point that contains its own
handle once (first, in the middle, or last) and is not already queued: nothing new is handed in, and afterwards the
coroutine has been resumed-or-is-queued exactly once more than before — by the symmetric transfer when its handle was
the last one, through the ready queue otherwise; every other handle of the suspend point likewise exactly once. -/
theorem c06_await_own_handle {n : Nat} {a : Bool} {s : State} (h : Reachable n a s) {i : Nat} {o : Obj}
    (hi : s.obj i = some o) (me : Ptr) (hq : me ∉ s.queue) (hmem : me ∈ handles s i) :
    (step s (Op.await i me)).1.given = s.given
    ∧ handles (step s (Op.await i me)).1 i = []
    ∧ ∀ x, (resumed (step s (Op.await i me)).1).count x + (step s (Op.await i me)).1.queue.count x
        = (resumed s).count x + s.queue.count x + (handles s i).count x := by
  have hne : handles s i ≠ [] := by intro e; rw [e] at hmem; cases hmem
  obtain ⟨rest, last, hdec⟩ : ∃ rest last, handles s i = rest ++ [last] :=
    ⟨(handles s i).dropLast, (handles s i).getLast hne, (List.dropLast_concat_getLast hne).symm⟩
  have key : ∀ (r q : List Ptr), r ++ q = resumed s ++ [last] ++ s.queue ++ rest →
      ∀ x, r.count x + q.count x = (resumed s).count x + s.queue.count x + (handles s i).count x := by
    intro r q e x
    have := congrArg (List.count x) e
    rw [hdec]
    simp only [List.count_append, List.count_cons, List.count_nil] at this ⊢
    omega
  by_cases hl : last = me
  · subst hl
    have T := c06_await_own_handle_last h hi last rest hdec
    exact ⟨T.1, T.2.1, key _ _ T.2.2.2.1⟩
  · have hm : me ∈ rest := by
      rw [hdec] at hmem
      simp only [List.mem_append, List.mem_singleton] at hmem
      rcases hmem with hm | hm
      · exact hm
      · exact absurd hm.symm hl
    have T := c06_await_own_handle_not_last h hi me hq rest last hdec hm hl
    exact ⟨T.1, T.2.1, key _ _ T.2.2.2.1⟩

/-- **A moved-from or emptied suspend point resumes nothing**: whatever consumes an object that holds no handle
(`clear`, destructor, `co_await`; for `pop` see `c06_pop`) resumes nothing and enqueues nothing -/
theorem c06_empty_resumes_nothing {n : Nat} {a : Bool} {s : State} (h : Reachable n a s) {i : Nat} {o : Obj}
    (hi : s.obj i = some o) (h0 : handles s i = []) (me : Ptr) :
    ∀ op, op = Op.clear i ∨ op = Op.dtor i ∨ op = Op.await i me →
      resumed (step s op).1 = resumed s ∧ (step s op).1.queue = s.queue := by
  have I := reachable_inv h
  have C := c06_consume h hi
  have hc : o.cf / 2 = 0 := by
    by_cases hc : o.cf / 2 = 0
    · exact hc
    · have := (pop_spec I hi hc).2.1; rw [this] at h0; simp at h0
  intro op hop
  rcases hop with rfl | rfl | rfl
  · exact ⟨by rw [C.1.2.2.1, h0]; simp, by rw [C.1.2.1, h0]; simp⟩
  · exact ⟨by rw [C.2.2.2.1, h0]; simp, by rw [C.2.2.1, h0]; simp⟩
  · have e : (step s (Op.await i me)).1 = s := by simp only [step, hi, awaitObj, hc, if_true]
    rw [e]; exact ⟨rfl, rfl⟩

/-! ## heap: balanced, no double free, no leak, no out-of-bounds access -/

/-- **Heap balance.** In every reachable state: no `delete[]` ever hit an address that was not a live block
(no double free after move / merge, no invalid free), no write ever went outside a live block, and the number
of `new[]` equals the number of `delete[]` plus the number of blocks still live. -/
theorem c06_heap_balanced {n : Nat} {a : Bool} {s : State} (h : Reachable n a s) :
    Ev.badfree ∉ s.trace ∧ Ev.oob ∉ s.trace ∧ news s = deletes s + s.live.length :=
  ⟨(reachable_inv h).heap.no_badfree, (reachable_inv h).heap.no_oob, (reachable_inv h).heap.balance⟩

/-- every live block is owned by exactly one suspend point (which has its heap bit set and points to it): a
block can never be freed twice through two owners, and a block without owner — a leak — does not exist -/
theorem c06_block_ownership {n : Nat} {a : Bool} {s : State} (h : Reachable n a s) :
    (∀ b, b ∈ s.live → ∃ i o, s.obj i = some o ∧ o.cf % 2 = 1 ∧ o.ext = b)
    ∧ (∀ i j oi oj, s.obj i = some oi → s.obj j = some oj → oi.cf % 2 = 1 → oj.cf % 2 = 1 → oi.ext = oj.ext → i = j) := by
  have I := reachable_inv h
  refine ⟨?_, I.own.excl⟩
  intro b hb
  have := (I.heap.live_iff b).1 hb
  cases hg : s.mem.get b with
  | none => rw [hg] at this; cases this
  | some c => exact I.own.owned b c hg

/-- **No leak.** When no suspend point uses heap storage (in particular when all have been destroyed) no block
is live and every `new[]` was matched by exactly one `delete[]`; this is the case at the end of every history
(`ops ++ endOps n`), however far the counts outgrew the inline capacity in between. -/
theorem c06_no_leak {n : Nat} {a : Bool} {s : State} (h : Reachable n a s)
    (hnone : ∀ i o, s.obj i = some o → o.cf % 2 = 0) : s.live = [] ∧ news s = deletes s := by
  have hl : s.live = [] := by
    apply List.eq_nil_iff_forall_not_mem.2
    intro b hb
    obtain ⟨i, o, ho, hf, -⟩ := (c06_block_ownership h).1 b hb
    have := hnone i o ho; omega
  have := (c06_heap_balanced h).2.2
  rw [hl] at this
  exact ⟨hl, by simpa using this⟩

theorem c06_no_leak_at_end (n : Nat) (a : Bool) (ops : List Op) :
    let s := run (init n a) (ops ++ endOps n)
    s.live = [] ∧ news s = deletes s ∧ Ev.badfree ∉ s.trace ∧ Ev.oob ∉ s.trace := by
  intro s
  have hr : Reachable n a s := ⟨ops ++ endOps n, rfl⟩
  have I := inv_run (inv_init n a) ops
  have hl : (run (init n a) ops).objs.length = n := by rw [run_len (inv_init n a)]; simp [init]
  have E := end_state I
  rw [hl, ← run_append] at E
  have L := c06_no_leak hr (fun i o ho => by rw [E.2.1 i] at ho; cases ho)
  exact ⟨L.1, L.2, (c06_heap_balanced hr).1, (c06_heap_balanced hr).2.1⟩

/-- the count never exceeds the storage in use: at most 3 inline, at most the capacity of the (live) block on
the heap — so every read of `[begin(), end())` and of `from[idx-1]` is in bounds -/
theorem c06_count_within_storage {n : Nat} {a : Bool} {s : State} (h : Reachable n a s) {i : Nat} {o : Obj}
    (hi : s.obj i = some o) :
    (o.cf % 2 = 0 → o.cf / 2 ≤ inlineCount ∧ o.inl.length = inlineCount)
    ∧ (o.cf % 2 = 1 → ∃ c, s.mem.get o.ext = some c ∧ c.length = o.cap ∧ o.cf / 2 ≤ o.cap ∧ o.ext ∈ s.live) := by
  have I := reachable_inv h
  have w := I.own.wf i o hi
  refine ⟨fun hf => ⟨w.inl_le hf, w.inl_len⟩, fun hf => ?_⟩
  obtain ⟨c, hg, hl, hle, -⟩ := w.ext_ok hf
  exact ⟨c, hg, hl, hle, (I.heap.live_iff o.ext).2 (by simp [hg])⟩

/-- **No allocation within the inline capacity**: adding / merging handles into a suspend point that uses inline
storage, as long as the resulting count does not exceed 3, touches neither the heap nor the event trace
(`new[]` only ever happens in `add`, and only when the count outgrows the storage) -/
theorem c06_inline_no_alloc {s : State} {i : Nat} {o : Obj} (hi : s.obj i = some o) (hf : o.cf % 2 = 0)
    (hs : List Ptr) (hc : o.cf / 2 + hs.length ≤ inlineCount) :
    (addAll s i hs).trace = s.trace ∧ (addAll s i hs).mem = s.mem ∧ (addAll s i hs).live = s.live :=
  ⟨(addAll_inline hi hf hs hc).1, (addAll_inline hi hf hs hc).2.1, (addAll_inline hi hf hs hc).2.2.1⟩

/-! ## the attached value -/

/-- a typed suspend point is constructed with the value its producer supplied -/
theorem c06_value_constructed {n : Nat} {a : Bool} {s : State} (_h : Reachable n a s) {i : Nat}
    (hv : vacant s i = true) (x : Ptr) (v : Nat) :
    (∃ o, (step s (Op.ctorV i v)).1.obj i = some o ∧ o.typed = true ∧ o.value = some v)
    ∧ (∃ o, (step s (Op.ctorHV i x v)).1.obj i = some o ∧ o.typed = true ∧ o.value = some v)
    ∧ (∀ j oj, s.obj j = some oj →
        (∃ o, (step s (Op.ctorSV i j v)).1.obj i = some o ∧ o.typed = true ∧ o.value = some v)
        ∧ (∃ o, (step s (Op.mov i j)).1.obj i = some o ∧ o.typed = oj.typed ∧ o.value = oj.value)) := by
  obtain ⟨hil, hin⟩ := vacant_iff.1 hv
  refine ⟨?_, ?_, ?_⟩
  · simp only [step, hv, if_true]
    exact ⟨{ typed := true, value := some v }, by rw [obj_setObj _ i _ i hil]; simp, rfl, rfl⟩
  · simp only [step, hv, if_true]
    exact ⟨{ cf := 2, inl := [x, junk, junk], typed := true, value := some v },
      by rw [obj_setObj _ i _ i (by exact hil)]; simp, rfl, rfl⟩
  · intro j oj hj
    have hij : i ≠ j := by intro e; subst e; rw [hin] at hj; cases hj
    have hjl := obj_lt hj
    have key : ∀ t w, (stepMove s i j t w oj).obj i = some (moveFrom oj t w) := by
      intro t w
      simp only [stepMove]
      rw [obj_setObj _ j _ i (by simpa using hjl), obj_setObj _ i _ i hil]; simp [hij]
    have keyj : ∀ t w, (stepMove s i j t w oj).obj j = some { oj with cf := 0 } := by
      intro t w
      simp only [stepMove]
      rw [obj_setObj _ j _ j (by simpa using hjl)]; simp
    have tv : ∀ t w, (moveFrom oj t w).typed = t ∧ (moveFrom oj t w).value = w := by
      intro t w; unfold moveFrom; split <;> exact ⟨rfl, rfl⟩
    refine ⟨?_, ?_⟩ <;> simp only [step, hj, hv, if_true]
    · exact ⟨_, key true (some v), (tv true (some v)).1, (tv true (some v)).2⟩
    · split
      · exact ⟨_, by rw [obj_setVal (keyj _ _) none i, if_neg hij]; exact key _ _, (tv _ _).1, (tv _ _).2⟩
      · exact ⟨_, key _ _, (tv _ _).1, (tv _ _).2⟩

/-- **Reading the value never changes anything**: the conversion on a non-const object (`operator X()`), the
conversion on a const object, `await_resume()` — and all three in a row — leave the whole state untouched and yield
the attached value (`Res.gone` only if the value had been moved away by a move construction / move assignment);
`co_await` on a typed suspend point yields the same value.  So the value can be read any number of times, in any
order, before or after awaiting. -/
theorem c06_value_read {s : State} {i : Nat} {o : Obj} (hi : s.obj i = some o) (ht : o.typed = true) (me : Ptr) :
    step s (Op.conv i) = (s, readVal o) ∧ step s (Op.cconv i) = (s, readVal o)
    ∧ step s (Op.ares i) = (s, readVal o) ∧ step s (Op.value i) = (s, readVal o)
    ∧ (step s (Op.await i me)).2 = readVal o
    ∧ (∀ v, o.value = some v → readVal o = Res.num v) := by
  refine ⟨?_, ?_, ?_, ?_, ?_, ?_⟩ <;> (try simp only [step, hi, ht, if_true])
  intro v hv; simp [readVal, hv]

/-- **The value is the one its producer supplied**: no operation changes the type or the value of an existing
suspend point — reading it (in any way), adding, merging into it or out of it, slicing / moving its handles out, pop,
clear, co_await, growing to the heap.  The only exceptions are the implicit member-wise move operations of
`suspend_point<X>`: the *target* of a move-assignment between two typed suspend points receives the source's value,
and the *source* of a typed move construction / move assignment is left with a moved-from value (`none`). -/
theorem c06_value {n : Nat} {a : Bool} {s : State} (h : Reachable n a s) (op : Op) {k : Nat} {o o' : Obj}
    (hk : s.obj k = some o) (hk' : (step s op).1.obj k = some o') :
    o'.typed = o.typed ∧
    (o'.value = o.value
     ∨ (∃ j oj, op = Op.assign k j ∧ j ≠ k ∧ s.obj j = some oj ∧ o.typed = true ∧ oj.typed = true ∧ o'.value = oj.value)
     ∨ (o.typed = true ∧ o'.value = none
        ∧ ((∃ i, op = Op.mov i k) ∨ ∃ i oi, op = Op.assign i k ∧ i ≠ k ∧ s.obj i = some oi ∧ oi.typed = true))) := by
  rcases step_value_frame (reachable_inv h) op with V | ⟨i, j, oj, rfl, hj, htj, hothers, oj', e1, e2, e3⟩
      | ⟨i, j, oi, oj, rfl, hij, hi, hj, hti, htj, hothers, ⟨oi', a1, a2, a3⟩, ⟨oj', b1, b2, b3⟩⟩
  · have := V k o o' hk hk'; exact ⟨this.1, Or.inl this.2⟩
  · by_cases ek : k = j
    · subst ek
      rw [hj] at hk; cases hk
      rw [e1] at hk'; cases hk'
      exact ⟨by rw [e2, htj], Or.inr (Or.inr ⟨htj, e3, Or.inl ⟨i, rfl⟩⟩)⟩
    · have := hothers k ek o o' hk hk'; exact ⟨this.1, Or.inl this.2⟩
  · by_cases eki : k = i
    · subst eki
      rw [hi] at hk; cases hk
      rw [a1] at hk'; cases hk'
      exact ⟨by rw [a2, hti], Or.inr (Or.inl ⟨j, oj, rfl, Ne.symm hij, hj, hti, htj, a3⟩)⟩
    · by_cases ekj : k = j
      · subst ekj
        rw [hj] at hk; cases hk
        rw [b1] at hk'; cases hk'
        exact ⟨by rw [b2, htj], Or.inr (Or.inr ⟨htj, b3, Or.inr ⟨i, oi, rfl, hij, hi, hti⟩⟩)⟩
      · have := hothers k eki ekj o o' hk hk'; exact ⟨this.1, Or.inl this.2⟩

/-! ## the pinned commit violated the property -/

/-- The unrepaired `operator<<` / move-assignment applied to the object itself (`sp = std::move(sp)` with two
handles): the loop re-adds the object's own handles (spilling to the heap on the way), then resets the count —
both coroutines are dropped (held nowhere, never resumed) and the block allocated on the way is leaked.
Replayed on the headers in corpus/c06_selfassign.txt; repaired by `/repo` commit a20835f (self-merge is a no-op). -/
theorem c06_asis_self_assign_loses_handles :
    let s := runAsIs (init 1 false) [Op.ctorH 0 1, Op.addH 0 2, Op.assign 0 0]
    s.given = [1, 2] ∧ handles s 0 = [] ∧ resumed s = [] ∧ s.queue = [] ∧ s.popped = []
    ∧ s.live = [1] ∧ s.trace = [Ev.alloc 6] := by decide

/-- The unrepaired `await_suspend` with the awaiting coroutine's own handle last (`me = co_await self(); co_await me;`,
coroutine 99 running under `coro_queue`): the handle is handed in once, the symmetric transfer resumes 99 and the
guard — which only looked at the remaining handles — queues it as well; when the coroutine ends and the queue is
flushed it is resumed a second time.  Normal mode (coroutine 100 outside `coro_queue`): both resumptions happen inside
the `co_await`.  Replayed on the headers in corpus/c06_ownhandle_last.txt; repaired by `/repo` commit e49d44d ("fix: co_await on
a suspend point whose last handle is the awaiting coroutine resumed it twice": the guard starts from the popped handle). -/
theorem c06_asis_await_own_handle_last_resumed_twice :
    resumed (runAsIs (init 1 true) [Op.ctorH 0 99, Op.await 0 99, Op.finish]) = [99, 99]
    ∧ resumed (runAsIs (init 1 false) [Op.ctorH 0 100, Op.await 0 100]) = [100, 100]
    ∧ resumed (run (init 1 true) [Op.ctorH 0 99, Op.await 0 99, Op.finish]) = [99]
    ∧ resumed (run (init 1 false) [Op.ctorH 0 100, Op.await 0 100]) = [100] := by decide

/-! ## non-vacuity: the hypotheses are satisfiable by non-trivial reachable states -/

/-- 7 handles added to one suspend point: inline → heap (6) → doubling (12) -/
def demoGrow : List Op := [Op.ctor 0, Op.addH 0 10, Op.addH 0 11, Op.addH 0 12, Op.addH 0 13, Op.addH 0 14,
  Op.addH 0 15, Op.addH 0 16]

example : Reachable 2 false (run (init 2 false) demoGrow) := ⟨_, rfl⟩
example : handles (run (init 2 false) demoGrow) 0 = [10, 11, 12, 13, 14, 15, 16] := by decide
example : (run (init 2 false) demoGrow).trace = [Ev.alloc 6, Ev.alloc 12, Ev.free 6] := by decide
example : ((run (init 2 false) demoGrow).obj 0).map (·.cf) = some 15 := by decide   -- count 7, heap bit set
/-- merging a heap-backed suspend point into an inline one, then destroying both in normal mode: every handle
resumed once, in order, all blocks freed -/
example : resumed (run (init 2 false) (demoGrow ++ [Op.ctorH 1 9, Op.merge 1 0] ++ endOps 2))
    = [9, 10, 11, 12, 13, 14, 15, 16] := by decide
example : (run (init 2 false) (demoGrow ++ [Op.ctorH 1 9, Op.merge 1 0] ++ endOps 2)).live = [] := by decide
/-- coroutine mode: a discarded suspend point only enqueues; `co_await` runs its last handle first -/
example : resumed (run (init 2 true) [Op.ctorH 0 1, Op.addH 0 2, Op.clear 0, Op.ctorH 1 3, Op.addH 1 4, Op.addH 1 5,
    Op.await 1 99]) = [5, 1, 2, 3, 4, 99] := by decide

/-- the yield idiom in coroutine mode: own handle (99) first, handles 1 2 3 behind it; the last one (3) runs first, then
the own handle — queued once — gets control back while 1 and 2 are still queued; nothing new was handed in -/
example : resumed (run (init 1 true) [Op.ctorH 0 99, Op.addH 0 1, Op.addH 0 2, Op.addH 0 3, Op.await 0 99]) = [3, 99]
    ∧ (run (init 1 true) [Op.ctorH 0 99, Op.addH 0 1, Op.addH 0 2, Op.addH 0 3, Op.await 0 99]).queue = [1, 2]
    ∧ (run (init 1 true) [Op.ctorH 0 99, Op.addH 0 1, Op.addH 0 2, Op.addH 0 3, Op.await 0 99]).given = [99, 1, 2, 3] := by
  decide
/-- own handle in the middle, normal mode (a coroutine outside `coro_queue`): everything has run, each once -/
example : resumed (run (init 1 false) [Op.ctorH 0 1, Op.addH 0 100, Op.addH 0 2, Op.addH 0 3, Op.await 0 100])
    = [3, 1, 100, 2] := by decide

/-- the value is read four times (twice through the non-const conversion), awaited, moved with the typed move
constructor and read again: always the producer's 42; the moved-from source reads as moved-from -/
example : (step (run (init 2 false) [Op.ctorHV 0 1 42, Op.conv 0, Op.conv 0, Op.cconv 0, Op.ares 0, Op.await 0 100])
      (Op.conv 0)).2 = Res.num 42
    ∧ (step (run (init 2 false) [Op.ctorHV 0 1 42, Op.conv 0, Op.mov 1 0]) (Op.conv 1)).2 = Res.num 42
    ∧ (step (run (init 2 false) [Op.ctorHV 0 1 42, Op.conv 0, Op.mov 1 0]) (Op.conv 0)).2 = Res.gone := by decide

/-- `create_suspend_point` with five coroutines made ready and the result 7: same order, one block, value attached -/
example : handles (run (init 1 true) [Op.create 0 [1, 2, 3, 4, 5] (some 7)]) 0 = [1, 2, 3, 4, 5]
    ∧ (run (init 1 true) [Op.create 0 [1, 2, 3, 4, 5] (some 7)]).trace = [Ev.alloc 6]
    ∧ (step (run (init 1 true) [Op.create 0 [1, 2, 3, 4, 5] (some 7)]) (Op.conv 0)).2 = Res.num 7 := by decide

/-! ## faults: allocation failure (`std::bad_alloc`) and exceptions out of callables run under a freshly installed queue

All conservation / heap theorems above (`c06_multiset_preserved`, `c06_never_twice`, `c06_exactly_once_at_end`,
`c06_heap_balanced`, `c06_block_ownership`, `c06_no_leak_at_end`, `c06_value`) quantify over *every* operation list, and `Op`
includes the fault operations `Op.fault f`: histories in which allocations fail at any growth position and callables throw,
followed by any further operations on the same objects, are covered by them.  The theorems below say what each fault operation
does. -/

/-- **`sp << h` under allocation failure: strong guarantee.**  `add` calls `new[]` exactly when the inline storage is full
(3 handles: the inline→heap switch) or the heap block is at capacity (every doubling).  When that allocation throws
`std::bad_alloc`, *nothing at all* has changed — not the handles, not the representation (count, flag, capacity, block), not
the heap; the handle stays with the caller (it was not handed in).  Otherwise the operation is the plain `sp << h`. -/
theorem c06_add_alloc_failure {n : Nat} {a : Bool} {s : State} (h : Reachable n a s) {i : Nat} {o : Obj}
    (hi : s.obj i = some o) (x : Ptr) :
    (needsAlloc o = true → step s (Op.fault (FOp.addF i x)) = (s, Res.threw))
    ∧ (needsAlloc o = false → step s (Op.fault (FOp.addF i x)) = ((step s (Op.addH i x)).1, Res.unit))
    ∧ (needsAlloc o = true ↔ (o.cf % 2 = 0 ∧ o.cf / 2 = inlineCount) ∨ (o.cf % 2 = 1 ∧ o.cf / 2 = o.cap)) := by
  refine ⟨fun hn => by simp only [step, stepF, hi, hn, if_true], fun hn => by simp [step, stepF, hi, hn], ?_⟩
  have W := (c06_count_within_storage h hi).1
  unfold needsAlloc
  by_cases hf : o.cf % 2 = 1
  · rw [if_pos hf]
    constructor
    · intro hh; right; exact ⟨hf, by simpa using hh⟩
    · rintro (⟨h0, -⟩ | ⟨-, hh⟩)
      · omega
      · simpa using hh
  · rw [if_neg hf]
    have hf0 : o.cf % 2 = 0 := by omega
    have hle := (W hf0).1
    constructor
    · intro hh; left
      have : ¬ o.cf / 2 < inlineCount := by simpa using hh
      exact ⟨hf0, by omega⟩
    · rintro (⟨-, hh⟩ | ⟨h1, -⟩)
      · simp [hh]
      · omega

/-- **Merging under allocation failure** (`a << std::move(b)`, `a = std::move(b)`, two distinct objects, the `k`-th `new[]` of
the operation fails — the inline→heap switch of the target or any of its doublings, whatever the two sizes and storage
kinds).  Either no allocation failed and the operation *is* the plain merge, or `std::bad_alloc` came out and **every** suspend
point — target, source, bystanders — holds exactly the handles it held before, in the same order: nothing lost (the source
keeps everything), nothing duplicated (the handles already copied are dropped from the target again: `/repo` fix 07a2414; the
unrepaired code left them in both: `c06_asis_merge_alloc_failure_duplicates`); nothing was resumed, queued, handed in or
popped.  The target may have moved to a bigger block on the way; heap balance and block ownership hold (reachable state). -/
theorem c06_merge_alloc_failure {n : Nat} {a : Bool} {s : State} (h : Reachable n a s) {i j : Nat} {oi oj : Obj}
    (hi : s.obj i = some oi) (hj : s.obj j = some oj) (hij : i ≠ j) (k : Nat) :
    step s (Op.fault (FOp.mergeF i j k)) = step s (Op.merge i j)
    ∨ ((step s (Op.fault (FOp.mergeF i j k))).2 = Res.threw
        ∧ (∀ x, handles (step s (Op.fault (FOp.mergeF i j k))).1 x = handles s x)
        ∧ (step s (Op.fault (FOp.mergeF i j k))).1.queue = s.queue
        ∧ resumed (step s (Op.fault (FOp.mergeF i j k))).1 = resumed s
        ∧ (step s (Op.fault (FOp.mergeF i j k))).1.given = s.given
        ∧ (step s (Op.fault (FOp.mergeF i j k))).1.popped = s.popped
        ∧ (step s (Op.fault (FOp.mergeF i j k))).1.active = s.active) := by
  have e1 : step s (Op.fault (FOp.mergeF i j k)) = stepMergeF s i j oj k := by
    simp only [step, stepF, hi, hj, if_neg hij]
  have e2 : step s (Op.merge i j) = (stepMerge s i j oj, Res.unit) := by
    simp only [step, hi, hj, if_neg hij]
  rw [e1, e2]
  rcases mergeF_spec (reachable_inv h) hi hj hij k with e | ⟨t, -, hh, Q, -, -⟩
  · left; exact e
  · right; exact ⟨t, hh, Q.queue, Q.resumed, Q.given, Q.popped, Q.active⟩

/-- as-is fact (before `/repo` commit 07a2414 "fix: suspend_point merge left already copied handles in both objects when
growing failed with bad_alloc"): a target with two handles, a source with three (10 11 12).  Handle 10 is copied into the third
inline cell, then the inline→heap switch needed for handle 11 fails.  The unrepaired `operator<<` had no handler: the
exception left handle 10 in the target *and* in the source; destroying both resumes coroutine 10 twice.  The repaired code
drops it from the target again.  Replayed on the headers in corpus/c06_merge_bad_alloc.txt. -/
theorem c06_asis_merge_alloc_failure_duplicates :
    let s0 := run (init 2 false) [Op.ctorH 0 1, Op.addH 0 2, Op.ctorH 1 10, Op.addH 1 11, Op.addH 1 12]
    let s1 := (stepMergeFAsIs s0 0 1 { cf := 6, inl := [10, 11, 12] } 0).1
    (s0.obj 1 = some { cf := 6, inl := [10, 11, 12] })
    ∧ (stepMergeFAsIs s0 0 1 { cf := 6, inl := [10, 11, 12] } 0).2 = Res.threw
    ∧ handles s1 0 = [1, 2, 10] ∧ handles s1 1 = [10, 11, 12]
    ∧ resumed (run s1 (endOps 2)) = [1, 2, 10, 10, 11, 12]
    ∧ resumed (run (step s0 (Op.fault (FOp.mergeF 0 1 0))).1 (endOps 2)) = [1, 2, 10, 11, 12] := by decide

/-- **An exception out of a callable run under a freshly installed queue** (`coro_queue::install_queue_and_call(fn)`, from plain
code or from a coroutine; `fn` makes the coroutines `hs` ready, optionally clears suspend point `j`, then returns or throws).
The state after the call does not depend on whether `fn` returned or threw: the thread is in the mode it was in before
(`is_active()` unchanged — in particular plain code is *not* left in coroutine mode), the ready queue is empty, and everything
that was queued before, everything `fn` made ready and everything the cleared suspend point held has been resumed, each exactly
once, in that order; no other suspend point changed. -/
theorem c06_call_exception {n : Nat} {a : Bool} {s : State} (h : Reachable n a s) (hs : List Ptr) (j : Option Nat)
    (hj : callRefused s j = false) :
    (step s (Op.fault (FOp.call hs j true))).1 = (step s (Op.fault (FOp.call hs j false))).1
    ∧ (step s (Op.fault (FOp.call hs j true))).2 = Res.threw
    ∧ (step s (Op.fault (FOp.call hs j true))).1.active = s.active
    ∧ (step s (Op.fault (FOp.call hs j true))).1.queue = []
    ∧ (step s (Op.fault (FOp.call hs j true))).1.given = s.given ++ hs
    ∧ resumed (step s (Op.fault (FOp.call hs j true))).1
        = resumed s ++ s.queue ++ hs ++ (match j with | some jj => handles s jj | none => [])
    ∧ (∀ k, some k ≠ j → handles (step s (Op.fault (FOp.call hs j true))).1 k = handles s k)
    ∧ (∀ jj, j = some jj → handles (step s (Op.fault (FOp.call hs j true))).1 jj = []) := by
  have e : ∀ b, step s (Op.fault (FOp.call hs j b)) = (stepCall s hs j, if b then Res.threw else Res.unit) := by
    intro b; simp only [step, stepF, hj]; rfl
  rw [e true, e false]
  obtain ⟨-, Cact, Cq, -, Cg, -, Cnone, Csome⟩ := call_spec (reachable_inv h) hs j
  refine ⟨rfl, rfl, Cact, Cq, Cg, ?_, ?_, ?_⟩
  · cases j with
    | none => rw [(Cnone (fun jj e => by cases e)).1]; simp
    | some jj =>
        cases ho : s.obj jj with
        | none => simp [callRefused, ho] at hj
        | some o => exact (Csome jj o rfl ho).1
  · intro k hk
    cases j with
    | none => exact (Cnone (fun jj e => by cases e)).2.2 k
    | some jj =>
        cases ho : s.obj jj with
        | none => simp [callRefused, ho] at hj
        | some o => exact (Csome jj o rfl ho).2.2.2 k (fun e => hk (by rw [e]))
  · intro jj e; subst e
    cases ho : s.obj jj with
    | none => simp [callRefused, ho] at hj
    | some o => exact (Csome jj o rfl ho).2.2.1

/-- **`coro_queue::create_suspend_point(fn)` with `fn` throwing** after it has made the coroutines `hs` ready: no suspend point
is created and none changes, the thread stays in its mode; from plain code every coroutine of `hs` has been resumed exactly
once when the exception reaches the caller (the temporarily installed queue is flushed and uninstalled), from a coroutine they
wait in the ready queue behind what was queued before — none is dropped. -/
theorem c06_create_exception {n : Nat} {a : Bool} {s : State} (h : Reachable n a s) (hs : List Ptr) :
    (step s (Op.fault (FOp.createX hs))).2 = Res.threw
    ∧ (∀ k, (step s (Op.fault (FOp.createX hs))).1.obj k = s.obj k)
    ∧ (∀ k, handles (step s (Op.fault (FOp.createX hs))).1 k = handles s k)
    ∧ (step s (Op.fault (FOp.createX hs))).1.active = s.active
    ∧ (step s (Op.fault (FOp.createX hs))).1.given = s.given ++ hs
    ∧ (s.active = true → (step s (Op.fault (FOp.createX hs))).1.queue = s.queue ++ hs
        ∧ resumed (step s (Op.fault (FOp.createX hs))).1 = resumed s)
    ∧ (s.active = false → (step s (Op.fault (FOp.createX hs))).1.queue = []
        ∧ resumed (step s (Op.fault (FOp.createX hs))).1 = resumed s ++ hs) := by
  have I := reachable_inv h
  by_cases ha : s.active = true
  · have e : step s (Op.fault (FOp.createX hs)) = (ready s hs, Res.threw) := by simp only [step, stepF, ha, if_true]
    rw [e]
    exact ⟨rfl, fun _ => rfl, fun k => handles_of_eq rfl rfl k, rfl, rfl, fun _ => ⟨rfl, rfl⟩,
      fun hf => by rw [ha] at hf; cases hf⟩
  · have ha' : s.active = false := by simpa using ha
    have e : step s (Op.fault (FOp.createX hs)) = (stepCall s hs none, Res.threw) := by
      simp only [step, stepF, ha', Bool.false_eq_true, if_false]
    rw [e]
    obtain ⟨-, Cact, Cq, -, Cg, -, Cnone, -⟩ := call_spec I hs none
    obtain ⟨Cr, Co, Ch⟩ := Cnone (fun jj e => by cases e)
    refine ⟨rfl, Co, Ch, Cact, Cg, (fun hf => by rw [ha'] at hf; cases hf), fun _ => ⟨Cq, ?_⟩⟩
    rw [Cr, I.idle ha']; simp

/-- **No fault operation changes the thread's mode**: after an allocation failure or an exception out of a callable — caught by
the caller — `coro_queue::is_active()` is what it was, so the suspend points used afterwards resume (normal mode) or queue
(coroutine mode) their coroutines as before (`c06_consume`); `FOp.isActive` reads it. -/
theorem c06_fault_mode_unchanged {n : Nat} {a : Bool} {s : State} (h : Reachable n a s) (f : FOp) :
    (step s (Op.fault f)).1.active = s.active
    ∧ step s (Op.fault FOp.isActive) = (s, Res.flag s.active) := by
  have I := reachable_inv h
  refine ⟨?_, rfl⟩
  cases f with
  | addF i x =>
      simp only [step, stepF]
      cases hi : s.obj i with
      | none => rfl
      | some o =>
          simp only []
          split
          · rfl
          · have H0 : HeapOk { s with given := s.given ++ [x] } := heapOk_of_eq I.heap rfl rfl rfl [] (by simp)
            have O0 : Own { s with given := s.given ++ [x] } := own_of_eq I.own rfl rfl
            exact (add_spec H0 O0 (show ({ s with given := s.given ++ [x] } : State).obj i = some o from hi) x).active
  | mergeF i j k =>
      cases hi : s.obj i with
      | none => simp only [step, stepF, hi]
      | some oi =>
          cases hj : s.obj j with
          | none => simp only [step, stepF, hi, hj]
          | some oj =>
              by_cases hij : i = j
              · subst hij; simp only [step, stepF, hi, if_true]
              · rcases c06_merge_alloc_failure h hi hj hij k with e | ⟨-, -, -, -, -, -, ha⟩
                · rw [e]
                  have e2 : step s (Op.merge i j) = (stepMerge s i j oj, Res.unit) := by
                    simp only [step, hi, hj, if_neg hij]
                  rw [e2]; exact (merge_spec I hi hj hij).2.2.2.2.1.active
                · exact ha
  | call hs j throws =>
      simp only [step, stepF]
      split
      · rfl
      · exact (call_spec I hs j).2.1
  | createX hs => exact (c06_create_exception h hs).2.2.2.1
  | isActive => rfl

/-! non-vacuity of the fault theorems -/

/-- six handles in a block of six: the seventh `<<` needs the first doubling, which fails — nothing changes; the retry succeeds -/
example : let s := run (init 1 false) [Op.ctor 0, Op.addH 0 1, Op.addH 0 2, Op.addH 0 3, Op.addH 0 4, Op.addH 0 5, Op.addH 0 6]
    (step s (Op.fault (FOp.addF 0 7))).2 = Res.threw
    ∧ handles (step s (Op.fault (FOp.addF 0 7))).1 0 = [1, 2, 3, 4, 5, 6]
    ∧ handles (run s [Op.fault (FOp.addF 0 7), Op.addH 0 7]) 0 = [1, 2, 3, 4, 5, 6, 7]
    ∧ (run s [Op.fault (FOp.addF 0 7), Op.addH 0 7]).trace = [Ev.alloc 6, Ev.alloc 12, Ev.free 6] := by decide
/-- a merge whose second allocation fails: the target went to the heap (block of 6) and took four handles, then the doubling
failed: it holds its own two handles again, in the new block; the source still holds its seven -/
example : let s := run (init 2 false) (demoGrow ++ [Op.ctorH 1 1, Op.addH 1 2])
    (step s (Op.fault (FOp.mergeF 1 0 1))).2 = Res.threw
    ∧ handles (step s (Op.fault (FOp.mergeF 1 0 1))).1 1 = [1, 2]
    ∧ handles (step s (Op.fault (FOp.mergeF 1 0 1))).1 0 = [10, 11, 12, 13, 14, 15, 16]
    ∧ ((step s (Op.fault (FOp.mergeF 1 0 1))).1.obj 1).map (·.cf) = some 5
    ∧ resumed (run s ([Op.fault (FOp.mergeF 1 0 1), Op.merge 1 0] ++ endOps 2)) = [1, 2, 10, 11, 12, 13, 14, 15, 16]
    ∧ (run s ([Op.fault (FOp.mergeF 1 0 1), Op.merge 1 0] ++ endOps 2)).live = [] := by decide
/-- plain code: a callable readies 7 and 8, clears a suspend point holding 1 2 and throws: all four resumed once, normal mode again -/
example : let s := run (init 1 false) [Op.ctorH 0 1, Op.addH 0 2, Op.fault (FOp.call [7, 8] (some 0) true)]
    resumed s = [7, 8, 1, 2] ∧ s.active = false ∧ s.queue = [] ∧ handles s 0 = [] := by decide
example : let s := run (init 1 true) [Op.ctorH 0 1, Op.clear 0, Op.fault (FOp.createX [7, 8])]
    resumed s = [] ∧ s.queue = [1, 7, 8] ∧ s.active = true := by decide

end Cocls.SP
