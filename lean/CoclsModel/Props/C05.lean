import CoclsModel.ExecProofs
/-!
# C05 — coroutine-mode scheduling: run-to-suspension, FIFO ready queue, full drain

Model: `CoclsModel/Exec.lean` (open executor model: one step = one act of whoever executes; the scheduler's
reaction — flush loop, `suspend_now` loop, return into a nested `start()` — is part of the step).
Invariant and its preservation by every act: `CoclsModel/ExecProofs.lean`.

Every theorem below that mentions `Reachable` quantifies over *all* act lists, i.e. over every program of any
number of coroutines built from spawn/detach, pause, promise resolution / mutex release / queue push (generic
`wake`, discarded or awaited suspend point), future await, `co_await async`, `co_return`, synchronous access to
generators (`gnext` / `gyield`) and `install_queue_and_call` blocks, for all step counts, entered from ordinary code, from inside an installed
block or from inside a coroutine.  The step-level theorems hold in every state.
-/
namespace Cocls.Exec

/-- every state the executor can be in: any act list (= any program of any number of coroutines, any step
count, entered from ordinary code, from inside an `install_queue_and_call` block or from inside a coroutine) -/
def Reachable (s : State) : Prop := ∃ acts, s = run init acts

theorem reachable_inv {s : State} (h : Reachable s) : Inv s := by
  obtain ⟨acts, rfl⟩ := h
  exact inv_run acts init inv_init

theorem reachable_run {s : State} (h : Reachable s) (acts : List Act) : Reachable (run s acts) := by
  obtain ⟨a0, rfl⟩ := h
  exact ⟨a0 ++ acts, by simp [run, List.foldl_append]⟩

theorem reachable_step {s : State} (h : Reachable s) (a : Act) : Reachable (step s a) :=
  reachable_run h [a]

/-- **No preemption** (decision logic, any state): a running coroutine that makes coroutines ready and drops
the suspend point keeps running; the handles go to the tail of the ready queue in suspend-point order; nothing
is taken from the queue, nobody is resumed, nobody else becomes running. -/
theorem c05_no_preempt (s : State) (c : Nat) (cs : List Nat) (rev : Bool) (hc : s.cur = some c) :
    (step s (Act.wake cs Mode.discard rev)).cur = some c
    ∧ (step s (Act.wake cs Mode.discard rev)).ready = s.ready ++ handles s.st cs rev
    ∧ (step s (Act.wake cs Mode.discard rev)).deq = s.deq
    ∧ (step s (Act.wake cs Mode.discard rev)).runs = s.runs
    ∧ (step s (Act.wake cs Mode.discard rev)).calls = s.calls
    ∧ (step s (Act.wake cs Mode.discard rev)).base = s.base
    ∧ (∀ i, (step s (Act.wake cs Mode.discard rev)).st i = St.running ↔ s.st i = St.running) := by
  simpa [step, hc, coStep, enqueue] using collect_running s.st cs

/-- **Queued in the order they were made ready** (decision logic, any state): the coroutines a running coroutine makes ready
one after the other (targets `cs`, processed in this order) and whose suspend point it drops are appended to the ready queue in
exactly the order in which they were made ready (`made` and `enq` grow by the same list, a sublist of `cs`) — whether the
suspend point was built directly or collected by `coro_queue::create_suspend_point` (`rev = true`; the pinned code reversed the
order there, `c05_asis_create_reversed`, `/repo` commit 34c6158).  With `c05_fifo` / `c05_fifo_progress` they are resumed in
that order. -/
theorem c05_ready_order_is_made_order (s : State) (c : Nat) (cs : List Nat) (rev : Bool) (hc : s.cur = some c) :
    (step s (Act.wake cs Mode.discard rev)).ready = s.ready ++ handles s.st cs rev
    ∧ (step s (Act.wake cs Mode.discard rev)).enq = s.enq ++ handles s.st cs rev
    ∧ (step s (Act.wake cs Mode.discard rev)).made = s.made ++ handles s.st cs rev
    ∧ handles s.st cs rev = handles s.st cs false
    ∧ List.Sublist (handles s.st cs rev) cs := by
  refine ⟨?_, ?_, ?_, rfl, collect_sublist cs s.st⟩ <;> simp [step, hc, coStep, enqueue]

/-- **Run to suspension**: control passes from the executing coroutine `c` to anybody else only in a step in
which `c` itself stops running (it suspended, finished, or called `start()` itself and is blocked in it), and
that step is never the dropping of a suspend point. -/
theorem c05_run_to_suspension {s : State} (h : Reachable s) (c : Nat) (hc : s.cur = some c) (a : Act)
    (hne : (step s a).cur ≠ some c) :
    (step s a).st c ≠ St.running ∧ (∀ cs rev, a ≠ Act.wake cs Mode.discard rev) := by
  have hT := reachable_inv (reachable_step h a)
  refine ⟨fun hr => hne ((hT.running_iff c).1 hr), ?_⟩
  intro cs rev ha
  subst ha
  exact hne (c05_no_preempt s c cs rev hc).1

/-- **A nested `start()` returns to its caller**: `start()` called while a queue is installed resumes the child
directly, without installing anything. When the chain it started returns (the executing coroutine parks, or
finishes with nobody awaiting it), control goes back to the coroutine `p` that called `start()`: nothing is
taken from the ready queue and nobody is resumed, so whatever `p` had made ready before is still queued when `p`
continues. -/
theorem c05_nested_return (s : State) (c p : Nat) (ps : List Nat) (hc : s.cur = some c)
    (hp : s.calls = p :: ps) :
    ((step s Act.park).cur = some p ∧ (step s Act.park).ready = s.ready ∧ (step s Act.park).deq = s.deq
      ∧ (step s Act.park).runs = s.runs ∧ (step s Act.park).calls = ps)
    ∧ (s.waiter c = none →
      (step s Act.fin).cur = some p ∧ (step s Act.fin).ready = s.ready ∧ (step s Act.fin).deq = s.deq
      ∧ (step s Act.fin).runs = s.runs ∧ (step s Act.fin).calls = ps) := by
  constructor
  · simp [step, hc, coStep, coPark, settle, hp]
  · intro hw
    simp [step, hc, coStep, coFin, hw, settle, hp]

/-- the same for ordinary code that called `start()` inside an `install_queue_and_call` block: it gets control
back with the queue untouched; the queue is flushed by the trailer of the block (`leave`), not by `start()` -/
theorem c05_nested_return_main (s : State) (c : Nat) (hc : s.cur = some c) (hcl : s.calls = [])
    (hb : s.base = some Base.callMain) :
    (step s Act.park).cur = none ∧ (step s Act.park).ready = s.ready ∧ (step s Act.park).deq = s.deq
    ∧ (step s Act.park).runs = s.runs ∧ (step s Act.park).active = s.active := by
  simp [step, hc, coStep, coPark, settle, hcl, hb]

/-- the same for ordinary code inside an installed queue (`install_queue_and_call` body) -/
theorem c05_no_preempt_in_block (s : State) (cs : List Nat) (m : Mode) (rev : Bool) (hc : s.cur = none)
    (ha : s.active = true) (hm : m ≠ Mode.par) :
    (step s (Act.wake cs m rev)).cur = none
    ∧ (step s (Act.wake cs m rev)).ready = s.ready ++ handles s.st cs rev
    ∧ (step s (Act.wake cs m rev)).deq = s.deq
    ∧ (step s (Act.wake cs m rev)).runs = s.runs
    ∧ (∀ i, (step s (Act.wake cs m rev)).st i = St.running ↔ s.st i = St.running) := by
  cases m with
  | par => exact absurd rfl hm
  | discard => simpa [step, hc, mainStep, mainWake, ha, enqueue] using collect_running s.st cs
  | await => simpa [step, hc, mainStep, mainWake, ha, enqueue] using collect_running s.st cs

/-- a queued coroutine has not started: it is in the queue exactly once, its status is `ready`, it is not the
one executing -/
theorem c05_queued_not_started {s : State} (h : Reachable s) (i : Nat) (hi : i ∈ s.ready) :
    s.st i = St.ready ∧ s.cur ≠ some i ∧ s.ready.count i = 1 := by
  have hI := reachable_inv h
  have h1 := hI.handle_once i
  have h2 := hI.running_iff i
  have h3 : 0 < s.ready.count i := List.count_pos_iff.2 hi
  grind

/-- **FIFO**: in every reachable state the handles taken from the front of the ready queue so far, followed by
the queue, are exactly the handles appended so far, in order. -/
theorem c05_fifo {s : State} (h : Reachable s) : s.enq = s.deq ++ s.ready :=
  (reachable_inv h).fifo

theorem c05_fifo_prefix {s : State} (h : Reachable s) : s.deq <+: s.enq := by
  rw [c05_fifo h]; exact List.prefix_append _ _

/-- the logs only grow: what was taken/appended stays taken/appended, in the same order -/
theorem c05_logs_grow (s : State) (acts : List Act) :
    s.enq <+: (run s acts).enq ∧ s.deq <+: (run s acts).deq := grows_run acts s

/-- **FIFO progress**: if `c` sits in the ready queue behind `pre`, then in every later state in which `c` is
no longer waiting in the queue (e.g. it runs), all of `pre` and then `c` have been taken from the queue, in
that order, after everything taken before. -/
theorem c05_fifo_progress {s : State} (h : Reachable s) (pre post : List Nat) (c : Nat)
    (hq : s.ready = pre ++ c :: post) (acts : List Act) (hn : (run s acts).st c ≠ St.ready) :
    (s.deq ++ pre ++ [c]) <+: (run s acts).deq := by
  have hI := reachable_inv h
  have hT := reachable_inv (reachable_run h acts)
  have hg := (grows_run acts s).1
  generalize run s acts = t at *
  have he : s.enq = (s.deq ++ pre ++ [c]) ++ post := by rw [hI.fifo, hq]; simp
  have hY : (s.deq ++ pre ++ [c]) <+: t.deq ++ t.ready := by
    rw [← hT.fifo]; exact (he ▸ List.prefix_append _ _ : (s.deq ++ pre ++ [c]) <+: s.enq).trans hg
  have hD : t.deq <+: t.deq ++ t.ready := List.prefix_append _ _
  rcases List.prefix_or_prefix_of_prefix hY hD with h1 | h1
  · exact h1
  · obtain ⟨r, hr⟩ := h1
    by_cases hre : r = []
    · subst hre; rw [List.append_nil] at hr; rw [hr]; exact List.prefix_refl _
    · exfalso
      have hc : c ∈ r := last_of_suffix (s.deq ++ pre) r t.deq c hre (by rw [hr])
      obtain ⟨z, hz⟩ := hY
      have : r ++ z = t.ready := by
        have : t.deq ++ (r ++ z) = t.deq ++ t.ready := by rw [← List.append_assoc, hr, hz]
        exact List.append_cancel_left this
      have hcr : c ∈ t.ready := by rw [← this]; exact List.mem_append_left _ hc
      have h1 := hT.handle_once c
      have h3 : 0 < t.ready.count c := List.count_pos_iff.2 hcr
      grind

/-- **pause = strict round-robin**: after `co_await pause()` by `c` with `q` queued, in every later state in
which `c` executes again every member of `q` has been resumed from the queue before `c`, in queue order
(for every continuation of the program). -/
theorem c05_pause_round_robin {s : State} (h : Reachable s) (c : Nat) (hc : s.cur = some c)
    (acts : List Act) (hrun : (run (step s Act.pause) acts).cur = some c) :
    (s.deq ++ s.ready ++ [c]) <+: (run (step s Act.pause) acts).deq := by
  have hs' := reachable_step h Act.pause
  have hT := reachable_inv (reachable_run hs' acts)
  have hst : (run (step s Act.pause) acts).st c ≠ St.ready := by
    have := (hT.running_iff c).2 hrun; rw [this]; simp
  cases hq : s.ready with
  | nil =>
    have hd : (step s Act.pause).deq = s.deq ++ [c] := by simp [step, hc, coStep, coPause, hq]
    have := (grows_run acts (step s Act.pause)).2
    rw [hd] at this
    simpa using this
  | cons x q =>
    have hd : (step s Act.pause).deq = s.deq ++ [x] := by simp [step, hc, coStep, coPause, hq]
    have hr : (step s Act.pause).ready = q ++ c :: [] := by simp [step, hc, coStep, coPause, hq]
    have := c05_fifo_progress hs' q [] c hr acts hst
    rw [hd] at this
    simpa using this

/-- pause, decision logic: the pausing coroutine goes to the tail, the head of the queue runs next (the
pausing coroutine itself when nothing is queued) -/
theorem c05_pause_step (s : State) (c : Nat) (hc : s.cur = some c) :
    (s.ready = [] → (step s Act.pause).cur = some c ∧ (step s Act.pause).ready = []) ∧
    (∀ x q, s.ready = x :: q → (step s Act.pause).cur = some x ∧ (step s Act.pause).ready = q ++ [c]) := by
  constructor
  · intro hq; simp [step, hc, coStep, coPause, hq]
  · intro x q hq; simp [step, hc, coStep, coPause, hq]

/-- awaited suspend point, decision logic (by design the *last* handle runs first, by symmetric transfer;
the others and the awaiting coroutine go to the tail of the queue in order) -/
theorem c05_await_step (s : State) (c : Nat) (cs : List Nat) (rev : Bool) (hc : s.cur = some c)
    (out : Nat) (ho : (handles s.st cs rev).getLast? = some out) :
    (step s (Act.wake cs Mode.await rev)).cur = some out
    ∧ (step s (Act.wake cs Mode.await rev)).ready = s.ready ++ (handles s.st cs rev).dropLast ++ [c]
    ∧ (step s (Act.wake cs Mode.await rev)).deq = s.deq := by
  simp [step, hc, coStep, coAwaitSp, ho]

/-- the coroutine that awaited a suspend point continues only after everything queued before it and the other
handles of the suspend point were resumed from the queue -/
theorem c05_await_requeue {s : State} (h : Reachable s) (c : Nat) (cs : List Nat) (rev : Bool)
    (hc : s.cur = some c) (out : Nat) (ho : (handles s.st cs rev).getLast? = some out)
    (acts : List Act) (hrun : (run (step s (Act.wake cs Mode.await rev)) acts).cur = some c) :
    (s.deq ++ s.ready ++ (handles s.st cs rev).dropLast ++ [c])
      <+: (run (step s (Act.wake cs Mode.await rev)) acts).deq := by
  have hs' := reachable_step h (Act.wake cs Mode.await rev)
  have hT := reachable_inv (reachable_run hs' acts)
  have hst : (run (step s (Act.wake cs Mode.await rev)) acts).st c ≠ St.ready := by
    have := (hT.running_iff c).2 hrun; rw [this]; simp
  obtain ⟨_, hr, hd⟩ := c05_await_step s c cs rev hc out ho
  have := c05_fifo_progress hs' (s.ready ++ (handles s.st cs rev).dropLast) [] c (by rw [hr]) acts hst
  rw [hd] at this
  simpa using this

/-- **Exactly once**: every time a coroutine was made ready it was resumed exactly once or its handle is
pending in exactly one place (ready queue, `suspend_now` loop, or a job handed to a pool worker / new thread),
never in two, and it is pending iff its status is `ready`. -/
theorem c05_once {s : State} (h : Reachable s) (i : Nat) :
    s.made.count i = s.runs.count i
        + (s.ready.count i + (loopIds s.base).count i + (jobIds s.jobs).count i)
    ∧ s.ready.count i + (loopIds s.base).count i + (jobIds s.jobs).count i
        = if s.st i = St.ready then 1 else 0 := by
  have hI := reachable_inv h
  have := hI.once i
  exact ⟨by omega, hI.handle_once i⟩

/-- **No re-entry** (state form): exactly the executing coroutine has status `running`; hence at most one
coroutine runs at a time and no handle of a running coroutine exists in the queue, in a `suspend_now` loop or
as somebody's awaiter. -/
theorem c05_no_reentry {s : State} (h : Reachable s) (i : Nat) :
    (s.st i = St.running ↔ s.cur = some i)
    ∧ (s.st i = St.running → s.ready.count i = 0 ∧ (loopIds s.base).count i = 0 ∧ s.calls.count i = 0) := by
  have hI := reachable_inv h
  refine ⟨hI.running_iff i, fun hr => ?_⟩
  have h1 := hI.handle_once i
  have h2 := hI.stacked_once i
  simp [hr] at h1 h2
  omega

/-- **No re-entry** (transition form): whoever gets control in a step either had it already or was suspended
(ready, parked and woken by this very act, fresh, awaiting the finishing coroutine, or blocked in a nested
`start()`); never a coroutine that is running elsewhere and never a finished one. -/
theorem c05_resume_only_suspended {s : State} (h : Reachable s) (a : Act) (x : Nat)
    (hx : (step s a).cur = some x) :
    s.cur = some x ∨ (s.st x ≠ St.running ∧ s.st x ≠ St.done) := by
  have hI := reachable_inv h
  unfold step at hx
  split at hx
  next c hc =>
    obtain ⟨hr, hb, ha⟩ := cur_facts hI hc
    have key : ∀ m : State, ∀ v : St, Mid m → m.st = upd s.st c v → v ≠ St.stacked → v ≠ St.ready →
        (settle m).cur = some x → s.cur = some x ∨ (s.st x ≠ St.running ∧ s.st x ≠ St.done) := by
      intro m v hm hst hv1 hv2 hxx
      have := settle_from_upd m s c v hm hst hv1 hv2 x hxx
      right; grind
    cases a with
    | wake cs m rev =>
      cases m with
      | discard => left; simpa [coStep, enqueue, hc] using hx
      | await =>
        simp only [coStep, coAwaitSp] at hx
        split at hx
        · left; simpa [coStep] using hx
        next out ho =>
          simp at hx; subst hx
          have hm : out ∈ handles s.st cs rev := List.mem_of_getLast? ho
          have hcnt := handles_count s.st cs rev out
          have : 0 < (handles s.st cs rev).count out := List.count_pos_iff.2 hm
          unfold Hit at hcnt
          right; grind [wakeable]
      | par =>
        simp only [coStep, postJob] at hx
        split at hx <;> (left; simpa using hx)
    | parkPar =>
      exact key _ St.pparked (mid_suspend s c St.pparked hI hc (by simp) (by simp) (by simp)) rfl (by simp) (by simp) hx
    | wakePar d =>
      simp only [coStep, wakePar] at hx
      split at hx <;> (left; simpa using hx)
    | hop =>
      have hm := mid_coHop s c hI hc
      have h1 := settle_cur' _ hm x hx
      have h2 := hm.handle_once x
      have h3 := hI.stacked_once x
      have h4 := hI.handle_once x
      simp only [jobIds_snoc, List.count_append, List.count_singleton] at h1 h2
      right; grind [upd_apply]
    | hopCur =>
      simp only [coStep, coHopCur] at hx
      split at hx
      · have hm := mid_coHop s c hI hc
        have h1 := settle_cur' _ hm x hx
        have h2 := hm.handle_once x
        have h3 := hI.stacked_once x
        have h4 := hI.handle_once x
        simp only [jobIds_snoc, List.count_append, List.count_singleton] at h1 h2
        right; grind [upd_apply]
      · left; simpa using hx
    | job => left; simpa [coStep] using hx
    | fwait => left; simpa [coStep] using hx
    | park =>
      exact key _ St.parked (mid_suspend s c St.parked hI hc (by simp) (by simp) (by simp)) rfl (by simp) (by simp) hx
    | parkNext =>
      simp only [coStep, coParkNext] at hx
      split at hx
      next y q hq =>
        simp at hx; subst hx
        have := hI.handle_once y; simp [hq] at this
        right; grind
      next =>
        exact key _ St.parked (mid_suspend s c St.parked hI hc (by simp) (by simp) (by simp)) rfl (by simp) (by simp) hx
    | pause =>
      simp only [coStep, coPause] at hx
      split at hx
      · left; simpa [coStep] using hx
      next y q hq =>
        simp at hx; subst hx
        have := hI.handle_once y; simp [hq] at this
        right; grind
    | start d fut =>
      simp only [coStep, coStart] at hx
      split at hx
      next hd => simp at hx; subst hx; right; simp [hd]
      next => left; simpa [coStep] using hx
    | gnext d =>
      simp only [coStep, coGnext] at hx
      split at hx
      next hd =>
        simp at hx; subst hx
        rcases (resumable_iff s d).1 hd with e | e <;> (right; simp [e])
      next => left; simpa [coStep] using hx
    | gyield =>
      simp only [coStep, coGyield] at hx
      split at hx
      next =>
        exact key _ St.yielded (mid_suspend s c St.yielded hI hc (by simp) (by simp) (by simp)) rfl (by simp) (by simp) hx
      next => left; simpa [coStep] using hx
    | awaitSelf pre post =>
      simp only [coStep, coAwaitSelf] at hx
      split at hx
      · left; simpa using hx
      next out ho =>
        simp at hx; subst hx
        have hm : out ∈ (collect (collect s.st pre).1 post).2 := List.mem_of_getLast? ho
        have hcnt := (collect_spec post (collect s.st pre).1 out).2
        have hst1 := (collect_spec pre s.st out).1
        have : 0 < ((collect (collect s.st pre).1 post).2).count out := List.count_pos_iff.2 hm
        unfold Hit at hcnt hst1
        right; grind [wakeable]
    | call d =>
      simp only [coStep, coCall] at hx
      split at hx
      next hd => simp at hx; subst hx; right; simp [hd]
      next => left; simpa [coStep] using hx
    | join d =>
      simp only [coStep, coJoin] at hx
      split at hx
      next => exact key _ (St.waiting d) (mid_coJoin s c d hI hc) rfl (by simp) (by simp) hx
      next => left; simpa [coStep] using hx
    | fin =>
      simp only [coStep, coFin] at hx
      split at hx
      next p hp =>
        simp at hx; subst hx
        have := hI.waiter_ok c p hp
        right; simp [this]
      next =>
        exact key _ St.done (mid_suspend s c St.done hI hc (by simp) (by simp) (by simp)) rfl (by simp) (by simp) hx
    | enter => left; simpa [coStep] using hx
    | leave => left; simpa [coStep] using hx
  next hc =>
    cases a with
    | wake cs m rev =>
      have mw : (mainWake s cs rev).cur = some x → s.cur = some x ∨ (s.st x ≠ St.running ∧ s.st x ≠ St.done) := by
        intro hx
        simp only [mainWake] at hx
        split at hx
        · simp [enqueue, hc] at hx
        next ha =>
          split at hx
          · simp [hc] at hx
          next =>
            have hm := mid_mainWake s cs rev hI hc ha
            have := settle_cur _ hm x hx
            dsimp only at this
            have hst := (collect_spec cs s.st x).1
            unfold Hit at hst
            right; grind [wakeable]
      cases m with
      | discard => exact mw (by simpa [mainStep] using hx)
      | await => exact mw (by simpa [mainStep] using hx)
      | par =>
        simp only [mainStep, postJob] at hx
        split at hx <;> simp [hc] at hx
    | wakePar d =>
      simp only [mainStep, wakePar] at hx
      split at hx <;> simp [hc] at hx
    | job =>
      simp only [mainStep, mainJob] at hx
      split at hx
      next hidle =>
        split at hx
        next hs k js hj =>
          have hm := mid_mainJob s hs k js hI hc hidle hj
          have := settle_cur _ hm x hx
          dsimp only at this
          right; grind
        next => simp [hc] at hx
      next => simp [hc] at hx
    | parkPar => simp [mainStep, hc] at hx
    | hop => simp [mainStep, hc] at hx
    | hopCur => simp [mainStep, hc] at hx
    | fwait => simp [mainStep, hc] at hx
    | start d fut =>
      simp only [mainStep, mainStart] at hx
      split at hx
      next hd =>
        split at hx <;> (simp at hx; subst hx; right; simp [hd])
      next => simp [hc] at hx
    | gnext d =>
      simp only [mainStep, mainGnext] at hx
      split at hx
      next hd =>
        split at hx <;> (simp at hx; subst hx; rcases (resumable_iff s d).1 hd with e | e <;> (right; simp [e]))
      next => simp [hc] at hx
    | gyield => simp [mainStep, hc] at hx
    | enter => simp [mainStep, mainEnter, hc] at hx
    | leave =>
      simp only [mainStep, mainLeave] at hx
      split at hx
      next p bs hbl =>
        have hm := mid_mainLeave s p bs hI hc hbl
        have := settle_cur _ hm x hx
        dsimp only at this
        right; grind
      next => simp [hc] at hx
    | park => simp [mainStep, hc] at hx
    | parkNext => simp [mainStep, hc] at hx
    | pause => simp [mainStep, hc] at hx
    | awaitSelf pre post => simp [mainStep, hc] at hx
    | call d => simp [mainStep, hc] at hx
    | join d => simp [mainStep, hc] at hx
    | fin => simp [mainStep, hc] at hx

/-- **Full drain**: whenever ordinary code is in control outside every `install_queue_and_call` block (the
outermost coroutine activation has returned), the ready queue is empty, the thread has left coroutine mode,
nothing is pending on this thread (no coroutine is running or blocked in a nested start, and a coroutine is
ready only if its handle was handed to another thread: pool worker / `parallel` thread), everything that was
appended to the queue was taken from it, and every coroutine was resumed exactly as often as it was made
ready, not counting the handles other threads still hold. The same holds for those threads when they are done
with a job (`Act.job` runs in this very context). -/
theorem c05_drain {s : State} (h : Reachable s) (hc : s.cur = none) (hb : s.blocks = []) :
    s.ready = [] ∧ s.active = false ∧ s.base = none ∧ s.calls = [] ∧ s.deq = s.enq
    ∧ (∀ i, (s.st i = St.ready → i ∈ jobIds s.jobs) ∧ s.st i ≠ St.running ∧ s.st i ≠ St.stacked)
    ∧ (∀ i, s.runs.count i + (jobIds s.jobs).count i = s.made.count i) := by
  have hI := reachable_inv h
  obtain ⟨hbase, hcl, hnr, hab⟩ := main_facts hI hc
  have hrd := hI.idle hb hbase
  have hact : s.active = false := by
    cases ha : s.active with
    | false => rfl
    | true => exact absurd hb (hab.1 ha)
  refine ⟨hrd, hact, hbase, hcl, ?_, ?_, ?_⟩
  · rw [hI.fifo, hrd]; simp
  · intro i
    have h1 := hI.handle_once i
    have h2 := hI.stacked_once i
    simp [hrd, hbase, hcl, loopIds] at h1 h2
    refine ⟨fun hr => ?_, hnr i, h2⟩
    simp [hr] at h1
    exact List.count_pos_iff.1 (by omega)
  · intro i
    have := hI.once i
    simp [hrd, hbase, loopIds] at this
    omega

/-- control is in ordinary code exactly when no coroutine activation is pending below it; in coroutine mode
(`is_active()`) exactly when a block is open or an activation is pending -/
theorem c05_active_iff {s : State} (h : Reachable s) :
    (s.active = true ↔ 0 < depth s) ∧ (s.cur = none ↔ s.base = none) ∧ (s.cur ≠ none → s.active = true) := by
  have hI := reachable_inv h
  refine ⟨?_, hI.cur_base, ?_⟩
  · have h1 := hI.active_iff
    have h2 := hI.calls_base
    unfold depth
    cases hb : s.base <;> cases hbl : s.blocks <;> simp_all <;> omega
  · intro hc
    cases hcc : s.cur with
    | none => exact absurd hcc hc
    | some c => exact (cur_facts hI hcc).2.2

/-! ## Any number of ready coroutines

The ready queue of the model is a list: every theorem above holds for queues of every length and for every interleaving of appends
and removals.  The statements below make that quantifier explicit — the size of the queue and the shape of the history (wide fan-out,
fan-out while the queue is being drained, repeated fill/drain cycles) appear as universally quantified variables, with no bound.
The generated programs of `checks/c05.py` (`wide_fanout`, `wide_tree`, `wide_cycles`, `wide_ring`, `wide_random`, `deep_chain`:
tens to a thousand coroutines ready at once, widths around powers of two) tie exactly these statements to the headers. -/

/-- **The ready queue is a queue at every size** (any reachable state, any continuation, no bound on the number of ready
coroutines or on the number of acts): between two points of a run, let `new` be what was appended to the ready queue in between.
Then what was taken from the queue in between is a prefix — the first `k` — of `ready ++ new`, and the queue afterwards is exactly
the rest: whatever the number of coroutines that are ready at the same time (`s.ready.length` is arbitrary), and however the
appends are interleaved with the removals (the queue grows while it is being drained), nothing is lost, nothing is duplicated and
nothing overtakes. -/
theorem c05_fifo_window {s : State} (h : Reachable s) (acts : List Act) :
    ∃ (new : List Nat) (k : Nat),
      (run s acts).enq = s.enq ++ new
      ∧ (run s acts).deq = s.deq ++ (s.ready ++ new).take k
      ∧ (run s acts).ready = (s.ready ++ new).drop k := by
  have hI := (reachable_inv h).fifo
  have hT := (reachable_inv (reachable_run h acts)).fifo
  obtain ⟨⟨new, hn⟩, ⟨d, hd⟩⟩ := grows_run acts s
  generalize run s acts = t at *
  refine ⟨new, d.length, hn.symm, ?_, ?_⟩
  all_goals
    have key : d ++ t.ready = s.ready ++ new := by
      have : s.deq ++ (d ++ t.ready) = s.deq ++ (s.ready ++ new) := by
        rw [← List.append_assoc, hd, ← hT, ← hn, hI, List.append_assoc]
      exact List.append_cancel_left this
    rw [← key]
    simp [hd]

/-- **Any number of simultaneously ready coroutines is drained in queue order**: for every `n` — no bound — if `n` coroutines wait
in the ready queue, then in every later state in which at least `n` handles have been taken from the queue, the first `n` of them
were exactly those `n` coroutines, in the order in which they waited, before anything that was queued later. -/
theorem c05_fifo_any_width (n : Nat) {s : State} (h : Reachable s) (hn : s.ready.length = n) (acts : List Act)
    (hd : s.deq.length + n ≤ (run s acts).deq.length) :
    (s.deq ++ s.ready) <+: (run s acts).deq := by
  obtain ⟨new, k, _, h2, _⟩ := c05_fifo_window h acts
  rw [h2] at hd ⊢
  have hk : n ≤ k := by
    simp only [List.length_append, List.length_take] at hd
    omega
  refine (List.prefix_append_right_inj _).2 ?_
  have e : (s.ready ++ new).take n = s.ready := by
    rw [List.take_append_of_le_length (by omega), ← hn, List.take_length]
  have := List.take_prefix_take_left (l := s.ready ++ new) hk
  rwa [e] at this

/-- **Fan-out of any width** (decision logic, any state): a running coroutine that makes `cs` ready — any number of pairwise
different fresh or parked coroutines — and drops the suspend point appends all of them, in order, behind what is already queued
(of any length): the queue holds `s.ready.length + cs.length` handles afterwards, none is dropped, none is reordered. -/
theorem c05_fanout_any_width (s : State) (c : Nat) (cs : List Nat) (rev : Bool) (hc : s.cur = some c)
    (hnd : cs.Nodup) (hw : ∀ i ∈ cs, s.st i = St.fresh ∨ s.st i = St.parked) :
    (step s (Act.wake cs Mode.discard rev)).ready = s.ready ++ cs
    ∧ (step s (Act.wake cs Mode.discard rev)).ready.length = s.ready.length + cs.length
    ∧ (step s (Act.wake cs Mode.discard rev)).cur = some c := by
  have hh : handles s.st cs rev = cs := by
    unfold handles
    apply collect_all cs s.st hnd
    intro i hi
    rcases hw i hi with e | e <;> simp [e, wakeable]
  obtain ⟨h1, h2, _⟩ := c05_no_preempt s c cs rev hc
  refine ⟨by rw [h2, hh], by rw [h2, hh, List.length_append], h1⟩

/-- **Non-vacuity at every width**: for every list `cs` of pairwise different coroutines (any length — 33, 65, 1000 …) the program
"ordinary code starts coroutine 0; 0 makes all of `cs` ready, drops the suspend point and finishes; everybody finishes" is a run of
the model in which `cs.length` coroutines are ready at the same time; they are resumed from the queue in exactly the order `cs`,
each once, and when control is back in ordinary code the queue is empty and the thread has left coroutine mode. -/
theorem c05_wide_fanout_run (cs : List Nat) (hnd : cs.Nodup) (h0 : 0 ∉ cs) :
    (run init [Act.start 0 true, Act.wake cs Mode.discard false]).ready = cs
    ∧ (run init [Act.start 0 true, Act.wake cs Mode.discard false]).cur = some 0
    ∧ (run init (Act.start 0 true :: Act.wake cs Mode.discard false :: List.replicate (cs.length + 1) Act.fin)).deq = cs
    ∧ (run init (Act.start 0 true :: Act.wake cs Mode.discard false :: List.replicate (cs.length + 1) Act.fin)).runs = 0 :: cs
    ∧ (run init (Act.start 0 true :: Act.wake cs Mode.discard false :: List.replicate (cs.length + 1) Act.fin)).ready = []
    ∧ (run init (Act.start 0 true :: Act.wake cs Mode.discard false :: List.replicate (cs.length + 1) Act.fin)).cur = none
    ∧ (run init (Act.start 0 true :: Act.wake cs Mode.discard false :: List.replicate (cs.length + 1) Act.fin)).active = false := by
  have hs1 : (step init (Act.start 0 true)).cur = some 0 := by decide
  have hw : ∀ i ∈ cs, (step init (Act.start 0 true)).st i = St.fresh ∨ (step init (Act.start 0 true)).st i = St.parked := by
    intro i hi
    have : i ≠ 0 := fun e => h0 (e ▸ hi)
    left
    simp [step, init, mainStep, mainStart, upd, this]
  obtain ⟨f1, _, f3⟩ := c05_fanout_any_width (step init (Act.start 0 true)) 0 cs false hs1 hnd hw
  have hr0 : (step init (Act.start 0 true)).ready = [] := by decide
  rw [hr0, List.nil_append] at f1
  have e2 : run init [Act.start 0 true, Act.wake cs Mode.discard false]
      = step (step init (Act.start 0 true)) (Act.wake cs Mode.discard false) := rfl
  have e3 : run init (Act.start 0 true :: Act.wake cs Mode.discard false :: List.replicate (cs.length + 1) Act.fin)
      = run (step (step init (Act.start 0 true)) (Act.wake cs Mode.discard false)) (List.replicate (cs.length + 1) Act.fin) := rfl
  obtain ⟨_, _, g3, g4, g5, g6, _⟩ := c05_no_preempt (step init (Act.start 0 true)) 0 cs false hs1
  have hwt : ∀ i, (step (step init (Act.start 0 true)) (Act.wake cs Mode.discard false)).waiter i = none := by
    intro i; simp [step, coStep, enqueue]; simp [init, mainStep, mainStart]
  have hcl : (step init (Act.start 0 true)).calls = [] := by decide
  have hb : (step init (Act.start 0 true)).base = some (Base.loop [] false) := by decide
  have hd0 : (step init (Act.start 0 true)).deq = [] := by decide
  have hru0 : (step init (Act.start 0 true)).runs = [0] := by decide
  have := drain_fins cs _ 0 f3 (by rw [g5, hcl]) (by rw [g6, hb]) f1 hwt
  rw [e2, e3]
  refine ⟨f1, f3, ?_, ?_, this.2.1, this.1, this.2.2.2.2.1⟩
  · rw [this.2.2.1, g3, hd0]; rfl
  · rw [this.2.2.2.1, g4, hru0]; rfl

/-- fan-out while the queue is being drained (the shape of `wide_fanout`/`wide_tree` of the generator): 0 readies 1, 2 and
finishes; 1 runs, readies 3, 4 and pauses; 2 runs, readies 5, 6 and pauses — the queue grows (2, 3, 4 handles …) while its head
advances; the handles leave it in exactly the order in which they entered -/
example :
    let p := [Act.start 0 true, Act.wake [1, 2] Mode.discard false, Act.fin,
              Act.wake [3, 4] Mode.discard false, Act.pause, Act.wake [5, 6] Mode.discard false, Act.pause]
    (run init p).cur = some 3 ∧ (run init p).ready = [4, 1, 5, 6, 2] ∧ (run init p).deq = [1, 2, 3]
    ∧ (run init p).enq = [1, 2, 3, 4, 1, 5, 6, 2]
    ∧ (run init (p ++ List.replicate 6 Act.fin)).deq = [1, 2, 3, 4, 1, 5, 6, 2]
    ∧ (run init (p ++ List.replicate 6 Act.fin)).cur = none
    ∧ (run init (p ++ List.replicate 6 Act.fin)).active = false := by decide

/-! ## `co_await` of a suspend point that holds the awaiting coroutine's own handle (self.h)

`sp = <make pre ready>; sp << co_await self(); sp << <make post ready>; co_await sp;` — `Act.awaitSelf pre post`.  The awaiting
coroutine handed in ONE handle of itself, so "each exactly once" of the statement says it is resumed exactly once: by the symmetric
transfer when its handle is the last one (then it must not be queued as well), from the ready queue otherwise (then it must not be
queued a second time "as the awaiting coroutine").  All invariant theorems above (`c05_once`, `c05_no_reentry`, `c05_fifo`,
`c05_drain`, …) hold for act lists that contain such awaits, because `Reachable` quantifies over all acts. -/

/-- own handle LAST (decision logic, any state): the awaiting coroutine continues at once — the transfer goes to itself —, it is
not put into the ready queue; the handles of `pre` are appended in order; nothing is taken from the queue -/
theorem c05_await_own_handle_last (s : State) (c : Nat) (pre post : List Nat) (hc : s.cur = some c)
    (hp : (collect (collect s.st pre).1 post).2 = []) :
    (step s (Act.awaitSelf pre post)).cur = some c
    ∧ (step s (Act.awaitSelf pre post)).ready = s.ready ++ (collect s.st pre).2
    ∧ (step s (Act.awaitSelf pre post)).deq = s.deq
    ∧ (step s (Act.awaitSelf pre post)).runs = s.runs ++ [c]
    ∧ (step s (Act.awaitSelf pre post)).made = s.made ++ (collect s.st pre).2 ++ [c] := by
  simp [step, hc, coStep, coAwaitSelf, hp]

/-- own handle NOT last (decision logic, any state): the last handle `out` runs first; the handles of `pre`, the awaiting
coroutine — at the position of its own handle, once — and the other handles of `post` are appended to the queue in this order -/
theorem c05_await_own_handle_inside (s : State) (c : Nat) (pre post : List Nat) (hc : s.cur = some c) (out : Nat)
    (ho : (collect (collect s.st pre).1 post).2.getLast? = some out) :
    (step s (Act.awaitSelf pre post)).cur = some out
    ∧ (step s (Act.awaitSelf pre post)).ready
        = s.ready ++ (collect s.st pre).2 ++ [c] ++ (collect (collect s.st pre).1 post).2.dropLast
    ∧ (step s (Act.awaitSelf pre post)).deq = s.deq
    ∧ (step s (Act.awaitSelf pre post)).runs = s.runs ++ [out] := by
  simp [step, hc, coStep, coAwaitSelf, ho]

/-- **Exactly once, the own handle included** (every reachable state, any `pre`/`post`): after `co_await` of a suspend point
that holds its own handle the awaiting coroutine either continues at once or waits in the ready queue exactly once — never both
(no stale queue entry that would resume it a second time while it is suspended on something else), never twice, never neither. -/
theorem c05_await_own_handle_once {s : State} (h : Reachable s) (c : Nat) (pre post : List Nat) (hc : s.cur = some c) :
    (step s (Act.awaitSelf pre post)).ready.count c
      + (if (step s (Act.awaitSelf pre post)).cur = some c then 1 else 0) = 1 := by
  have hT := reachable_inv (reachable_step h (Act.awaitSelf pre post))
  have h1 := hT.handle_once c
  have h2 := hT.running_iff c
  cases hp : (collect (collect s.st pre).1 post).2.getLast? with
  | none =>
    have hnil : (collect (collect s.st pre).1 post).2 = [] := by simpa using hp
    have hcur := (c05_await_own_handle_last s c pre post hc hnil).1
    have := h2.2 hcur
    rw [this] at h1
    simp at h1
    simp [hcur, h1.1]
  | some out =>
    obtain ⟨hcur, hr, _, _⟩ := c05_await_own_handle_inside s c pre post hc out hp
    have hne : out ≠ c := by
      intro e
      have := h2.2 (e ▸ hcur)
      have hpos : 0 < (step s (Act.awaitSelf pre post)).ready.count c := by
        rw [hr]; simp [List.count_append]; omega
      rw [this] at h1
      simp at h1
      omega
    have hpos : 0 < (step s (Act.awaitSelf pre post)).ready.count c := by
      rw [hr]; simp [List.count_append]; omega
    have : (step s (Act.awaitSelf pre post)).cur ≠ some c := by rw [hcur]; simpa using hne
    simp only [this, if_false]
    split at h1 <;> omega

/-- reachable states that use the new step: the demonstration program of the seeded change `r6-c05-await-suspend-self-check-after-pop`
(1 parks; 0 makes 1 ready, adds its own handle LAST and awaits: 0 continues, 1 is queued, 0 is not; 0 parks: 1 runs, and when
control is back in ordinary code 0 is still parked — it was not resumed a second time); own handle first; own handle in the middle -/
example :
    (run init [Act.start 1 true, Act.park, Act.start 0 true, Act.awaitSelf [1] []]).cur = some 0
    ∧ (run init [Act.start 1 true, Act.park, Act.start 0 true, Act.awaitSelf [1] []]).ready = [1]
    ∧ (run init [Act.start 1 true, Act.park, Act.start 0 true, Act.awaitSelf [1] [], Act.park]).cur = some 1
    ∧ (run init [Act.start 1 true, Act.park, Act.start 0 true, Act.awaitSelf [1] [], Act.park, Act.fin]).cur = none
    ∧ (run init [Act.start 1 true, Act.park, Act.start 0 true, Act.awaitSelf [1] [], Act.park, Act.fin]).st 0 = St.parked
    ∧ (run init [Act.start 1 true, Act.park, Act.start 0 true, Act.awaitSelf [1] [], Act.park, Act.fin]).runs = [1, 0, 0, 1]
    ∧ (run init [Act.start 0 true, Act.awaitSelf [] [1, 2]]).cur = some 2
    ∧ (run init [Act.start 0 true, Act.awaitSelf [] [1, 2]]).ready = [0, 1]
    ∧ (run init [Act.start 0 true, Act.awaitSelf [1] [2, 3]]).cur = some 3
    ∧ (run init [Act.start 0 true, Act.awaitSelf [1] [2, 3]]).ready = [1, 0, 2]
    ∧ (run init [Act.start 0 true, Act.awaitSelf [] []]).cur = some 0
    ∧ (run init [Act.start 0 true, Act.awaitSelf [] []]).ready = [] := by decide

/-! ## Other threads: `parallel` (resume.h) and the thread pool as scheduling modifiers

What C05 promises about them: the resolver is not preempted and its ready queue is not touched (the awaiting
coroutine is handed to another thread instead of being queued); the hand-over happens exactly once (`c05_once`
counts the jobs); in the other thread the coroutine runs in coroutine mode, under a queue installed for the
activation (`c05_other_thread_job`, and `c05_active_iff`: whoever executes, `active` holds), which is drained
before that thread is done (`c05_drain`; `Act.job` runs in this context because a thread outside every
activation carries no executor state). `immediately<Awt>` does not compile when instantiated (its
`perform_resume` has not the type of `awaiter::resume_fn`) and is therefore outside every program. -/

/-- resolving a future awaited through `parallel(...)`, or `parallel_resume(sp)`: the caller keeps running, its
ready queue, the dequeue log and the resume log are unchanged; the handles go to a new thread -/
theorem c05_handoff_no_preempt (s : State) (d : Nat) (cs : List Nat) (rev : Bool) :
    ((step s (Act.wakePar d)).cur = s.cur ∧ (step s (Act.wakePar d)).ready = s.ready
      ∧ (step s (Act.wakePar d)).deq = s.deq ∧ (step s (Act.wakePar d)).runs = s.runs
      ∧ (s.st d = St.pparked → (step s (Act.wakePar d)).jobs = s.jobs ++ [([d], false)]))
    ∧ ((step s (Act.wake cs Mode.par rev)).cur = s.cur ∧ (step s (Act.wake cs Mode.par rev)).ready = s.ready
      ∧ (step s (Act.wake cs Mode.par rev)).deq = s.deq ∧ (step s (Act.wake cs Mode.par rev)).runs = s.runs
      ∧ (handles s.st cs rev ≠ [] →
          (step s (Act.wake cs Mode.par rev)).jobs = s.jobs ++ [(handles s.st cs rev, false)])) := by
  constructor
  · cases hc : s.cur with
    | none =>
      simp only [step, hc, mainStep, wakePar]
      split <;> simp_all
    | some c =>
      simp only [step, hc, coStep, wakePar]
      split <;> simp_all
  · cases hc : s.cur with
    | none =>
      simp only [step, hc, mainStep, postJob]
      split <;> simp_all
    | some c =>
      simp only [step, hc, coStep, postJob]
      split <;> simp_all

/-- `co_await pool`: the coroutine's handle goes to the pool, once, behind the jobs posted before -/
theorem c05_hop (s : State) (c : Nat) (hc : s.cur = some c) :
    (step s Act.hop).jobs = s.jobs ++ [([c], true)] := by
  simp only [step, hc, coStep, coHop, settle]
  split
  · rfl
  · split
    · rfl
    · rfl
    · rfl
    · split <;> rfl

/-- **A coroutine resumed in another thread runs in coroutine mode**: a pool worker / a `parallel` thread that
takes a job installs the queue for the activation (`coro_queue::resume`), resumes the first handle under it and
keeps the others for its `suspend_now` loop. -/
theorem c05_other_thread_job (s : State) (h : Nat) (hs : List Nat) (k : Bool) (js : List (List Nat × Bool))
    (hc : s.cur = none) (ha : s.active = false) (hb : s.blocks = []) (hcl : s.calls = [])
    (hj : s.jobs = (h :: hs, k) :: js) :
    (step s Act.job).active = true ∧ (step s Act.job).cur = some h
    ∧ (step s Act.job).base = some (Base.loop hs false) ∧ (step s Act.job).jobs = js
    ∧ (step s Act.job).ready = s.ready ∧ (step s Act.job).worker = k := by
  simp [step, hc, mainStep, mainJob, ha, hb, hj, settle, hcl]

/-- `coro_queue::can_block()`: outside every activation blocking starves nobody; in general it is refused
exactly when the thread is in coroutine mode with something queued -/
theorem c05_can_block {s : State} (h : Reachable s) :
    (s.cur = none → s.blocks = [] → canBlock s = true)
    ∧ (canBlock s = false ↔ (s.active = true ∧ s.ready ≠ [])) := by
  constructor
  · intro hc hb
    have := c05_drain h hc hb
    simp [canBlock, this.1]
  · simp [canBlock]

/-- **A blocking wait is not a suspension**: `force_wait()`/`force_sync()` on a future that another thread
resolves blocks the thread and returns; between the start and the end of the call nothing is resumed on this
thread: the caller is still the one executing, the ready queue, the dequeue log and the resume log are untouched,
no activation begins or ends (whatever the caller had made ready is still queued afterwards). -/
theorem c05_blocking_wait (s : State) : step s Act.fwait = s := by
  unfold step
  split <;> rfl

/-! ## Generators accessed synchronously (generator.h)

`bool(gen.next())`, `gen()` and `gen.next().subscribe(a)` resume the generator body directly, from whatever code makes the
access.  What C05 promises about the body — a coroutine running on the thread — is what it promises about every coroutine:
`c05_active_iff` (whoever executes, a queue is installed), `c05_no_preempt`, `c05_fifo`, `c05_pause_round_robin`, `c05_drain`
hold for every act list, the accesses (`Act.gnext`) and `co_yield`s (`Act.gyield`) included.  The pinned code resumed the body
by a bare `h.resume()` even from ordinary code outside coroutine mode (`c05_asis_generator_without_queue`, `/repo` commit
191263e). -/

/-- **An accessed generator body runs in coroutine mode.**  Accessing a generator whose body has not started or is suspended in
`co_yield` transfers control to the body with a queue installed, in every reachable state: from ordinary code outside coroutine
mode the access installs the queue for this activation (`Base.loop [] false`: when the body returns, the trailer runs everything
the body queued and then leaves coroutine mode — `c05_generator_yield`, `c05_drain`); with a queue installed (ordinary code inside
a block, or a coroutine, which is then blocked on the C stack) the body is resumed directly.  Nothing is taken from or added to
the ready queue by the access itself. -/
theorem c05_generator_access {s : State} (h : Reachable s) (d : Nat) (hd : resumable s d = true) :
    (step s (Act.gnext d)).cur = some d
    ∧ (step s (Act.gnext d)).active = true
    ∧ (step s (Act.gnext d)).ready = s.ready ∧ (step s (Act.gnext d)).deq = s.deq
    ∧ (step s (Act.gnext d)).enq = s.enq ∧ (step s (Act.gnext d)).runs = s.runs ++ [d]
    ∧ (s.cur = none → s.active = false →
        (step s (Act.gnext d)).base = some (Base.loop [] false) ∧ (step s (Act.gnext d)).blocks = [])
    ∧ (s.cur = none → s.active = true →
        (step s (Act.gnext d)).base = some Base.callMain ∧ (step s (Act.gnext d)).blocks = s.blocks)
    ∧ (∀ c, s.cur = some c →
        (step s (Act.gnext d)).calls = c :: s.calls ∧ (step s (Act.gnext d)).st c = St.stacked
        ∧ (step s (Act.gnext d)).base = s.base) := by
  have hI := reachable_inv h
  cases hc : s.cur with
  | some c =>
    obtain ⟨hr, hb, ha⟩ := cur_facts hI hc
    have hne : c ≠ d := by
      intro e; subst e
      rcases (resumable_iff s c).1 hd with e | e <;> simp [e] at hr
    simp [step, hc, coStep, coGnext, hd, ha, upd_apply, hne]
  | none =>
    obtain ⟨hb, hcl, hnr, hab⟩ := main_facts hI hc
    cases ha : s.active with
    | true => simp [step, hc, mainStep, mainGnext, hd, ha]
    | false =>
      have hbl : s.blocks = [] := by
        by_cases hh : s.blocks = []
        · exact hh
        · have := hab.2 hh; simp [ha] at this
      simp [step, hc, mainStep, mainGnext, hd, ha, hbl]

/-- **`co_yield` to a synchronous access returns to the accessor**, who is not preempted by what the body queued: a coroutine
that made the access continues with the queue untouched; ordinary code outside coroutine mode gets control back only after the
trailer of the queue installed for the access has run what the body made ready (the head of the queue is next), or at once when
nothing is queued — coroutine mode is then left. -/
theorem c05_generator_yield (s : State) (c : Nat) (hc : s.cur = some c) (hg : s.gen c = true) :
    step s Act.gyield = settle { s with st := upd s.st c St.yielded }
    ∧ (∀ p ps, s.calls = p :: ps →
        (step s Act.gyield).cur = some p ∧ (step s Act.gyield).ready = s.ready ∧ (step s Act.gyield).deq = s.deq
        ∧ (step s Act.gyield).runs = s.runs ∧ (step s Act.gyield).calls = ps)
    ∧ (∀ prev x q, s.calls = [] → s.base = some (Base.loop [] prev) → s.ready = x :: q →
        (step s Act.gyield).cur = some x ∧ (step s Act.gyield).ready = q ∧ (step s Act.gyield).deq = s.deq ++ [x]
        ∧ (step s Act.gyield).active = s.active)
    ∧ (∀ prev, s.calls = [] → s.base = some (Base.loop [] prev) → s.ready = [] →
        (step s Act.gyield).cur = none ∧ (step s Act.gyield).active = prev ∧ (step s Act.gyield).base = none) := by
  refine ⟨by simp [step, hc, coStep, coGyield, hg], ?_, ?_, ?_⟩
  · intro p ps hp; simp [step, hc, coStep, coGyield, hg, settle, hp]
  · intro prev x q hcl hb hr; simp [step, hc, coStep, coGyield, hg, settle, hcl, hb, hr]
  · intro prev hcl hb hr; simp [step, hc, coStep, coGyield, hg, settle, hcl, hb, hr]

/-- The pinned (unrepaired) generator access (before `/repo` commit 191263e "fix: synchronous and future access to a generator
ran its body without a coroutine queue"; replayed on the headers in corpus/c05_generator_access.txt): ordinary code reads
generator 0 synchronously, the body runs with no queue installed; it detaches coroutine 1 and drops the suspend point — 1 runs
at once, in the middle of the body, which has neither suspended nor finished.  Repaired: the body keeps running, 1 waits in the
ready queue and runs after the body has yielded, before the access returns to ordinary code. -/
theorem c05_asis_generator_without_queue :
    (runGenAsIs init [Act.gnext 0]).cur = some 0
    ∧ (runGenAsIs init [Act.gnext 0]).active = false
    ∧ (runGenAsIs init [Act.gnext 0, Act.wake [1] Mode.discard false]).cur = some 1
    ∧ (runGenAsIs init [Act.gnext 0, Act.wake [1] Mode.discard false]).st 0 = St.stacked
    ∧ (run init [Act.gnext 0]).active = true
    ∧ (run init [Act.gnext 0, Act.wake [1] Mode.discard false]).cur = some 0
    ∧ (run init [Act.gnext 0, Act.wake [1] Mode.discard false]).ready = [1]
    ∧ (run init [Act.gnext 0, Act.wake [1] Mode.discard false, Act.gyield]).cur = some 1
    ∧ (run init [Act.gnext 0, Act.wake [1] Mode.discard false, Act.gyield]).st 0 = St.yielded
    ∧ (run init [Act.gnext 0, Act.wake [1] Mode.discard false, Act.gyield, Act.fin]).cur = none
    ∧ (run init [Act.gnext 0, Act.wake [1] Mode.discard false, Act.gyield, Act.fin]).active = false := by decide

/-- reachable states that use the new steps: a second access resumes the yielded body; a yielded generator cannot be made ready
by a `wake`; access from a coroutine (1 is blocked, what the body queued stays queued when 1 continues) and from ordinary code
inside a block; `pause` in a body with an empty queue continues the body; a finished generator is not resumed -/
example :
    (run init [Act.gnext 0, Act.gyield, Act.gnext 0]).cur = some 0
    ∧ (run init [Act.gnext 0, Act.gyield, Act.gnext 0]).runs = [0, 0]
    ∧ (run init [Act.gnext 0, Act.gyield, Act.wake [0] Mode.discard false]).cur = none
    ∧ (run init [Act.gnext 0, Act.gyield, Act.wake [0] Mode.discard false]).st 0 = St.yielded
    ∧ (run init [Act.start 1 true, Act.gnext 0, Act.wake [2] Mode.discard false, Act.gyield]).cur = some 1
    ∧ (run init [Act.start 1 true, Act.gnext 0, Act.wake [2] Mode.discard false, Act.gyield]).ready = [2]
    ∧ (run init [Act.enter, Act.gnext 0]).base = some Base.callMain
    ∧ (run init [Act.enter, Act.gnext 0, Act.wake [2] Mode.discard false, Act.gyield]).cur = none
    ∧ (run init [Act.enter, Act.gnext 0, Act.wake [2] Mode.discard false, Act.gyield]).ready = [2]
    ∧ (run init [Act.gnext 0, Act.pause, Act.fin, Act.gnext 0]).cur = none := by decide

/-- The pinned (unrepaired) `parallel`: the awaiting coroutine 0 was resumed in its new thread by a bare
`h.resume()`, i.e. outside coroutine mode; when it then detaches coroutine 1 and drops the suspend point, 1 runs
at once while 0 has neither suspended nor finished (replayed on the headers in corpus/c05_sched.txt; repaired by
`/repo` commit b372584, after which 0 keeps running and 1 waits in the ready queue). -/
theorem c05_asis_violation :
    (runAsIs init [Act.start 0 true, Act.parkPar, Act.wakePar 0, Act.job]).cur = some 0
    ∧ (runAsIs init [Act.start 0 true, Act.parkPar, Act.wakePar 0, Act.job]).active = false
    ∧ (runAsIs init [Act.start 0 true, Act.parkPar, Act.wakePar 0, Act.job,
                     Act.wake [1] Mode.discard false]).cur = some 1
    ∧ (runAsIs init [Act.start 0 true, Act.parkPar, Act.wakePar 0, Act.job,
                     Act.wake [1] Mode.discard false]).st 0 = St.stacked
    ∧ (run init [Act.start 0 true, Act.parkPar, Act.wakePar 0, Act.job]).active = true
    ∧ (run init [Act.start 0 true, Act.parkPar, Act.wakePar 0, Act.job,
                 Act.wake [1] Mode.discard false]).cur = some 0
    ∧ (run init [Act.start 0 true, Act.parkPar, Act.wakePar 0, Act.job,
                 Act.wake [1] Mode.discard false]).ready = [1] := by decide

/-- The pinned (unrepaired) `coro_queue::create_suspend_point` (before `/repo` commit 34c6158 "fix: create_suspend_point
returned the readied coroutines in reverse order"; replayed on the headers in corpus/c05_gather_order.txt): coroutine 0 makes
1, 2, 3 ready in this order under `create_suspend_point` (`made`), drops the returned suspend point and finishes — the ready
queue holds 3, 2, 1 and they are resumed 3, 2, 1, not in the order they were queued; the same calls without the wrapper, and
the repaired code with it, resume 1, 2, 3. -/
theorem c05_asis_create_reversed :
    (runGatherAsIs init [Act.start 0 true, Act.wake [1, 2, 3] Mode.discard true]).cur = some 0
    ∧ (runGatherAsIs init [Act.start 0 true, Act.wake [1, 2, 3] Mode.discard true]).made = [0, 1, 2, 3]
    ∧ (runGatherAsIs init [Act.start 0 true, Act.wake [1, 2, 3] Mode.discard true]).ready = [3, 2, 1]
    ∧ (runGatherAsIs init [Act.start 0 true, Act.wake [1, 2, 3] Mode.discard true, Act.fin, Act.fin, Act.fin, Act.fin]).runs
        = [0, 3, 2, 1]
    ∧ (runGatherAsIs init [Act.start 0 true, Act.wake [1, 2, 3] Mode.discard false, Act.fin, Act.fin, Act.fin, Act.fin]).runs
        = [0, 1, 2, 3]
    ∧ (run init [Act.start 0 true, Act.wake [1, 2, 3] Mode.discard true]).ready = [1, 2, 3]
    ∧ (run init [Act.start 0 true, Act.wake [1, 2, 3] Mode.discard true, Act.fin, Act.fin, Act.fin, Act.fin]).runs
        = [0, 1, 2, 3]
    ∧ (run init [Act.start 0 true, Act.wake [1, 2, 3] Mode.discard true, Act.fin, Act.fin, Act.fin, Act.fin]).made
        = [0, 1, 2, 3] := by decide

/-! ## Non-vacuity: the hypotheses are met by real runs

Program: ordinary code starts coroutine 0; 0 detaches 1 and 2 (suspend points dropped), pauses; 1 pauses;
2, 0, 1 finish. -/

def demo : List Act :=
  [Act.start 0 true, Act.wake [1, 2] Mode.discard false, Act.pause, Act.pause, Act.fin, Act.fin, Act.fin]

example : Reachable (run init demo) := ⟨_, rfl⟩

/-- after `0` dropped the suspend point it is still running and 1, 2 are queued in order -/
example : (run init (demo.take 2)).cur = some 0 ∧ (run init (demo.take 2)).ready = [1, 2]
    ∧ (run init (demo.take 2)).active = true := by decide

/-- `pause` of 0 with `[1, 2]` queued: 1 and 2 are taken from the queue before 0 continues; at the end the
queue is drained, the thread left coroutine mode and everybody was resumed as often as made ready -/
example : (run init (demo.take 5)).cur = some 0 ∧ (run init (demo.take 5)).deq = [1, 2, 0]
    ∧ (run init demo).cur = none ∧ (run init demo).blocks = [] ∧ (run init demo).active = false
    ∧ (run init demo).deq = [1, 2, 0, 1] ∧ (run init demo).enq = [1, 2, 0, 1]
    ∧ (run init demo).made = [0, 1, 2, 0, 1] ∧ (run init demo).runs = [0, 1, 2, 0, 1] := by decide

/-- awaited suspend point: the last handle runs first, the first one and the awaiting coroutine are queued;
nested `start()` inside a coroutine and an `install_queue_and_call` block of ordinary code -/
example :
    (run init [Act.start 0 true, Act.wake [1, 2] Mode.await false]).cur = some 2
    ∧ (run init [Act.start 0 true, Act.wake [1, 2] Mode.await false]).ready = [1, 0]
    ∧ (run init [Act.start 0 true, Act.start 1 true, Act.park]).cur = some 0
    ∧ (run init [Act.start 0 true, Act.start 1 true, Act.park]).st 1 = St.parked
    ∧ (run init [Act.enter, Act.wake [3] Mode.discard false]).cur = none
    ∧ (run init [Act.enter, Act.wake [3] Mode.discard false]).ready = [3]
    ∧ (run init [Act.enter, Act.wake [3] Mode.discard false, Act.leave]).cur = some 3
    ∧ (run init [Act.enter, Act.wake [3] Mode.discard false, Act.leave, Act.fin]).active = false := by decide

/-- nested start: 0 queues 2, starts 1; 1 parks; 0 continues with 2 still queued -/
example :
    (run init [Act.start 0 true, Act.wake [2] Mode.discard false, Act.start 1 true]).calls = [0]
    ∧ (run init [Act.start 0 true, Act.wake [2] Mode.discard false, Act.start 1 true, Act.park]).cur = some 0
    ∧ (run init [Act.start 0 true, Act.wake [2] Mode.discard false, Act.start 1 true, Act.park]).ready = [2]
    ∧ (run init [Act.enter, Act.wake [0] Mode.discard false, Act.start 1 true]).base = some Base.callMain
    ∧ (run init [Act.enter, Act.wake [0] Mode.discard false, Act.start 1 true, Act.park]).ready = [0] := by decide

/-- the new steps are used by reachable states: pool hop and `hopCur` on the worker, `parallel_resume`, a
coroutine entered through `initial_awaiter` (`start _ false`) -/
example :
    (run init [Act.start 0 true, Act.hop]).jobs = [([0], true)]
    ∧ (run init [Act.start 0 true, Act.hop, Act.job]).cur = some 0
    ∧ (run init [Act.start 0 true, Act.hop, Act.job]).worker = true
    ∧ (run init [Act.start 0 true, Act.hop, Act.job, Act.hopCur]).jobs = [([0], true)]
    ∧ (run init [Act.start 0 true, Act.hop, Act.job, Act.hopCur]).cur = none
    ∧ (run init [Act.start 0 true, Act.hopCur]).cur = some 0
    ∧ (run init [Act.wake [1, 2] Mode.par false]).jobs = [([1, 2], false)]
    ∧ (run init [Act.wake [1, 2] Mode.par false, Act.job]).cur = some 1
    ∧ (run init [Act.wake [1, 2] Mode.par false, Act.job]).base = some (Base.loop [2] false)
    ∧ (run init [Act.start 0 false, Act.start 1 false, Act.fin]).cur = some 0
    ∧ (run init [Act.start 0 false, Act.start 1 false]).starter 1 = none := by decide

end Cocls.Exec
