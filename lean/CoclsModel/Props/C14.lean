import CoclsModel.AggregatorProofs
import CoclsModel.AggregatorValuesProofs
/-!
# C14 — generator aggregator: union of all sources, per-source order preserved

Model: `CoclsModel/Aggregator.lean` (small-step model of `generator_aggregator`: one `Op.agg` step per queue lock
region of the aggregator coroutine / of the controller destructor, `Op.resolve k` = the asynchronous operation source
`k` awaits completes on any thread, `Op.next a` = an access of the consumer in any style, `Op.destroy coro` = the
consumer drops the aggregate, from plain code or from inside a running coroutine).
Every theorem quantifies over *all* configurations (`Cfg`: any number of sources, arbitrary scripts — finite or
infinite, synchronous or asynchronous, throwing or not) and *all* operation lists, i.e. all interleavings of
aggregator steps, source completions and consumer operations.

Second part (namespace `Cocls.AggV`, model `CoclsModel/AggregatorValues.lean`): the same machine with the VALUES as
objects that live in the sources (the aggregate only holds a pointer to what a source yielded) and with the consumer's
access style (`Style`: `next()/value()`, iterator, `co_await next()`, and the future of `gen()` read through
`co_await val.has_value()`, `if (val)`, `!val`, `*val`, `co_await val`, `sync()+value()`): the theorems say that no
access style takes a value away from its source, that the consumer reads exactly the delivered values, and that the end
and a source's exception reach the consumer in every style.
-/
namespace Cocls.Agg

/-- every reachable state -/
def Reachable (c : Cfg) (s : State) : Prop := ∃ ops, s = run c init ops

theorem reachable_inv {c : Cfg} {s : State} (h : Reachable c s) : Inv c s := by
  obtain ⟨ops, rfl⟩ := h
  exact inv_run c init ops (inv_init c)

theorem reachable_step {c : Cfg} {s : State} (h : Reachable c s) (op : Op) : Reachable c (step c s op) := by
  obtain ⟨ops, rfl⟩ := h
  exact ⟨ops ++ [op], by simp [run, List.foldl_append]⟩

/-- **Per-source order, exactly once (any time).**  What the consumer has received from source `k`, followed by the
at most one value of `k` waiting in the completion queue, is exactly the sequence of values source `k` has yielded so
far, in the source's order: nothing lost, nothing duplicated, nothing reordered — whatever the other sources do
(end, throw, stay in flight) and however completions interleave. -/
theorem c14_per_source_order {c : Cfg} {s : State} (h : Reachable c s) (k : Nat) :
    consumed s k ++ held s k = yieldsUpTo (c.script k) (s.pc k) ∧ (held s k).length ≤ 1 := by
  refine ⟨(reachable_inv h).vals.eqn k, ?_⟩
  unfold held
  split <;> simp

/-- **Union.**  When the aggregate has ended, every source has run to completion and the consumer has received, for
every source, exactly the values that source yielded, in that source's order. -/
theorem c14_union {c : Cfg} {s : State} (h : Reachable c s) (he : ended s) (k : Nat) (hk : k < c.n) :
    consumed s k = yieldsUpTo (c.script k) (s.pc k) ∧ srcEnded c s k := by
  have hi := reachable_inv h
  have hf := ended_all_fin hi he k hk
  have he1 := hi.vals.eqn k
  have hh : held s k = [] := by unfold held; simp [hf]
  rw [hh, List.append_nil] at he1
  refine ⟨he1, ?_⟩
  have hr := hi.vals.fin_res k hf
  cases hres : s.res k with
  | none => simp [hres, isEnd] at hr
  | val v => simp [hres, isEnd] at hr
  | done => exact Or.inl (hi.vals.res_done k hres)
  | exc e => exact Or.inr ⟨(hi.vals.res_exc k e hres).1, e, (hi.vals.res_exc k e hres).2⟩

/-- **Union as multisets.**  When the aggregate has ended, the multiset of delivered (source, value) pairs is the
disjoint union of the sources' yields: each pair occurs as often as the source yielded that value, and every
delivered pair names one of the `n` sources. -/
theorem c14_union_multiset {c : Cfg} {s : State} (h : Reachable c s) (he : ended s) :
    (∀ k v, k < c.n → s.out.count (k, v) = (yieldsUpTo (c.script k) (s.pc k)).count v)
    ∧ (∀ p, p ∈ s.out → p.1 < c.n) := by
  refine ⟨?_, (reachable_inv h).misc.out_src⟩
  intro k v hk
  rw [count_out_consumed, ← (c14_union h he k hk).1]
  rfl

/-- **Ends only when all sources have ended.** -/
theorem c14_ends_only_when_all_ended {c : Cfg} {s : State} (h : Reachable c s) (he : ended s) (k : Nat)
    (hk : k < c.n) : s.st k = SSt.fin ∧ srcEnded c s k :=
  ⟨ended_all_fin (reachable_inv h) he k hk, (c14_union h he k hk).2⟩

/-- **Ends when all sources have ended (1).**  The aggregator parks in `co_await queue.pop()` only while some source
is still in flight, i.e. it never sleeps once every source has ended or is waiting in the queue. -/
theorem c14_parks_only_for_inflight {c : Cfg} {s : State} (h : Reachable c s) (hp : s.ag = Ag.parkedPop) :
    ∃ k, k < c.n ∧ s.st k = SSt.inflight := by
  have hi := (reachable_inv h).ctl
  obtain ⟨hq, hc⟩ := hi.park_pop hp
  have hs : s.started = true := by apply started_of_ag hi <;> simp [hp, destructing]
  rw [hi.cntc hs] at hc
  obtain ⟨k, hk, ha⟩ := nWith_exists active s.st c.n hc
  refine ⟨k, hk, ?_⟩
  cases hst : s.st k with
  | inflight => rfl
  | fresh =>
    rcases hi.fresh_only k hk hst with h | h
    · simp [hs] at h
    · simp [hp, isCharging] at h
  | queued => have := hi.qcount k; simp [hq, hst] at this
  | cur => have := hi.cur_only k hst; simp [hp, curAllowed] at this
  | fin => simp [hst, active] at ha
  | dropped => simp [hst, active] at ha

/-- **Ends when all sources have ended (2).**  At the head of its loop, if every source has been found ended, the
aggregator leaves the loop (returns, or rethrows the stored exception) instead of popping again. -/
theorem c14_ends_when_all_ended {c : Cfg} {s : State} (h : Reachable c s) (hl : s.ag = Ag.loop)
    (hall : ∀ k, k < c.n → s.st k = SSt.fin) : ended (aggStep c s) := by
  have hi := (reachable_inv h).ctl
  have hs : s.started = true := by apply started_of_ag hi <;> simp [hl, destructing]
  have hc : s.count = 0 := by
    rw [hi.cntc hs]
    exact nWith_none active s.st c.n (fun k hk => by simp [hall k hk, active])
  unfold aggStep finish ended
  simp only [hl, hc, if_true]
  cases s.exp <;> simp

/-- **Ends when and only when all sources have ended.**  At the head of its loop the aggregator leaves the loop
(returns, or rethrows the stored exception) if and only if every source has been found ended; otherwise it pops (or
parks for) the next ready source. -/
theorem c14_ends_iff_all_ended {c : Cfg} {s : State} (h : Reachable c s) (hl : s.ag = Ag.loop) :
    ended (aggStep c s) ↔ ∀ k, k < c.n → s.st k = SSt.fin := by
  constructor
  · intro he k hk
    have hi := (reachable_inv h).ctl
    have hs : s.started = true := by apply started_of_ag hi <;> simp [hl, destructing]
    have hne : ¬ ended s := by unfold ended; simp [hl]
    by_cases hc : s.count = 0
    · have hz := nWith_zero active s.st c.n (by rw [← hi.cntc hs]; exact hc) k hk
      cases hst : s.st k <;> simp [hst, active] at hz
      · rfl
      · have := hi.dropped_only k hst
        simp [hl, destructing] at this
    · exfalso
      unfold aggStep at he
      simp only [hl, hc, if_false] at he
      split at he
      · unfold ended at he; simp at he
      · exact popHandle_not_ended s hne he
  · exact c14_ends_when_all_ended h hl

/-- **A source's exception removes only that source.**  It is reported at the end: if the aggregate ends without an
exception then no source threw; if it ends with exception `e` then `e` was thrown by one of the sources (the one
examined last) — and in both cases all values of all sources (also of the throwing ones, up to the throw) have been
delivered (`c14_union` holds for `failed` as well). -/
theorem c14_exception_keeps_others {c : Cfg} {s : State} (h : Reachable c s) :
    (s.ag = Ag.done → ∀ k, k < c.n → s.res k = SRes.done) ∧
    (∀ e, s.ag = Ag.failed e →
        (∃ k, k < c.n ∧ s.res k = SRes.exc e ∧ s.thrown.getLast? = some (k, e)) ∧
        (∀ k, k < c.n → consumed s k = yieldsUpTo (c.script k) (s.pc k))) := by
  have hi := reachable_inv h
  constructor
  · intro hd k hk
    have hf := ended_all_fin hi (Or.inl hd) k hk
    have hr := hi.vals.fin_res k hf
    cases hres : s.res k with
    | none => simp [hres, isEnd] at hr
    | val v => simp [hres, isEnd] at hr
    | done => rfl
    | exc e =>
      have hm := hi.excs.thrown_all k e hf hres
      have hx := hi.excs.done_exp hd
      rw [hi.excs.exp_last] at hx
      cases hl : s.thrown.getLast? with
      | some x => simp [hl] at hx
      | none =>
        have : s.thrown = [] := List.getLast?_eq_none_iff.mp hl
        simp [this] at hm
  · intro e hf
    refine ⟨?_, fun k hk => (c14_union h (Or.inr ⟨e, hf⟩) k hk).1⟩
    have hx := hi.excs.failed_exp e hf
    rw [hi.excs.exp_last] at hx
    cases hl : s.thrown.getLast? with
    | none => simp [hl] at hx
    | some x =>
      obtain ⟨k, e'⟩ := x
      simp [hl] at hx
      subst hx
      have hm := hi.excs.thrown_mem k e' (List.mem_of_getLast? hl)
      refine ⟨k, ?_, hm.2, rfl⟩
      have := hi.ctl.oob k
      by_cases hk : k < c.n
      · exact hk
      · have := this (by omega); simp [hm.1] at this

/-- a source that threw is never resumed again and every exception caught is kept in catch order; the one reported
is the last caught -/
theorem c14_exception_stored_last {c : Cfg} {s : State} (h : Reachable c s) :
    s.exp = (s.thrown.getLast?).map (·.2) ∧
    (∀ k e, (k, e) ∈ s.thrown ↔ s.st k = SSt.fin ∧ s.res k = SRes.exc e) := by
  have hi := (reachable_inv h).excs
  exact ⟨hi.exp_last, fun k e => ⟨hi.thrown_mem k e, fun ⟨a, b⟩ => hi.thrown_all k e a b⟩⟩

/-- **Argument routing.**  Whenever no delivery is in progress, source `k` has received exactly: the argument of the
first access, then the argument of every access made right after a value of source `k` was returned
(`routed`: `calls[i+1]` goes to the source of `out[i]`). -/
theorem c14_arg_routing {c : Cfg} {s : State} (h : Reachable c s)
    (h1 : ∀ i a, s.ag ≠ Ag.charging i a) (h2 : ∀ j a, s.ag ≠ Ag.recharge j a) (k : Nat) (hk : k < c.n) :
    s.got k = routed s.calls s.out k :=
  (reachable_inv h).args.settled h1 h2 k hk

/-- decision logic of the routing: an access made while the aggregate is parked at `co_yield` with the value of
source `k` re-charges exactly source `k` with the access's argument, before anything else is popped -/
theorem c14_arg_goes_to_last_returned (c : Cfg) (s : State) (k a : Nat) (hy : s.ag = Ag.parkedYield k) :
    (stepNext c s a).ag = Ag.recharge k a ∧
    (aggStep c (stepNext c s a)).got k = s.got k ++ [a] ∧
    (∀ j, j ≠ k → (aggStep c (stepNext c s a)).got j = s.got j) ∧
    (aggStep c (stepNext c s a)).out = s.out := by
  have hn : stepNext c s a = { s with ag := Ag.recharge k a, calls := s.calls ++ [a], aggArg := some a } := by
    unfold stepNext; simp [hy]
  rw [hn]
  obtain ⟨g1, _, g3, _⟩ := srcRun_ghost c
    { s with ag := Ag.recharge k a, calls := s.calls ++ [a], aggArg := some a, got := upd s.got k (s.got k ++ [a]),
             cell := upd s.cell k (some a) } k
  refine ⟨rfl, ?_, ?_, ?_⟩ <;> simp only [aggStep, charge]
  · rw [g1]; simp
  · intro j hj; rw [g1]; simp [hj]
  · rw [g3]

/-- **The argument stays with its source for the whole step.**  A generator carries its argument by reference, and a
source may fetch it again at any time before its next `co_yield` — in particular after an asynchronous wait
(`Act.awaitRead`: `co_await …; co_yield nullptr`), when the aggregator has long gone on, has served other accesses and
has handed other arguments to other sources.  Every such fetch `(i, v)` logged for source `k` (made when `k` had
received `i` arguments) returned a live object (`v = some a`) holding exactly the `i`-th argument source `k` received —
never a destroyed object, never an argument routed to another source. -/
theorem c14_arg_stable {c : Cfg} {s : State} (h : Reachable c s) (k i : Nat) (v : Option Nat)
    (hm : (i, v) ∈ s.late k) : ∃ a, v = some a ∧ 0 < i ∧ (s.got k)[i - 1]? = some a :=
  (reachable_inv h).cells.late_ok k (i, v) hm

/-- … and by `c14_arg_routing` that is the argument of the access made right after the value of source `k` was
returned that the source is working on (or of the first access): late fetches obey the routing rule too. -/
theorem c14_arg_stable_routed {c : Cfg} {s : State} (h : Reachable c s)
    (h1 : ∀ i a, s.ag ≠ Ag.charging i a) (h2 : ∀ j a, s.ag ≠ Ag.recharge j a) (k : Nat) (hk : k < c.n)
    (i : Nat) (v : Option Nat) (hm : (i, v) ∈ s.late k) :
    0 < i ∧ v ≠ none ∧ v = (routed s.calls s.out k)[i - 1]? := by
  obtain ⟨a, rfl, hpos, hget⟩ := c14_arg_stable h k i v hm
  rw [c14_arg_routing h h1 h2 k hk] at hget
  exact ⟨hpos, by simp, hget.symm⟩

/-- the fetch really happens and is logged: when the wait of a source whose script asks for it (`rereads`) is over,
the source reads, before anything else, the argument it was charged with last -/
theorem c14_late_fetch_returns_last_charge {c : Cfg} {s : State} (h : Reachable c s) (k : Nat)
    (hk : s.st k = SSt.inflight) (hr : rereads c s k = true) :
    (step c s (Op.resolve k)).late k = s.late k ++ [((s.got k).length, (s.got k).getLast?)]
    ∧ (s.got k).getLast? ≠ none := by
  have hi := (reachable_inv h).cells
  have hne : s.got k ≠ [] := hi.charged k (by simp [hk])
  constructor
  · obtain ⟨_, a2, _, _⟩ := srcRun_args c (lateRead c s k) k
    simp only [step, stepResolve, hk, if_true]
    rw [a2]
    simp [lateRead, hr, hi.cell_last k]
  · intro hn
    exact hne (List.getLast?_eq_none_iff.mp hn)

/-- **AS-IS witness, /repo commit 2ec61ae** (`lateReadAsIs`: the sources were given a reference to the aggregator's
block-local copy of the argument).  Source 0 waits, then fetches its argument again; meanwhile the aggregator has left
the block that charged it: the source reads a DESTROYED object (`none`) instead of the 100 it was charged with. -/
def exCfgR : Cfg where
  n := 2
  script := fun k p =>
    match k, p with
    | 0, 0 => some Act.awaitRead
    | 0, 1 => some (Act.yield 10)
    | 1, _ => some (Act.yield 20)
    | _, _ => none

theorem c14_arg_asis_reads_destroyed_object :
    (runAsIs exCfgR init ([Op.next 100] ++ List.replicate 4 Op.agg ++ [Op.resolve 0])).late 0 = [(1, none)]
    ∧ (runAsIs exCfgR init ([Op.next 100] ++ List.replicate 4 Op.agg ++ [Op.resolve 0])).got 0 = [100] := by decide

/-- **AS-IS witness, /repo commit 2ec61ae, second form**: the next access (argument 101, routed to source 1 whose value
was returned last) has resumed the aggregator when source 0's wait completes on another thread: source 0, charged
with 100, reads 101 — an argument that belongs to another source. -/
theorem c14_arg_asis_reads_foreign_argument :
    (runAsIs exCfgR init ([Op.next 100] ++ List.replicate 4 Op.agg ++ [Op.next 101, Op.resolve 0])).late 0 = [(1, some 101)]
    ∧ (runAsIs exCfgR init ([Op.next 100] ++ List.replicate 4 Op.agg ++ [Op.next 101, Op.resolve 0])).got 0 = [100] := by
  decide

/-- the repaired code on the same two inputs: the source reads its own 100 -/
example : (run exCfgR init ([Op.next 100] ++ List.replicate 4 Op.agg ++ [Op.resolve 0])).late 0 = [(1, some 100)]
    ∧ (run exCfgR init ([Op.next 100] ++ List.replicate 4 Op.agg ++ [Op.next 101, Op.resolve 0])).late 0 = [(1, some 100)] := by
  decide

/-- **Destruction waits.**  In every reachable state no source frame has been destroyed while the source was in
flight (`badDestroy` records the sources that were in flight when the frames were destroyed). -/
theorem c14_destroy_waits_and_frees {c : Cfg} {s : State} (h : Reachable c s) : s.badDestroy = [] :=
  (reachable_inv h).ctl.bad

/-- **Destruction never aborts**, whatever the context the aggregate is dropped from (`Op.destroy true`: by a running
coroutine, i.e. with an active coroutine queue on the destroying thread). -/
theorem c14_destroy_never_aborts {c : Cfg} {s : State} (h : Reachable c s) : s.ag ≠ Ag.aborted :=
  (reachable_inv h).ctl.no_abort

/-- the controller destructor blocks only while a source is really in flight (it cannot block forever on its own) -/
theorem c14_drain_blocks_only_for_inflight {c : Cfg} {s : State} (h : Reachable c s) (hw : s.ag = Ag.drainWait) :
    ∃ k, k < c.n ∧ s.st k = SSt.inflight := by
  have hi := (reachable_inv h).ctl
  obtain ⟨hq, hc⟩ := hi.drain_wait hw
  have hs : s.started = true := by
    cases hs : s.started with
    | true => rfl
    | false => have := (hi.unstarted hs).2.1; omega
  rw [hi.cntc hs] at hc
  -- two active sources exist; at most one of them is the current one
  obtain ⟨j, hj, haj⟩ := nWith_exists active s.st c.n (by omega)
  have key : ∀ j, j < c.n → active (s.st j) = true → s.st j ≠ SSt.cur → s.st j = SSt.inflight := by
    intro j hj ha hncur
    cases hst : s.st j with
    | inflight => rfl
    | fresh =>
      rcases hi.fresh_only j hj hst with h | h
      · simp [hs] at h
      · simp [hw, isCharging] at h
    | queued => have := hi.qcount j; simp [hq, hst] at this
    | cur => exact absurd hst hncur
    | fin => simp [hst, active] at ha
    | dropped => simp [hst, active] at ha
  by_cases hcur : s.st j = SSt.cur
  · -- another active source must exist
    have h2 := nWith_upd active s.st j SSt.fin c.n
    rw [haj] at h2
    simp [hj, active] at h2
    obtain ⟨k, hk, hak⟩ := nWith_exists active (upd s.st j SSt.fin) c.n (by omega)
    have hkj : k ≠ j := by intro h; subst h; simp [active] at hak
    simp [hkj] at hak
    refine ⟨k, hk, key k hk hak ?_⟩
    intro hk2
    exact hkj (hi.cur_unique k j hk2 hcur)
  · exact ⟨j, hj, key j hj haj hcur⟩

/-- **Destruction waits in every context.**  With sources outstanding and nothing in the completion queue, the
controller destructor blocks — it neither aborts nor goes on to destroy frames — and some source is really in flight
then; this holds for a destruction from plain code and from a running coroutine alike (`s.dcoro` is not consulted). -/
theorem c14_destroy_blocks_in_any_context {c : Cfg} {s : State} (h : Reachable c s) (hd : s.ag = Ag.draining)
    (hc : 1 < s.count) (hq : s.q = []) :
    (aggStep c s).ag = Ag.drainWait ∧ (aggStep c s).badDestroy = [] ∧ ∃ k, k < c.n ∧ s.st k = SSt.inflight := by
  have hn : aggStep c s = { s with ag := Ag.drainWait } := by
    unfold aggStep; simp [hd, hc, hq]
  have hr : Reachable c (aggStep c s) := reachable_step h Op.agg
  refine ⟨by rw [hn], c14_destroy_waits_and_frees hr, ?_⟩
  obtain ⟨k, hk, hst⟩ := c14_drain_blocks_only_for_inflight hr (by rw [hn])
  rw [hn] at hst
  exact ⟨k, hk, hst⟩

/-- the blocked destructor is released by the completion of an in-flight source, in every context -/
theorem c14_destroy_released_by_completion (c : Cfg) (s : State) (k : Nat) (hw : s.ag = Ag.drainWait)
    (hk : s.st k = SSt.inflight)
    (hp : c.script k (s.pc k) ≠ some Act.await ∧ c.script k (s.pc k) ≠ some Act.awaitRead) :
    (step c s (Op.resolve k)).ag = Ag.draining ∧ (step c s (Op.resolve k)).q = s.q ++ [k] := by
  obtain ⟨l, hl⟩ := lateRead_eq c s k
  simp only [step, stepResolve, hk, if_true, hl]
  unfold srcRun push
  split <;> simp_all

/-- **AS-IS, /repo commit 2010fed** (`aggStepAsIs`: the drain used `_queue.pop().wait()`): in exactly the situation of
`c14_destroy_blocks_in_any_context`, when the aggregate was dropped by a running coroutine, the destructor ran into
the library's assertion instead of waiting. -/
theorem c14_destroy_asis_aborts (c : Cfg) (s : State) (hd : s.ag = Ag.draining) (hc : 1 < s.count) (hq : s.q = [])
    (hco : s.dcoro = true) : (aggStepAsIs c s).ag = Ag.aborted := by
  unfold aggStepAsIs; simp [hd, hc, hq, hco]

/-- when the controller destructor leaves its loop nothing is outstanding: no source is in flight or has a callback
in the queue, so the frames (callbacks, queue, sources) can be destroyed; the next step destroys them -/
theorem c14_drain_complete {c : Cfg} {s : State} (h : Reachable c s) (hd : s.ag = Ag.draining) (hc : s.count ≤ 1) :
    (∀ k, k < c.n → s.st k ≠ SSt.inflight ∧ s.st k ≠ SSt.queued) ∧ (aggStep c s).ag = Ag.destroyed := by
  have hi := (reachable_inv h).ctl
  constructor
  · intro k hk
    cases hs : s.started with
    | false => have := (hi.unstarted hs).1 k; simp [this]
    | true =>
      have hcc := hi.cntc hs
      cases hdc : s.dcur with
      | none =>
        have h0 := hi.drain_none hdc (Or.inl hd)
        have := nWith_zero active s.st c.n (by omega) k hk
        constructor <;> (intro hst; simp [hst, active] at this)
      | some j =>
        have hj := hi.drain_cur j hdc (Or.inl hd)
        have hjn : j < c.n := by
          by_cases hjn : j < c.n
          · exact hjn
          · have := hi.oob j (by omega); simp [hj] at this
        constructor <;>
          (intro hst
           have hkj : k ≠ j := by intro h; subst h; simp [hj] at hst
           have := nWith_two active s.st k j c.n hk hjn hkj (by simp [hst, active]) (by simp [hj, active])
           omega)
  · unfold aggStep
    have : ¬ 1 < s.count := by omega
    simp [hd, this]

/-- the destructor pops every source at most once: the number of pops equals the number of sources in state
`dropped` (their undelivered value, if any, is discarded with the frame) -/
theorem c14_drain_count {c : Cfg} {s : State} (h : Reachable c s) : s.drained = nWith isDropped s.st c.n :=
  (reachable_inv h).misc.drained_eq

/-! ## non-vacuity: concrete reachable states -/

/-- three sources: `0` yields 10, 11 and ends; `1` awaits, yields 20, throws 7; `2` yields 30 forever -/
def exCfg : Cfg where
  n := 3
  script := fun k p =>
    match k, p with
    | 0, 0 => some (Act.yield 10)
    | 0, 1 => some (Act.yield 11)
    | 1, 0 => some Act.await
    | 1, 1 => some (Act.yield 20)
    | 1, 2 => some (Act.throw 7)
    | 2, _ => some (Act.yield 30)
    | _, _ => none

/-- two finite sources, one of them throwing -/
def exCfg2 : Cfg where
  n := 2
  script := fun k p =>
    match k, p with
    | 0, 0 => some (Act.yield 10)
    | 1, 0 => some Act.await
    | 1, 1 => some (Act.throw 7)
    | _, _ => none

def aggs (n : Nat) : List Op := List.replicate n Op.agg

/-- access, start-up (source 1 goes in flight), values 10, 30 delivered, source 1 completes meanwhile -/
example : (run exCfg init ([Op.next 100] ++ aggs 5 ++ [Op.next 101] ++ aggs 2 ++ [Op.resolve 1] ++ [Op.next 102] ++ aggs 2)).out
    = [(0, 10), (2, 30), (0, 11)] := by decide
example : (run exCfg init ([Op.next 100] ++ aggs 5 ++ [Op.next 101] ++ aggs 2 ++ [Op.resolve 1] ++ [Op.next 102] ++ aggs 2)).q
    = [1, 2] := by decide
/-- arguments: 100 to everybody, 101 to source 0 (returned first), 102 to source 2 -/
example : (run exCfg init ([Op.next 100] ++ aggs 5 ++ [Op.next 101] ++ aggs 2 ++ [Op.resolve 1] ++ [Op.next 102] ++ aggs 2)).got 2
    = [100, 102] := by decide
/-- early destruction with source 1 in flight: the destructor blocks, is released by the completion, pops 2 -/
example : (run exCfg init ([Op.next 100] ++ aggs 5 ++ [Op.destroy false] ++ aggs 2)).ag = Ag.drainWait := by decide
example : (run exCfg init ([Op.next 100] ++ aggs 5 ++ [Op.destroy false] ++ aggs 2 ++ [Op.resolve 1] ++ aggs 2)).ag = Ag.destroyed
    ∧ (run exCfg init ([Op.next 100] ++ aggs 5 ++ [Op.destroy false] ++ aggs 2 ++ [Op.resolve 1] ++ aggs 2)).drained = 2 := by decide
/-- the same from inside a running coroutine: blocks, is released, frees everything -/
example : (run exCfg init ([Op.next 100] ++ aggs 5 ++ [Op.destroy true] ++ aggs 2)).ag = Ag.drainWait
    ∧ (run exCfg init ([Op.next 100] ++ aggs 5 ++ [Op.destroy true] ++ aggs 2 ++ [Op.resolve 1] ++ aggs 2)).ag = Ag.destroyed
    ∧ (run exCfg init ([Op.next 100] ++ aggs 5 ++ [Op.destroy true] ++ aggs 2 ++ [Op.resolve 1] ++ aggs 2)).badDestroy = [] := by
  decide
/-- **AS-IS witness, /repo commit 2010fed**: the aggregate (source 1 in flight) is dropped by a running coroutine; the
code as it was aborts in `wait()`'s assertion with source 1 still in flight instead of waiting for it. -/
theorem c14_destroy_asis_aborts_in_coroutine :
    (runAsIs exCfg init ([Op.next 100] ++ aggs 5 ++ [Op.destroy true] ++ aggs 2)).ag = Ag.aborted
    ∧ (runAsIs exCfg init ([Op.next 100] ++ aggs 5 ++ [Op.destroy true] ++ aggs 2)).st 1 = SSt.inflight
    ∧ (runAsIs exCfg init ([Op.next 100] ++ aggs 5 ++ [Op.destroy false] ++ aggs 2)).ag = Ag.drainWait := by decide
/-- the exception of source 1 is reported after source 0's value was delivered -/
example : (run exCfg2 init ([Op.next 0] ++ aggs 4 ++ [Op.resolve 1] ++ [Op.next 0] ++ aggs 4)).ag = Ag.failed 7
    ∧ (run exCfg2 init ([Op.next 0] ++ aggs 4 ++ [Op.resolve 1] ++ [Op.next 0] ++ aggs 4)).out = [(0, 10)] := by decide
/-- parked waiting for the in-flight source -/
example : (run exCfg2 init ([Op.next 0] ++ aggs 4 ++ [Op.next 0] ++ aggs 3)).ag = Ag.parkedPop := by decide

end Cocls.Agg

/-! # Values as objects of the sources, and the consumer's access styles -/
namespace Cocls.AggV
open Cocls.Agg (Act SRes SSt Ag)

/-- every reachable state of the value / result layer, for every configuration (any number of sources, any scripts,
any choice of yields that are lvalues the source keeps) and every operation list (every access in any style) -/
def Reachable (c : Cfg) (s : State) : Prop := ∃ ops, s = run c init ops

theorem reachable_vinv {c : Cfg} {s : State} (h : Reachable c s) : VInv c s ∧ Agg.Inv c.base s.base := by
  obtain ⟨ops, rfl⟩ := h
  exact vinv_run c init ops (vinv_init c) (Agg.inv_init c.base)

/-- **Bridge.**  The aggregator underneath is a reachable state of the aggregator model, so every theorem of the first
part (`c14_per_source_order`, `c14_union`, `c14_ends_iff_all_ended`, `c14_exception_keeps_others`, `c14_arg_routing`,
`c14_destroy_waits_and_frees`, …) holds for `s.base`, whatever the access styles. -/
theorem c14_values_layer_is_the_aggregator {c : Cfg} {s : State} (h : Reachable c s) : Agg.Reachable c.base s.base := by
  obtain ⟨ops, rfl⟩ := h
  exact ⟨ops.map erase, base_run c init ops⟩

/-- **A delivered value stays with its source.**  While source `k` is parked at `co_yield x` (its value waiting in the
queue, held by the consumer, or already passed on), the object `x` — which the aggregate's `_ret` points at — still holds
the value the source put there: no access style (in particular not the future styles, whose `unblock_future()` constructs
the future's value from `*_ret`) moves it out or modifies it. -/
theorem c14_yielded_object_intact {c : Cfg} {s : State} (h : Reachable c s) (k v : Nat)
    (hr : s.base.res k = SRes.val v) : s.slot k = some v :=
  (reachable_vinv h).1.slot_ok k v hr

/-- **A source finds the lvalue it yielded unchanged.**  A source that yields an lvalue it keeps using (a running
accumulator, an element of a script stored by its owner: `Cfg.lval`) and looks at it again when it is resumed finds,
every time, exactly the value it had yielded (`kept k` logs (yielded, found)) — so what the source yields next, which may
be computed from it, is what it would yield when read alone. -/
theorem c14_source_finds_its_lvalue {c : Cfg} {s : State} (h : Reachable c s) (k : Nat) (p : Nat × Option Nat)
    (hm : p ∈ s.kept k) : p.2 = some p.1 :=
  (reachable_vinv h).1.kept_ok k p hm

/-- … and the look really happens and is logged: resuming a source that is back from the `co_yield` of an lvalue appends
what it finds there. -/
theorem c14_lvalue_is_looked_at (c : Cfg) (s : State) (k v : Nat) (hy : yieldedLval c s.base k = some v) :
    (reread c s k).kept k = s.kept k ++ [(v, s.slot k)] := by
  simp [reread, hy]

/-- **The consumer reads the sources' values.**  The values the consumer actually learned from its accesses — through a
reference into the source (`value()`, `*it`) or through the future's own copy — are, in order, exactly the values of
`base.out`, i.e. (by `c14_per_source_order` / `c14_union` for `base`) every source value exactly once in the source's
order; never a moved-from object (`some`). -/
theorem c14_consumer_reads_delivered_values {c : Cfg} {s : State} (h : Reachable c s) :
    s.obs.filterMap repVal = s.base.out.map (fun p => some p.2) :=
  (reachable_vinv h).1.obs_vals

/-- **A source's exception is reported in every access style.**  When the aggregate has failed with `e` (all sources
exhausted, `c14_exception_keeps_others`), the last thing the consumer learned — in whatever style it made that access —
is the exception `e`: not "no more values". -/
theorem c14_exception_reported_in_every_style {c : Cfg} {s : State} (h : Reachable c s) (e : Nat)
    (hf : s.base.ag = Ag.failed e) : ∃ st, s.obs.getLast? = some (st, Rep.exc e) :=
  (reachable_vinv h).1.obs_failed e hf

/-- the normal end is reported as the end, in every style -/
theorem c14_end_reported_in_every_style {c : Cfg} {s : State} (h : Reachable c s)
    (hd : s.base.ag = Ag.done) : ∃ st, s.obs.getLast? = some (st, Rep.ended) :=
  (reachable_vinv h).1.obs_done hd

/-- decision logic behind the three theorems above, style by style: whatever documented way the consumer uses to ask for
the result, a parked value reads as that value (the object the source yielded, or the future's copy of it), the end as
the end, and a stored exception as that exception -/
theorem c14_report_by_style (st : Style) (slot : Nat → Option Nat) :
    (∀ k, report st (PSt.yielded k) slot = Rep.val (slot k)) ∧ report st PSt.finished slot = Rep.ended ∧
    (∀ e, report st (PSt.threw e) slot = Rep.exc e) :=
  ⟨fun k => report_yielded st k slot, report_finished st slot, fun e => report_threw st e slot⟩

/-- the report is made in the style of the access that is completing: an access in style `st` is completed by a report in
style `st` computed from the aggregate's promise at that moment -/
theorem c14_access_completes_in_its_style (c : Cfg) (s : State) (a : Nat) (st : Style) (hw : Agg.waiting s.base = false) :
    (step c s (Op.next a st)).acc = st ∧
    ∀ s' op, s'.acc = st → Agg.waiting s'.base = true → Agg.waiting (Agg.step c.base s'.base (erase op)) = false →
      (step c s' op).obs = s'.obs ++ [(st, report st (promiseOf (step c s' op).base) (step c s' op).slot)] := by
  refine ⟨step_next_style c s a st hw, ?_⟩
  intro s' op hacc h1 h2
  rw [← hacc]
  exact step_completes_in_style c s' op h1 h2

/-! ## non-vacuity and necessity -/

/-- source 0 keeps an accumulator: yields it holding 10, then 11; source 1 yields 20 (a temporary), then throws 7 -/
def exCfgV : Cfg where
  base := { n := 2, script := fun k p =>
    match k, p with
    | 0, 0 => some (Act.yield 10)
    | 0, 1 => some (Act.yield 11)
    | 1, 0 => some (Act.yield 20)
    | 1, 1 => some (Act.throw 7)
    | _, _ => none }
  lval := fun k _ => k == 0

def vaggs (n : Nat) : List Op := List.replicate n Op.agg

/-- the whole run in the documented loop `val = gen(); while (co_await val.has_value()) { use(*val); val.result_of(gen); }` -/
def exOps (st : Style) : List Op :=
  [Op.next 0 st] ++ vaggs 5 ++ [Op.next 0 st] ++ vaggs 3 ++ [Op.next 0 st] ++ vaggs 3 ++ [Op.next 0 st] ++ vaggs 6

/-- read through the future: three values, then the exception of source 1; source 0 found its accumulator intact twice -/
example : (run exCfgV init (exOps Style.futHas)).obs
      = [(Style.futHas, Rep.val (some 10)), (Style.futHas, Rep.val (some 20)), (Style.futHas, Rep.val (some 11)),
         (Style.futHas, Rep.exc 7)]
    ∧ (run exCfgV init (exOps Style.futHas)).kept 0 = [(10, some 10), (11, some 11)]
    ∧ (run exCfgV init (exOps Style.futHas)).base.ag = Ag.failed 7 := by decide

/-- the same in the blocking reference style -/
example : (run exCfgV init (exOps Style.next)).obs.map (·.2)
      = [Rep.val (some 10), Rep.val (some 20), Rep.val (some 11), Rep.exc 7] := by decide

/-- **Necessity (1).**  If `unblock_future()` resolved the future with `std::move(*_ret)` (`deliverMoving`), the future
styles would take the value out of the source's accumulator: source 0 finds a moved-from object both times
(`c14_source_finds_its_lvalue` fails), although every value the consumer reads is still right. -/
theorem c14_moving_future_guts_the_source :
    (runG deliverMoving exCfgV init (exOps Style.futHas)).kept 0 = [(10, none), (11, none)]
    ∧ (runG deliverMoving exCfgV init (exOps Style.futHas)).obs.map (·.2)
        = [Rep.val (some 10), Rep.val (some 20), Rep.val (some 11), Rep.exc 7]
    ∧ (runG deliverMoving exCfgV init (exOps Style.next)).kept 0 = [(10, some 10), (11, some 11)] := by decide

/-- **Necessity (2).**  If `co_await val.has_value()` answered "holds a value" (`deliverStrict`: false for an exception),
the consumer of the documented loop would take the failed aggregate for a finished one: the exception of source 1 is
lost (`c14_exception_reported_in_every_style` fails), in that style only. -/
theorem c14_strict_has_value_loses_the_exception :
    (runG deliverStrict exCfgV init (exOps Style.futHas)).obs.getLast? = some (Style.futHas, Rep.ended)
    ∧ (runG deliverStrict exCfgV init (exOps Style.futHas)).base.ag = Ag.failed 7
    ∧ (runG deliverStrict exCfgV init (exOps Style.futBool)).obs.getLast? = some (Style.futBool, Rep.exc 7) := by decide

end Cocls.AggV

