import CoclsModel.Storage
import CoclsModel.StorageMt
namespace Cocls.Storage
theorem c19_placeholder : (init { pol := Policy.default }).ok = true := rfl
end Cocls.Storage
