import CoclsModel.StorageProofs
import CoclsModel.StorageProofsB
import CoclsModel.StorageMtProofs
import CoclsModel.StorageSelProofs
/-!
# C19 — coroutine storage policies give every frame exclusive, correctly freed memory

Models: `CoclsModel/Storage.lean` (one machine, the policy is a parameter: `default_storage`, `reusable_storage`,
`reusable_storage_mtsafe`, `stack_storage`, `placement_alloc`, `reusable_buffer_storage`, each optionally wrapped in
`promise_extra_storage<T, ·>` — `Cfg.extra = sizeof(T)`) and `CoclsModel/StorageMt.lean` (the thread-safe variant under
every interleaving of any number of threads, one step per hooked operation).

Every theorem quantifies over *all* configurations and *all* operation lists (`Reachable c s` = some list of frame
creations / completions / policy operations leads from the freshly constructed storage to `s`) resp. *all*
schedules.  `s.ok = true` is the explicit totalisation: the caller respected the documented contract of the
single-block policies (they have no busy flag; see the examples at the end for what happens otherwise).
`CfgOK` only says `sizeof(Item) ≥ 1` for `reusable_buffer_storage`.
-/
namespace Cocls.Storage

/-- **Exclusive memory.** For every policy (with or without the extra-object wrapper), after every sequence of
operations that respects the documented contract, no two live frames share a block … -/
theorem c19_exclusive {c : Cfg} (hc : CfgOK c) {s : State} (h : Reachable c s) (hok : s.ok = true) : Exclusive s :=
  (reachable_inv hc h hok).mem.excl

/-- … and **at least as large as requested**: every live frame sits in memory that exists for its whole lifetime (a
live heap block / the caller's buffer) and is large enough for the frame, the extra object and the policy's trailer
(`need = sz + sizeof(T) + trailer`). -/
theorem c19_size {c : Cfg} (hc : CfgOK c) {s : State} (h : Reachable c s) (hok : s.ok = true) :
    ∀ f ∈ s.frames, Fits s f :=
  (reachable_inv hc h hok).mem.fits

/-- the three byte ranges inside a frame's heap block do not overlap and lie inside the block: frame `[0, sz)`,
extra object `[sz, sz + extra)`, trailer `[sz + extra, sz + extra + trailer)` -/
theorem c19_layout {c : Cfg} (hc : CfgOK c) {s : State} (h : Reachable c s) (hok : s.ok = true)
    (f : Frame) (hf : f ∈ s.frames) (b : Nat) (hb : f.blk = Blk.heap b) :
    ∃ n, (b, n) ∈ s.heap.live ∧ f.sz + c.extra + trailer c.pol ≤ n := by
  have := c19_size hc h hok f hf
  simp only [Fits, hb, need, reachable_cfg h] at this
  exact this

/-- **Released exactly once.** No heap block is ever deleted twice, only blocks that were obtained from
`operator new` are deleted, and a deleted block is not live. -/
theorem c19_released_at_most_once {c : Cfg} (hc : CfgOK c) {s : State} (h : Reachable c s) (hok : s.ok = true) (b : Nat) :
    s.heap.dels.count b ≤ 1 ∧ (b ∈ s.heap.dels → b < s.heap.next ∧ b ∉ s.heap.ids) := by
  have h1 := (reachable_inv hc h hok).mem.once b
  constructor
  · split at h1 <;> omega
  · intro hm
    have h2 : 0 < s.heap.dels.count b := List.count_pos_iff.mpr hm
    constructor
    · split at h1 <;> omega
    · intro hi
      have h3 : 0 < s.heap.ids.count b := List.count_pos_iff.mpr hi
      split at h1 <;> omega

/-- **No leak.** Every live heap block is either the storage's own block, the block of the other `reusable_storage`
object (source / target of moves), or the private block of exactly one live frame (a heap fallback / a
`default_storage` frame); nothing else is live, and these never coincide (each count is at most 1). -/
theorem c19_no_leak {c : Cfg} (hc : CfgOK c) {s : State} (h : Reachable c s) (hok : s.ok = true) (b : Nat) :
    s.heap.ids.count b = s.ptr.toList.count b + s.optr.toList.count b + (privBlocks s.frames).count b :=
  (reachable_inv hc h hok).mem.noleak b

/-- **Any heap fallback is released exactly once**: once all frames are gone and the storage object is destroyed,
the heap is empty and every block that was ever allocated has been deleted exactly once. -/
theorem c19_fallback_freed_once {c : Cfg} (hc : CfgOK c) {s : State} (h : Reachable c s) (hok : s.ok = true)
    (hq : s.frames = []) :
    (step s Op.destroy).1.heap.live = [] ∧
    ∀ b, (step s Op.destroy).1.heap.dels.count b = if b < (step s Op.destroy).1.heap.next then 1 else 0 := by
  have hr : Reachable c (step s Op.destroy).1 := by
    obtain ⟨ops, rfl⟩ := h
    exact ⟨ops ++ [Op.destroy], by simp [run, List.foldl_append]⟩
  have hok' : (step s Op.destroy).1.ok = true := by
    show (s.ok && s.frames.isEmpty) = true
    simp [hok, hq]
  have hi := reachable_inv hc hr hok'
  have hids : (step s Op.destroy).1.heap.ids = [] := by
    apply List.eq_nil_iff_forall_not_mem.mpr
    intro b hb
    have h1 := hi.mem.noleak b
    have h2 : 0 < (step s Op.destroy).1.heap.ids.count b := List.count_pos_iff.mpr hb
    have h3 : (step s Op.destroy).1.ptr = none := rfl
    have h4 : (step s Op.destroy).1.frames = [] := hq
    have h5 : (step s Op.destroy).1.optr = none := rfl
    rw [h3, h4, h5] at h1
    simp at h1
    omega
  constructor
  · simpa [Heap.ids] using hids
  · intro b
    have h1 := hi.mem.once b
    rw [hids] at h1
    simpa using h1

/-- decision logic of `dealloc`: releasing a frame deletes exactly its own block iff the trailer / flag byte marks it
private, and makes no heap call otherwise -/
theorem c19_free_path (s : State) (f : Frame) (hfind : s.frames.find? (fun g => g.id == f.id) = some f) :
    (f.priv = true → ∀ b, f.blk = Blk.heap b → (stepFree s f.id).1.heap = s.heap.del b) ∧
    (f.priv = false → (stepFree s f.id).1.heap = s.heap) := by
  unfold stepFree release
  simp only [hfind]
  constructor
  · intro hp b hb; simp [hp, hb]
  · intro hp; simp only [hp, Bool.false_eq_true, if_false]; split <;> rfl

/-- **No heap memory after warm-up** (`reusable_storage`, `reusable_storage_mtsafe` with its block free,
`reusable_buffer_storage`): once a frame of `n` bytes was served from the storage's own block, *every* later
request of at most `n` bytes — after any further history that does not destroy the storage or switch to the other
storage object or contain a request whose `operator new` fails (moves of the storage and throwing factories are
allowed: the capacity moves with the block / is untouched) — is served without any heap call. -/
theorem c19_warm_no_alloc {c : Cfg} (hc : CfgOK c) (hr : Reusing c.pol) (ops1 ops2 : List Op) (k k' n m : Nat)
    (hm : m ≤ n) (hnd : Op.destroy ∉ ops2 ∧ Op.swapobj ∉ ops2 ∧ ∀ k sz, Op.allocFail k sz ∉ ops2)
    (hb1 : c.pol = Policy.mtsafe → (run (init c) ops1).busy = false)
    (hok : (run (init c) (ops1 ++ Op.alloc k n :: ops2)).ok = true)
    (hb2 : c.pol = Policy.mtsafe → (run (init c) (ops1 ++ Op.alloc k n :: ops2)).busy = false) :
    (step (run (init c) (ops1 ++ Op.alloc k n :: ops2)) (Op.alloc k' m)).1.heap
      = (run (init c) (ops1 ++ Op.alloc k n :: ops2)).heap := by
  have e : run (init c) (ops1 ++ Op.alloc k n :: ops2) = run (step (run (init c) ops1) (Op.alloc k n)).1 ops2 := by
    simp [run, List.foldl_append]
  rw [e] at hok hb2 ⊢
  have hcfg1 : (run (init c) ops1).cfg = c := run_cfg _ _
  have hok2 : (step (run (init c) ops1) (Op.alloc k n)).1.ok = true := run_ok_mono _ ops2 hok
  have hok1 : (run (init c) ops1).ok = true := step_ok_mono _ _ hok2
  have hi1 : Inv (run (init c) ops1) := reachable_inv hc ⟨ops1, rfl⟩ hok1
  have hi2 : Inv (step (run (init c) ops1) (Op.alloc k n)).1 := inv_step (by rw [hcfg1]; exact hc) hi1 _ hok2
  have hcfg2 : (step (run (init c) ops1) (Op.alloc k n)).1.cfg = c := by rw [step_cfg, hcfg1]
  have hcfg3 : (run (step (run (init c) ops1) (Op.alloc k n)).1 ops2).cfg = c := by rw [run_cfg, hcfg2]
  have h1 := alloc_capBytes_ge (run (init c) ops1) (by rw [hcfg1]; exact hc) hi1.mem.vsize_le (by rw [hcfg1]; exact hr)
    (by rw [hcfg1]; exact hb1) k n
  have h2 := capBytes_mono_run (by rw [hcfg2]; exact hc) hi2 ops2 hnd hok
  apply alloc_no_heap _ (by rw [hcfg3]; exact hc) (by rw [hcfg3]; exact hr) (by rw [hcfg3]; exact hb2)
  rw [hcfg3]
  rw [hcfg1] at h1
  have : need c m ≤ need c n := by simp only [need]; omega
  omega


/-- **`stack_storage` after warm-up.** A frame of `n` bytes that did not fit went to the heap and left its size in
the shared state; after any number of completions and further `stack_storage` objects, an object constructed from
that state serves *every* frame of at most `n` bytes in place (in its own buffer `ext k`), without a heap call. -/
theorem c19_warm_stack (s : State) (i : Nat) (hp : s.cfg.pol = Policy.stack i) (k n asz : Nat)
    (hk : s.objs[k]? = some asz) (hbig : ¬ need s.cfg n ≤ asz)
    (ops : List Op) (hq : ∀ op ∈ ops, Quiet op) (m : Nat) (hm : m ≤ n) :
    (step (step (run (step s (Op.alloc k n)).1 ops) Op.newobj).1
        (Op.alloc (run (step s (Op.alloc k n)).1 ops).objs.length m)).1.heap
      = (run (step s (Op.alloc k n)).1 ops).heap ∧
    (step (step (run (step s (Op.alloc k n)).1 ops) Op.newobj).1
        (Op.alloc (run (step s (Op.alloc k n)).1 ops).objs.length m)).2
      = Res.alloc (run (step s (Op.alloc k n)).1 ops).nextFrame (Blk.ext (run (step s (Op.alloc k n)).1 ops).objs.length) :=
  warm_stack s i hp k n asz hk hbig ops hq m hm

/-- **The extra object is constructed exactly once and destroyed exactly once with the frame**
(`promise_extra_storage`; `born` / `died` log the constructor / destructor calls, which sit in `alloc` / `dealloc`):
every frame ever created has exactly one construction; it has exactly one destruction iff it is no longer live,
and none while it is live. -/
theorem c19_extra_object_once {c : Cfg} (hc : CfgOK c) {s : State} (h : Reachable c s) (hok : s.ok = true) (i : Nat) :
    s.born.count i = (if i < s.nextFrame then 1 else 0) ∧
    (s.frames.map (·.id)).count i + s.died.count i = s.born.count i := by
  have hb := (reachable_inv hc h hok).book
  exact ⟨hb.born_once i, by rw [hb.born_once i]; exact hb.life i⟩

/-- **… and is usable as soon as the coroutine object exists**: when `alloc` returns (i.e. before the coroutine
function has returned its object and long before the body runs) the extra object of *this* frame has been
constructed, has not been destroyed, and `inventory` points at it; it lies behind the frame inside the frame's
block (`c19_layout`). -/
theorem c19_extra_object_usable {c : Cfg} (hc : CfgOK c) {s : State} (h : Reachable c s) (k sz id : Nat) (blk : Blk)
    (hres : (step s (Op.alloc k sz)).2 = Res.alloc id blk) (hok : (step s (Op.alloc k sz)).1.ok = true) :
    (step s (Op.alloc k sz)).1.inventory = some id ∧ (step s (Op.alloc k sz)).1.born.count id = 1 ∧
    (step s (Op.alloc k sz)).1.died.count id = 0 ∧
    ∃ f ∈ (step s (Op.alloc k sz)).1.frames, f.id = id ∧ f.blk = blk ∧ f.sz = sz := by
  obtain ⟨hid, hinv, hborn, hdied, p, hfr⟩ := alloc_result s k sz id blk hres
  have hr : Reachable c (step s (Op.alloc k sz)).1 := by
    obtain ⟨ops, rfl⟩ := h
    exact ⟨ops ++ [Op.alloc k sz], by simp [run, List.foldl_append]⟩
  have hb := (reachable_inv hc hr hok).book
  have hmem : (⟨id, blk, sz, p⟩ : Frame) ∈ (step s (Op.alloc k sz)).1.frames := by rw [hfr]; simp
  have hlt := hb.fid_lt _ hmem
  have h1 := hb.born_once id
  have h2 := hb.life id
  have h3 : 0 < ((step s (Op.alloc k sz)).1.frames.map (·.id)).count id :=
    List.count_pos_iff.mpr (List.mem_map.mpr ⟨_, hmem, rfl⟩)
  simp only [] at hlt
  rw [if_pos hlt] at h1 h2
  exact ⟨hinv, h1, by omega, ⟨id, blk, sz, p⟩, hmem, rfl, rfl, rfl⟩

/-- **A throwing factory leaves nothing behind** (`promise_extra_storage::alloc`, repaired): when constructing the
extra object throws, no frame and no extra object exist afterwards, every bookkeeping of frames is as before — and,
because `allocThrow` is an ordinary step of the machine, all theorems above (`c19_no_leak`: no block without an owner;
`c19_mtsafe_sequential`: `_busy` only while a frame lives in the block; `c19_warm_no_alloc`) hold after any number of
such failed creations. -/
theorem c19_extra_factory_throws {c : Cfg} (hc : CfgOK c) {s : State} (h : Reachable c s) (hok : s.ok = true) (k sz : Nat)
    (hok' : (step s (Op.allocThrow k sz)).1.ok = true) :
    (step s (Op.allocThrow k sz)).1.frames = s.frames ∧ (step s (Op.allocThrow k sz)).1.born = s.born ∧
    (step s (Op.allocThrow k sz)).1.died = s.died ∧ (step s (Op.allocThrow k sz)).1.nextFrame = s.nextFrame ∧
    (∀ b, (step s (Op.allocThrow k sz)).1.heap.ids.count b
        = (step s (Op.allocThrow k sz)).1.ptr.toList.count b + (step s (Op.allocThrow k sz)).1.optr.toList.count b
          + (privBlocks s.frames).count b) ∧
    (c.pol = Policy.mtsafe → ((step s (Op.allocThrow k sz)).1.busy = true ↔ ∃ f ∈ s.frames, f.priv = false)) := by
  have hr : Reachable c (step s (Op.allocThrow k sz)).1 := by
    obtain ⟨ops, rfl⟩ := h
    exact ⟨ops ++ [Op.allocThrow k sz], by simp [run, List.foldl_append]⟩
  have hi := reachable_inv hc hr hok'
  have hcfg : (step s (Op.allocThrow k sz)).1.cfg.pol = c.pol := by rw [reachable_cfg hr]
  have hi0 := reachable_inv hc h hok
  -- the frame list: the frame that was recorded for the attempt is removed again
  have hfr : (step s (Op.allocThrow k sz)).1.frames = s.frames ∧ (step s (Op.allocThrow k sz)).1.born = s.born ∧
      (step s (Op.allocThrow k sz)).1.died = s.died ∧ (step s (Op.allocThrow k sz)).1.nextFrame = s.nextFrame := by
    show (stepAllocThrow s k sz).1.frames = _ ∧ (stepAllocThrow s k sz).1.born = _ ∧ (stepAllocThrow s k sz).1.died = _ ∧
      (stepAllocThrow s k sz).1.nextFrame = _
    have hok2 : (stepAllocThrow s k sz).1.ok = true := hok'
    unfold stepAllocThrow at hok2 ⊢
    cases hres : (stepAlloc s k sz).2 with
    | alloc id blk =>
      simp only [hres] at hok2 ⊢
      obtain ⟨hid, _, _, _, p, hfr⟩ := alloc_result s k sz id blk hres
      have hfr' : (stepAlloc s k sz).1.frames = s.frames ++ [⟨id, blk, sz, p⟩] := hfr
      have hfind : (stepAlloc s k sz).1.frames.find? (fun g => g.id == id) = some ⟨id, blk, sz, p⟩ := by
        rw [hfr', List.find?_append]
        have : s.frames.find? (fun g => g.id == id) = none := by
          apply List.find?_eq_none.mpr
          intro g hg
          have := hi0.book.fid_lt g hg
          simp only [beq_iff_eq]; omega
        simp [this]
      have hnot : (⟨id, blk, sz, p⟩ : Frame) ∉ s.frames := by
        intro hm; have := hi0.book.fid_lt _ hm; simp only [] at this; omega
      refine ⟨?_, rfl, rfl, rfl⟩
      show (stepFree (stepAlloc s k sz).1 id).1.frames = s.frames
      rw [(stepFree_frames hfind).1, hfr', List.erase_append_right _ hnot]
      simp
    | free id => exfalso; have := alloc_res_kind s k sz; rw [hres] at this; simp at this
    | obj a b => exfalso; have := alloc_res_kind s k sz; rw [hres] at this; simp at this
    | unit => exfalso; have := alloc_res_kind s k sz; rw [hres] at this; simp at this
    | failed => exfalso; have := alloc_res_kind s k sz; rw [hres] at this; simp at this
    | rejected =>
      simp only [hres]
      have := alloc_rejected_same s k sz hres
      rw [this]; exact ⟨rfl, rfl, rfl, rfl⟩
    | bad =>
      simp only [hres] at hok2
      have := alloc_bad_not_ok s k sz hres
      rw [this] at hok2; cases hok2
  refine ⟨hfr.1, hfr.2.1, hfr.2.2.1, hfr.2.2.2, ?_, ?_⟩
  · intro b; have := hi.mem.noleak b; rw [hfr.1] at this; exact this
  · intro hp
    have := hi.mem.busy_iff (by rw [hcfg]; exact hp)
    rw [hfr.1] at this; exact this

/-- The pinned code violated the property here: the exception left `alloc` with the memory still taken.  With a
`reusable_storage_mtsafe` inside, `_busy` stays set although no frame exists, so the next — warmed-up — frame goes to
the heap; with `default_storage` inside the block is leaked.  Replayed on the headers by
corpus/c19_seq_extra_factory_throws.txt; repaired by the second `fix:` commit. -/
theorem c19_extra_factory_throws_asis_violation :
    ((stepAllocThrowAsIs (run (init { pol := Policy.mtsafe, extra := 16 }) [Op.alloc 0 40, Op.free 0]) 0 40).1.busy = true
      ∧ (stepAllocThrowAsIs (run (init { pol := Policy.mtsafe, extra := 16 }) [Op.alloc 0 40, Op.free 0]) 0 40).1.frames = []
      ∧ (step (stepAllocThrowAsIs (run (init { pol := Policy.mtsafe, extra := 16 }) [Op.alloc 0 40, Op.free 0]) 0 40).1
            (Op.alloc 0 40)).1.heap.live = [(0, 64), (1, 64)])
    ∧ ((stepAllocThrowAsIs (init { pol := Policy.default, extra := 40 }) 0 24).1.heap.live = [(0, 64)]
      ∧ (stepAllocThrowAsIs (init { pol := Policy.default, extra := 40 }) 0 24).1.frames = []) := by decide

/-- the same history on the repaired step: `_busy` is clear again and the next frame reuses the block -/
example : (run (init { pol := Policy.mtsafe, extra := 16 }) [Op.alloc 0 40, Op.free 0, Op.allocThrow 0 40]).busy = false
    ∧ (run (init { pol := Policy.mtsafe, extra := 16 }) [Op.alloc 0 40, Op.free 0, Op.allocThrow 0 40, Op.alloc 0 40]).heap.live
        = [(0, 64)]
    ∧ (run (init { pol := Policy.default, extra := 40 }) [Op.allocThrow 0 24]).heap.live = []
    ∧ (run (init { pol := Policy.default, extra := 40 }) [Op.allocThrow 0 24]).heap.dels = [0]
    ∧ (run (init { pol := Policy.mtsafe, extra := 16 }) [Op.alloc 0 40, Op.free 0, Op.allocThrow 0 40]).ok = true := by decide

/-- **`reusable_buffer_storage<std::vector<Item>>` rounds up for every element size** (not only powers of two: 3, 12,
24-byte elements …): after a request the user's buffer — the vector's `size()`, not merely its capacity — holds at
least the frame (`ceil(need / sizeof(Item)) * sizeof(Item) ≥ need` for every `sizeof(Item) ≥ 1`). -/
theorem c19_buffer_user_size (s : State) (i : Nat) (hi : 0 < i) (hp : s.cfg.pol = Policy.buffer i) (k sz : Nat) :
    need s.cfg sz ≤ (step s (Op.alloc k sz)).1.vsize * i := by
  have h1 := ceil_mul_ge (need s.cfg sz) i hi
  have h2 : (need s.cfg sz + i - 1) / i ≤ (bufResized s i sz).vsize := by
    unfold bufResized
    split
    · rw [vresize_vsize]; exact Nat.le_refl _
    · omega
  have h3 := Nat.mul_le_mul_right i h2
  show need s.cfg sz ≤ (stepAlloc s k sz).1.vsize * i
  simp only [stepAlloc, hp, allocBuffer, addFrame]
  omega

/-- **A failed growth leaves an empty, reusable storage** (`reusable_storage::alloc` / `reusable_storage_mtsafe::alloc`,
repaired): when `operator new` throws `bad_alloc` while the block is being grown, the old block has been deleted
exactly once, `_ptr` is null, `_capacity` 0, `_busy` clear, no frame was created and all frames that live in private
blocks are untouched; the state satisfies the invariant again (`allocFail` is an ordinary step, so every theorem
above covers histories with failed allocations) — in particular the next request obtains a fresh block. -/
theorem c19_failed_growth_leaves_empty_storage {c : Cfg} (hc : CfgOK c) (hp : c.pol = Policy.reusable ∨ c.pol = Policy.mtsafe)
    {s : State} (h : Reachable c s) (k sz : Nat) (hfree : s.busy = false) (hg : s.cap < need c sz)
    (hok' : (step s (Op.allocFail k sz)).1.ok = true) :
    (step s (Op.allocFail k sz)).2 = Res.failed ∧
    (step s (Op.allocFail k sz)).1.ptr = none ∧ (step s (Op.allocFail k sz)).1.cap = 0 ∧
    (step s (Op.allocFail k sz)).1.busy = false ∧ (step s (Op.allocFail k sz)).1.frames = s.frames ∧
    (step s (Op.allocFail k sz)).1.heap = s.heap.delOpt s.ptr ∧
    Inv (step s (Op.allocFail k sz)).1 ∧
    ∀ k' m, 0 < need c m → (step (step s (Op.allocFail k sz)).1 (Op.alloc k' m)).2
        = Res.alloc s.nextFrame (Blk.heap (step s (Op.allocFail k sz)).1.heap.next) := by
  have hcfg : s.cfg = c := reachable_cfg h
  have hr : Reachable c (step s (Op.allocFail k sz)).1 := by
    obtain ⟨ops, rfl⟩ := h
    exact ⟨ops ++ [Op.allocFail k sz], by simp [run, List.foldl_append]⟩
  have hi := reachable_inv hc hr hok'
  have hg' : need s.cfg sz > s.cap := by rw [hcfg]; exact hg
  rcases hp with hp | hp
  · have hpol : s.cfg.pol = Policy.reusable := by rw [hcfg]; exact hp
    have e : step s (Op.allocFail k sz) =
        ({ s with heap := s.heap.delOpt s.ptr, ptr := none, cap := 0, vsize := 0, ok := s.ok && s.frames.isEmpty }, Res.failed) := by
      simp only [step, stepAllocFail, hpol, hg', if_true]
    rw [e] at hi ⊢
    refine ⟨rfl, rfl, rfl, hfree, rfl, rfl, hi, ?_⟩
    intro k' m h0
    rw [← hcfg] at h0
    simp only [step, stepAlloc, hpol, rsAlloc, State.ptrBlk, h0, if_true]
  · have hpol : s.cfg.pol = Policy.mtsafe := by rw [hcfg]; exact hp
    have e : step s (Op.allocFail k sz) =
        ({ s with heap := s.heap.delOpt s.ptr, ptr := none, cap := 0, vsize := 0, busy := false }, Res.failed) := by
      simp only [step, stepAllocFail, hpol, hfree, hg', if_true, Bool.false_eq_true, if_false]
    rw [e] at hi ⊢
    refine ⟨rfl, rfl, rfl, rfl, rfl, rfl, hi, ?_⟩
    intro k' m h0
    rw [← hcfg] at h0
    simp only [step, stepAlloc, hpol, Bool.false_eq_true, if_false, rsAlloc, State.ptrBlk, h0, if_true]

/-- The pinned code violated the property here: `delete _ptr; _ptr = new(sz)` — when `new` throws, `_ptr` keeps the
address of the deleted block and `_capacity` its size.  The next, smaller frame is placed in memory that is not live
(block 0 was deleted), and the destructor deletes block 0 a second time; a `reusable_storage_mtsafe` additionally keeps
`_busy` set although no frame exists.  Replayed on the headers by corpus/c19_seq_failed_growth.txt (ASan: attempting
double-free / heap-use-after-free); repaired by the third `fix:` commit. -/
theorem c19_failed_growth_asis_violation :
    ((step (stepAllocFailAsIs (run (init { pol := Policy.reusable }) [Op.alloc 0 40, Op.free 0]) 0 100).1 (Op.alloc 0 8)).1.frames.map (·.blk)
        = [Blk.heap 0]
      ∧ (step (stepAllocFailAsIs (run (init { pol := Policy.reusable }) [Op.alloc 0 40, Op.free 0]) 0 100).1 (Op.alloc 0 8)).1.heap.live = []
      ∧ (run (stepAllocFailAsIs (run (init { pol := Policy.reusable }) [Op.alloc 0 40, Op.free 0]) 0 100).1
            [Op.alloc 0 8, Op.free 1, Op.destroy]).heap.dels = [0, 0])
    ∧ ((stepAllocFailAsIs (run (init { pol := Policy.mtsafe }) [Op.alloc 0 40, Op.free 0]) 0 100).1.busy = true
      ∧ (stepAllocFailAsIs (run (init { pol := Policy.mtsafe }) [Op.alloc 0 40, Op.free 0]) 0 100).1.frames = []) := by decide

/-- the same history on the repaired step: the storage is empty, the next frame gets a fresh block, one delete per block -/
example : (run (init { pol := Policy.reusable }) [Op.alloc 0 40, Op.free 0, Op.allocFail 0 100, Op.alloc 0 8]).heap.live = [(1, 8)]
    ∧ (run (init { pol := Policy.reusable }) [Op.alloc 0 40, Op.free 0, Op.allocFail 0 100, Op.alloc 0 8, Op.free 1, Op.destroy]).heap.dels
        = [0, 1]
    ∧ (run (init { pol := Policy.mtsafe }) [Op.alloc 0 40, Op.free 0, Op.allocFail 0 100]).busy = false
    ∧ (run (init { pol := Policy.mtsafe }) [Op.alloc 0 40, Op.free 0, Op.allocFail 0 100]).ok = true := by decide

/-- **`static_storage<space>`**: a frame is placed in the object's own buffer exactly when frame + trailer fit
(`need ≤ space`, the library's `assert`); with the `assert` compiled in a larger request is rejected and nothing
happens; without it (`NDEBUG`) the frame goes to a fresh heap block of exactly `need` bytes, marked private, which
`dealloc` (`ptr != _buffer`) deletes — exclusivity, size and exactly-once release of both paths are
`c19_exclusive` / `c19_size` / `c19_released_at_most_once` / `c19_fallback_freed_once` with `c.pol = static …`.
The buffer has no busy flag: it is handed out again only after the caller released it (`ok`). -/
theorem c19_static_storage (s : State) (space : Nat) (a : Bool) (hp : s.cfg.pol = Policy.static space a) (k sz : Nat) :
    (need s.cfg sz ≤ space →
        (step s (Op.alloc k sz)).2 = Res.alloc s.nextFrame (Blk.ext 0) ∧ (step s (Op.alloc k sz)).1.heap = s.heap ∧
        ((step s (Op.alloc k sz)).1.ok = true ↔ s.ok = true ∧ ∀ f ∈ s.frames, f.blk ≠ Blk.ext 0)) ∧
    (space < need s.cfg sz → a = true → step s (Op.alloc k sz) = (s, Res.rejected)) ∧
    (space < need s.cfg sz → a = false →
        (step s (Op.alloc k sz)).2 = Res.alloc s.nextFrame (Blk.heap s.heap.next) ∧
        (step s (Op.alloc k sz)).1.heap = s.heap.new (need s.cfg sz) ∧
        (step s (Op.alloc k sz)).1.frames = s.frames ++ [⟨s.nextFrame, Blk.heap s.heap.next, sz, true⟩]) := by
  simp only [step, stepAlloc, hp]
  refine ⟨?_, ?_, ?_⟩
  · intro hfit
    have : ¬ space < need s.cfg sz := by omega
    simp only [this, decide_false, Bool.and_false, Bool.false_eq_true, if_false, allocStatic, hfit, if_true, addFrame]
    refine ⟨trivial, trivial, ?_⟩
    simp [Bool.and_eq_true, List.all_eq_true]
  · intro hbig ha
    simp [hbig, ha]
  · intro hbig ha
    have : ¬ need s.cfg sz ≤ space := by omega
    simp [hbig, ha, allocStatic, this, addFrame]

/-- **Moves of a `reusable_storage`** (move construction into a re-constructed object and move assignment are the
same transition): the receiving object takes over block and capacity — a frame living in the block stays where it
is, in live memory —, whatever the receiving object owned before is deleted exactly once, nothing else is touched. -/
theorem c19_move_transfers_block (s : State) (hp : s.cfg.pol = Policy.reusable) :
    (step s Op.moveOut).1.ptr = s.ptr ∧ (step s Op.moveOut).1.cap = s.cap ∧ (step s Op.moveOut).1.frames = s.frames ∧
    (step s Op.moveOut).1.optr = none ∧ (step s Op.moveOut).1.heap = s.heap.delOpt s.optr ∧
    (step s Op.moveOut).1.ok = s.ok := by
  simp [step, stepMoveOut, hp]

/-- the two storage objects never own the same block, both own live blocks of their recorded capacity (so the
destructor of either deletes a block that is live and its own: no double free, `c19_released_at_most_once`) -/
theorem c19_two_objects_disjoint {c : Cfg} (hc : CfgOK c) (hp : c.pol = Policy.reusable) {s : State} (h : Reachable c s)
    (hok : s.ok = true) :
    (∀ p, s.ptr = some p → s.optr ≠ some p ∧ (p, s.cap) ∈ s.heap.live) ∧
    (∀ q, s.optr = some q → (q, s.ocap) ∈ s.heap.live) := by
  have hi := (reachable_inv hc h hok).mem
  have hpol : s.cfg.pol = Policy.reusable := by rw [reachable_cfg h]; exact hp
  refine ⟨?_, hi.optr_live⟩
  intro p hpp
  refine ⟨?_, by have := hi.ptr_live p hpp; simpa [capBytes, hpol] using this⟩
  intro e
  have := hi.optr_count_ptr hpp
  simp [e] at this

/-- `reusable_storage_mtsafe`, one thread at a time: at most one live frame sits in the shared block, `_busy` is set
exactly while it does, and every other live frame has a private heap block -/
theorem c19_mtsafe_sequential {c : Cfg} (hc : CfgOK c) (hp : c.pol = Policy.mtsafe) {s : State} (h : Reachable c s)
    (hok : s.ok = true) :
    (s.busy = true ↔ ∃ f ∈ s.frames, f.priv = false) ∧
    (∀ f ∈ s.frames, ∀ g ∈ s.frames, f.priv = false → g.priv = false → f = g) ∧
    (∀ f ∈ s.frames, f.priv = false ↔ f.blk = s.ptrBlk) := by
  have hi := (reachable_inv hc h hok).mem
  have hpol : s.cfg.pol = Policy.mtsafe := by rw [reachable_cfg h]; exact hp
  have hsb : ∀ f ∈ s.frames, f.priv = false → f.blk = s.ptrBlk := by
    intro f hf hq; have := hi.shared_blk f hf hq; simpa [SharedAt, hpol] using this
  refine ⟨hi.busy_iff hpol, ?_, ?_⟩
  · intro f hf g hg hq1 hq2
    exact nodup_map_inj hi.excl hf hg ((hsb f hf hq1).trans (hsb g hg hq2).symm)
  · intro f hf
    constructor
    · exact hsb f hf
    · intro hb
      cases hq : f.priv with
      | false => rfl
      | true =>
        exfalso
        obtain ⟨b, hb'⟩ := hi.priv_heap f hf hq
        cases hpt : s.ptr with
        | none => simp [State.ptrBlk, hpt] at hb; rw [hb] at hb'; cases hb'
        | some p =>
          simp only [State.ptrBlk, hpt] at hb
          exact hi.priv_ne_ptr hpt hf hq hb

end Cocls.Storage

/-! ## the thread-safe variant under all interleavings -/
namespace Cocls.Storage.Mt
open Cocls.Storage

/-! `Reachable s` (StorageMtProofs.lean): `s = run init sched` for some schedule; a schedule step names a thread and what
it does next — begin an `alloc`, continue its operation by one hooked operation, or `dealloc` a live frame. -/

/-- **The thread-safe variant never hands its block to two simultaneously live frames** — for every interleaving of
any number of threads: at most one live frame is marked as living in the shared block; no two live frames (shared or
private) share a block; every live frame's block is live — in particular the shared block is never deleted or
replaced under its frame — and holds frame + trailer. -/
theorem c19_mtsafe_exclusive {s : State} (h : Reachable s) :
    (∀ f ∈ s.frames, ∀ g ∈ s.frames, f.priv = false → g.priv = false → f = g) ∧
    (s.frames.map (·.blk)).Nodup ∧
    (∀ f ∈ s.frames, ∃ b n, f.blk = Blk.heap b ∧ (b, n) ∈ s.heap.live ∧ f.sz + 8 ≤ n) := by
  have hi := reachable_minv h
  refine ⟨?_, hi.excl, hi.fits⟩
  intro f hf g hg hq1 hq2
  obtain ⟨_, p, hp1, hb1⟩ := hi.shared_blk f hf hq1
  obtain ⟨_, q, hp2, hb2⟩ := hi.shared_blk g hg hq2
  rw [hp1] at hp2; injection hp2 with hp2; subst hp2
  exact nodup_map_inj hi.excl hf hg (hb1.trans hb2.symm)

/-- `_busy` is set exactly while a thread is growing the block or a frame lives in it; these exclude each other and
there is at most one growing thread (mutual exclusion on the shared block) -/
theorem c19_mtsafe_busy {s : State} (h : Reachable s) :
    (s.busy = true ↔ (∃ t, (s.pc t).holder = true) ∨ (∃ f ∈ s.frames, f.priv = false)) ∧
    (∀ t u, (s.pc t).holder = true → (s.pc u).holder = true → t = u) ∧
    (∀ t, (s.pc t).holder = true → ∀ f ∈ s.frames, f.priv = true) :=
  ⟨(reachable_minv h).busy_iff, (reachable_minv h).holder_unique, (reachable_minv h).holder_noshared⟩

/-- heap accounting under all interleavings: no block is deleted twice; the live blocks are exactly the storage's
current block (none between the two halves of a growth) and one private block per live fallback frame -/
theorem c19_mtsafe_heap_once {s : State} (h : Reachable s) (b : Nat) :
    s.heap.dels.count b ≤ 1 ∧ s.heap.ids.count b = (owned s).count b + (privBlocks s.frames).count b := by
  have h1 := (reachable_minv h).once b
  refine ⟨?_, (reachable_minv h).noleak b⟩
  split at h1 <;> omega

/-- the right free path: releasing a live frame deletes exactly its own block iff its trailer is null (private
block), and otherwise only clears `_busy` without touching the heap — decided without reading `_ptr` -/
theorem c19_mtsafe_free_path (s : State) (f : Frame) (hfind : s.frames.find? (fun g => g.id == f.id) = some f) :
    (f.priv = true → ∀ b, f.blk = Blk.heap b →
        (stepFree s f.id).1.heap = s.heap.del b ∧ (stepFree s f.id).1.busy = s.busy) ∧
    (f.priv = false → (stepFree s f.id).1.heap = s.heap ∧ (stepFree s f.id).1.busy = false) := by
  unfold stepFree
  simp only [hfind]
  constructor
  · intro hp b hb; simp [hp, hb]
  · intro hp; simp [hp]

/-- at quiescence (no thread inside an operation, no live frame) the heap holds exactly the storage's own block:
every fallback block was released, exactly once (`c19_mtsafe_heap_once`) -/
theorem c19_mtsafe_quiescent {s : State} (h : Reachable s) (hidle : ∀ t, s.pc t = Pc.idle) (hq : s.frames = []) (b : Nat) :
    s.heap.ids.count b = s.ptr.toList.count b ∧ s.busy = false := by
  have hi := reachable_minv h
  have hd : s.dangling = false := by
    cases hd : s.dangling with
    | false => rfl
    | true => obtain ⟨t, fid, sz, ht⟩ := hi.dangling_new hd; rw [hidle t] at ht; cases ht
  have h1 := hi.noleak b
  simp only [owned, hd, hq, privBlocks_nil, List.count_nil, Nat.add_zero, Bool.false_eq_true, if_false] at h1
  refine ⟨h1, ?_⟩
  cases hb : s.busy with
  | false => rfl
  | true =>
    rcases hi.busy_iff.mp hb with ⟨t, ht⟩ | ⟨f, hf, _⟩
    · rw [hidle t] at ht; cases ht
    · rw [hq] at hf; cases hf

/-- **A failed growth under interleaving** (repaired `reusable_storage_mtsafe::alloc`): the thread that holds the block and
whose `operator new` throws first empties the storage (`_ptr = nullptr; _capacity = 0;`, still holding `_busy`, so nobody
else can touch the fields) and with its next hooked operation clears `_busy`; heap and live frames (all of them in
private blocks at that moment) are untouched, no frame is created, and both states are reachable states of the machine,
so `c19_mtsafe_exclusive` / `c19_mtsafe_busy` / `c19_mtsafe_heap_once` hold throughout — other threads may allocate
private blocks meanwhile and may take the (empty) shared storage afterwards. -/
theorem c19_mtsafe_failed_growth {s : State} (h : Reachable s) (t fid sz : Nat) (ht : s.pc t = Pc.needNew fid sz) :
    (step s t Act.fail).1.ptr = none ∧ (step s t Act.fail).1.cap = 0 ∧ (step s t Act.fail).1.busy = true ∧
    (step s t Act.fail).1.frames = s.frames ∧ (step s t Act.fail).1.heap = s.heap ∧
    (step s t Act.fail).1.pc t = Pc.needUnbusy fid ∧ Reachable (step s t Act.fail).1 ∧
    (step (step s t Act.fail).1 t Act.go).2 = Res.failed fid ∧
    (step (step s t Act.fail).1 t Act.go).1.busy = false ∧ (step (step s t Act.fail).1 t Act.go).1.ptr = none ∧
    (step (step s t Act.fail).1 t Act.go).1.cap = 0 ∧ (step (step s t Act.fail).1 t Act.go).1.frames = s.frames ∧
    (step (step s t Act.fail).1 t Act.go).1.heap = s.heap ∧ (step (step s t Act.fail).1 t Act.go).1.pc t = Pc.idle := by
  have hr : Reachable (step s t Act.fail).1 := by
    obtain ⟨sched, rfl⟩ := h
    exact ⟨sched ++ [(t, Act.fail)], by simp [run, List.foldl_append]⟩
  have hb : s.busy = true := (reachable_minv h).busy_iff.mpr (Or.inl ⟨t, by rw [ht]; rfl⟩)
  have e1 : step s t Act.fail = (setPc { s with ptr := none, cap := 0, dangling := false } t (Pc.needUnbusy fid), Res.paused "store") := by
    simp [step, ht, stepGoFail]
  have e2 : step (setPc { s with ptr := none, cap := 0, dangling := false } t (Pc.needUnbusy fid)) t Act.go
      = (setPc { (setPc { s with ptr := none, cap := 0, dangling := false } t (Pc.needUnbusy fid)) with busy := false } t Pc.idle,
         Res.failed fid) := by
    simp [step, stepGo, setPc]
  rw [e1] at hr ⊢
  simp only []
  rw [e2]
  refine ⟨rfl, rfl, hb, rfl, rfl, by simp [setPc], hr, rfl, rfl, rfl, rfl, rfl, rfl, by simp [setPc]⟩

/-- The pinned code violated the property: `dealloc` compared the frame's address with `me->_ptr`.  Thread 0 grows the
block (`delete` … `new`); in between thread 1 obtains a private block at the just-freed address and releases it: it is
taken for the shared block (never deleted: leaked; `_busy` cleared), and thread 1's next frame is placed in thread 0's
block — two live frames at one address.  Replayed on the headers by corpus/c19_mtsafe_stale_ptr.txt; repaired by the
`fix:` commit (the trailer decides). -/
theorem c19_mtsafe_asis_violation :
    ((AsIs.run {} [(0, Act.alloc 64), (0, Act.go), (0, Act.free 0), (0, Act.alloc 128), (0, Act.go), (1, Act.alloc 64),
        (1, Act.go), (1, Act.free 2), (0, Act.go), (1, Act.alloc 100)]).frames.map (·.addr)) = [2, 2] ∧
    (AsIs.run {} [(0, Act.alloc 64), (0, Act.go), (0, Act.free 0), (0, Act.alloc 128), (0, Act.go), (1, Act.alloc 64),
        (1, Act.go), (1, Act.free 2), (0, Act.go), (1, Act.alloc 100)]).live = [(1, 72), (2, 136)] := by decide

/-- the same schedule on the repaired model: thread 1's second frame does not get the shared block -/
example : ((run init [(0, Act.alloc 64), (0, Act.go), (0, Act.free 0), (0, Act.alloc 128), (0, Act.go), (1, Act.alloc 64),
        (1, Act.go), (1, Act.free 2), (0, Act.go), (1, Act.alloc 100), (1, Act.go)]).frames.map (·.blk))
      = [Blk.heap 2, Blk.heap 3] := by decide

/-- non-vacuity: a reachable state with a frame in the shared block, a private fallback frame, and a third thread
in the middle of a growth is impossible (`c19_mtsafe_busy`); this one has shared + private frame + a paused thread -/
example : Reachable (run init [(0, Act.alloc 64), (0, Act.go), (1, Act.alloc 8), (1, Act.go), (2, Act.alloc 8)]) := ⟨_, rfl⟩
example : ((run init [(0, Act.alloc 64), (0, Act.go), (1, Act.alloc 8), (1, Act.go), (2, Act.alloc 8)]).frames.map (·.priv))
      = [false, true] := by decide

end Cocls.Storage.Mt

namespace Cocls.Storage

/-! ### non-vacuity, and why the contract (`ok`) is needed -/

/-- `c19_warm_no_alloc` is not vacuous: buffer storage over `std::vector<uint32_t>`, a 33 byte frame, then a 20 byte
frame after the owner shrank the vector in between -/
example : (run (init { pol := Policy.buffer 4 }) ([] ++ Op.alloc 0 33 :: [Op.free 0, Op.bufset 3])).ok = true
    ∧ (run (init { pol := Policy.buffer 4 }) ([] ++ Op.alloc 0 33 :: [Op.free 0, Op.bufset 3])).heap.live = [(0, 36)] := by decide

/-- `c19_warm_stack` is not vacuous: fresh state variable (0), the first frame goes to the heap -/
example : (run (init { pol := Policy.stack 0 }) [Op.newobj]).objs[0]? = some 0
    ∧ ¬ need (run (init { pol := Policy.stack 0 }) [Op.newobj]).cfg 30 ≤ 0 := by decide

/-- `c19_fallback_freed_once` is not vacuous: a shared frame and a fallback frame, both released, storage destroyed:
blocks 0 and 1 were each deleted once -/
example : (run (init { pol := Policy.mtsafe }) [Op.alloc 0 40, Op.alloc 0 24, Op.free 0, Op.free 1]).ok = true
    ∧ (run (init { pol := Policy.mtsafe }) [Op.alloc 0 40, Op.alloc 0 24, Op.free 0, Op.free 1]).frames = []
    ∧ (run (init { pol := Policy.mtsafe }) [Op.alloc 0 40, Op.alloc 0 24, Op.free 0, Op.free 1, Op.destroy]).heap.dels = [1, 0] := by
  decide

/-- static storage, both builds: a frame that fits sits in the buffer; a larger one is rejected (assert) or goes to
a private heap block of frame + trailer bytes (NDEBUG) and is released by `dealloc` -/
example : (run (init { pol := Policy.static 64 true }) [Op.alloc 0 40, Op.alloc 0 100]).ok = true
    ∧ ((run (init { pol := Policy.static 64 true }) [Op.alloc 0 40, Op.alloc 0 100]).frames.map (·.blk)) = [Blk.ext 0] := by
  decide
example : (run (init { pol := Policy.static 64 false }) [Op.alloc 0 40, Op.alloc 0 100]).ok = true
    ∧ ((run (init { pol := Policy.static 64 false }) [Op.alloc 0 40, Op.alloc 0 100]).frames.map (·.blk)) = [Blk.ext 0, Blk.heap 0]
    ∧ (run (init { pol := Policy.static 64 false }) [Op.alloc 0 40, Op.alloc 0 100]).heap.live = [(0, 108)]
    ∧ (run (init { pol := Policy.static 64 false }) [Op.alloc 0 40, Op.alloc 0 100, Op.free 1, Op.free 0, Op.destroy]).heap.dels = [0] := by
  decide

/-- moves: both objects own a block; a frame is created, the storage is moved while the frame is live (the block of
the receiving object, 0, is deleted), the frame is released, both objects are destroyed: each block deleted once -/
example : (run (init { pol := Policy.reusable }) [Op.alloc 0 16, Op.free 0, Op.swapobj, Op.alloc 0 40, Op.moveOut]).ok = true
    ∧ ((run (init { pol := Policy.reusable }) [Op.alloc 0 16, Op.free 0, Op.swapobj, Op.alloc 0 40, Op.moveOut]).frames.map (·.blk))
        = [Blk.heap 1]
    ∧ (run (init { pol := Policy.reusable }) [Op.alloc 0 16, Op.free 0, Op.swapobj, Op.alloc 0 40, Op.moveOut]).heap.live = [(1, 40)]
    ∧ (run (init { pol := Policy.reusable }) [Op.alloc 0 16, Op.free 0, Op.swapobj, Op.alloc 0 40, Op.moveOut, Op.free 1,
          Op.destroy]).heap.dels = [0, 1] := by
  decide

/-- reachable, contract respected, with a reused block and a live frame -/
example : (run (init { pol := Policy.reusable }) [Op.alloc 0 40, Op.free 0, Op.alloc 0 24]).ok = true
    ∧ (run (init { pol := Policy.reusable }) [Op.alloc 0 40, Op.free 0, Op.alloc 0 24]).heap.live = [(0, 40)]
    ∧ (run (init { pol := Policy.reusable }) [Op.alloc 0 40, Op.free 0, Op.alloc 0 24]).frames.length = 1 := by decide

/-- mtsafe with extra object: a shared frame and a fallback frame live at once, contract respected -/
example : (run (init { pol := Policy.mtsafe, extra := 16 }) [Op.alloc 0 40, Op.alloc 0 24]).ok = true
    ∧ ((run (init { pol := Policy.mtsafe, extra := 16 }) [Op.alloc 0 40, Op.alloc 0 24]).frames.map (·.blk))
        = [Blk.heap 0, Blk.heap 1]
    ∧ (run (init { pol := Policy.mtsafe, extra := 16 }) [Op.alloc 0 40, Op.alloc 0 24]).heap.live = [(0, 64), (1, 48)] := by
  decide

/-- `reusable_storage` has no busy flag: a second frame while the first is live gets the *same* block (and a larger
one would even delete the block under the first frame).  This is the documented contract, recorded by `ok`. -/
example : ((run (init { pol := Policy.reusable }) [Op.alloc 0 40, Op.alloc 0 24]).frames.map (·.blk)) = [Blk.heap 0, Blk.heap 0]
    ∧ (run (init { pol := Policy.reusable }) [Op.alloc 0 40, Op.alloc 0 24]).ok = false := by decide

example : ((run (init { pol := Policy.reusable }) [Op.alloc 0 40, Op.alloc 0 48]).frames.map (·.blk)) = [Blk.heap 0, Blk.heap 1]
    ∧ (run (init { pol := Policy.reusable }) [Op.alloc 0 40, Op.alloc 0 48]).heap.live = [(1, 48)] := by decide

end Cocls.Storage

/-! ## which argument of the coroutine selects the storage

`CoclsModel/StorageSel.lean`: `custom_allocator_base`'s overload set `operator new(sz, Allocator &, …)` /
`operator new(sz, This &, Allocator &, …)` as a function `select` of the coroutine's argument list (`stor k`: an lvalue
of exactly the storage type, `derived k`: an object of a class derived from it — `class connection: reusable_storage`,
`reusable_storage_mtsafe`, `promise_extra_storage` —, `other`), and a machine with any number of `reusable_storage`
objects on which coroutines of *every* signature are created and completed.  `Reachable s` = some list of such
operations leads from the initial state to `s`; `s.ok` = the caller never created a coroutine whose selected storage
still held a live frame (the one-live-frame contract of `reusable_storage`). -/
namespace Cocls.StorageSel
open Cocls.Storage (Blk Heap nodup_map_inj mem_ids_of_mem_live)

def Reachable (s : State) : Prop := ∃ ops, s = run init ops

theorem reachable_inv {s : State} (h : Reachable s) : Inv s := by
  obtain ⟨ops, rfl⟩ := h
  exact inv_run inv_init ops

/-- **The selection is the documented one, for every signature.**  `rest` is arbitrary: arguments from the third
position on never matter.
* free function with the storage first (1, 2); member function / lambda of a class unrelated to the storage type: the
  first declared parameter, be it the storage itself or an object derived from it (3, 4);
* the object of a member coroutine (or a leading argument) merely *derives* from the storage type and a storage is
  passed explicitly right behind it: the explicit storage is used, the object's own block is left alone (5);
  without an explicit storage the object's own storage is used (6, 7);
* two explicit storages in the first two positions: the second (8: both overloads are exact, the one with `This &` is
  more specialised); two derived objects, or nothing convertible in the first two positions: does not compile (9, 10). -/
theorem c19_select_documented (rest : List Arg) (a b d e : Nat) :
    select [Arg.stor a] = some a ∧
    (∀ x, (∀ c, x ≠ Arg.stor c) → select (Arg.stor a :: x :: rest) = some a) ∧
    select (Arg.other :: Arg.stor a :: rest) = some a ∧
    select (Arg.other :: Arg.derived d :: rest) = some d ∧
    select (Arg.derived d :: Arg.stor a :: rest) = some a ∧
    select [Arg.derived d] = some d ∧
    select (Arg.derived d :: Arg.other :: rest) = some d ∧
    select (Arg.stor a :: Arg.stor b :: rest) = some b ∧
    select (Arg.derived d :: Arg.derived e :: rest) = none ∧
    select (Arg.other :: Arg.other :: rest) = none := by
  refine ⟨rfl, ?_, rfl, rfl, rfl, rfl, rfl, rfl, rfl, rfl⟩
  intro x hx
  cases x with
  | stor c => exact absurd rfl (hx c)
  | derived c => rfl
  | other => rfl

/-- the selected storage is always one that was passed in the first or second position (as the storage itself or as an
object derived from it) — never a later argument, never anything that was not passed -/
theorem c19_select_position (args : List Arg) (k : Nat) (h : select args = some k) :
    args[0]? = some (Arg.stor k) ∨ args[0]? = some (Arg.derived k) ∨ args[1]? = some (Arg.stor k) ∨ args[1]? = some (Arg.derived k) := by
  match args, h with
  | [Arg.stor a], h => simp [select] at h; simp [h]
  | [Arg.derived a], h => simp [select] at h; simp [h]
  | Arg.stor a :: Arg.stor b :: _, h => simp [select] at h; simp [h]
  | Arg.stor a :: Arg.derived b :: _, h => simp [select] at h; simp [h]
  | Arg.stor a :: Arg.other :: _, h => simp [select] at h; simp [h]
  | Arg.derived a :: Arg.stor b :: _, h => simp [select] at h; simp [h]
  | Arg.derived a :: Arg.derived b :: _, h => simp [select] at h
  | Arg.derived a :: Arg.other :: _, h => simp [select] at h; simp [h]
  | Arg.other :: Arg.stor b :: _, h => simp [select] at h; simp [h]
  | Arg.other :: Arg.derived b :: _, h => simp [select] at h; simp [h]
  | Arg.other :: Arg.other :: _, h => simp [select] at h
  | [Arg.other], h => simp [select] at h
  | [], h => simp [select] at h

/-- **Every frame lives in the storage the API selects for it**: for every sequence of coroutine creations (any
signatures, any objects, any frame sizes), completions and storage destructions that respects the contract, every live
frame was served by the object `select` names for its arguments, sits in the block that object currently owns, that
block is live and at least as large as the frame; a frame without a block has size 0. -/
theorem c19_sel_frame_in_selected_storage {s : State} (h : Reachable s) (hok : s.ok = true) :
    ∀ f ∈ s.frames, select f.args = some f.obj ∧ f.blk = ptrBlk (s.ptr f.obj) ∧ f.sz ≤ s.cap f.obj ∧
      (∀ b, f.blk = Blk.heap b → (b, s.cap f.obj) ∈ s.heap.live) ∧ (f.blk = Blk.null → f.sz = 0) := by
  intro f hf
  have hi := reachable_inv h
  obtain ⟨hb, hsz⟩ := hi.home hok f hf
  refine ⟨hi.sel f hf, hb, hsz, ?_, ?_⟩
  · intro b hbb
    rw [hb] at hbb
    cases hp : s.ptr f.obj with
    | none => simp [hp, ptrBlk] at hbb
    | some p =>
      simp only [hp, ptrBlk] at hbb
      injection hbb with hbb
      subst hbb
      exact hi.ptr_live f.obj p hp
  · intro hn
    rw [hb] at hn
    cases hp : s.ptr f.obj with
    | none => have := hi.ptr_none f.obj hp; omega
    | some p => simp [hp, ptrBlk] at hn

/-- **Two live frames never overlap**, whatever the signatures of their coroutines: two different live frames were
served by different storage objects and do not share a heap block. -/
theorem c19_sel_exclusive {s : State} (h : Reachable s) (hok : s.ok = true) :
    ∀ f ∈ s.frames, ∀ g ∈ s.frames, f ≠ g → f.obj ≠ g.obj ∧ ∀ b, f.blk = Blk.heap b → g.blk ≠ Blk.heap b := by
  intro f hf g hg hne
  have hi := reachable_inv h
  have hobj : f.obj ≠ g.obj := fun e => hne (nodup_map_inj (hi.one hok) hf hg e)
  refine ⟨hobj, ?_⟩
  intro b hfb hgb
  have h1 := (hi.home hok f hf).1
  have h2 := (hi.home hok g hg).1
  rw [hfb] at h1
  rw [hgb] at h2
  cases hp : s.ptr f.obj with
  | none => simp [hp, ptrBlk] at h1
  | some p =>
    cases hq : s.ptr g.obj with
    | none => simp [hq, ptrBlk] at h2
    | some q =>
      simp only [hp, hq, ptrBlk] at h1 h2
      injection h1 with h1
      injection h2 with h2
      exact hobj (hi.ptr_inj f.obj g.obj b (by rw [hp, h1]) (by rw [hq, h2]))

/-- **Released exactly once, nothing leaked** — with or without the contract: no block is deleted twice, a deleted
block is not live, and every live block is the block of exactly one storage object. -/
theorem c19_sel_freed_once {s : State} (h : Reachable s) (b : Nat) :
    s.heap.dels.count b ≤ 1 ∧ (b ∈ s.heap.dels → b < s.heap.next ∧ b ∉ s.heap.ids) ∧
    (b ∈ s.heap.ids → ∃ k, s.ptr k = some b ∧ ∀ j, s.ptr j = some b → j = k) := by
  have hi := reachable_inv h
  have h1 := hi.once b
  refine ⟨hi.once.dels_le_one b, ?_, ?_⟩
  · intro hm
    have h2 : 0 < s.heap.dels.count b := List.count_pos_iff.mpr hm
    constructor
    · split at h1 <;> omega
    · intro hid
      have h3 : 0 < s.heap.ids.count b := List.count_pos_iff.mpr hid
      split at h1 <;> omega
  · intro hid
    obtain ⟨k, hk⟩ := hi.owned b hid
    exact ⟨k, hk, fun j hj => hi.ptr_inj j k b hj hk⟩

/-- **No heap call after warm-up, per selected object**: a coroutine whose selected storage already has room for its
frame causes no `operator new` / `operator delete`. -/
theorem c19_sel_warm (s : State) (args : List Arg) (k sz : Nat) (hs : select args = some k) (hc : sz ≤ s.cap k) :
    (stepCoro s args sz).1.heap = s.heap := by
  have : ¬ sz > s.cap k := by omega
  simp [stepCoro, hs, rsAlloc, this]

/-! non-vacuity: the configuration of the seeded change — an object that owns the storage of its long-running member
coroutine by inheritance (object 2), a second member coroutine that receives an explicit storage (object 0) while the
first is alive: contract respected, two frames, two objects, two blocks. -/
example : Reachable (run init [Op.coro [Arg.derived 2, Arg.other] 104, Op.coro [Arg.derived 2, Arg.stor 0, Arg.other] 112]) :=
  ⟨_, rfl⟩
example : (run init [Op.coro [Arg.derived 2, Arg.other] 104, Op.coro [Arg.derived 2, Arg.stor 0, Arg.other] 112]).ok = true
    ∧ (run init [Op.coro [Arg.derived 2, Arg.other] 104, Op.coro [Arg.derived 2, Arg.stor 0, Arg.other] 112]).frames.map
        (fun f => (f.obj, f.blk)) = [(2, Blk.heap 0), (0, Blk.heap 1)] := by decide

/-- "the first argument that converts to the storage" — the selection rule of the seeded change -/
def selectFirstConvertible : List Arg → Option Nat
  | Arg.stor a :: _ => some a
  | Arg.derived a :: _ => some a
  | Arg.other :: r => selectFirstConvertible r
  | [] => none

/-- … differs from the overload set exactly where it matters: the explicit storage is ignored in favour of the object's
own block, in which (here) the first coroutine is still alive -/
example : selectFirstConvertible [Arg.derived 2, Arg.stor 0, Arg.other] = some 2
    ∧ select [Arg.derived 2, Arg.stor 0, Arg.other] = some 0 := by decide

/-- what the contract is for: a second coroutine on an occupied storage gets the same block -/
example : (run init [Op.coro [Arg.stor 0] 104, Op.coro [Arg.other, Arg.stor 0] 96]).ok = false
    ∧ (run init [Op.coro [Arg.stor 0] 104, Op.coro [Arg.other, Arg.stor 0] 96]).frames.map (·.blk) = [Blk.heap 0, Blk.heap 0] := by
  decide

end Cocls.StorageSel
