import CoclsModel.Async
namespace Cocls.Async
theorem c04_placeholder : True := trivial
end Cocls.Async
