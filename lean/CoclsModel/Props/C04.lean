import CoclsModel.AsyncProofs
import CoclsModel.AsyncRaceProofs
/-!
# C04 — an async coroutine runs once, delivers to its bound party, frees once

Model: `CoclsModel/Async.lean`.  A program is any family of scripts `prog : Nat → List Act` (acts: compute, await an
external future, `co_await` / `start()`-and-await a child — nesting of any depth, since children are scripts again —,
detach a child (discarded or awaited suspend point), drop a child unstarted, throw, return) together with `nExt`
driver-owned promises.  A *schedule* is an operation list: driver operations (`create`, `dropU` = `~async` unstarted,
`detach`, `start` = `start()` / `future<T>(async)` / returning it from a `future<T>` coroutine / `join` / `thread_pool::run`
— they all go through `async::start_promise` on a fresh promise —, `startP` = `start(promise)`, `setF`/`dropP` =
the driver resolves / drops a promise) interleaved in any way with micro-steps `step c` of any coroutine.  Every theorem
quantifies over **all programs, all `nExt`, all result types and all schedules** (`Reachable`), i.e. every start mode ×
completion mode × interleaving × nesting depth × behaviour of the result value's constructor at `co_return` (`State.ctorExc`:
for which operands the converting / copy construction inside the bound future throws, and what — an arbitrary function;
constantly `none` for `int`, `void`, references); the ghost counters are cumulative over the whole history.
-/
namespace Cocls.Async

/-- every state reachable by some schedule of the program, for some result type (`cx` = which `co_return` operands make the
constructor of the result value throw, and what: any function — `fun _ _ => none` is `int`/`void`/a reference) -/
def Reachable (prog : Nat → List Act) (nExt : Nat) (s : State) : Prop := ∃ cx ops, s = run (init prog nExt cx) ops

theorem reachable_inv {prog : Nat → List Act} {nExt : Nat} {s : State} (h : Reachable prog nExt s) : Inv s := by
  obtain ⟨cx, ops, rfl⟩ := h
  exact inv_run _ ops (inv_init prog nExt cx)

theorem reachable_run {prog : Nat → List Act} {nExt : Nat} {s : State} (h : Reachable prog nExt s) (ops : List Op) :
    Reachable prog nExt (run s ops) := by
  obtain ⟨cx, ops0, rfl⟩ := h
  exact ⟨cx, ops0 ++ ops, by simp [run, List.foldl_append]⟩

/-- **Body exactly once.**  On every schedule the number of times the body of `c` has begun is 1 if `c` is in a state
past the beginning of its body and 0 otherwise, never more; the number of successful start operations is 1 iff the handle
has left the `async` object; and the body never begins without (or more often than) a successful start. -/
theorem c04_body_once {prog : Nat → List Act} {nExt : Nat} {s : State} (h : Reachable prog nExt s) (c : Nat) :
    (s.co c).bodyStarts = (if (s.co c).st.began then 1 else 0)
    ∧ (s.co c).startsOk = (if (s.co c).st.started then 1 else 0)
    ∧ (s.co c).bodyStarts ≤ (s.co c).startsOk ∧ (s.co c).startsOk ≤ 1 := by
  have hc := (reachable_inv h).co_ok c
  refine ⟨hc.body, hc.starts, ?_, ?_⟩
  · rw [hc.body, hc.starts]; cases (s.co c).st <;> simp [St.began, St.started]
  · rw [hc.starts]; split <;> omega

/-- **Frame, arguments and locals destroyed exactly once.**  The frame has been freed once iff the coroutine is `done`
(ran to its end) or `dropped` (destroyed unstarted), never twice; the arguments die with the frame; the locals have been
destroyed once iff the body ran to its end; a frame is only freed if it was allocated, and it is allocated once. -/
theorem c04_frame_once {prog : Nat → List Act} {nExt : Nat} {s : State} (h : Reachable prog nExt s) (c : Nat) :
    (s.co c).frameFrees = (if (s.co c).st.freed then 1 else 0)
    ∧ (s.co c).argDtors = (s.co c).frameFrees
    ∧ (s.co c).localDtors = (if (s.co c).st = St.done then 1 else 0)
    ∧ (s.co c).allocs = (if (s.co c).st = St.absent then 0 else 1)
    ∧ (s.co c).frameFrees ≤ (s.co c).allocs := by
  have hc := (reachable_inv h).co_ok c
  refine ⟨hc.frees, hc.args, hc.locals, hc.allocs, ?_⟩
  rw [hc.frees, hc.allocs]; cases (s.co c).st <;> simp [St.freed]

/-- A destroyed frame stays destroyed: once `done` or `dropped`, no later operation of any schedule changes that
(so "exactly once" holds for the whole future of the run, not only up to now). -/
theorem c04_final_forever {prog : Nat → List Act} {nExt : Nat} {s : State} (_h : Reachable prog nExt s) (c : Nat)
    (ops : List Op) :
    ((s.co c).st = St.done → ((run s ops).co c).st = St.done)
    ∧ ((s.co c).st = St.dropped → ((run s ops).co c).st = St.dropped) :=
  ⟨fun h => ((le_run s ops c).2 h).1, (le_run s ops c).1⟩

/-- **Delivery to exactly the bound party.**  When the coroutine has finished, its result was stored into exactly
the futures `bound.toList` — its bound future, nobody when detached — and that future is ready, holds exactly the
outcome the body produced, and was written once, by `c`. -/
theorem c04_delivery {prog : Nat → List Act} {nExt : Nat} {s : State} (h : Reachable prog nExt s) (c : Nat)
    (hd : (s.co c).st = St.done) :
    (s.co c).deliveredTo = (s.co c).bound.toList
    ∧ (s.co c).outcome.isSome = true
    ∧ ∀ f, (s.co c).bound = some f →
        (s.fut f).ready = true ∧ (s.fut f).out = (s.co c).outcome ∧ (s.fut f).setBy = [some c] := by
  have hi := reachable_inv h
  have hc := hi.co_ok c
  refine ⟨by rw [hc.deliv]; simp [hd], by rw [hc.outc]; simp [hd], fun f hf => hi.bound_done c f hf hd⟩

/-- Nothing is delivered early or to anybody else: before the coroutine has finished it has stored nothing anywhere and
its bound future is still unresolved and empty; a detached coroutine never delivers anything. -/
theorem c04_no_early_delivery {prog : Nat → List Act} {nExt : Nat} {s : State} (h : Reachable prog nExt s) (c : Nat) :
    ((s.co c).st ≠ St.done → (s.co c).deliveredTo = [] ∧ (s.co c).outcome = none
        ∧ ∀ f, (s.co c).bound = some f → (s.fut f).ready = false ∧ (s.fut f).out = none ∧ (s.fut f).setBy = [])
    ∧ ((s.co c).bound = none → (s.co c).deliveredTo = []) := by
  have hi := reachable_inv h
  have hc := hi.co_ok c
  constructor
  · intro hd
    refine ⟨by rw [hc.deliv]; simp [hd], ?_, fun f hf => hi.bound_live c f hf hd⟩
    have := hc.outc
    cases ho : (s.co c).outcome
    · rfl
    · rw [ho] at this; simp [hd] at this
  · intro hb; rw [hc.deliv, hb]; simp

/-- A future receives at most one value over the whole run, and if a coroutine `c` stored it, then `c` is the
coroutine bound to that future and it has finished: results never reach a future of another party. -/
theorem c04_delivery_exclusive {prog : Nat → List Act} {nExt : Nat} {s : State} (h : Reachable prog nExt s) (f : Nat) :
    (s.fut f).setBy.length ≤ 1
    ∧ ∀ c, some c ∈ (s.fut f).setBy → (s.co c).bound = some f ∧ (s.co c).st = St.done := by
  have hi := reachable_inv h
  by_cases hb : ∃ c', (s.co c').bound = some f
  · obtain ⟨c', hc'⟩ := hb
    by_cases hd : (s.co c').st = St.done
    · have := (hi.bound_done c' f hc' hd).2.2
      rw [this]; refine ⟨by simp, ?_⟩
      intro c hc; simp at hc; subst hc; exact ⟨hc', hd⟩
    · have := (hi.bound_live c' f hc' hd).2.2
      rw [this]; simp
  · have hb' : ∀ c, (s.co c).bound ≠ some f := fun c hc => hb ⟨c, hc⟩
    rcases hi.unbound_set f hb' with e | e
    · rw [e]; simp
    · rw [e.1]; simp

/-- What an awaiting coroutine receives is the outcome of the coroutine bound to the awaited future: whenever `c` has been
made resumable by future `f` (or finds it ready) and `j` is bound to `f`, then `j` has finished, its frame is gone, and `f`
holds exactly what `j`'s body produced — which is what `consume` hands to `c` (`c04_consume_reads`). -/
theorem c04_await_receives_bound_outcome {prog : Nat → List Act} {nExt : Nat} {s : State} (h : Reachable prog nExt s)
    (c j f : Nat) (hb : (s.co j).bound = some f) (hr : (s.fut f).ready = true) (_hc : (s.co c).st.refs f = true) :
    (s.co j).st = St.done ∧ (s.fut f).out = (s.co j).outcome ∧ (s.co j).frameFrees = 1 := by
  have hi := reachable_inv h
  have hd : (s.co j).st = St.done := by
    cases hd : decide ((s.co j).st = St.done)
    · have := (hi.bound_live j f hb (by simpa using hd)).1; rw [hr] at this; cases this
    · simpa using hd
  refine ⟨hd, (hi.bound_done j f hb hd).2.1, ?_⟩
  rw [(hi.co_ok j).frees]; simp [hd, St.freed]

/-- decision logic of `await_resume`: the value/exception taken is the content of the future (cancellation when the promise
was dropped); a value is added to the accumulator and logged, an exception is logged when caught and otherwise becomes the
outcome of the awaiting coroutine itself (propagation along the `co_await` chain). -/
theorem c04_consume_reads (s : State) (c f : Nat) (ct : Bool) :
    (∀ v, (s.fut f).out = some (Outcome.val v) →
        ((consume s c f ct).co c).saw = (f, Outcome.val v) :: (s.co c).saw ∧ ((consume s c f ct).co c).acc = (s.co c).acc + v)
    ∧ (∀ o, ((s.fut f).out).getD Outcome.canceled = o → (∀ v, o ≠ Outcome.val v) → ct = false →
        consume s c f ct = finish s c o) := by
  constructor
  · intro v hv; simp [consume, hv, setCo]
  · intro o ho hne hct
    unfold consume
    rw [ho]
    cases o with
    | val v => exact absurd rfl (hne v)
    | exc e => simp [hct]
    | canceled => simp [hct]

/-- **Destroyed without being started.**  Such a coroutine never ran (and never will, `c04_final_forever`), its arguments
were destroyed exactly once with the frame, no locals ever existed, nothing was delivered, nobody was bound. -/
theorem c04_unstarted {prog : Nat → List Act} {nExt : Nat} {s : State} (h : Reachable prog nExt s) (c : Nat)
    (hd : (s.co c).st = St.dropped) :
    (s.co c).bodyStarts = 0 ∧ (s.co c).argDtors = 1 ∧ (s.co c).frameFrees = 1 ∧ (s.co c).localDtors = 0
    ∧ (s.co c).deliveredTo = [] ∧ (s.co c).outcome = none ∧ (s.co c).bound = none ∧ (s.co c).startsOk = 0 := by
  have hc := (reachable_inv h).co_ok c
  have h1 := hc.body; have h2 := hc.frees; have h3 := hc.args; have h4 := hc.locals
  have h5 := hc.deliv; have h6 := hc.outc; have h7 := hc.unb; have h8 := hc.starts
  simp [hd, St.began, St.freed, St.started] at h1 h2 h4 h5 h6 h7 h8
  exact ⟨h1, by omega, h2, h4, h5, h6, h7, h8⟩

/-- as long as the handle sits in the `async` object the body has not run, nothing was freed, nothing is bound -/
theorem c04_unstarted_idle {prog : Nat → List Act} {nExt : Nat} {s : State} (h : Reachable prog nExt s) (c : Nat)
    (hu : (s.co c).st = St.unstarted) :
    (s.co c).bodyStarts = 0 ∧ (s.co c).frameFrees = 0 ∧ (s.co c).argDtors = 0 ∧ (s.co c).bound = none := by
  have hc := (reachable_inv h).co_ok c
  have h1 := hc.body; have h2 := hc.frees; have h3 := hc.args; have h7 := hc.unb
  simp [hu, St.began, St.freed, St.started] at h1 h2 h7
  exact ⟨h1, h2, by omega, h7⟩

/-- **`start(promise)` on an already claimed promise** returns `false`, leaves the coroutine unstarted (handle still in the
`async` object, not bound, body not run — `c04_unstarted_idle`) and changes nothing else; on an unclaimed promise it
returns `true`, claims it and binds the coroutine to exactly that future. -/
theorem c04_claimed_promise (s : State) (c k : Nat) (hu : (s.co c).st = St.unstarted) (hk : k < s.nExt) :
    ((s.fut k).claimed = true →
        (step s (Op.startP c k)).2 = Res.flag false
        ∧ ((step s (Op.startP c k)).1.co c).st = St.unstarted
        ∧ ((step s (Op.startP c k)).1.co c).bound = none
        ∧ ((step s (Op.startP c k)).1.co c).bodyStarts = (s.co c).bodyStarts
        ∧ (step s (Op.startP c k)).1.fut = s.fut
        ∧ ∀ c', c' ≠ c → (step s (Op.startP c k)).1.co c' = s.co c')
    ∧ ((s.fut k).claimed = false →
        (step s (Op.startP c k)).2 = Res.flag true
        ∧ ((step s (Op.startP c k)).1.co c).st = St.scheduled
        ∧ ((step s (Op.startP c k)).1.co c).bound = some k
        ∧ ((step s (Op.startP c k)).1.fut k).claimed = true) := by
  constructor
  · intro hc
    simp only [step, hu, hk, hc, and_self, if_true, setCo, upd_same, true_and]
    intro c' hc'; exact upd_ne _ _ hc'
  · intro hc
    simp [step, hu, hk, hc, startCoro, setCo, setFut]

/-- **Chain transfer.**  For a future created by `co_await child` / `child.start()` inside coroutine `p` (`owner = p`): the
only coroutine ever subscribed to it is `p`, at most once; and every suspension of a coroutine is matched by exactly one
wake-up (`wakes + [currently suspended] = suspends`), so nobody is resumed twice and nobody is resumed spuriously. -/
theorem c04_chain_transfer {prog : Nat → List Act} {nExt : Nat} {s : State} (h : Reachable prog nExt s) :
    (∀ f x, s.nExt ≤ f → x ∈ (s.fut f).waiters → (s.fut f).owner = some x)
    ∧ (∀ f x, (s.fut f).waiters.count x ≤ 1)
    ∧ (∀ c, (s.co c).wakes + (if (s.co c).st.susp then 1 else 0) = (s.co c).suspends) := by
  have hi := reachable_inv h
  refine ⟨?_, ?_, fun c => (hi.co_ok c).wake⟩
  · intro f x hf hx
    have hcount := hi.waiters_count x f
    have hpos : 0 < (s.fut f).waiters.count x := List.count_pos_iff.mpr hx
    have haw : (s.co x).st.isAw f = true := by
      cases ha : (s.co x).st.isAw f
      · rw [ha] at hcount; simp at hcount; omega
      · rfl
    exact hi.owner_only x f hf (St.isAw_refs haw)
  · intro f x; rw [hi.waiters_count x f]; split <;> omega

/-- **No lost wake-up.**  A suspended coroutine is on the chain of exactly the future it awaits, exactly once, and that
future is not resolved yet; a resolved future has an empty chain (everybody was made resumable by the resolution). -/
theorem c04_no_lost_wakeup {prog : Nat → List Act} {nExt : Nat} {s : State} (h : Reachable prog nExt s) :
    (∀ c f ct, (s.co c).st = St.awaiting f ct → (s.fut f).waiters.count c = 1 ∧ (s.fut f).ready = false)
    ∧ (∀ f, (s.fut f).ready = true → (s.fut f).waiters = []) := by
  have hi := reachable_inv h
  refine ⟨?_, fun f hf => (hi.ready_ok f hf).1⟩
  intro c f ct hs
  have hcount := hi.waiters_count c f
  simp [hs, St.isAw] at hcount
  refine ⟨hcount, ?_⟩
  cases hr : (s.fut f).ready
  · rfl
  · have := (hi.ready_ok f hr).1; rw [this] at hcount; simp at hcount

/-- the end of the child wakes the awaiting parent exactly once and hands over the result: if `j` (body still executing)
is bound to `f` and `p` is suspended on `f`, then after `j`'s `co_return`/`throw` + `final_awaiter`, `p` is resumable by `f`
with one more wake-up, `f` holds the outcome, `j`'s frame is destroyed — for every reachable state. -/
theorem c04_child_end_resumes_parent {prog : Nat → List Act} {nExt : Nat} {s : State} (h : Reachable prog nExt s)
    (j p f : Nat) (ct : Bool) (o : Outcome) (hb : (s.co j).bound = some f) (hm : (s.co j).st.mid = true)
    (hp : (s.co p).st = St.awaiting f ct) :
    ((finish s j o).co p).st = St.resumable f ct ∧ ((finish s j o).co p).wakes = (s.co p).wakes + 1
    ∧ ((finish s j o).fut f).out = some o ∧ ((finish s j o).fut f).ready = true
    ∧ ((finish s j o).co j).st = St.done := by
  have hi := reachable_inv h
  have hpj : p ≠ j := by intro e; subst e; rw [hp] at hm; simp [St.mid] at hm
  simp only [finish, hb]
  rw [finish_bound_eq s j f o hi hm]
  simp only [upd_ne _ _ hpj, upd_same, wk_of_aw _ f ct hp, delivered, retired, and_self]

/-- The binding of a coroutine never changes once made (on any schedule), and every future that was created for a
coroutine (`start()`, `co_await child`, …) has that coroutine bound to it: so a parent suspended on such a future always has
a started child that has not finished yet and whose end will resume it (`c04_child_end_resumes_parent`). -/
theorem c04_awaited_child_alive {prog : Nat → List Act} {nExt : Nat} {s : State} (h : Reachable prog nExt s)
    (p f : Nat) (ct : Bool) (hp : (s.co p).st = St.awaiting f ct) (hf : s.nExt ≤ f) :
    ∃ j, (s.co j).bound = some f ∧ (s.co j).st.started = true ∧ (s.co j).st ≠ St.done
      ∧ ∀ ops, ((run s ops).co j).bound = some f := by
  have hi := reachable_inv h
  have hab : AllBound s := by
    obtain ⟨cx, ops, rfl⟩ := h
    exact ab_run _ ops (inv_init prog nExt cx) (ab_init prog nExt cx)
  have hlt : f < s.nextFut := hi.refs_lt p f (by simp [hp, St.refs])
  obtain ⟨j, hj⟩ := hab f hf hlt
  have hnr := ((c04_no_lost_wakeup h).1 p f ct hp).2
  refine ⟨j, hj, ?_, ?_, ?_⟩
  · cases hs : (s.co j).st.started
    · have := (hi.co_ok j).unb hs; rw [this] at hj; cases hj
    · rfl
  · intro hd; have := (hi.bound_done j f hj hd).1; rw [hnr] at this; cases this
  · intro ops; exact bk_run s ops hi j f hj

/-- **The bound party is notified before the frame dies.**  `final_awaiter` resolves the bound future first and destroys
the frame afterwards: whenever a frame has been destroyed at its final suspend point, the bound future was already resolved at
that moment (`notifiedAtFree = some true`; no frame that is not `done` carries the mark).  In particular when the frame's
arguments are the last owner of the bound future (an operation object holding the result future and a completion callback,
`isOp`), the callback has been called — exactly once — before the operation dies with the frame. -/
theorem c04_notified_before_frame_dies {prog : Nat → List Act} {nExt : Nat} {s : State} (h : Reachable prog nExt s) (c : Nat) :
    ((s.co c).st = St.done → (s.co c).notifiedAtFree = some true
        ∧ ∀ f, (s.co c).bound = some f → (s.fut f).isOp = true → (s.fut f).cbCalls = 1 ∧ (s.fut f).cb = false)
    ∧ ((s.co c).st ≠ St.done → (s.co c).notifiedAtFree = none) := by
  have hi := reachable_inv h
  have hcb : CbInv s := by
    obtain ⟨cx, ops, rfl⟩ := h
    exact cb_run _ ops (cb_init prog nExt cx)
  have hn := (hi.co_ok c).notif
  constructor
  · intro hd
    refine ⟨by rw [hn]; simp [hd], ?_⟩
    intro f hf hop
    have hr := (hi.bound_done c f hf hd).1
    obtain ⟨h1, h2⟩ := hcb f
    rw [hop, hr] at h1 h2
    exact ⟨by simpa using h1, by simpa using h2⟩
  · intro hd; rw [hn]; simp [hd]

/-- a completion callback is called at most once over the whole run, exactly when its future gets resolved; futures without
a callback never call one -/
theorem c04_callback_once {prog : Nat → List Act} {nExt : Nat} {s : State} (h : Reachable prog nExt s) (f : Nat) :
    (s.fut f).cbCalls = (if (s.fut f).isOp && (s.fut f).ready then 1 else 0)
    ∧ (s.fut f).cb = ((s.fut f).isOp && !(s.fut f).ready) := by
  obtain ⟨cx, ops, rfl⟩ := h
  exact cb_run _ ops (cb_init prog nExt cx) f

/-- **Progress.**  A started coroutine that has not finished can always either take a step or is suspended on a future
that is not resolved yet — it is never stranded in a state nobody will move (the executor's ordering is C05's business). -/
theorem c04_progress {prog : Nat → List Act} {nExt : Nat} {s : State} (h : Reachable prog nExt s) (c : Nat)
    (hs : (s.co c).st.started = true) (hd : (s.co c).st ≠ St.done) :
    (stepCo s c).2 = Res.unit ∨ ∃ f ct, (s.co c).st = St.awaiting f ct ∧ (s.fut f).ready = false := by
  cases hst : (s.co c).st with
  | awaiting f ct => exact Or.inr ⟨f, ct, rfl, ((c04_no_lost_wakeup h).1 c f ct hst).2⟩
  | absent => simp [hst, St.started] at hs
  | unstarted => simp [hst, St.started] at hs
  | dropped => simp [hst, St.started] at hs
  | done => exact absurd hst hd
  | scheduled => left; simp [stepCo, hst]
  | yielded => left; simp [stepCo, hst]
  | resumable f ct => left; simp [stepCo, hst]
  | wantAwait f ct => left; simp only [stepCo, hst]; split <;> rfl
  | running => left; simp only [stepCo, hst]; split <;> rfl

/-! ### non-vacuity: concrete reachable states exercising the hypotheses -/

/-- coroutine 1 `co_await`s child 2, which awaits external future 0; coroutine 3 is detached and throws;
coroutine 4 is dropped unstarted; coroutine 5 is refused by `start(promise)` on the claimed promise 0 -/
def demoProg : Nat → List Act
  | 1 => [Act.awaitChild 2 true true, Act.ret 10]
  | 2 => [Act.awaitFut 0 true, Act.ret 5]
  | 3 => [Act.throw 7]
  | _ => []

def demoOps : List Op :=
  [Op.create 1, Op.start 1, Op.step 1, Op.step 1, Op.step 2, Op.step 2, Op.step 2,   -- 1 awaits 2 awaits ext 0
   Op.create 3, Op.detach 3, Op.step 3, Op.step 3,                                    -- detached, throws
   Op.create 4, Op.dropU 4,
   Op.setF 0 (Outcome.val 7), Op.create 5, Op.startP 5 0,                             -- refused
   Op.step 2, Op.step 2, Op.step 1, Op.step 1]

example : Reachable demoProg 1 (run (init demoProg 1) demoOps) := ⟨_, _, rfl⟩
example : ((run (init demoProg 1) (demoOps.take 7)).co 1).st = St.awaiting 2 true
    ∧ ((run (init demoProg 1) (demoOps.take 7)).co 2).st = St.awaiting 0 true := by decide
example : ((run (init demoProg 1) demoOps).co 1).outcome = some (Outcome.val 22)
    ∧ ((run (init demoProg 1) demoOps).co 1).st = St.done
    ∧ ((run (init demoProg 1) demoOps).fut 1).out = some (Outcome.val 22)
    ∧ ((run (init demoProg 1) demoOps).co 2).deliveredTo = [2]
    ∧ ((run (init demoProg 1) demoOps).co 3).st = St.done
    ∧ ((run (init demoProg 1) demoOps).co 3).deliveredTo = []
    ∧ ((run (init demoProg 1) demoOps).co 4).st = St.dropped
    ∧ ((run (init demoProg 1) demoOps).co 5).st = St.unstarted
    ∧ ((run (init demoProg 1) demoOps).co 1).wakes = 1 := by decide

/-- coroutine 1 is started bound to the result future of an operation object that its own frame owns (`start 1 true`),
suspends on external future 0, the driver resolves it, the coroutine consumes the value -/
def opProg : Nat → List Act
  | 1 => [Act.awaitFut 0 true, Act.ret 5]
  | _ => []
def opOps : List Op :=
  [Op.create 1, Op.start 1 true, Op.step 1, Op.step 1, Op.step 1, Op.setF 0 (Outcome.val 7), Op.step 1]

/-- the code as it is: resolve, then destroy — callback called once, frame died notified -/
example : ((run (init opProg 1) (opOps ++ [Op.step 1])).co 1).notifiedAtFree = some true
    ∧ ((run (init opProg 1) (opOps ++ [Op.step 1])).fut 1).cbCalls = 1
    ∧ ((run (init opProg 1) (opOps ++ [Op.step 1])).fut 1).out = some (Outcome.val 12) := by decide

/-- The seeded variant that destroys the frame *before* `resolve()` (`finishDestroyFirst`) violates the property on exactly
this program: the operation — and the pending future in it — dies with the frame, the callback is never called, the result
reaches nobody (replayed on the headers by corpus/c04_opfuture.txt). -/
theorem c04_destroy_first_violates :
    ((finishDestroyFirst (run (init opProg 1) opOps) 1 (Outcome.val 12)).co 1).notifiedAtFree = some false
    ∧ ((finishDestroyFirst (run (init opProg 1) opOps) 1 (Outcome.val 12)).fut 1).cbCalls = 0
    ∧ ((finishDestroyFirst (run (init opProg 1) opOps) 1 (Outcome.val 12)).fut 1).ready = false := by decide

/-! ### result types whose construction at `co_return` can throw -/

/-- what `finish` leaves in the record of the finishing coroutine itself -/
theorem finish_self (s : State) (c : Nat) (o : Outcome) :
    ((finish s c o).co c).st = St.done ∧ ((finish s c o).co c).outcome = some o
    ∧ ((finish s c o).co c).bound = (s.co c).bound := by
  unfold finish
  split
  · rename_i hb; simp [retire, setCo, hb]
  · rename_i f hb; simp [retire, setCo, deliver, resolve, setFut, wakeOne, hb]

/-- **`co_return` with any result type, for the rest of every run.**  In every reachable state (any program, any start mode,
any result-constructor behaviour `ctorExc`), when coroutine `c` executes `co_return v` (operand converted, or copied when
`cp`), then after that step and after *every* continuation `ops` of the schedule: `c` is finished, what it ended with is
`resultOf …` — the value, or, for a bound coroutine whose result construction throws `e`, the exception `e` —; its binding is
unchanged; a detached coroutine delivered to nobody (and nothing was constructed, so nothing threw); and the bound future is
ready, holds exactly that outcome — in particular it is never left without a value — and was written once, by `c`. -/
theorem c04_result_construction {prog : Nat → List Act} {nExt : Nat} {s : State} (h : Reachable prog nExt s)
    (c v : Nat) (cp : Bool) (rest : List Act)
    (hr : (s.co c).st = St.running) (hpc : (s.co c).pc = Act.ret v cp :: rest) (ops : List Op) :
    ((run s (Op.step c :: ops)).co c).st = St.done
    ∧ ((run s (Op.step c :: ops)).co c).outcome = some (resultOf s.ctorExc (s.co c).bound cp (v + (s.co c).acc))
    ∧ ((run s (Op.step c :: ops)).co c).bound = (s.co c).bound
    ∧ ((s.co c).bound = none → ((run s (Op.step c :: ops)).co c).deliveredTo = [])
    ∧ ∀ f, (s.co c).bound = some f →
        ((run s (Op.step c :: ops)).fut f).ready = true
        ∧ ((run s (Op.step c :: ops)).fut f).out = some (resultOf s.ctorExc (s.co c).bound cp (v + (s.co c).acc))
        ∧ ((run s (Op.step c :: ops)).fut f).setBy = [some c] := by
  have ht : Reachable prog nExt (run s (Op.step c :: ops)) := reachable_run h _
  have e1 : (step s (Op.step c)).1
      = finish (setCo s c { s.co c with pc := rest }) c (resultOf s.ctorExc (s.co c).bound cp (v + (s.co c).acc)) := by
    simp [step, stepCo, hr, hpc, execAct, setCo]
  have hrun : run s (Op.step c :: ops) = run (step s (Op.step c)).1 ops := rfl
  obtain ⟨a1, a2, a3⟩ := finish_self (setCo s c { s.co c with pc := rest }) c
    (resultOf s.ctorExc (s.co c).bound cp (v + (s.co c).acc))
  have a3' : ((step s (Op.step c)).1.co c).bound = (s.co c).bound := by rw [e1, a3]; simp [setCo]
  rw [← e1] at a1 a2
  obtain ⟨b1, b2, b3⟩ := (le_run (step s (Op.step c)).1 ops c).2 a1
  rw [← hrun] at b1 b2 b3
  have hd := c04_delivery ht c b1
  refine ⟨b1, by rw [b2, a2], by rw [b3, a3'], ?_, ?_⟩
  · intro hb; rw [hd.1, b3, a3', hb]; rfl
  · intro f hf
    have := hd.2.2 f (by rw [b3, a3', hf])
    refine ⟨this.1, by rw [this.2.1, b2, a2], this.2.2⟩

/-- **The exception of a throwing result constructor reaches the bound party.**  If `c` is bound to `f` and constructing the
result from the `co_return` operand throws `e`, then for the rest of every run `f` is ready and holds *that exception* (not
"no value"/`await_canceled_exception`, not the value), stored once by `c`, and it is what `c` is recorded to have ended with. -/
theorem c04_ctor_exception_delivered {prog : Nat → List Act} {nExt : Nat} {s : State} (h : Reachable prog nExt s)
    (c v f e : Nat) (cp : Bool) (rest : List Act)
    (hr : (s.co c).st = St.running) (hpc : (s.co c).pc = Act.ret v cp :: rest)
    (hb : (s.co c).bound = some f) (he : s.ctorExc cp (v + (s.co c).acc) = some e) (ops : List Op) :
    ((run s (Op.step c :: ops)).fut f).ready = true
    ∧ ((run s (Op.step c :: ops)).fut f).out = some (Outcome.exc e)
    ∧ ((run s (Op.step c :: ops)).fut f).setBy = [some c]
    ∧ ((run s (Op.step c :: ops)).co c).outcome = some (Outcome.exc e) := by
  have hres : resultOf s.ctorExc (s.co c).bound cp (v + (s.co c).acc) = Outcome.exc e := by simp [resultOf, hb, he]
  obtain ⟨_, h2, _, _, h5⟩ := c04_result_construction h c v cp rest hr hpc ops
  rw [hres] at h2 h5
  exact ⟨(h5 f hb).1, (h5 f hb).2.1, (h5 f hb).2.2, h2⟩

/-- a detached coroutine constructs no result at all: whatever the constructor would do with the operand, the coroutine ends
with the value, nothing is delivered anywhere -/
theorem c04_detached_constructs_nothing {prog : Nat → List Act} {nExt : Nat} {s : State} (h : Reachable prog nExt s)
    (c v : Nat) (cp : Bool) (rest : List Act)
    (hr : (s.co c).st = St.running) (hpc : (s.co c).pc = Act.ret v cp :: rest)
    (hb : (s.co c).bound = none) (ops : List Op) :
    ((run s (Op.step c :: ops)).co c).outcome = some (Outcome.val (v + (s.co c).acc))
    ∧ ((run s (Op.step c :: ops)).co c).deliveredTo = [] := by
  obtain ⟨_, h2, _, h4, _⟩ := c04_result_construction h c v cp rest hr hpc ops
  exact ⟨by rw [h2]; simp [resultOf, hb], h4 hb⟩

/-- the same at the end of the script (`co_return acc`, operand converted) -/
theorem c04_result_construction_at_end {prog : Nat → List Act} {nExt : Nat} {s : State} (h : Reachable prog nExt s)
    (c : Nat) (hr : (s.co c).st = St.running) (hpc : (s.co c).pc = []) (ops : List Op) :
    ((run s (Op.step c :: ops)).co c).st = St.done
    ∧ ((run s (Op.step c :: ops)).co c).outcome = some (resultOf s.ctorExc (s.co c).bound false (s.co c).acc)
    ∧ ∀ f, (s.co c).bound = some f →
        ((run s (Op.step c :: ops)).fut f).ready = true
        ∧ ((run s (Op.step c :: ops)).fut f).out = some (resultOf s.ctorExc (s.co c).bound false (s.co c).acc) := by
  have ht : Reachable prog nExt (run s (Op.step c :: ops)) := reachable_run h _
  have e1 : (step s (Op.step c)).1 = finish s c (resultOf s.ctorExc (s.co c).bound false (s.co c).acc) := by
    simp [step, stepCo, hr, hpc]
  have hrun : run s (Op.step c :: ops) = run (step s (Op.step c)).1 ops := rfl
  obtain ⟨a1, a2, a3⟩ := finish_self s c (resultOf s.ctorExc (s.co c).bound false (s.co c).acc)
  rw [← e1] at a1 a2 a3
  obtain ⟨b1, b2, b3⟩ := (le_run (step s (Op.step c)).1 ops c).2 a1
  rw [← hrun] at b1 b2 b3
  have hd := c04_delivery ht c b1
  refine ⟨b1, by rw [b2, a2], ?_⟩
  intro f hf
  have := hd.2.2 f (by rw [b3, a3, hf])
  exact ⟨this.1, by rw [this.2.1, b2, a2]⟩

/-- result type of the harness (`struct picky`): converting `v` throws `20 + v % 3` when `v % 4 = 1`, copying throws
`30 + v % 3` when `v % 4 = 2` -/
def pkCx : Bool → Nat → Option Nat := fun cp v =>
  if cp then (if v % 4 = 2 then some (30 + v % 3) else none) else (if v % 4 = 1 then some (20 + v % 3) else none)

/-- coroutine 1 `co_await`s child 2 without catching; child 2 awaits external future 0 and `co_return`s a copy of `2 + value`;
coroutine 3 is detached and `co_return`s 5 (the converting constructor would throw, but nothing is constructed) -/
def pkProg : Nat → List Act
  | 1 => [Act.awaitChild 2 true false, Act.ret 1]
  | 2 => [Act.awaitFut 0 true, Act.ret 2 true]
  | 3 => [Act.ret 5]
  | _ => []

def pkOps : List Op :=
  [Op.create 1, Op.start 1, Op.step 1, Op.step 1, Op.step 2, Op.step 2, Op.step 2, Op.setF 0 (Outcome.val 4), Op.step 2]

/-- non-vacuity of `c04_ctor_exception_delivered`: the hypotheses hold in a reachable state (child 2, bound to future 2, is at
`co_return` of a copy of 6, whose copy constructor throws 30), … -/
example : Reachable pkProg 1 (run (init pkProg 1 pkCx) pkOps) := ⟨_, _, rfl⟩
example : ((run (init pkProg 1 pkCx) pkOps).co 2).st = St.running
    ∧ ((run (init pkProg 1 pkCx) pkOps).co 2).pc = [Act.ret 2 true]
    ∧ ((run (init pkProg 1 pkCx) pkOps).co 2).bound = some 2
    ∧ (run (init pkProg 1 pkCx) pkOps).ctorExc true (2 + ((run (init pkProg 1 pkCx) pkOps).co 2).acc) = some 30 := by decide
/-- … the exception reaches the awaiting parent (future 2), propagates (uncaught) to the parent's own bound future 1, and
the detached coroutine 3 ends with the value although `picky(5)` would throw -/
example :
    let t := run (init pkProg 1 pkCx) (pkOps ++ [Op.step 2, Op.step 1, Op.create 3, Op.detach 3, Op.step 3, Op.step 3])
    (t.fut 2).out = some (Outcome.exc 30) ∧ (t.fut 2).ready = true ∧ (t.fut 2).setBy = [some 2]
    ∧ (t.co 1).outcome = some (Outcome.exc 30) ∧ (t.fut 1).out = some (Outcome.exc 30)
    ∧ (t.co 3).outcome = some (Outcome.val 5) ∧ (t.co 3).deliveredTo = [] := by decide

/-- The seeded variant that takes the `_resolved` flag before `set()` runs (`finishFlagFirst`) violates the property on exactly
this program: the bound future of child 2 is resolved *without a value* (the parent would see `await_canceled_exception`)
although the coroutine ended with exception 30 (replayed on the headers by corpus/c04_result_ctor_throws.txt). -/
theorem c04_flag_before_set_violates :
    ((finishFlagFirst (run (init pkProg 1 pkCx) pkOps) 2 true 6).fut 2).ready = true
    ∧ ((finishFlagFirst (run (init pkProg 1 pkCx) pkOps) 2 true 6).fut 2).out = none
    ∧ ((finishFlagFirst (run (init pkProg 1 pkCx) pkOps) 2 true 6).co 2).outcome = some (Outcome.exc 30) := by decide

end Cocls.Async

/-!
# Racing `start(promise)` on one shared promise (thread level)

Model: `CoclsModel/AsyncRace.lean` — any number `c.n` of threads, each either starting its own fresh coroutine with
`start(shared_promise)` (body returns / awaits a gate first / throws), or invoking the promise (`p(value)`, `p(exception)`,
`p(drop)`), or destroying it; one step per atomic operation of the code; a schedule is any list of thread ids.
`OneDtor` is the C++ lifetime precondition that the promise object is destroyed at most once.
-/
namespace Cocls.AsyncRace
open Cocls.Async (Outcome)

/-- precondition: at most one thread destroys the promise object -/
def OneDtor (c : Cfg) : Prop := ∀ x y, c.kind x = Kind.dtor → c.kind y = Kind.dtor → x = y

theorem reachable_inv (c : Cfg) (hd : OneDtor c) (sched : List Nat) : Inv c (run c {} sched) :=
  inv_run c {} sched hd (inv_init c)

/-- **Exactly one claim succeeds**: for any number of contenders and every interleaving of their atomic operations, at
most one call (`start(promise)` or `p(...)`) obtains the future, and while the promise is still armed nobody has. -/
theorem c04_race_unique_winner (c : Cfg) (hd : OneDtor c) (sched : List Nat) :
    (∀ a b, (run c {} sched).claimed a = some true → (run c {} sched).claimed b = some true → a = b)
    ∧ ((run c {} sched).owner = true → ∀ a, (run c {} sched).claimed a ≠ some true) :=
  ⟨(reachable_inv c hd sched).unique, fun h => ((reachable_inv c hd sched).owner_free h).1⟩

/-- **A loser stays unstarted**: a `start(promise)` that did not obtain the future (returned `false`, or has not
claimed yet) never runs its body, never destroys its frame/arguments, and its coroutine is not parked anywhere —
on every schedule, at every point of the run. -/
theorem c04_race_loser_unstarted (c : Cfg) (hd : OneDtor c) (sched : List Nat) (a : Nat)
    (h : (run c {} sched).claimed a ≠ some true) :
    (run c {} sched).bodyStarts a = 0 ∧ (run c {} sched).argDtors a = 0 ∧ (run c {} sched).suspended a = false :=
  (reachable_inv c hd sched).loser_idle a h

/-- **Body and frame at most once, only for the winner**. -/
theorem c04_race_body_once (c : Cfg) (hd : OneDtor c) (sched : List Nat) (a : Nat) :
    (run c {} sched).bodyStarts a ≤ 1 ∧ (run c {} sched).argDtors a ≤ 1
    ∧ ((run c {} sched).bodyStarts a = 1 → (run c {} sched).claimed a = some true) := by
  have hi := reachable_inv c hd sched
  refine ⟨(hi.body_le a).1, (hi.body_le a).2, ?_⟩
  intro hb
  cases hc : decide ((run c {} sched).claimed a = some true)
  · have := (hi.loser_idle a (by simpa using hc)).1; omega
  · simpa using hc

/-- **The future holds the winner's outcome and is resolved once**: whatever the shared future holds was stored by
the unique winner (the value its coroutine returned / the exception it threw / the value passed to `p(...)`), and
`resolve()` ran at most once. -/
theorem c04_race_delivery (c : Cfg) (hd : OneDtor c) (sched : List Nat) :
    (∀ x a, (run c {} sched).fut = some x → (run c {} sched).claimed a = some true → x = (c.kind a).payload)
    ∧ (run c {} sched).resolves ≤ 1 := by
  have hi := reachable_inv c hd sched
  refine ⟨fun x a hx ha => hi.fut_winner x hx a ha, ?_⟩
  rw [hi.resolves_eq]; split <;> omega

/-- The seeded check-then-claim variant of `start_promise` (`if (!p) return nullptr; _future = p.claim(); return
start_coro();`) violates all of the above: with two racing starters and the alternating schedule both calls report
success and both bodies run (replayed on the headers by the `start-promise-race` suite). -/
theorem c04_race_check_then_claim_violates :
    let c : Cfg := { n := 2, kind := fun i => Kind.start (10 + i) }
    let s := runMut c {} [0, 1, 0, 1, 0, 1, 0, 1]
    s.claimed 0 = some true ∧ s.claimed 1 = some true ∧ s.bodyStarts 0 = 1 ∧ s.bodyStarts 1 = 1 ∧ s.detached 1 = true := by
  decide

/-- non-vacuity: the same schedule on the real step function: thread 0 wins and runs, thread 1 is refused -/
example :
    let c : Cfg := { n := 2, kind := fun i => Kind.start (10 + i) }
    let s := run c {} [0, 1, 0, 1, 0, 1]
    s.claimed 0 = some true ∧ s.claimed 1 = some false ∧ s.bodyStarts 0 = 1 ∧ s.bodyStarts 1 = 0
      ∧ s.fut = some (some (Outcome.val 10)) := by
  decide

end Cocls.AsyncRace
