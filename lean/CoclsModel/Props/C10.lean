import CoclsModel.LimitedQueueProofs
/-!
# C10 — bounded queue: back-pressure without losing or duplicating items

Model: `CoclsModel/LimitedQueue.lean` (one step per lock region of `limited_queue`, out-of-lock promise
resolutions as separate `deliver` steps).  Every theorem below quantifies over *all* limits ≥ 1 and *all*
operation lists (any number of producers/consumers: an interleaving of their lock regions and resolutions is
an operation list) - including the operations on throwing items: `pushthrow` (the item refuses to be
constructed), `pushmv` / `popthrow` / `upushthrow` (a call during which the hand-overs - move or copy
constructions of the item - number `g … g+n-1` throw, for every `g`, `n`).  No theorem excludes them by a
precondition: `Reachable` is reachability by arbitrary operation lists.
-/
namespace Cocls.LQ

/-- every reachable state -/
def Reachable (limit : Nat) (s : State) : Prop := ∃ ops, s = run (init limit) ops

theorem reachable_inv {limit : Nat} (hl : 0 < limit) {s : State} (h : Reachable limit s) : Inv s := by
  obtain ⟨ops, rfl⟩ := h
  exact inv_run (init limit) ops hl (inv_init limit)

/-- Exactly once: every pushed item (identified by the serial number of its push) is, at any time, held in
exactly one place — handed to a pop, waiting in the queue, or held by its blocked push — or was withdrawn by
`unblock_push` / its own exception on admission / destruction exactly once; never both, never twice, never
nowhere.  Holds after histories with throwing operations as well: a pop, push or unblock_push that throws
neither drops nor duplicates an item. -/
theorem c10_exactly_once {limit : Nat} (hl : 0 < limit) {s : State} (h : Reachable limit s) (i : Nat) :
    (heldIds s).count i + s.withdrawn.count i = if i < s.nextPush then 1 else 0 :=
  (reachable_inv hl h).item_once i

/-- Order: items handed to pops, then the queue, then the blocked pushes, are in strict push order. In
particular the sequence of items handed out is a strictly increasing sequence of push serials (no reordering,
no duplicate), blocked pushes included - also when pops failed and were retried in between. -/
theorem c10_order {limit : Nat} (hl : 0 < limit) {s : State} (h : Reachable limit s) :
    (s.assigned.map (·.2.1) ++ s.items.map (·.1) ++ s.blocked.map (·.1)).Pairwise (· < ·) :=
  (reachable_inv hl h).held_sorted

/-- Pops are served in arrival order: the pops that received items, followed by the parked ones, are in
strictly increasing arrival order (so with `c10_order`: the k-th served pop gets the k-th surviving item). -/
theorem c10_pops_in_arrival_order {limit : Nat} (hl : 0 < limit) {s : State} (h : Reachable limit s) :
    (s.assigned.map (·.1) ++ s.waiters).Pairwise (· < ·) :=
  (reachable_inv hl h).pops_sorted

/-- `size() ≤ limit`, and producers are blocked only while the queue is full (a pop whose admission loop failed
some producers still refills the queue from the next one, so no producer waits in front of a free slot). -/
theorem c10_size_le_limit {limit : Nat} (hl : 0 < limit) {s : State} (h : Reachable limit s) :
    s.items.length ≤ s.limit ∧ (s.blocked ≠ [] → s.items.length = s.limit) :=
  ⟨(reachable_inv hl h).len_le, (reachable_inv hl h).blocked_full⟩

/-- consumers wait only while there is nothing to take (neither queued nor blocked items) -/
theorem c10_waiters_only_when_empty {limit : Nat} (hl : 0 < limit) {s : State} (h : Reachable limit s) :
    s.waiters ≠ [] → s.items = [] ∧ s.blocked = [] :=
  (reachable_inv hl h).waiters_empty

/-- every pop future is in exactly one place: parked, in flight (decided, being resolved) or completed once -/
theorem c10_pop_completed_once {limit : Nat} (hl : 0 < limit) {s : State} (h : Reachable limit s) (i : Nat) :
    s.waiters.count i + (popIds s.inflight).count i + (popIds s.completed).count i
      = if i < s.nextPop then 1 else 0 :=
  (reachable_inv hl h).pop_once i

/-- every push future is in exactly one place: blocked, in flight or completed once -/
theorem c10_push_completed_once {limit : Nat} (hl : 0 < limit) {s : State} (h : Reachable limit s) (i : Nat) :
    (s.blocked.map (·.1)).count i + (pushIds s.inflight).count i + (pushIds s.completed).count i
      = if i < s.nextPush then 1 else 0 :=
  (reachable_inv hl h).push_once i

/-- The producer is told the truth: a push future was failed (by `unblock_push`, by the exception of its own item
when it was admitted, by the destruction of the queue) exactly as often as its item was withdrawn - with
`c10_exactly_once` and `c10_push_completed_once`: an item whose push completed normally is never withdrawn (it is
delivered or still queued), and an item whose push failed is never delivered. -/
theorem c10_failed_iff_withdrawn {limit : Nat} (hl : 0 < limit) {s : State} (h : Reachable limit s) (i : Nat) :
    (failedPushes s.inflight).count i + (failedPushes s.completed).count i = s.withdrawn.count i :=
  (reachable_inv hl h).failed_withdrawn i

/-- Back-pressure, decision logic: with no consumer waiting, a push completes at once iff fewer than `limit`
items are queued; otherwise it stays pending and its item is in `blocked` and nowhere else. -/
theorem c10_backpressure (s : State) (v : Nat) (hw : s.waiters = []) :
    (s.items.length < s.limit →
        (stepPush s v).2 = Res.push s.nextPush true ∧ (stepPush s v).1.items = s.items ++ [(s.nextPush, v)]
        ∧ (stepPush s v).1.blocked = s.blocked) ∧
    (s.limit ≤ s.items.length →
        (stepPush s v).2 = Res.push s.nextPush false ∧ (stepPush s v).1.items = s.items
        ∧ (stepPush s v).1.blocked = s.blocked ++ [(s.nextPush, v)]
        ∧ (stepPush s v).1.assigned = s.assigned ∧ (stepPush s v).1.inflight = s.inflight) := by
  unfold stepPush
  constructor
  · intro h
    have : ¬ s.items.length ≥ s.limit := by omega
    simp [hw, this]
  · intro h
    have : s.items.length ≥ s.limit := h
    simp [hw, this]

/-- a push that finds a waiting consumer hands its item to the *oldest* one and completes at once -/
theorem c10_push_to_oldest_waiter (s : State) (v w : Nat) (ws : List Nat) (hw : s.waiters = w :: ws) :
    (stepPush s v).2 = Res.push s.nextPush true ∧ (stepPush s v).1.waiters = ws
    ∧ (stepPush s v).1.inflight = s.inflight ++ [Ev.pop w (Out.val s.nextPush v)]
    ∧ (stepPush s v).1.items = s.items := by
  unfold stepPush; simp [hw]

/-- one blocked push is admitted per pop, the oldest one, and its item enters the queue behind the others -/
theorem c10_blocked_fifo_one_per_pop (s : State) (x b : Nat × Nat) (xs bs : List (Nat × Nat))
    (hi : s.items = x :: xs) (hb : s.blocked = b :: bs) :
    (stepPop s).2 = Res.pop s.nextPop (some (Out.val x.1 x.2)) ∧ (stepPop s).1.items = xs ++ [b]
    ∧ (stepPop s).1.blocked = bs ∧ (stepPop s).1.inflight = s.inflight ++ [Ev.push b.1 Out.ok] := by
  unfold stepPop stepPopF; simp [hi, hb, admitLoop, throwsAt]

/-- `unblock_push` fails exactly the oldest blocked push, withdraws its item, changes nothing else;
with no blocked push it reports false and is a no-op -/
theorem c10_unblock_push (s : State) (c : Nat) :
    (s.blocked = [] → stepUpush s c = (s, Res.flag false)) ∧
    (∀ b bs, s.blocked = b :: bs →
        (stepUpush s c).2 = Res.flag true ∧ (stepUpush s c).1.blocked = bs
        ∧ (stepUpush s c).1.inflight = s.inflight ++ [Ev.push b.1 (Out.exc c)]
        ∧ (stepUpush s c).1.items = s.items ∧ (stepUpush s c).1.waiters = s.waiters
        ∧ (stepUpush s c).1.assigned = s.assigned) := by
  unfold stepUpush
  constructor
  · intro h; simp [h]
  · intro b bs h; simp [h]

/-! ## Throwing items: failure atomicity -/

/-- Failure atomicity of `pop`, for every state and every fault plan: a pop throws exactly when there is an item to
deliver and its hand-over to the consumer (#1) throws, and then *nothing* has changed - the item is still at the head
of the queue, the blocked list, the parked pops, the resolutions in flight (the pending pushes) and everything that
was handed out are what they were, no pop serial is used up: the consumer may simply retry.  (A later hand-over of
the same call - the admission of a blocked producer - never makes `pop` throw.) -/
theorem c10_pop_throw_changes_nothing (s : State) (g n : Nat) :
    ((stepPopF s g n).2 = Res.threw ↔ (s.items ≠ [] ∧ throwsAt g n 1 = true))
    ∧ ((stepPopF s g n).2 = Res.threw → (stepPopF s g n).1 = s) := by
  unfold stepPopF
  cases hi : s.items with
  | nil => simp
  | cons x xs =>
    by_cases ht : throwsAt g n 1 = true
    · simp [ht]
    · simp [ht]

/-- A pop that does not throw at the delivery behaves towards the consumer exactly as a pop of nothrow items:
same result, same item, whatever happens in the admission loop afterwards. -/
theorem c10_pop_delivers_head (s : State) (g n : Nat) (x : Nat × Nat) (xs : List (Nat × Nat))
    (hi : s.items = x :: xs) (ht : throwsAt g n 1 = false) :
    (stepPopF s g n).2 = Res.pop s.nextPop (some (Out.val x.1 x.2))
    ∧ (stepPopF s g n).1.assigned = s.assigned ++ [(s.nextPop, x)] := by
  rw [stepPopF_eq s g n x xs hi ht]; simp [popState]

/-- while no hand-over throws (plain `pop`), a pop never fails a blocked producer and withdraws nothing -/
theorem c10_nothrow_pop_fails_nobody (s : State) :
    (stepPop s).1.withdrawn = s.withdrawn ∧ failedPushes (stepPop s).1.inflight = failedPushes s.inflight := by
  unfold stepPop stepPopF
  cases hi : s.items with
  | nil => simp
  | cons x xs =>
    cases hb : s.blocked with
    | nil => simp [admitLoop, throwsAt]
    | cons b bs => simp [admitLoop, throwsAt]

/-- The admission loop of a delivering pop, for every fault plan: the blocked list splits into the producers that
were failed (`f`, the oldest ones, each because the hand-over of *its own* item threw), at most one admitted producer
`a` (the next one, whose hand-over did not throw) and the untouched rest `r`; the failed producers get the item's
exception and their items are withdrawn, the admitted item enters the queue behind the others, and the rest is
non-empty only if somebody was admitted (the free slot is never left empty in front of a blocked producer). -/
theorem c10_pop_admission (s : State) (g n : Nat) (x : Nat × Nat) (xs : List (Nat × Nat))
    (hi : s.items = x :: xs) (ht : throwsAt g n 1 = false) :
    ∃ f a r, s.blocked = f ++ Option.toList a ++ r ∧ (a = none → r = [])
      ∧ (∀ j, j < f.length → throwsAt g n (2 + j) = true)
      ∧ (a ≠ none → throwsAt g n (2 + f.length) = false)
      ∧ (stepPopF s g n).1.items = xs ++ Option.toList a
      ∧ (stepPopF s g n).1.blocked = r
      ∧ (stepPopF s g n).1.withdrawn = s.withdrawn ++ f.map (·.1)
      ∧ (stepPopF s g n).1.inflight = s.inflight ++ f.map (fun b => Ev.push b.1 Out.itemerr)
            ++ (Option.toList a).map (fun b => Ev.push b.1 Out.ok) := by
  rw [stepPopF_eq s g n x xs hi ht]
  obtain ⟨e1, e2⟩ := admitLoop_spec g n s.blocked 2
  refine ⟨_, _, _, e1, e2, ?_, ?_, rfl, rfl, rfl, rfl⟩
  · exact (admitLoop_faults g n s.blocked 2).1
  · exact (admitLoop_faults g n s.blocked 2).2

/-- Failure atomicity of `push`.  A push under a fault plan that throws changed nothing at all.  A push whose item
refuses to be constructed creates no item and no push serial; queue, blocked producers, everything handed out and
everything withdrawn are unchanged; the only effect is on a consumer that was waiting: the oldest one had already
been taken for the hand-over and completes as canceled (out of the lock). -/
theorem c10_push_throw_changes_nothing (s : State) :
    (∀ v g n, (stepPushMv s v g n).2 = Res.threw → (stepPushMv s v g n).1 = s)
    ∧ (stepPushThrow s).2 = Res.threw
    ∧ (stepPushThrow s).1.items = s.items ∧ (stepPushThrow s).1.blocked = s.blocked
    ∧ (stepPushThrow s).1.nextPush = s.nextPush ∧ (stepPushThrow s).1.assigned = s.assigned
    ∧ (stepPushThrow s).1.withdrawn = s.withdrawn ∧ (stepPushThrow s).1.completed = s.completed
    ∧ (s.waiters = [] → (stepPushThrow s).1 = s)
    ∧ (∀ w ws, s.waiters = w :: ws → (stepPushThrow s).1.waiters = ws
          ∧ (stepPushThrow s).1.inflight = s.inflight ++ [Ev.pop w Out.canceled]) := by
  refine ⟨?_, ?_⟩
  · intro v g n
    unfold stepPushMv
    split
    · intro _; rfl
    · intro h
      exfalso
      unfold stepPush at h
      split at h
      · simp at h
      · split at h <;> simp at h
  · unfold stepPushThrow
    cases hw : s.waiters with
    | nil => simp
    | cons w ws => simp

/-- a push under a fault plan throws only on the blocking path (nobody waiting, queue full: the only path that hands
the item over), and only when one of its two hand-overs is hit; otherwise it is an ordinary push -/
theorem c10_push_throws_only_when_blocking (s : State) (v g n : Nat) :
    ((stepPushMv s v g n).2 = Res.threw ↔
        (s.waiters = [] ∧ s.limit ≤ s.items.length ∧ (throwsAt g n 1 = true ∨ throwsAt g n 2 = true)))
    ∧ ((stepPushMv s v g n).2 ≠ Res.threw → stepPushMv s v g n = stepPush s v) := by
  have hne : (stepPush s v).2 ≠ Res.threw := by
    unfold stepPush
    split
    · simp
    · split <;> simp
  unfold stepPushMv
  by_cases hc : (s.waiters.isEmpty && decide (s.items.length ≥ s.limit) && (throwsAt g n 1 || throwsAt g n 2)) = true
  · rw [if_pos hc]
    simp only [Bool.and_eq_true, Bool.or_eq_true, decide_eq_true_eq, List.isEmpty_iff] at hc
    refine ⟨⟨fun _ => ⟨hc.1.1, hc.1.2, hc.2⟩, fun _ => rfl⟩, fun h => absurd rfl h⟩
  · rw [if_neg hc]
    refine ⟨⟨fun h => absurd h hne, ?_⟩, fun _ => rfl⟩
    intro ⟨h1, h2, h3⟩
    exfalso; apply hc
    simp only [Bool.and_eq_true, Bool.or_eq_true, decide_eq_true_eq, List.isEmpty_iff]
    exact ⟨⟨h1, h2⟩, h3⟩

/-- Failure atomicity of `unblock_push`: it throws only when there is a blocked producer and moving its entry out
(#1) throws, and then nothing changed (the producer stays blocked, its item stays with it). -/
theorem c10_unblock_push_throw_changes_nothing (s : State) (c g n : Nat) :
    ((stepUpushF s c g n).2 = Res.threw ↔ (s.blocked ≠ [] ∧ throwsAt g n 1 = true))
    ∧ ((stepUpushF s c g n).2 = Res.threw → (stepUpushF s c g n).1 = s)
    ∧ ((stepUpushF s c g n).2 ≠ Res.threw → stepUpushF s c g n = stepUpush s c) := by
  have hne : (stepUpush s c).2 ≠ Res.threw := by
    unfold stepUpush; split <;> simp
  unfold stepUpushF
  by_cases hc : (!s.blocked.isEmpty && throwsAt g n 1) = true
  · rw [if_pos hc]
    simp only [Bool.and_eq_true, Bool.not_eq_true', List.isEmpty_eq_false_iff] at hc
    exact ⟨⟨fun _ => hc, fun _ => rfl⟩, fun _ => rfl, fun h => absurd rfl h⟩
  · rw [if_neg hc]
    refine ⟨⟨fun h => absurd h hne, ?_⟩, fun h => absurd h hne, fun _ => rfl⟩
    intro ⟨h1, h2⟩
    exfalso; apply hc
    simp only [Bool.and_eq_true, Bool.not_eq_true', List.isEmpty_eq_false_iff]
    exact ⟨h1, h2⟩

/-- Retry: after any number of pops that threw, the state is the one before them - so the next pop that does not
throw delivers what the first attempt would have delivered (nothing lost, nothing skipped, same order). -/
theorem c10_failed_pops_then_retry (s : State) (faults : List (Nat × Nat))
    (hf : ∀ p ∈ faults, (stepPopF s p.1 p.2).2 = Res.threw) (halive : s.alive = true) :
    run s (faults.map (fun p => Op.popthrow p.1 p.2)) = s := by
  induction faults with
  | nil => rfl
  | cons p ps ih =>
    have h1 := hf p (by simp)
    have h2 := (c10_pop_throw_changes_nothing s p.1 p.2).2 h1
    have hs : (step s (Op.popthrow p.1 p.2)).1 = s := by
      simp only [step, halive, if_true, stepLive]; exact h2
    simp only [List.map_cons, run, List.foldl_cons]
    rw [hs]
    exact ih (fun q hq => hf q (by simp [hq]))

/-- The pinned (unrepaired) code violated the property: `limit = 1; push 1; push 2; pop ×4` hands the items
of pushes 0 and 1 out twice (replayed on the headers in corpus/c10_dup.txt; repaired by the `fix:` commit). -/
theorem c10_asis_violation :
    ((runAsIs (init 1) [Op.push 1, Op.push 2, Op.pop, Op.pop, Op.pop, Op.pop]).assigned.map (·.2.1))
      = [0, 1, 0, 1] := by decide

/-- `pop` before fix 2877284 was not failure atomic on the path that admits a blocked producer: `limit = 1; push 1;
push 2; pop` with the second hand-over of the pop (the blocked producer's entry moved out of `_blocked`) throwing:
the item of push 0 is nowhere - not delivered, not queued, not withdrawn (`c10_exactly_once` fails for it) - and a
producer is blocked in front of an empty queue (`c10_size_le_limit` fails); with the third hand-over throwing the
blocked producer's future is additionally completed (canceled) while it is still registered as blocked
(`c10_push_completed_once` fails).  Replayed on the headers in corpus/c10_popthrow_blocked.txt. -/
theorem c10_asis_pop_not_failure_atomic :
    let s := runAsIsPop (init 1) [Op.push 1, Op.push 2, Op.popthrow 2 1]
    let t := runAsIsPop (init 1) [Op.push 1, Op.push 2, Op.popthrow 3 1]
    ((heldIds s).count 0 + s.withdrawn.count 0 = 0 ∧ s.nextPush = 2)
    ∧ (s.blocked ≠ [] ∧ s.items.length = 0 ∧ s.limit = 1)
    ∧ ((t.blocked.map (·.1)).count 1 + (pushIds t.inflight).count 1 + (pushIds t.completed).count 1 = 2) := by
  decide

/-- the repaired `pop` on the same inputs: the consumer gets the item of push 0, the producer whose item threw is
failed with that exception and its item withdrawn; with a second blocked producer the slot is refilled from it -/
theorem c10_fixed_pop_on_the_witness :
    let s := run (init 1) [Op.push 1, Op.push 2, Op.push 3, Op.popthrow 2 1]
    s.assigned = [(0, (0, 1))] ∧ s.withdrawn = [1] ∧ s.items = [(2, 3)] ∧ s.blocked = []
    ∧ s.inflight = [Ev.push 1 Out.itemerr, Ev.push 2 Out.ok] := by
  decide

/-- non-vacuity: a reachable state with a full queue, a blocked producer and a served consumer -/
example : Reachable 1 (run (init 1) [Op.push 7, Op.push 8, Op.pop]) := ⟨_, rfl⟩
example : (run (init 1) [Op.push 7, Op.push 8, Op.pop]).assigned = [(0, (0, 7))]
    ∧ (run (init 1) [Op.push 7, Op.push 8, Op.pop]).items = [(1, 8)] := by decide

/-- non-vacuity of the throwing operations: a reachable history in which a pop throws (and is retried), a push is
refused by its item with and without a consumer waiting, a blocking push and an unblock_push throw, and a pop fails
one blocked producer and admits the next - the hypotheses of the failure-atomicity theorems are met on the way -/
example :
    let ops := [Op.pop, Op.pushthrow, Op.push 1, Op.push 2, Op.pushthrow, Op.pushmv 3 2 1, Op.push 4, Op.push 5,
                Op.upushthrow 9 1 1, Op.popthrow 1 1, Op.popthrow 2 1, Op.deliver 0, Op.deliver 0, Op.deliver 0]
    let s := run (init 2) ops
    Reachable 2 s
    ∧ s.assigned = [(1, (0, 1))] ∧ s.items = [(1, 2), (3, 5)] ∧ s.withdrawn = [2] ∧ s.blocked = []
    ∧ s.completed = [Ev.push 0 Out.ok, Ev.push 1 Out.ok, Ev.pop 1 (Out.val 0 1), Ev.pop 0 Out.canceled,
                     Ev.push 2 Out.itemerr, Ev.push 3 Out.ok]
    ∧ (stepPopF (run (init 2) (ops.take 9)) 1 1).2 = Res.threw
    ∧ (stepPushMv (run (init 2) (ops.take 5)) 3 2 1).2 = Res.threw
    ∧ (stepUpushF (run (init 2) (ops.take 8)) 9 1 1).2 = Res.threw := by
  refine ⟨⟨_, rfl⟩, ?_⟩
  decide

end Cocls.LQ
