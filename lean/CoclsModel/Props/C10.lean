import CoclsModel.LimitedQueueProofs
/-!
# C10 — bounded queue: back-pressure without losing or duplicating items

Model: `CoclsModel/LimitedQueue.lean` (one step per lock region of `limited_queue`, out-of-lock promise
resolutions as separate `deliver` steps).  Every theorem below quantifies over *all* limits ≥ 1 and *all*
operation lists (any number of producers/consumers: an interleaving of their lock regions and resolutions is
an operation list).
-/
namespace Cocls.LQ

/-- every reachable state -/
def Reachable (limit : Nat) (s : State) : Prop := ∃ ops, s = run (init limit) ops

theorem reachable_inv {limit : Nat} (hl : 0 < limit) {s : State} (h : Reachable limit s) : Inv s := by
  obtain ⟨ops, rfl⟩ := h
  exact inv_run (init limit) ops hl (inv_init limit)

/-- Exactly once: every pushed item (identified by the serial number of its push) is, at any time, held in
exactly one place — handed to a pop, waiting in the queue, or held by its blocked push — or was withdrawn by
`unblock_push`/destruction exactly once; never both, never twice, never nowhere. -/
theorem c10_exactly_once {limit : Nat} (hl : 0 < limit) {s : State} (h : Reachable limit s) (i : Nat) :
    (heldIds s).count i + s.withdrawn.count i = if i < s.nextPush then 1 else 0 :=
  (reachable_inv hl h).item_once i

/-- Order: items handed to pops, then the queue, then the blocked pushes, are in strict push order. In
particular the sequence of items handed out is a strictly increasing sequence of push serials (no reordering,
no duplicate), blocked pushes included. -/
theorem c10_order {limit : Nat} (hl : 0 < limit) {s : State} (h : Reachable limit s) :
    (s.assigned.map (·.2.1) ++ s.items.map (·.1) ++ s.blocked.map (·.1)).Pairwise (· < ·) :=
  (reachable_inv hl h).held_sorted

/-- Pops are served in arrival order: the pops that received items, followed by the parked ones, are in
strictly increasing arrival order (so with `c10_order`: the k-th served pop gets the k-th surviving item). -/
theorem c10_pops_in_arrival_order {limit : Nat} (hl : 0 < limit) {s : State} (h : Reachable limit s) :
    (s.assigned.map (·.1) ++ s.waiters).Pairwise (· < ·) :=
  (reachable_inv hl h).pops_sorted

/-- `size() ≤ limit`, and producers are blocked only while the queue is full. -/
theorem c10_size_le_limit {limit : Nat} (hl : 0 < limit) {s : State} (h : Reachable limit s) :
    s.items.length ≤ s.limit ∧ (s.blocked ≠ [] → s.items.length = s.limit) :=
  ⟨(reachable_inv hl h).len_le, (reachable_inv hl h).blocked_full⟩

/-- consumers wait only while there is nothing to take (neither queued nor blocked items) -/
theorem c10_waiters_only_when_empty {limit : Nat} (hl : 0 < limit) {s : State} (h : Reachable limit s) :
    s.waiters ≠ [] → s.items = [] ∧ s.blocked = [] :=
  (reachable_inv hl h).waiters_empty

/-- every pop future is in exactly one place: parked, in flight (decided, being resolved) or completed once -/
theorem c10_pop_completed_once {limit : Nat} (hl : 0 < limit) {s : State} (h : Reachable limit s) (i : Nat) :
    s.waiters.count i + (popIds s.inflight).count i + (popIds s.completed).count i
      = if i < s.nextPop then 1 else 0 :=
  (reachable_inv hl h).pop_once i

/-- every push future is in exactly one place: blocked, in flight or completed once -/
theorem c10_push_completed_once {limit : Nat} (hl : 0 < limit) {s : State} (h : Reachable limit s) (i : Nat) :
    (s.blocked.map (·.1)).count i + (pushIds s.inflight).count i + (pushIds s.completed).count i
      = if i < s.nextPush then 1 else 0 :=
  (reachable_inv hl h).push_once i

/-- Back-pressure, decision logic: with no consumer waiting, a push completes at once iff fewer than `limit`
items are queued; otherwise it stays pending and its item is in `blocked` and nowhere else. -/
theorem c10_backpressure (s : State) (v : Nat) (hw : s.waiters = []) :
    (s.items.length < s.limit →
        (stepPush s v).2 = Res.push s.nextPush true ∧ (stepPush s v).1.items = s.items ++ [(s.nextPush, v)]
        ∧ (stepPush s v).1.blocked = s.blocked) ∧
    (s.limit ≤ s.items.length →
        (stepPush s v).2 = Res.push s.nextPush false ∧ (stepPush s v).1.items = s.items
        ∧ (stepPush s v).1.blocked = s.blocked ++ [(s.nextPush, v)]
        ∧ (stepPush s v).1.assigned = s.assigned ∧ (stepPush s v).1.inflight = s.inflight) := by
  unfold stepPush
  constructor
  · intro h
    have : ¬ s.items.length ≥ s.limit := by omega
    simp [hw, this]
  · intro h
    have : s.items.length ≥ s.limit := h
    simp [hw, this]

/-- a push that finds a waiting consumer hands its item to the *oldest* one and completes at once -/
theorem c10_push_to_oldest_waiter (s : State) (v w : Nat) (ws : List Nat) (hw : s.waiters = w :: ws) :
    (stepPush s v).2 = Res.push s.nextPush true ∧ (stepPush s v).1.waiters = ws
    ∧ (stepPush s v).1.inflight = s.inflight ++ [Ev.pop w (Out.val s.nextPush v)]
    ∧ (stepPush s v).1.items = s.items := by
  unfold stepPush; simp [hw]

/-- one blocked push is admitted per pop, the oldest one, and its item enters the queue behind the others -/
theorem c10_blocked_fifo_one_per_pop (s : State) (x b : Nat × Nat) (xs bs : List (Nat × Nat))
    (hi : s.items = x :: xs) (hb : s.blocked = b :: bs) :
    (stepPop s).2 = Res.pop s.nextPop (some (Out.val x.1 x.2)) ∧ (stepPop s).1.items = xs ++ [b]
    ∧ (stepPop s).1.blocked = bs ∧ (stepPop s).1.inflight = s.inflight ++ [Ev.push b.1 Out.ok] := by
  unfold stepPop; simp [hi, hb]

/-- `unblock_push` fails exactly the oldest blocked push, withdraws its item, changes nothing else;
with no blocked push it reports false and is a no-op -/
theorem c10_unblock_push (s : State) (c : Nat) :
    (s.blocked = [] → stepUpush s c = (s, Res.flag false)) ∧
    (∀ b bs, s.blocked = b :: bs →
        (stepUpush s c).2 = Res.flag true ∧ (stepUpush s c).1.blocked = bs
        ∧ (stepUpush s c).1.inflight = s.inflight ++ [Ev.push b.1 (Out.exc c)]
        ∧ (stepUpush s c).1.items = s.items ∧ (stepUpush s c).1.waiters = s.waiters
        ∧ (stepUpush s c).1.assigned = s.assigned) := by
  unfold stepUpush
  constructor
  · intro h; simp [h]
  · intro b bs h; simp [h]

/-- The pinned (unrepaired) code violated the property: `limit = 1; push 1; push 2; pop ×4` hands the items
of pushes 0 and 1 out twice (replayed on the headers in corpus/c10_dup.txt; repaired by the `fix:` commit). -/
theorem c10_asis_violation :
    ((runAsIs (init 1) [Op.push 1, Op.push 2, Op.pop, Op.pop, Op.pop, Op.pop]).assigned.map (·.2.1))
      = [0, 1, 0, 1] := by decide

/-- non-vacuity: a reachable state with a full queue, a blocked producer and a served consumer -/
example : Reachable 1 (run (init 1) [Op.push 7, Op.push 8, Op.pop]) := ⟨_, rfl⟩
example : (run (init 1) [Op.push 7, Op.push 8, Op.pop]).assigned = [(0, (0, 7))]
    ∧ (run (init 1) [Op.push 7, Op.push 8, Op.pop]).items = [(1, 8)] := by decide

end Cocls.LQ
