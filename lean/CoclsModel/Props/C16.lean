import CoclsModel.PublisherProofs
/-!
# C16 — publisher: subscribers see a gap-free, ordered, duplicate-free stream

Model: `CoclsModel/Publisher.lean` (one step per lock region of `publisher<T>::queue`; a subscriber's `next()` is
`advance` / `advanceSuspend` / `getValue` with arbitrary steps of other parties in between).  Every theorem below
quantifies over *all* configurations `1 ≤ min ≤ max` (and unlimited `max = none`), *all* operation lists (= all
histories of any number of publishers and subscribers and all interleavings of their lock regions), all three
subscription modes.

`Pre` (explicit totalisation, see the model): the constructor's `1 ≤ min ≤ max` (`CfgOk`); an explicit start
position is not in the future; a subscriber is copied / destroyed only between two `next()` calls and does not
call `next()` after end of stream (steps out of this protocol are rejected by `step` with `Res.bad`).
-/
namespace Cocls.Pub

/-- every reachable state of a publisher constructed with `(maxLen, minLen)` -/
def Reachable (maxLen : Option Nat) (minLen : Nat) (s : State) : Prop := ∃ ops, s = run (init maxLen minLen) ops

/-- registration `h` is held by a live subscriber -/
def Live (s : State) (h : Nat) (r : Reg) : Prop := s.regs[h]? = some r ∧ r.used = true

theorem reachable_inv {maxLen : Option Nat} {minLen : Nat} (hc : CfgOk maxLen minLen) {s : State}
    (h : Reachable maxLen minLen s) : Inv s := by
  obtain ⟨ops, rfl⟩ := h
  exact inv_run _ ops (inv_init hc)

variable {maxLen : Option Nat} {minLen : Nat} {s : State} {h : Nat} {r : Reg}

/-! ## all_values: contiguous, ordered, duplicate-free -/

/-- The values an `all_values` subscriber has received (up to its first end of stream) are exactly the published
values at positions `start+1, start+2, …` in order: a contiguous run right after the subscription point, no gap,
no duplicate, no reordering. -/
theorem c16_all_values_contiguous (hc : CfgOk maxLen minLen) (hs : Reachable maxLen minLen s) (hl : Live s h r)
    (hm : r.mode = Mode.all) : r.got = (s.stream.drop r.start).take r.got.length := by
  have hr := (reachable_inv hc hs).regs h r hl.1 hl.2
  apply List.ext_getElem?
  intro i
  rw [List.getElem?_take, List.getElem?_drop]
  by_cases hi : i < r.got.length
  · rw [if_pos hi]; exact hr.got_eq hm i hi
  · rw [if_neg hi]; exact List.getElem?_eq_none (Nat.le_of_not_lt hi)

/-- …and the run cannot be broken later: as long as the subscriber is neither kicked nor ended, its registration
stands exactly at the last value received (`+1` between the advancing step and the fetch), so the next value it
fetches is the successor of the last one. -/
theorem c16_all_values_position (hc : CfgOk maxLen minLen) (hs : Reachable maxLen minLen s) (hl : Live s h r)
    (hm : r.mode = Mode.all) (hd : r.phase ≠ Phase.done) (hk : r.kicked = false) :
    r.pos = r.start + r.got.length + (if r.phase = Phase.fetch then 1 else 0) :=
  ((reachable_inv hc hs).regs h r hl.1 hl.2).pos_eq hm hd hk

/-- the fetch step of an `all_values` subscriber returns the value at position `start + |got| + 1` and logs it -/
theorem c16_all_values_fetch (hc : CfgOk maxLen minLen) (hs : Reachable maxLen minLen s) (hl : Live s h r)
    (hm : r.mode = Mode.all) {s' : State} {v : Nat} (hstep : stepGetValue s h = (s', Res.value (some v))) :
    s.stream[r.start + r.got.length]? = some v ∧
    s'.regs[h]? = some { r with phase := Phase.idle, got := r.got ++ [v], gotPos := r.gotPos ++ [r.pos] } := by
  have hi := reachable_inv hc hs
  have hr := hi.regs h r hl.1 hl.2
  unfold stepGetValue at hstep
  simp only [hl.1] at hstep
  by_cases hcnd : r.used = true ∧ r.phase = Phase.fetch ∧ r.awt = false
  · rw [if_pos hcnd] at hstep
    cases hv : valueAt s r with
    | none => rw [hv] at hstep; simp at hstep
    | some w =>
      rw [hv] at hstep
      simp only [Prod.mk.injEq, Res.value.injEq, Option.some.injEq] at hstep
      obtain ⟨rfl, rfl⟩ := hstep
      obtain ⟨hk, _⟩ := valueAt_some hv
      have h1 := hr.fetch_pos hcnd.2.1 hk
      obtain ⟨hval, _⟩ := valueAt_all hi hm hr.pos_le h1 hv
      have hpe := hr.pos_eq hm (by rw [hcnd.2.1]; intro e; cases e) hk
      simp only [hcnd.2.1, if_true] at hpe
      refine ⟨?_, getElem?_set_self' hl.1⟩
      have e : r.start + r.got.length = r.pos - 1 := by omega
      rw [e]; exact hval
  · rw [if_neg hcnd] at hstep; simp at hstep

/-- End of stream is reported to an `all_values` subscriber only when it was kicked, or the publisher is closed and
the subscriber has received everything published since its start (drained), or it is more than `max` behind
(the value it needs is no longer among the newest `max`), or (fourth, explicit disjunct of the `Pre`) its explicit
start position was already outside the retained window when it subscribed. -/
theorem c16_eof_only_when (hc : CfgOk maxLen minLen) (hs : Reachable maxLen minLen s) (hl : Live s h r)
    (hm : r.mode = Mode.all) (hp : r.phase = Phase.fetch) (ha : r.awt = false) (hv : valueAt s r = none) :
    r.kicked = true
    ∨ (s.closed = true ∧ r.pos = s.pos ∧ r.got = s.stream.drop r.start)
    ∨ (∃ k, s.maxLen = some k ∧ k < s.pos - r.pos)
    ∨ r.covered = false := by
  have hi := reachable_inv hc hs
  have hr := hi.regs h r hl.1 hl.2
  cases hk : r.kicked with
  | true => left; rfl
  | false =>
    right
    by_cases he : r.pos = s.pos
    · left
      rcases hr.at_end hp he with h1 | h1 | h1
      · rw [ha] at h1; cases h1
      · refine ⟨h1, he, ?_⟩
        have hcont := c16_all_values_contiguous hc hs hl hm
        have hpe := hr.pos_eq hm (by rw [hp]; intro e; cases e) hk
        simp only [hp, if_true] at hpe
        have hpos := hi.pos_eq
        rw [hcont]
        apply List.take_of_length_le
        rw [List.length_drop]; omega
      · rw [hk] at h1; cases h1
    · right
      cases hcov : r.covered with
      | false => right; rfl
      | true =>
        left
        have hw := hr.window hcov
        have h1 := hr.fetch_pos hp hk
        have hle := hr.pos_le
        have hlt : r.pos < s.pos := by omega
        unfold valueAt at hv
        have hcnd : ¬ (r.kicked = true ∨ r.pos = s.pos) := by
          intro hcnd; rcases hcnd with h2 | h2
          · rw [hk] at h2; cases h2
          · exact he h2
        rw [if_neg hcnd] at hv
        simp only [hm, relpos, if_pos hlt] at hv
        have hq : s.q.length ≤ s.pos - r.pos - 1 := by
          rcases Nat.lt_or_ge (s.pos - r.pos - 1) s.q.length with h2 | h2
          · rw [List.getElem?_eq_getElem h2] at hv; cases hv
          · exact h2
        unfold covers capMin at hw
        cases hmx : s.maxLen with
        | none => rw [hmx] at hw; simp only at hw; omega
        | some k => rw [hmx] at hw; simp only at hw; exact ⟨k, rfl, by omega⟩

/-! ## all modes: positions only move forward; skipping modes -/

/-- `position()` at the values a subscriber received is strictly increasing — in every mode, in particular in
both skipping modes (they only ever move forward). -/
theorem c16_skip_monotone (hc : CfgOk maxLen minLen) (hs : Reachable maxLen minLen s) (hl : Live s h r) :
    r.gotPos.Pairwise (· < ·) :=
  ((reachable_inv hc hs).regs h r hl.1 hl.2).mono

/-- every advancing step moves strictly forward, whatever the mode and the state -/
theorem c16_advance_moves_forward (s : State) (r : Reg) : r.pos < advPos s r := advPos_gt s r

/-- `skip_to_recent` always yields the newest published value -/
theorem c16_recent_is_newest (hc : CfgOk maxLen minLen) (hs : Reachable maxLen minLen s) (_hl : Live s h r)
    (hm : r.mode = Mode.recent) {v : Nat} (hv : valueAt s r = some v) : s.stream.getLast? = some v := by
  have hi := reachable_inv hc hs
  unfold valueAt at hv
  by_cases hcnd : r.kicked = true ∨ r.pos = s.pos
  · rw [if_pos hcnd] at hv; cases hv
  · rw [if_neg hcnd] at hv
    simp only [hm] at hv
    have hq : 0 < s.q.length := by
      rcases Nat.lt_or_ge 0 s.q.length with h2 | h2
      · exact h2
      · rw [List.getElem?_eq_none h2] at hv; cases hv
    have := hi.q_win 0 hq
    rw [hv] at this
    rw [List.getLast?_eq_getElem?]
    simpa using this.symm

/-- `skip_if_behind` yields the value at its position, or the oldest retained one when that is newer -/
theorem c16_behind_value (hc : CfgOk maxLen minLen) (hs : Reachable maxLen minLen s) (hl : Live s h r)
    (hm : r.mode = Mode.behind) (hp : r.phase = Phase.fetch) {v : Nat} (hv : valueAt s r = some v) :
    s.stream[max r.pos (s.pos - s.q.length) - 1]? = some v := by
  have hi := reachable_inv hc hs
  have hr := hi.regs h r hl.1 hl.2
  obtain ⟨hk, hne⟩ := valueAt_some hv
  have h1 := hr.fetch_pos hp hk
  have hle := hr.pos_le
  have hlt : r.pos < s.pos := by omega
  unfold valueAt at hv
  have hcnd : ¬ (r.kicked = true ∨ r.pos = s.pos) := by
    intro hcnd; rw [if_pos hcnd] at hv; cases hv
  rw [if_neg hcnd] at hv
  simp only [hm, relpos, if_pos hlt] at hv
  have hq : min (s.pos - r.pos - 1) (s.q.length - 1) < s.q.length := by
    rcases Nat.lt_or_ge (min (s.pos - r.pos - 1) (s.q.length - 1)) s.q.length with h2 | h2
    · exact h2
    · rw [List.getElem?_eq_none h2] at hv; cases hv
  have := hi.q_win _ hq
  rw [hv] at this
  have hpe := hi.pos_eq
  have hql := hi.q_len
  have e : s.stream.length - 1 - min (s.pos - r.pos - 1) (s.q.length - 1) = max r.pos (s.pos - s.q.length) - 1 := by
    omega
  rw [e] at this
  exact this.symm

/-- in the skipping modes end of stream is reported only when kicked, or closed with the position at the end
(they never fall behind) -/
theorem c16_skip_eof_only_when (hc : CfgOk maxLen minLen) (hs : Reachable maxLen minLen s) (hl : Live s h r)
    (hm : r.mode ≠ Mode.all) (hp : r.phase = Phase.fetch) (ha : r.awt = false) (hv : valueAt s r = none) :
    r.kicked = true ∨ (s.closed = true ∧ r.pos = s.pos) := by
  have hi := reachable_inv hc hs
  have hr := hi.regs h r hl.1 hl.2
  cases hk : r.kicked with
  | true => left; rfl
  | false =>
    right
    by_cases he : r.pos = s.pos
    · rcases hr.at_end hp he with h1 | h1 | h1
      · rw [ha] at h1; cases h1
      · exact ⟨h1, he⟩
      · rw [hk] at h1; cases h1
    · exfalso
      have h1 := hr.fetch_pos hp hk
      have hle := hr.pos_le
      have hlt : r.pos < s.pos := by omega
      have hqm := hi.q_min
      have hmp := hi.min_pos
      have hq : 0 < s.q.length := by omega
      unfold valueAt at hv
      have hcnd : ¬ (r.kicked = true ∨ r.pos = s.pos) := by
        intro hcnd; rcases hcnd with h2 | h2
        · rw [hk] at h2; cases h2
        · exact he h2
      rw [if_neg hcnd] at hv
      cases hmode : r.mode with
      | all => exact hm hmode
      | behind =>
        simp only [hmode, relpos, if_pos hlt] at hv
        rw [List.getElem?_eq_getElem (by omega)] at hv; cases hv
      | recent =>
        simp only [hmode] at hv
        rw [List.getElem?_eq_getElem hq] at hv; cases hv

/-! ## wake-ups: close, kick, and no lost wake-up -/

/-- `close()` (also run by `~publisher`) takes the awaiter of *every* parked subscriber for resumption and leaves
nobody parked. -/
theorem c16_close_wakes_all (s : State) (hcl : s.closed = false) :
    (stepClose s).2 = Res.woken (wokenOf s.regs) ∧ (stepClose s).1.closed = true ∧
    ∀ (k : Nat) (x : Reg), (stepClose s).1.regs[k]? = some x → x.used = true → x.awt = false := by
  unfold stepClose
  rw [if_neg (by rw [hcl]; intro e; cases e)]
  refine ⟨rfl, rfl, ?_⟩
  intro k x hx hu
  have hx' : (s.regs.map wake)[k]? = some x := hx
  rw [List.getElem?_map] at hx'
  cases hr : s.regs[k]? with
  | none => rw [hr] at hx'; cases hx'
  | some r0 =>
    rw [hr] at hx'; simp only [Option.map_some] at hx'
    cases hx'
    have : r0.used = true := by rw [← wake_used]; exact hu
    rw [wake_of_used this]

/-- the released set is exactly the parked subscribers: `wokenOf` lists the subscriber of every used registration
with a registered awaiter -/
theorem c16_woken_are_the_parked (regs : List Reg) (sid : Nat) :
    sid ∈ wokenOf regs ↔ ∃ x ∈ regs, x.used = true ∧ x.awt = true ∧ x.sub = sid := by
  unfold wokenOf
  simp only [List.mem_map, List.mem_filter, Bool.and_eq_true]
  constructor
  · rintro ⟨x, ⟨hx, hu, ha⟩, rfl⟩; exact ⟨x, hx, hu, ha, rfl⟩
  · rintro ⟨x, hx, hu, ha, rfl⟩; exact ⟨x, ⟨hx, hu, ha⟩, rfl⟩

/-- once closed nobody is parked, and nobody parks again -/
theorem c16_closed_nobody_parked (hc : CfgOk maxLen minLen) (hs : Reachable maxLen minLen s) (hl : Live s h r)
    (hcl : s.closed = true) : r.awt = false := by
  cases ha : r.awt with
  | false => rfl
  | true =>
    have := ((reachable_inv hc hs).regs h r hl.1 hl.2).parked ha
    rw [hcl] at this; exact absurd this.2.2.1 (by intro e; cases e)

/-- No lost wake-up: a subscriber is parked only while there is really nothing for it — it stands at the position
of the next value to be published, the publisher is not closed and it has not been kicked.  (Every publish, close
and kick takes the awaiters it affects under the same lock.) -/
theorem c16_no_lost_wakeup (hc : CfgOk maxLen minLen) (hs : Reachable maxLen minLen s) (hl : Live s h r)
    (ha : r.awt = true) : r.phase = Phase.fetch ∧ r.pos = s.pos ∧ s.closed = false ∧ r.kicked = false :=
  ((reachable_inv hc hs).regs h r hl.1 hl.2).parked ha

/-- `push_lk` unlocks for its wake-up pass and re-locks afterwards; the second lock region changes nothing of the
queue, so every step that lands *inside* the wake-up pass of a `close()` (a resumed coroutine going straight into
another `next()`, another thread) already sees `closed = true` (first region, `c16_close_wakes_all`) and all the
theorems above apply to it: the operation lists quantified over contain the steps between the two regions. -/
theorem c16_relock_changes_nothing (s : State) :
    (stepRelock s).1.regs = s.regs ∧ (stepRelock s).1.q = s.q ∧ (stepRelock s).1.pos = s.pos ∧
    (stepRelock s).1.closed = s.closed ∧ (stepRelock s).1.stream = s.stream ∧ (stepRelock s).1.nextFree = s.nextFree :=
  ⟨rfl, rfl, rfl, rfl, rfl, rfl⟩

/-- `subscribe()` parks only on a queue whose closed flag is clear (any state, any handle) — together with
`c16_close_wakes_all` (flag set in the same region that takes the awaiters): nobody can slip in behind a close. -/
theorem c16_parks_only_when_open (s : State) (h : Nat) (hp : (stepAdvanceSuspend s h).2 = Res.flag true) :
    s.closed = false := by
  unfold stepAdvanceSuspend at hp
  cases hr : s.regs[h]? with
  | none => rw [hr] at hp; simp at hp
  | some r =>
    rw [hr] at hp
    simp only at hp
    by_cases hc : r.used = true ∧ r.phase = Phase.idle
    · rw [if_pos hc] at hp
      by_cases ha : canAdvance s r
      · rw [if_pos ha] at hp; simp at hp
      · rw [if_neg ha] at hp
        by_cases hk : r.kicked = true
        · rw [if_pos hk] at hp; simp at hp
        · cases hcl : s.closed with
          | false => rfl
          | true =>
            exfalso; apply ha
            refine ⟨by cases h2 : r.kicked <;> simp_all, ?_⟩
            intro h2; rw [hcl] at h2; cases h2.2
    · rw [if_neg hc] at hp; simp at hp

/-- Why the order inside `close()` matters: a variant that runs the wake-up pass first and sets the flag in the second
region lets a subscriber register *during* the pass (here: the coroutine resumed for subscriber 0 goes straight into
`next()` of subscriber 1) — it ends up parked on a closed queue and no later close wakes it.  (Seeded change
`c16-closed-flag-late`; replayed on the headers by corpus/c16_reentrant_close.txt.) -/
theorem c16_late_close_flag_loses_wakeup :
    ((runAsIs (init none 1)
        [OpAsIs.op (Op.subRecent 0 Mode.all), OpAsIs.op (Op.subRecent 1 Mode.all),
         OpAsIs.op (Op.advanceSuspend 0), OpAsIs.closeLateBegin, OpAsIs.op (Op.getValue 0),
         OpAsIs.op (Op.advance 1), OpAsIs.op (Op.advanceSuspend 1), OpAsIs.closeLateEnd]).regs[1]?.map (·.awt),
     (runAsIs (init none 1)
        [OpAsIs.op (Op.subRecent 0 Mode.all), OpAsIs.op (Op.subRecent 1 Mode.all),
         OpAsIs.op (Op.advanceSuspend 0), OpAsIs.closeLateBegin, OpAsIs.op (Op.getValue 0),
         OpAsIs.op (Op.advance 1), OpAsIs.op (Op.advanceSuspend 1), OpAsIs.closeLateEnd]).closed)
      = (some true, true) := by decide

/-- the same history on the code's `close()` (flag first): subscriber 1 is told end of stream instead of parking -/
theorem c16_close_flag_first_no_lost_wakeup :
    ((run (init none 1)
        [Op.subRecent 0 Mode.all, Op.subRecent 1 Mode.all, Op.advanceSuspend 0, Op.close, Op.getValue 0,
         Op.advance 1, Op.getValue 1, Op.relock]).regs.map (fun r => (r.awt, r.phase)))
      = [(false, Phase.done), (false, Phase.done)] := by decide

/-- `kick(sub)`: the (first) live registration of that subscriber is marked kicked, its awaiter — if it was parked —
is taken for resumption, nothing else changes -/
theorem c16_kick_wakes (s : State) (sid i : Nat) (r : Reg) (hk : kickIdx s.regs sid = some i)
    (hr : s.regs[i]? = some r) :
    stepKick s sid = (setReg s i { r with awt := false, kicked := true },
                      Res.woken (if r.awt = true then [r.sub] else [])) ∧ r.used = true ∧ r.sub = sid := by
  obtain ⟨r2, h1, h2, h3⟩ := kickIdx_some hk
  rw [hr] at h1; cases h1
  refine ⟨?_, h2, h3⟩
  unfold stepKick
  simp only [hk, hr]

/-- A kick with a stale identity changes nothing: `publisher::kick` may be given the pointer of a subscriber that has
already left (its slot still carries the old `_sub`); `kick_lk` looks at *used* registrations only, so when no live
registration belongs to that identity the whole state — in particular the freed slot that the next subscription will
recycle — is untouched and nobody is resumed. -/
theorem c16_stale_kick_changes_nothing (s : State) (sid : Nat)
    (hstale : ∀ r ∈ s.regs, r.used = true → r.sub ≠ sid) : stepKick s sid = (s, Res.woken []) := by
  unfold stepKick
  rw [kickIdx_none hstale]

/-- a recycled registration starts clean whatever happened to the slot before: not kicked, no awaiter, idle, at the
requested position (`subscribe_lk` re-initialises every field of a re-used slot) -/
theorem c16_recycled_slot_is_clean (hc : CfgOk maxLen minLen) (hs : Reachable maxLen minLen s) (sid : Nat) (m : Mode)
    (p : Nat) : ∃ h' cov, (subscribeLk s sid m p).2 = Res.handle h' ∧
      (subscribeLk s sid m p).1.regs[h']? = some (newReg sid m p cov) ∧
      (newReg sid m p cov).kicked = false ∧ (newReg sid m p cov).awt = false ∧ (newReg sid m p cov).pos = p := by
  obtain ⟨h', e1, _, e3, _⟩ := subscribeLk_spec (reachable_inv hc hs) sid m p
  exact ⟨h', _, e1, e3, rfl, rfl, rfl⟩

/-- leave, a late kick with the stale identity, then a subscription that recycles the slot: the newcomer is not
kicked and reads the next published value (replayed on the headers by corpus/c16_stale_kick.txt) -/
theorem c16_stale_kick_then_reuse :
    ((run (init none 1)
        [Op.subRecent 0 Mode.all, Op.leave 0, Op.kick 0, Op.subRecent 1 Mode.all, Op.push [5],
         Op.advance 0, Op.getValue 0]).regs.map (fun r => (r.sub, r.kicked, r.got)))
      = [(1, false, [5])] := by decide

/-- a kicked subscriber gets end of stream from every later `next()`: `ready()` says no, `check_next()` says none -/
theorem c16_kicked_ends (s : State) (r : Reg) (hk : r.kicked = true) : valueAt s r = none ∧ ¬ canAdvance s r := by
  constructor
  · unfold valueAt; rw [if_pos (Or.inl hk)]
  · intro hc; have := hc.1; rw [hk] at this; cases this

/-! ## copies -/

/-- A copy — taken at *any* moment, also while the original is waiting inside `next()` — gets a *fresh* registration
(one that no live subscriber holds) in the original's mode, at the original's position but never beyond the last
published value; every other registration — the original included — the window, the position and the stream are
untouched. -/
theorem c16_copy_independent (hc : CfgOk maxLen minLen) (hs : Reachable maxLen minLen s) (hl : Live s h r)
    (sid : Nat) :
    ∃ h', (stepSubCopy s sid h).2 = Res.handle h' ∧ h' ≠ h ∧
      (s.regs[h']? = none ∨ ∃ x, s.regs[h']? = some x ∧ x.used = false) ∧
      (∃ cov, (stepSubCopy s sid h).1.regs[h']? = some (newReg sid r.mode (min r.pos (s.pos - 1)) cov)) ∧
      (∀ k, k ≠ h' → (stepSubCopy s sid h).1.regs[k]? = s.regs[k]?) ∧
      (stepSubCopy s sid h).1.q = s.q ∧ (stepSubCopy s sid h).1.pos = s.pos ∧
      (stepSubCopy s sid h).1.stream = s.stream := by
  have hi := reachable_inv hc hs
  obtain ⟨h', e1, e2, e3, e4, e5, e6, _, e8⟩ := subscribeLk_spec hi sid r.mode (min r.pos (s.pos - 1))
  have hstep : stepSubCopy s sid h = subscribeLk s sid r.mode (min r.pos (s.pos - 1)) := by
    unfold stepSubCopy; simp only [hl.1]; rw [if_pos hl.2]
  rw [hstep]
  refine ⟨h', e1, ?_, e2, ⟨_, e3⟩, e4, e5, e6, e8⟩
  intro e; subst e
  rcases e2 with e2 | ⟨x, e2, e2'⟩
  · rw [hl.1] at e2; cases e2
  · rw [hl.1] at e2; cases e2; rw [hl.2] at e2'; cases e2'

/-- where the copy starts: between two `next()` calls exactly at the original's position; from a *waiting* original
at the last published value — so the copy receives the very value the original is waiting for, and everything after
it (with `c16_all_values_contiguous` for the copy's own registration) -/
theorem c16_copy_start (hc : CfgOk maxLen minLen) (hs : Reachable maxLen minLen s) (hl : Live s h r) :
    (r.phase = Phase.idle → min r.pos (s.pos - 1) = r.pos) ∧
    (r.awt = true → min r.pos (s.pos - 1) = s.pos - 1 ∧ r.pos = s.pos) ∧
    min r.pos (s.pos - 1) < s.pos := by
  have hi := reachable_inv hc hs
  have hr := hi.regs h r hl.1 hl.2
  have hp := hi.pos_eq
  refine ⟨?_, ?_, by omega⟩
  · intro hidle; have := hr.idle_lt hidle; omega
  · intro ha; have := (hr.parked ha).2.1; omega

/-- The pinned copy constructor took a waiting original's raw position (the one of the value *not yet published*):
the copy's first `next()` reported end of stream on an open publisher, unkicked and not behind (replayed on the
headers by corpus/c16_copy_waiting.txt; repaired by the `fix:` commit). -/
theorem c16_asis_copy_of_waiting_ends :
    ((runAsIs (init none 1)
        [OpAsIs.op (Op.subRecent 0 Mode.all), OpAsIs.op (Op.advanceSuspend 0), OpAsIs.subCopyAsIs 1 0,
         OpAsIs.op (Op.advance 1), OpAsIs.op (Op.getValue 1)]).regs[1]?.map (fun r => (r.phase, r.kicked)),
     (runAsIs (init none 1)
        [OpAsIs.op (Op.subRecent 0 Mode.all), OpAsIs.op (Op.advanceSuspend 0), OpAsIs.subCopyAsIs 1 0,
         OpAsIs.op (Op.advance 1), OpAsIs.op (Op.getValue 1)]).closed)
      = (some (Phase.done, false), false) := by decide

/-- the same on the repaired step: the copy waits with the original and both receive the published value -/
theorem c16_fixed_copy_of_waiting :
    ((run (init none 1)
        [Op.subRecent 0 Mode.all, Op.advanceSuspend 0, Op.subCopy 1 0, Op.advanceSuspend 1, Op.push [5], Op.relock,
         Op.getValue 0, Op.getValue 1]).regs.map (fun r => (r.got, r.phase)))
      = [([5], Phase.idle), ([5], Phase.idle)] := by decide

/-- every subscription (recent, at a position, by copy) hands out a registration no live subscriber holds -/
theorem c16_subscribe_fresh (hc : CfgOk maxLen minLen) (hs : Reachable maxLen minLen s) (sid : Nat) (m : Mode)
    (p : Nat) : ∃ h', (subscribeLk s sid m p).2 = Res.handle h' ∧
      (s.regs[h']? = none ∨ ∃ x, s.regs[h']? = some x ∧ x.used = false) := by
  obtain ⟨h', e1, e2, _⟩ := subscribeLk_spec (reachable_inv hc hs) sid m p
  exact ⟨h', e1, e2⟩

/-- the steps of one subscriber's `next()` touch only its own registration: all other registrations, the window,
the stream position and the closed flag are unchanged — original and copy evolve independently -/
theorem c16_next_is_local (s : State) (h : Nat) (op : Op)
    (hop : op = Op.advance h ∨ op = Op.advanceSuspend h ∨ op = Op.getValue h) :
    (∀ k, k ≠ h → (step s op).1.regs[k]? = s.regs[k]?) ∧ (step s op).1.q = s.q ∧ (step s op).1.pos = s.pos ∧
    (step s op).1.closed = s.closed ∧ (step s op).1.stream = s.stream := by
  rcases hop with rfl | rfl | rfl
  · simp only [step]; unfold stepAdvance
    cases hr : s.regs[h]? with
    | none => exact ⟨fun _ _ => rfl, rfl, rfl, rfl, rfl⟩
    | some r =>
      simp only
      split
      · split
        · exact ⟨fun k hk => getElem?_set_ne' hk, rfl, rfl, rfl, rfl⟩
        · exact ⟨fun _ _ => rfl, rfl, rfl, rfl, rfl⟩
      · exact ⟨fun _ _ => rfl, rfl, rfl, rfl, rfl⟩
  · simp only [step]; unfold stepAdvanceSuspend
    cases hr : s.regs[h]? with
    | none => exact ⟨fun _ _ => rfl, rfl, rfl, rfl, rfl⟩
    | some r =>
      simp only
      split
      · split
        · exact ⟨fun k hk => getElem?_set_ne' hk, rfl, rfl, rfl, rfl⟩
        · split
          · exact ⟨fun k hk => getElem?_set_ne' hk, rfl, rfl, rfl, rfl⟩
          · exact ⟨fun k hk => getElem?_set_ne' hk, rfl, rfl, rfl, rfl⟩
      · exact ⟨fun _ _ => rfl, rfl, rfl, rfl, rfl⟩
  · simp only [step]; unfold stepGetValue
    cases hr : s.regs[h]? with
    | none => exact ⟨fun _ _ => rfl, rfl, rfl, rfl, rfl⟩
    | some r =>
      simp only
      split
      · split
        · exact ⟨fun k hk => getElem?_set_ne' hk, rfl, rfl, rfl, rfl⟩
        · exact ⟨fun k hk => getElem?_set_ne' hk, rfl, rfl, rfl, rfl⟩
      · exact ⟨fun _ _ => rfl, rfl, rfl, rfl, rfl⟩

/-! ## the retained window -/

/-- The retained window serves every live registration up to `max`: it holds at least `min(max, pos − x.pos)`
values (capped by the number published).  This is what turns "`relpos ≥ |q|`" into "more than `max` behind". -/
theorem c16_window (hc : CfgOk maxLen minLen) (hs : Reachable maxLen minLen s) (hl : Live s h r)
    (hcov : r.covered = true) : min (capMin s.maxLen (s.pos - r.pos)) (s.pos - 1) ≤ s.q.length :=
  ((reachable_inv hc hs).regs h r hl.1 hl.2).window hcov

/-- the window is the newest `|q|` published values, newest first, and keeps at least `min` of them -/
theorem c16_window_content (hc : CfgOk maxLen minLen) (hs : Reachable maxLen minLen s) :
    s.pos = s.stream.length + 1 ∧ s.q.length ≤ s.stream.length ∧ min s.minLen (s.pos - 1) ≤ s.q.length ∧
    ∀ i, i < s.q.length → s.q[i]? = s.stream[s.stream.length - 1 - i]? :=
  let hi := reachable_inv hc hs
  ⟨hi.pos_eq, hi.q_len, hi.q_min, hi.q_win⟩

/-- the `size_t` subtractions of the code (`_pos - x._pos`, `_pos - _q.size()`) never wrap -/
theorem c16_no_wrap (hc : CfgOk maxLen minLen) (hs : Reachable maxLen minLen s) (hl : Live s h r) :
    r.pos ≤ s.pos ∧ s.q.length < s.pos := by
  have hi := reachable_inv hc hs
  have := hi.pos_eq
  have := hi.q_len
  exact ⟨(hi.regs h r hl.1 hl.2).pos_le, by omega⟩

/-! ## the pinned (unrepaired) code violated the property -/

/-- `close()` between `ready()` and `subscribe()` of one `next()`: the pinned `advance_suspend_lk` returned without
moving and `check_next()` delivered the last value a second time (replayed on the headers: corpus/c16_close_window.txt;
repaired by the `fix:` commit). -/
theorem c16_asis_duplicate_on_close :
    ((runAsIs (init none 1)
        [OpAsIs.op (Op.subRecent 0 Mode.all), OpAsIs.op (Op.push [7]),
         OpAsIs.op (Op.advance 0), OpAsIs.op (Op.getValue 0),
         OpAsIs.op (Op.advance 0), OpAsIs.op Op.close, OpAsIs.op (Op.advanceSuspend 0),
         OpAsIs.op (Op.getValue 0)]).regs[0]?.map (·.got)) = some [7, 7] := by decide

/-- the same history on the repaired step: the value once, then end of stream -/
theorem c16_fixed_no_duplicate_on_close :
    ((run (init none 1)
        [Op.subRecent 0 Mode.all, Op.push [7], Op.advance 0, Op.getValue 0,
         Op.advance 0, Op.close, Op.advanceSuspend 0, Op.getValue 0]).regs[0]?.map (fun r => (r.got, r.phase)))
      = some ([7], Phase.done) := by decide

/-- a *blocking* `next()` that really had to wait: the pinned `operator bool` ended in `subscriber::value()` instead
of `check_next()`, reported the old value again and lost the published one (corpus/c16_blocking_stale.txt). -/
theorem c16_asis_blocking_stale :
    ((runAsIs (init none 1)
        [OpAsIs.op (Op.subRecent 0 Mode.all), OpAsIs.op (Op.push [10]),
         OpAsIs.op (Op.advance 0), OpAsIs.op (Op.getValue 0),
         OpAsIs.op (Op.advance 0), OpAsIs.op (Op.advanceSuspend 0), OpAsIs.op (Op.push [20]),
         OpAsIs.blockingResume 0]).regs[0]?.map (·.got)) = some [10, 10] := by decide

/-! ## non-vacuity -/

/-- a reachable state with a bounded window, a lagging `all_values` subscriber, a parked one and a copy -/
example : Reachable (some 2) 1 (run (init (some 2) 1)
    [Op.subRecent 0 Mode.all, Op.subRecent 1 Mode.recent, Op.advanceSuspend 1, Op.push [1, 2, 3],
     Op.advance 0, Op.getValue 0, Op.subCopy 2 0]) := ⟨_, rfl⟩

example : CfgOk (some 2) 1 := ⟨Nat.le_refl _, by intro k hk; cases hk; decide⟩
example : CfgOk none 1 := ⟨Nat.le_refl _, by intro k hk; cases hk⟩

/-- the lagging subscriber (3 published, max 2) is told end of stream by lag; the woken `skip_to_recent` one reads 3 -/
example : (run (init (some 2) 1)
    [Op.subRecent 0 Mode.all, Op.subRecent 1 Mode.recent, Op.advanceSuspend 1, Op.push [1, 2, 3],
     Op.advance 0, Op.getValue 0, Op.getValue 1]).regs.map (fun r => (r.got, r.phase, r.pos))
    = [([], Phase.done, 1), ([3], Phase.idle, 1)] := by decide

/-- an `all_values` subscriber within the window receives 1, 2 in order, its copy continues with 2 -/
example : (run (init (some 3) 1)
    [Op.subRecent 0 Mode.all, Op.push [1, 2, 3], Op.advance 0, Op.getValue 0, Op.subCopy 1 0,
     Op.advance 0, Op.getValue 0, Op.advance 1, Op.getValue 1]).regs.map (fun r => (r.got, r.start))
    = [([1, 2], 0), ([2], 1)] := by decide

/-- the other consumer spellings are the same steps: `if (!sub.next())`, `generator_iterator` (`begin()` = the first
`next()`, `++it` / `it++` = the following ones, `it != end()` = "the last `next()` said true", `*it` = `value()`) and a
range-for loop, i.e. `next()` after `next()`.  Here a range-for consumer reads 1 and 2, parks, is woken by the publish of 3,
reads it, parks again, and leaves the loop when the publisher closes. -/
example : (run (init (some 3) 1)
    [Op.subRecent 0 Mode.all, Op.push [1, 2],
     Op.advance 0, Op.getValue 0, Op.advance 0, Op.getValue 0, Op.advance 0, Op.advanceSuspend 0,
     Op.push [3], Op.relock, Op.getValue 0, Op.advance 0, Op.advanceSuspend 0,
     Op.close, Op.relock, Op.getValue 0]).regs.map (fun r => (r.got, r.gotPos, r.phase))
    = [([1, 2, 3], [1, 2, 3], Phase.done)] := by decide

end Cocls.Pub
