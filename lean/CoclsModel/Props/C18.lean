import CoclsModel.CallbackProofs
set_option linter.unusedSimpArgs false
/-!
# C18 — callback adapters fire exactly once with the right outcome

Model: `CoclsModel/Callback.lean` (micro-step machines of `callback_await`, `make_promise`, `future_with_cb::operator<<`,
`discard`, `future_conv`, `call_fn_future_awaiter` and the hand-subscribed `call_fn_awaiter` around one awaited operation);
invariant: `CoclsModel/CallbackProofs.lean`.

Every theorem quantifies over **all** well-formed configurations `c` — adapter, converter behaviour and conversion
function, outcome kinds, any number `c.n - 1` of promise invocations / destructor agents on other threads with arbitrary
kinds (`c.rk`), resolution inside the factory (`c.pre`: "already resolved at registration"), by the registering thread
afterwards (`c.selfRes`) or by the other agents (concurrently) — and over **all** schedules (`Reach`: any list of agent
ids, by induction).  Re-use of the member-object adapters for any number of successive operations (every combination of
timings) is `c18_reuse_reach` / `c18_once_per_operation` at the end.  The allocator (heap / storage) only names where the helper block comes from: `allocs`/`frees`
count blocks of whichever allocator was chosen.

No theorem carries a precondition on the user's code any more: a callback of `callback_await` may throw (`c.cbThrows`,
any value) and the start of the awaited operation may throw (`c.startThrew`) — "exactly once, with the operation's outcome"
holds all the same (`c18_once`, `c18_throwing_callback_once`, `c18_start_throws`).  What the pinned code did instead in these
two situations, and in `future_with_cb::operator<<`, is kept as `astepAsIs` with one witness run each at the end.
-/
namespace Cocls.Callback

/-- states reachable from the initial state under some schedule -/
def Reach (c : Cfg) (s : State) : Prop := ∃ sched : List Nat, s = run c (init c) sched

theorem reach_inv {c : Cfg} {s : State} (hwf : c.WF) (hr : Reach c s) : Inv c s := by
  obtain ⟨sched, rfl⟩ := hr
  exact inv_reachable c hwf sched

/-- every agent has finished -/
def AllDone (c : Cfg) (s : State) : Prop := ∀ t, t < c.n → s.pc t = Pc.done

theorem allDone_iff (c : Cfg) (s : State) : allDone c s = true ↔ AllDone c s := by
  simp [allDone, AllDone, List.all_eq_true]

section
variable {c : Cfg} {s : State}

theorem sawOf_length_le (p : Outcome) : (sawOf c p).length ≤ 1 := by
  unfold sawOf cbAwaitSees
  cases c.adapter <;> simp

theorem convInOf_length_le (p : Outcome) : (convInOf c p).length ≤ 1 := by
  unfold convInOf
  split
  · cases convArg c p <;> simp
  · simp

/-- **At most once, always.**  In every reachable state the completion has run at most once, the converter was invoked
at most once, the outer promise was resolved at most once, and the user callback was invoked at most once — whether or
not it throws. -/
theorem c18_at_most_once (hwf : c.WF) (hr : Reach c s) :
    s.calls ≤ 1 ∧ s.convIn.length ≤ 1 ∧ s.outerSets ≤ 1 ∧ s.saw.length ≤ 1 := by
  have h := reach_inv hwf hr
  by_cases hu : s.tok = Tok.used
  · obtain ⟨_, h2, h3, _, h5⟩ := h.done_state hu
    refine ⟨by rw [h.calls_eq]; split <;> omega, by rw [h3]; exact convInOf_length_le _, by rw [h5]; split <;> omega, ?_⟩
    rw [h2]; exact sawOf_length_le _
  · obtain ⟨h2, h3, _, h5⟩ := h.fresh_state hu
    refine ⟨by rw [h.calls_eq]; split <;> omega, by simp [h3], by omega, by simp [h2]⟩

/-- at quiescence nobody holds the completion any more, and a resolved operation has been completed -/
theorem quiescent_used (hwf : c.WF) (hr : Reach c s) (hd : AllDone c s) (hs : s.slot = Slot.ready) : s.tok = Tok.used := by
  have h := reach_inv hwf hr
  have hall : ∀ t, s.pc t = Pc.done := by
    intro t
    by_cases ht : t < c.n
    · exact hd t ht
    · exact h.range t (by omega)
  cases htok : s.tok with
  | used => rfl
  | slot => have := h.tok_slot.1 htok; rw [hs] at this; cases this
  | agent t => have := (h.tok_agent t).1 htok; rw [hall t] at this; simp [holds] at this

/-- the adapters that invoke a user callback (the others, `discard` and `future_conv`, have a finaliser / a converter) -/
def Adapter.hasCallback : Adapter → Bool
  | Adapter.discard => false
  | Adapter.conv => false
  | _ => true

/-- **Exactly once at quiescence.**  When all agents have finished and the awaited operation is resolved, the completion
has run exactly once; the user callback of `callback_await` / `make_promise` / `future_with_cb::operator<<` /
`call_fn_future_awaiter` / `call_fn_awaiter` was invoked exactly once and saw the operation's outcome (value, exception, or
broken promise) — also when it throws (`c.cbThrows` is unconstrained) and when the operation failed at its start
(`c.startThrew`). -/
theorem c18_once (hwf : c.WF) (hr : Reach c s) (hd : AllDone c s) (hs : s.slot = Slot.ready) :
    s.calls = 1 ∧
    (c.adapter.hasCallback = true → s.saw = [s.payload.obs]) ∧
    (c.adapter = Adapter.discard ∨ c.adapter = Adapter.conv → s.saw = []) := by
  have h := reach_inv hwf hr
  have hu := quiescent_used hwf hr hd hs
  obtain ⟨_, h2, _, _, _⟩ := h.done_state hu
  refine ⟨by rw [h.calls_eq, if_pos hu], ?_, ?_⟩
  · intro ha; rw [h2]; unfold sawOf cbAwaitSees
    cases hc : c.adapter <;> simp [hc, Adapter.hasCallback] at ha ⊢
  · intro ha; rw [h2]; unfold sawOf
    rcases ha with ha | ha <;> simp [ha]

/-- **The operation does get resolved.**  Once every agent has finished and the promise has been invoked or destroyed
at all (`owner = false`), the future is resolved — in particular whenever there is at least one agent besides the
registrar, or the registrar invokes the promise itself, or the factory resolved it. -/
theorem c18_resolved_at_quiescence (hwf : c.WF) (hr : Reach c s) (hd : AllDone c s) :
    (s.owner = false → s.slot = Slot.ready) ∧
    (1 < c.n ∨ c.selfRes.isSome = true → s.owner = false) ∧
    (c.pre.isSome = true → s.slot = Slot.ready) := by
  have h := reach_inv hwf hr
  have hpos := hwf.pos
  refine ⟨?_, ?_, h.pre_ready⟩
  · intro ho
    by_cases hs : s.slot = Slot.ready
    · exact hs
    · exfalso
      obtain ⟨_, w, hw⟩ := h.own_f ho
      obtain ⟨t, _, hres⟩ := (h.pending_phase hs).2 w hw
      have hdone : s.pc t = Pc.done := by
        by_cases ht : t < c.n
        · exact hd t ht
        · exact h.range t (by omega)
      rw [hdone] at hres; simp [isResolve] at hres
  · intro hc
    rcases hc with hc | hc
    · exact h.claimed 1 (Or.inr ⟨hc, hd 1 hc, Or.inl (by omega)⟩)
    · exact h.claimed 0 (Or.inr ⟨hpos, hd 0 hpos, Or.inr hc⟩)

/-- **Right outcome.**  Whatever a user callback was shown is the operation's (final) outcome: the future is resolved at
that point and the observation is the resolved payload — the value, the exception, or "canceled" for a broken promise. -/
theorem c18_outcome (hwf : c.WF) (hr : Reach c s) :
    ∀ o ∈ s.saw, s.slot = Slot.ready ∧ o = s.payload.obs := by
  have h := reach_inv hwf hr
  intro o ho
  by_cases hu : s.tok = Tok.used
  · obtain ⟨h1, h2, _⟩ := h.done_state hu
    refine ⟨h1, ?_⟩
    rw [h2] at ho
    unfold sawOf cbAwaitSees at ho
    cases ha : c.adapter <;> simp [ha] at ho <;> exact ho
  · rw [(h.fresh_state hu).1] at ho; cases ho

/-- the resolved payload is the one supplied by the unique winner of the promise: the factory, an invocation (its
argument), or a destructor agent (no value) -/
theorem c18_result_is_winners (hwf : c.WF) (hr : Reach c s) (hs : s.slot = Slot.ready) :
    s.wins = 1 ∧ ∃ w, s.winner = some w ∧ s.payload = winPayload c w := by
  have h := reach_inv hwf hr
  obtain ⟨w, hw, _, hp⟩ := h.ready_phase hs
  have ho : s.owner = false := by
    cases hown : s.owner with
    | false => rfl
    | true => have := (h.own_t hown).2; rw [hw] at this; cases this
  exact ⟨(h.own_f ho).1, w, hw, hp⟩

theorem compStep_keeps (c : Cfg) (s : State) (t k : Nat) (w : Who) :
    (compStep c s t k w).1.slot = s.slot ∧ (compStep c s t k w).1.payload = s.payload := by
  unfold compStep
  cases k with
  | succ k => simp [setPc]
  | zero =>
    cases w <;> simp [complete, retStep, contReg, claimStep, setPc]
    cases c.selfRes <;> simp <;> split <;> simp

/-- **The outcome is final.**  Once the operation is resolved no step of any agent changes the slot or the payload any
more: what a callback was shown (`c18_outcome`) stays the operation's outcome. -/
theorem c18_result_stable (hwf : c.WF) (hr : Reach c s) (t : Nat) (hs : s.slot = Slot.ready) :
    (astep c s t).1.slot = Slot.ready ∧ (astep c s t).1.payload = s.payload := by
  have h := reach_inv hwf hr
  have hk := h.kindpc t
  unfold astep
  cases hpc : s.pc t with
  | done => exact ⟨hs, rfl⟩
  | gStart =>
    have ht : t = 0 := by simpa [hpc, pcOK] using hk
    subst ht
    have hnm : c.adapter ≠ Adapter.mkProm := by
      intro ha
      have := (h.unpub hpc).2.1
      rw [hwf.mkp ha, hs] at this; simp at this
    simp only; unfold startStep
    cases ha : c.adapter <;> simp [ha, hs, casStep, prep, setPc, h.nxt_null, Adapter.allocates] at hnm ⊢
    split
    · exact ⟨(compStep_keeps c _ 0 0 Who.reg).1, (compStep_keeps c _ 0 0 Who.reg).2⟩
    · exact ⟨rfl, rfl⟩
  | gCas => simp only; unfold casStep; simp [setPc, hs, h.nxt_null]
  | gParked => simp only; unfold contReg claimStep; cases c.selfRes <;> simp [setPc, hs] <;> split <;> simp [hs]
  | rArrive => simp only; unfold claimStep; split <;> (try split) <;> simp [setPc, hs]
  | rBlocked => simp only; unfold claimStep; split <;> simp [setPc, hs]
  | rFinLost => simp [setPc, hs]
  | rResolve dt =>
    exfalso
    have hw := h.active t (by simp [hpc, isResolve])
    obtain ⟨w, hw', hn, _⟩ := h.ready_phase hs
    rw [hw] at hw'; injection hw' with hw'
    have := hn t hw'.symm
    rw [hpc] at this; simp [isResolve] at this
  | rRet dt => simp [retStep, setPc, hs]
  | dArrive => simp only; unfold dtorStep; split <;> (try split) <;> simp [setPc, hs]
  | dBlocked => simp only; unfold dtorStep; split <;> simp [setPc, hs]
  | dFin => simp [setPc, hs]
  | comp k w =>
    simp only
    exact ⟨(compStep_keeps c s t k w).1.trans hs, (compStep_keeps c s t k w).2⟩

/-- **Helper block released exactly once, afterwards.**  At most one block is ever allocated (none by the member-object
adapters), it is released at most once, never before the completion has run, … -/
theorem c18_helper_freed_once (hwf : c.WF) (hr : Reach c s) :
    s.allocs ≤ 1 ∧ s.frees ≤ s.allocs ∧ s.frees ≤ s.calls ∧ (c.adapter.allocates = false → s.allocs = 0) := by
  have h := reach_inv hwf hr
  have ha := h.allocs_eq
  have hf := h.frees_eq
  have hc := h.calls_eq
  have hstart : s.pc 0 = Pc.gStart → s.tok ≠ Tok.used := by
    intro hp hu
    have := (h.tok_agent 0).2 (by simp [hp, holds])
    rw [hu] at this; cases this
  refine ⟨by rw [ha]; split <;> (try split) <;> omega, ?_, ?_, ?_⟩
  · rw [ha, hf]
    by_cases hp : s.pc 0 = Pc.gStart
    · have := hstart hp; simp [hp, this]
    · simp only [hp, if_false]; split <;> split <;> simp_all
  · rw [hf, hc]; split <;> split <;> simp_all
  · intro hn; rw [ha, hn]; simp

/-- … and exactly once when everything has finished and the operation was resolved: nothing leaks. -/
theorem c18_helper_freed_at_quiescence (hwf : c.WF) (hr : Reach c s) (hd : AllDone c s) (hs : s.slot = Slot.ready) :
    s.frees = s.allocs ∧ (c.adapter.allocates = true → s.frees = 1) := by
  have h := reach_inv hwf hr
  have hu := quiescent_used hwf hr hd hs
  have hp : s.pc 0 ≠ Pc.gStart := by rw [hd 0 hwf.pos]; simp
  rw [h.allocs_eq, h.frees_eq]
  simp only [hu, hp, if_false, true_and]
  intro ha; simp [ha]

/-- the completion's plain segment runs callback(s), converter and release in this order: the block is released after
the callback returned -/
theorem c18_free_follows_callback (c : Cfg) (s : State) :
    (complete c s).2 = (sawOf c s.payload).map Ev.cb ++ (convInOf c s.payload).map Ev.conv
        ++ (if c.adapter.allocates then [Ev.free] else []) := rfl

/-- **Single responsibility.**  At any time at most one party is responsible for the completion: an adapter parked in
the slot excludes every agent, and two agents never hold it together; once it ran nobody holds it. -/
theorem c18_single_holder (hwf : c.WF) (hr : Reach c s) :
    (s.slot = Slot.node → ∀ t, holds (s.pc t) = false) ∧
    (∀ t u, holds (s.pc t) = true → holds (s.pc u) = true → t = u) ∧
    (s.calls = 1 → s.slot ≠ Slot.node ∧ ∀ t, holds (s.pc t) = false) := by
  have h := reach_inv hwf hr
  refine ⟨?_, ?_, ?_⟩
  · intro hs t
    have ht := h.tok_slot.2 hs
    cases hh : holds (s.pc t) with
    | false => rfl
    | true => have := (h.tok_agent t).2 hh; rw [ht] at this; cases this
  · intro t u ht hu
    have h1 := (h.tok_agent t).2 ht
    have h2 := (h.tok_agent u).2 hu
    rw [h1] at h2; injection h2
  · intro hc
    have hu : s.tok = Tok.used := by
      by_cases hu : s.tok = Tok.used
      · exact hu
      · rw [h.calls_eq, if_neg hu] at hc; cases hc
    refine ⟨fun hs => ?_, fun t => ?_⟩
    · have := h.tok_slot.2 hs; rw [hu] at this; cases this
    · cases hh : holds (s.pc t) with
      | false => rfl
      | true => have := (h.tok_agent t).2 hh; rw [hu] at this; cases this

/-- **Already resolved at registration.**  When the registrar finds the future resolved — `ready()` says yes
(`callback_await`) or the subscribing CAS is refused (all others, `future_with_cb::operator<<` among them, and
`callback_await` after a late resolution) — it takes the completion itself: it is now the one holder (`comp … reg`),
nothing was parked in the slot, and by `c18_single_holder` / `c18_once` it runs the completion exactly once.
(`callback_await` whose operation threw at its start has no future to ask: `c18_start_throws_inline`.) -/
theorem c18_already_resolved (hwf : c.WF) (hr : Reach c s) (hs : s.slot = Slot.ready)
    (hpc : s.pc 0 = Pc.gStart ∨ s.pc 0 = Pc.gCas) (hnt : c.adapter = Adapter.cbAwait → c.startThrew = false) :
    (astep c s 0).1.pc 0 = Pc.comp (nloads c s.payload) Who.reg ∧ (astep c s 0).1.tok = Tok.agent 0
      ∧ (astep c s 0).1.slot = Slot.ready ∧ (astep c s 0).1.calls = s.calls := by
  have h := reach_inv hwf hr
  have htok : s.tok = Tok.agent 0 := (h.tok_agent 0).2 (by rcases hpc with hp | hp <;> simp [hp, holds])
  rcases hpc with hp | hp
  · have hnm : c.adapter ≠ Adapter.mkProm := by
      intro ha
      have := (h.unpub hp).2.1
      rw [hwf.mkp ha, hs] at this; simp at this
    unfold astep; rw [hp]; simp only
    unfold startStep
    cases ha : c.adapter <;> simp [ha, hs, casStep, prep, setPc, htok, h.nxt_null, Adapter.allocates] at hnm hnt ⊢
    simp [hnt]
  · unfold astep; rw [hp]; simp only
    unfold casStep; simp [setPc, htok, hs, h.nxt_null]

/-- **The start of the awaited operation threw (`callback_await`).**  The awaitable is constructed inside the helper's try
block: within the registrar's first segment — no operation on a shared atomic in between — the callback is called once
with the exceptional state and the frame is released. -/
theorem c18_start_throws_inline (hwf : c.WF) (hr : Reach c s) (hs : s.slot = Slot.ready) (hpc : s.pc 0 = Pc.gStart)
    (ha : c.adapter = Adapter.cbAwait) (ht : c.startThrew = true) :
    (astep c s 0).1.calls = 1 ∧ (astep c s 0).1.saw = [s.payload.obs] ∧ (astep c s 0).1.tok = Tok.used
      ∧ (astep c s 0).1.allocs = 1 ∧ (astep c s 0).1.frees = 1
      ∧ (astep c s 0).2 = prepEvs c s ++ [Ev.cb s.payload.obs, Ev.free] ++ (contReg c (setPc (complete c (setPc (prep c s) 0 (Pc.comp 0 Who.reg))).1 0 Pc.gParked)).2 := by
  have h := reach_inv hwf hr
  have htok : s.tok = Tok.agent 0 := (h.tok_agent 0).2 (by simp [hpc, holds])
  obtain ⟨f1, _, _, _⟩ := h.fresh_state (by simp [htok])
  have hc : s.calls = 0 := by rw [h.calls_eq]; simp [htok]
  have hal : s.allocs = 0 := by rw [h.allocs_eq]; simp [hpc]
  have hfr : s.frees = 0 := by rw [h.frees_eq]; simp [htok]
  unfold astep; rw [hpc]; simp only
  unfold startStep
  simp only [ha, hs, ht, if_true]
  unfold compStep
  simp only [afterPc]
  cases hsr : c.selfRes <;>
    simp [contReg, claimStep, complete, prep, setPc, hsr, ha, sawOf, cbAwaitSees, convInOf, Adapter.allocates, f1, hc, hal, hfr]
  split <;> simp [f1, hc, hal, hfr]

/-- **Parked, then resumed by the resolver.**  A successful subscription parks the completion in the slot; the one
exchange that finds it there (`resolve()` of the winner) hands it to that agent, who then holds it alone. -/
theorem c18_resolver_takes_over (t : Nat) (dt : Bool) (hpc : s.pc t = Pc.rResolve dt)
    (hs : s.slot = Slot.node) :
    (∃ k w, (astep c s t).1.pc t = Pc.comp k w) ∧ (astep c s t).1.tok = Tok.agent t ∧ (astep c s t).1.slot = Slot.ready := by
  unfold astep; rw [hpc]; simp only
  unfold resolveStep; rw [hs]; simp [setPc]

/-- **Converters.**  The outer future is resolved at most once, only after the source is resolved, and holds exactly
`convRes` of the source's outcome; at quiescence it *is* resolved. -/
theorem c18_conv_outcome (hwf : c.WF) (hr : Reach c s) (ha : c.adapter = Adapter.conv) :
    (∀ r, s.outer = some r → s.slot = Slot.ready ∧ r = convRes c s.payload) ∧
    (∀ a ∈ s.convIn, convArg c s.payload = some a) ∧
    (AllDone c s → s.slot = Slot.ready → s.outer = some (convRes c s.payload) ∧ s.outerSets = 1) := by
  have h := reach_inv hwf hr
  refine ⟨?_, ?_, ?_⟩
  · intro r hr'
    by_cases hu : s.tok = Tok.used
    · obtain ⟨h1, _, _, h4, _⟩ := h.done_state hu
      rw [h4, outerOf, if_pos ha] at hr'
      injection hr' with hr'
      exact ⟨h1, hr'.symm⟩
    · rw [(h.fresh_state hu).2.2.1] at hr'; cases hr'
  · intro a hain
    by_cases hu : s.tok = Tok.used
    · obtain ⟨_, _, h3, _, _⟩ := h.done_state hu
      rw [h3, convInOf, if_pos ha] at hain
      cases hc : convArg c s.payload with
      | none => rw [hc] at hain; simp at hain
      | some b => rw [hc] at hain; simp at hain; rw [hain]
    · rw [(h.fresh_state hu).2.1] at hain; cases hain
  · intro hd hs
    have hu := quiescent_used hwf hr hd hs
    obtain ⟨_, _, _, h4, h5⟩ := h.done_state hu
    rw [h4, h5, outerOf, if_pos ha, if_pos ha]
    exact ⟨rfl, rfl⟩

/-- what `convRes` is: a source value goes through the converter (its result, its exception, or a promise it left
unresolved) … -/
theorem c18_conv_value (hrd : c.convReads = true) (v : Nat) :
    convArg c (Outcome.val v) = some (if c.srcVoid then none else some v) ∧
    convRes c (Outcome.val v) =
      (match c.cvb with
       | ConvB.ret => OuterRes.val (c.cvf (if c.srcVoid then none else some v))
       | ConvB.throw e => OuterRes.exc e
       | ConvB.leave => OuterRes.noValue) := by
  refine ⟨by simp [convArg, hrd], ?_⟩
  simp only [convRes, convArg, hrd]
  cases c.cvb <;> simp

/-- … a source exception reaches the outer future unchanged and the converter is not invoked … -/
theorem c18_conv_source_exception (hrd : c.convReads = true) (e : Nat) :
    convArg c (Outcome.exc e) = none ∧ convRes c (Outcome.exc e) = OuterRes.exc e := by
  simp [convRes, convArg, hrd]

/-- … and a dropped source reaches it as the broken-promise exception. -/
theorem c18_conv_source_dropped (hrd : c.convReads = true) :
    convArg c Outcome.none = none ∧ convRes c Outcome.none = OuterRes.canceledExc := by
  simp [convRes, convArg, hrd]

/-- after every step of every run the adapter's awaiter node is unlinked again (`_next = nullptr`): whether the
subscription was refused, or the node was parked and detached by the resolver — the helper can be re-armed -/
theorem c18_rearmed (hwf : c.WF) (hr : Reach c s) : s.nxt = Slot.null :=
  (reach_inv hwf hr).nxt_null

theorem dtorReady_of (hpub : s.published = true)
    (h0 : c.selfRes.isSome = true → s.pc 0 = Pc.done)
    (hres : ∀ i, i < c.n → i ≠ 0 → (c.rk i).isSome = true → s.pc i = Pc.done) : dtorReady c s = true := by
  unfold dtorReady
  simp only [Bool.and_eq_true, List.all_eq_true, List.mem_range]
  refine ⟨hpub, ?_⟩
  intro i hi
  by_cases hi0 : i = 0
  · subst hi0
    cases hsr : c.selfRes with
    | none => simp
    | some k => simp [h0 (by simp [hsr])]
  · simp only [hi0, if_false]
    cases hk : c.rk i with
    | none => rfl
    | some k => simp [hres i hi hi0 (by simp [hk])]

/-- **No hang.**  As long as some agent has not finished, some agent is enabled: nobody waits for a wake-up that never
comes (the registrar never blocks; invocations wait only for the promise to exist; `~promise` only for the invocations). -/
theorem c18_no_hang (hwf : c.WF) (hr : Reach c s) (hnd : ¬ AllDone c s) : ∃ t, t < c.n ∧ enabled c s t = true := by
  have h := reach_inv hwf hr
  have hpos := hwf.pos
  by_cases h0 : s.pc 0 = Pc.done
  · have hpub : s.published = true := h.pub.2 (by rw [h0]; simp)
    by_cases hres : ∀ i, i < c.n → i ≠ 0 → (c.rk i).isSome = true → s.pc i = Pc.done
    · -- only destructor agents are left
      have hrdy := dtorReady_of (c := c) hpub (fun _ => h0) hres
      have : ∃ t, t < c.n ∧ s.pc t ≠ Pc.done := by
        apply Classical.byContradiction
        intro hcon
        apply hnd
        intro t ht
        apply Classical.byContradiction
        intro hne
        exact hcon ⟨t, ht, hne⟩
      obtain ⟨t, ht, hne⟩ := this
      refine ⟨t, ht, ?_⟩
      unfold enabled
      cases hpc : s.pc t <;> simp_all
    · have : ∃ i, i < c.n ∧ i ≠ 0 ∧ (c.rk i).isSome = true ∧ s.pc i ≠ Pc.done := by
        apply Classical.byContradiction
        intro hcon
        apply hres
        intro i hi hi0 hk
        apply Classical.byContradiction
        intro hne
        exact hcon ⟨i, hi, hi0, hk, hne⟩
      obtain ⟨i, hi, hi0, hk, hne⟩ := this
      refine ⟨i, hi, ?_⟩
      have hok := h.kindpc i
      unfold enabled
      cases hpc : s.pc i <;> simp_all [pcOK, isDt]
  · refine ⟨0, hpos, ?_⟩
    have hok := h.kindpc 0
    unfold enabled
    cases hpc : s.pc 0 <;> simp_all [pcOK, isDt]

end

/-! ## When the helper of `callback_await` starts, and what the awaited operation is constructed from

From ordinary code the helper coroutine starts inside the call.  From inside a running coroutine (`c.inCoro`: active
`coro_queue`) `detach()` only queues it: it starts after the caller's full expression — and every temporary argument —
is gone (`tmpLive = false`).  The awaited operation (`Awt awt(args...)`) is constructed in the helper's *body*, so it must
be built from the copies the helper frame owns. -/

/-- the operation has been constructed exactly when the registrar is past its first segment, and at that moment the
caller's temporaries are dead exactly when the start was deferred -/
theorem c18_deferred_start (hwf : c.WF) (hr : Reach c s) :
    (s.built = true ↔ s.pc 0 ≠ Pc.gStart) ∧ (s.built = true → (s.tmpLive = false ↔ deferred c = true)) := by
  have h := reach_inv hwf hr
  refine ⟨h.built_iff, fun hb => ?_⟩
  have hp := h.built_iff.1 hb
  rw [h.tmp_iff]
  exact ⟨fun hx => hx.1, fun hx => ⟨hx, hp⟩⟩

/-- **The awaited operation is never constructed from a dead argument**: the helper takes its arguments by value, its
frame owns the copies, and the frame is alive from its allocation until after the completion — whichever context the
registration is made from and whenever the helper starts -/
theorem c18_operation_built_from_live_args (hwf : c.WF) (hr : Reach c s) (hv : c.argsByRef = false) :
    s.builtLive = true :=
  (reach_inv hwf hr).built_val hv

/-- why the by-reference variant survives every test that registers from ordinary code: a helper that starts inside the
call finds the caller's arguments alive either way -/
theorem c18_inline_start_args_live (hwf : c.WF) (hr : Reach c s) (hd : deferred c = false) : s.builtLive = true :=
  (reach_inv hwf hr).built_ctx hd

/-- NOT the code — `callback_await_coro(Alloc &, Fn, Args && ...)`, the frame holding references: registered from inside a
running coroutine the operation is constructed after the caller's temporaries died (the seeded change
r3-c18-callback-await-args-by-ref; the harness reports it as `dead-arg`) -/
theorem c18_args_by_ref_witness :
    let c : Cfg := { adapter := Adapter.cbAwait, n := 2, rk := fun _ => some (RK.value 42), inCoro := true, argsByRef := true }
    let s := run c (init c) [0]
    s.built = true ∧ s.tmpLive = false ∧ s.builtLive = false ∧ (astep c (init c) 0).2 = [Ev.alloc, Ev.callerCont, Ev.deadArg, Ev.opLoadSlot 0 Slot.null] := by
  decide

/-- the code as it is, same scenario: deferred start, the caller carries on first, the operation is built from the frame's
copies; the completion still runs exactly once -/
example :
    let c : Cfg := { adapter := Adapter.cbAwait, n := 2, rk := fun _ => some (RK.value 42), inCoro := true }
    let s := run c (init c) [0, 0, 1, 1, 1, 0]
    (astep c (init c) 0).2 = [Ev.alloc, Ev.callerCont, Ev.opLoadSlot 0 Slot.null] ∧
    s.tmpLive = false ∧ s.builtLive = true ∧ s.calls = 1 ∧ s.saw = [Obs.val 42] ∧ s.frees = 1 := by
  decide

/-! ## Re-use of the member-object adapters: exactly once *per awaited operation*

`future_conv` and `call_fn_future_awaiter` objects are re-armed with `<<` for one operation after the other; the awaiter
node (and its `_next` link, the expected value of the next subscribing CAS) is the same object every time.  `runOps`
chains any number of operations — each with its own adapter configuration, outcome kinds, agents, timing (already
resolved / same thread later / concurrent) and schedule — through that link. -/

/-- every operation of every sequence is a run of the single-operation machine from its standard initial state (the
link it inherits is null), so each of the theorems above holds for each operation separately -/
theorem c18_reuse_reach (ops : List OpRun) (hwf : ∀ o ∈ ops, o.c.WF) :
    Pointwise (fun o s => Reach o.c s) ops (runOps Slot.null ops) := by
  suffices h : ∀ nx, nx = Slot.null → Pointwise (fun o s => Reach o.c s) ops (runOps nx ops) from h _ rfl
  induction ops with
  | nil => intro nx _; exact Pointwise.nil
  | cons o rest ih =>
    intro nx hnx
    subst hnx
    have hr : Reach o.c (run o.c (initWith o.c Slot.null) o.sched) := ⟨o.sched, rfl⟩
    have hw := hwf o (by simp)
    unfold runOps
    exact Pointwise.cons hr (ih (fun o' ho' => hwf o' (by simp [ho'])) _ (c18_rearmed hw hr))

/-- **Exactly once per awaited operation**, for any number of successive operations on one helper object and every
combination of timings: each operation that has finished and is resolved ran its completion exactly once, showed its
callback exactly that operation's outcome, delivered exactly `convRes` of that operation's outcome to that operation's
outer future, and released what it allocated. -/
theorem c18_once_per_operation (ops : List OpRun) (hwf : ∀ o ∈ ops, o.c.WF) :
    Pointwise (fun o s => AllDone o.c s → s.slot = Slot.ready →
        s.calls = 1 ∧ s.frees = s.allocs ∧
        (o.c.adapter.hasCallback = true → s.saw = [s.payload.obs]) ∧
        (o.c.adapter = Adapter.conv → s.outer = some (convRes o.c s.payload) ∧ s.outerSets = 1))
      ops (runOps Slot.null ops) := by
  have hr := c18_reuse_reach ops hwf
  generalize runOps Slot.null ops = ss at hr
  induction hr with
  | nil => exact Pointwise.nil
  | @cons o s os ss' h _ ih =>
    refine Pointwise.cons ?_ (ih (fun o' ho' => hwf o' (by simp [ho'])))
    intro hd hs
    have hw := hwf o (by simp)
    have h1 := c18_once hw h hd hs
    exact ⟨h1.1, (c18_helper_freed_at_quiescence hw h hd hs).1, h1.2.1,
      fun ha => (c18_conv_outcome hw h ha).2.2 hd hs⟩

/-! ## The pinned code: `future_conv` over a `future<void>` source ignored the source's failure

`convReads := false` is the step of the two void-source specialisations as they were at the pinned commit (the resume
function never looked at `_fut`).  The source fails with exception 5, yet the outer future receives the converter's
value.  Repaired in /repo by reading the source first (`fix:` commit); the theorems above are about the repaired step
(`convReads = true`, hypothesis of `c18_conv_source_exception` / `c18_conv_source_dropped`). -/

def asIsVoidConv : Cfg :=
  { adapter := Adapter.conv, n := 2, rk := fun _ => some (RK.exc 5), srcVoid := true, convReads := false }

theorem c18_void_source_asis_witness :
    let s := run asIsVoidConv (init asIsVoidConv) [0, 1, 1, 1, 0]
    allDone asIsVoidConv s = true ∧ s.payload = Outcome.exc 5 ∧ s.outer = some (OuterRes.val 7000) ∧ s.convIn = [none] := by
  decide

/-- the same schedule on the repaired step delivers the source's exception and does not run the converter -/
theorem c18_void_source_fixed_witness :
    let c := { asIsVoidConv with convReads := true }
    let s := run c (init c) [0, 1, 1, 1, 1, 0]
    allDone c s = true ∧ s.payload = Outcome.exc 5 ∧ s.outer = some (OuterRes.exc 5) ∧ s.convIn = [] := by
  decide

/-! ## Source flavours: the value the adapter reads back is the operation's value

`payload = val v` is what `future<T>::value()` of the adapter's future returns for every flavour of source the factory may
return — a `future<T>`, a `future<T&>` resolved through its promise, an already resolved `future<T&>::set_value(x)`. -/

theorem c18_source_flavour_read (fl : SrcFlavour) (v a : Nat) : readBack fl (storedState false fl) v a = some v := by
  cases fl <;> rfl

/-- the pinned code: the static reference factory stored the address under `State::value`, so an adapter whose
`future<T>` was constructed from it read the pointer bits — the completion ran once but received the address of the
operation's value.  Repaired in /repo (`fix:` commit: `__SetReferenceTag` stores `State::value_ref`). -/
theorem c18_static_ref_asis_witness :
    readBack SrcFlavour.refStatic (storedState true SrcFlavour.refStatic) 10 764171228 = some 764171228 ∧
    readBack SrcFlavour.refPromise (storedState true SrcFlavour.refPromise) 10 764171228 = some 10 := by
  decide

/-! ## A throwing callback, a throwing start, `future_with_cb::operator<<`: the repaired behaviour, and the pinned code

Three defects of the pinned headers were repaired in /repo; the theorems above are about the repaired steps and need no
precondition.  The corollaries below spell the three situations out; `astepAsIs` / `runAsIs` (`Callback.lean`) keep the
pinned steps, and each witness shows "exactly once, and the block released once" failing for them on a concrete run. -/

section
variable {c : Cfg} {s : State}

/-- **A callback that throws is still called exactly once** (`callback_await`): whatever exception `e` the callback throws
after it was handed the outcome, at quiescence it has been invoked once, with the operation's outcome — never a second time
with its own exception — and the frame was released once. -/
theorem c18_throwing_callback_once (hwf : c.WF) (hr : Reach c s) (hd : AllDone c s) (hs : s.slot = Slot.ready)
    (ha : c.adapter = Adapter.cbAwait) (e : Nat) (_hthrow : c.cbThrows = some e) :
    s.calls = 1 ∧ s.saw = [s.payload.obs] ∧ s.allocs = 1 ∧ s.frees = 1 := by
  have h1 := c18_once hwf hr hd hs
  have h2 := c18_helper_freed_at_quiescence hwf hr hd hs
  have hal : c.adapter.allocates = true := by simp [ha, Adapter.allocates]
  exact ⟨h1.1, h1.2.1 (by simp [ha, Adapter.hasCallback]), by rw [← h2.1]; exact h2.2 hal, h2.2 hal⟩

/-- **The start of the awaited operation throws** exception `e` (`c.pre = exc e`, `c.startThrew`: the factory / the
constructor of the awaitable throws instead of returning): the operation's outcome is that exception, and at quiescence
the completion has run exactly once with it — the callback of `callback_await` / `future_with_cb::operator<<` /
`call_fn_future_awaiter` saw `exc e`, the outer future of a converter holds `exc e` and the converter was not run — and
what was allocated has been released.  No agent can change the outcome (the promise, if any, is already spent). -/
theorem c18_start_throws (hwf : c.WF) (hr : Reach c s) (hd : AllDone c s) (e : Nat) (hp : c.pre = some (RK.exc e)) :
    s.slot = Slot.ready ∧ s.payload = Outcome.exc e ∧ s.calls = 1 ∧ s.frees = s.allocs ∧
    (c.adapter.hasCallback = true → s.saw = [Obs.exc e]) ∧
    (c.adapter = Adapter.conv → c.convReads = true → s.outer = some (OuterRes.exc e) ∧ s.convIn = []) := by
  have h := reach_inv hwf hr
  have hs : s.slot = Slot.ready := h.pre_ready (by simp [hp])
  have hw : s.winner = some Win.factory := h.pre_winner (by simp [hp])
  obtain ⟨w, hw', _, hpay⟩ := h.ready_phase hs
  rw [hw] at hw'; injection hw' with hw'; subst hw'
  have hpay' : s.payload = Outcome.exc e := by rw [hpay]; simp [winPayload, hp, RK.payload]
  have h1 := c18_once hwf hr hd hs
  refine ⟨hs, hpay', h1.1, (c18_helper_freed_at_quiescence hwf hr hd hs).1, ?_, ?_⟩
  · intro hcb; rw [h1.2.1 hcb, hpay']; rfl
  · intro ha hrd
    have hu := quiescent_used hwf hr hd hs
    obtain ⟨_, _, h3, h4, _⟩ := h.done_state hu
    rw [h4, h3, hpay', outerOf, if_pos ha, convInOf, if_pos ha, (c18_conv_source_exception hrd e).1, (c18_conv_source_exception hrd e).2]
    exact ⟨rfl, rfl⟩

/-- **`future_with_cb::operator<<`**: the callback is registered on the re-created future — parked in its slot by the
subscribing CAS, or, when that future is already resolved, run by the registrar at once (`c18_already_resolved`) — and at
quiescence it has been called exactly once with the operation's outcome and the object has been released exactly once. -/
theorem c18_lshift_once (hwf : c.WF) (hr : Reach c s) (hd : AllDone c s) (hs : s.slot = Slot.ready)
    (ha : c.adapter = Adapter.mkCb) :
    s.calls = 1 ∧ s.saw = [s.payload.obs] ∧ s.allocs = 1 ∧ s.frees = 1 := by
  have h1 := c18_once hwf hr hd hs
  have h2 := c18_helper_freed_at_quiescence hwf hr hd hs
  have hal : c.adapter.allocates = true := by simp [ha, Adapter.allocates]
  exact ⟨h1.1, h1.2.1 (by simp [ha, Adapter.hasCallback]), by rw [← h2.1]; exact h2.2 hal, h2.2 hal⟩

/-- its registration step: one subscribing CAS on the re-created future's slot (expected value null: the node is fresh),
which parks the object — nobody else holds the completion then -/
theorem c18_lshift_registers (hwf : c.WF) (hr : Reach c s) (hpc : s.pc 0 = Pc.gStart) (ha : c.adapter = Adapter.mkCb)
    (hs : s.slot = Slot.null) :
    (astep c s 0).1.slot = Slot.node ∧ (astep c s 0).1.tok = Tok.slot ∧ (astep c s 0).1.pc 0 = Pc.gParked
      ∧ (astep c s 0).2 = prepEvs c s ++ [Ev.opCas 0 true Slot.null] := by
  have h := reach_inv hwf hr
  unfold astep; rw [hpc]; simp only
  unfold startStep
  simp [ha, hs, casStep, prep, setPc, h.nxt_null, Adapter.allocates]

/-- the pinned steps differ from the repaired ones in exactly the three repaired situations: for every other
configuration `astepAsIs` *is* `astep` -/
theorem c18_asis_differs_only (t : Nat) (hm : c.adapter ≠ Adapter.mkCb)
    (hcb : c.adapter = Adapter.cbAwait → c.cbThrows = none ∧ c.startThrew = false) :
    astepAsIs c s t = astep c s t := by
  have hsaw : ∀ p, sawOfAsIs c p = sawOf c p := by
    intro p
    unfold sawOfAsIs
    cases ha : c.adapter <;> simp
    simp [sawOf, ha, cbAwaitSees, cbAwaitSeesAsIs, (hcb ha).1]
  unfold astepAsIs astep
  cases hpc : s.pc t <;> simp only
  · unfold startStepAsIs
    cases ha : c.adapter <;> simp [ha] at hm ⊢
    simp [(hcb ha).2]
  · unfold compStepAsIs compStep completeAsIs complete
    simp only [hsaw]

end

def throwingCb : Cfg :=
  { adapter := Adapter.cbAwait, n := 2, rk := fun _ => some (RK.value 42), cbThrows := some 88 }

/-- AS-IS witness for /repo 963fa92 ("fix: callback_await called the callback a second time when it threw"): on the pinned
step the callback, which throws after it received the value 42, is invoked a second time — with an exceptional state
carrying its own exception 88 — for one awaited operation -/
theorem c18_throwing_callback_asis_witness :
    let s := runAsIs throwingCb (init throwingCb) [0, 0, 0, 1, 1, 1]
    allDone throwingCb s = true ∧ s.slot = Slot.ready ∧ s.payload = Outcome.val 42 ∧ s.calls = 1
      ∧ s.saw = [Obs.val 42, Obs.exc 88] ∧ s.frees = 1 := by
  decide

/-- the same run on the repaired step: called once, with the value -/
theorem c18_throwing_callback_fixed_witness :
    let s := run throwingCb (init throwingCb) [0, 0, 0, 1, 1, 1]
    throwingCb.WF ∧ allDone throwingCb s = true ∧ s.slot = Slot.ready ∧ s.calls = 1 ∧ s.saw = [Obs.val 42] ∧ s.frees = 1 := by
  refine ⟨⟨by decide, by decide⟩, ?_⟩
  decide

def throwingStart : Cfg :=
  { adapter := Adapter.cbAwait, n := 1, rk := fun _ => none, pre := some (RK.exc 6), startThrew := true }

/-- AS-IS witness for /repo 42a8746 ("fix: callback_await lost the completion when starting the awaited operation
threw"): on the pinned step the registration returns normally, the frame is released, and the callback registered for the
operation — whose outcome is exception 6 — is never called -/
theorem c18_start_throws_asis_witness :
    let s := runAsIs throwingStart (init throwingStart) [0]
    allDone throwingStart s = true ∧ s.slot = Slot.ready ∧ s.payload = Outcome.exc 6 ∧ s.calls = 0 ∧ s.saw = []
      ∧ s.allocs = 1 ∧ s.frees = 1
      ∧ (astepAsIs throwingStart (init throwingStart) 0).2 = [Ev.alloc, Ev.free, Ev.fin 0] := by
  decide

/-- the same run on the repaired step: the callback receives the exception, within the registration, then the frame goes -/
theorem c18_start_throws_fixed_witness :
    let s := run throwingStart (init throwingStart) [0]
    throwingStart.WF ∧ allDone throwingStart s = true ∧ s.calls = 1 ∧ s.saw = [Obs.exc 6] ∧ s.allocs = 1 ∧ s.frees = 1
      ∧ (astep throwingStart (init throwingStart) 0).2 = [Ev.alloc, Ev.cb (Obs.exc 6), Ev.free, Ev.fin 0] := by
  refine ⟨⟨by decide, by decide⟩, ?_⟩
  decide

def lshiftCb : Cfg :=
  { adapter := Adapter.mkCb, n := 2, rk := fun _ => some (RK.value 5) }

/-- AS-IS witness for /repo edcba93 ("fix: future_with_cb::operator<< lost the callback"): on the pinned step nothing is
subscribed to the re-created future; the resolver's exchange finds an empty slot, the callback is never called and the
object never released — also when the future is already resolved at `<<` (second run) -/
theorem c18_lshift_asis_witness :
    (let s := runAsIs lshiftCb (init lshiftCb) [0, 0, 1, 1, 1]
     allDone lshiftCb s = true ∧ s.slot = Slot.ready ∧ s.payload = Outcome.val 5 ∧ s.calls = 0 ∧ s.saw = []
       ∧ s.allocs = 1 ∧ s.frees = 0) ∧
    (let c : Cfg := { adapter := Adapter.mkCb, n := 1, rk := fun _ => none, pre := some (RK.value 5) }
     let s := runAsIs c (init c) [0]
     allDone c s = true ∧ s.slot = Slot.ready ∧ s.calls = 0 ∧ s.saw = [] ∧ s.allocs = 1 ∧ s.frees = 0) := by
  decide

/-- the same two runs on the repaired step: parked and resumed by the resolver / called at once by the registrar; one
call with the value, the object released once -/
theorem c18_lshift_fixed_witness :
    (let s := run lshiftCb (init lshiftCb) [0, 0, 1, 1, 1]
     lshiftCb.WF ∧ allDone lshiftCb s = true ∧ s.calls = 1 ∧ s.saw = [Obs.val 5] ∧ s.allocs = 1 ∧ s.frees = 1) ∧
    (let c : Cfg := { adapter := Adapter.mkCb, n := 1, rk := fun _ => none, pre := some (RK.value 5) }
     let s := run c (init c) [0, 0]
     c.WF ∧ allDone c s = true ∧ s.calls = 1 ∧ s.saw = [Obs.val 5] ∧ s.allocs = 1 ∧ s.frees = 1
       ∧ (astep c (init c) 0).2 = [Ev.alloc, Ev.opCas 0 false Slot.ready]) := by
  refine ⟨⟨⟨by decide, by decide⟩, ?_⟩, ⟨⟨by decide, by decide⟩, ?_⟩⟩ <;> decide

/-! ## Non-vacuity: the hypotheses are met by non-trivial reachable states -/

/-- `callback_await`, resolver racing between `ready()` and the CAS: refused subscription, the registrar completes -/
example :
    let c : Cfg := { adapter := Adapter.cbAwait, n := 3, rk := fun i => if i = 1 then some (RK.exc 3) else none }
    let s := run c (init c) [0, 1, 1, 0, 0, 1, 2, 2, 0]
    c.WF ∧ AllDone c s ∧ s.slot = Slot.ready ∧ s.calls = 1 ∧ s.saw = [Obs.exc 3] ∧ s.allocs = 1 ∧ s.frees = 1 := by
  refine ⟨⟨by decide, by decide⟩, ?_, ?_⟩
  · rw [← allDone_iff]; decide
  · decide

/-- `make_promise`, two invocations racing plus the destructor: one callback with the winner's value -/
example :
    let c : Cfg := { adapter := Adapter.mkProm, n := 4, rk := fun i => if i = 1 then some (RK.value 7) else if i = 2 then some RK.drop else none }
    let s := run c (init c) [3, 0, 2, 1, 1, 2, 2, 2, 1, 3, 3]
    c.WF ∧ AllDone c s ∧ s.slot = Slot.ready ∧ s.calls = 1 ∧ s.saw = [Obs.canceled] ∧ s.frees = 1 ∧ s.wins = 1 := by
  refine ⟨⟨by decide, by decide⟩, ?_, ?_⟩
  · rw [← allDone_iff]; decide
  · decide

/-- `future_conv`, source resolved inside the factory (already resolved at registration), throwing converter -/
example :
    let c : Cfg := { adapter := Adapter.conv, n := 1, rk := fun _ => none, pre := some (RK.value 4), cvb := ConvB.throw 77 }
    let s := run c (init c) [0, 0, 0]
    c.WF ∧ AllDone c s ∧ s.slot = Slot.ready ∧ s.outer = some (OuterRes.exc 77) ∧ s.convIn = [some 4] := by
  refine ⟨⟨by decide, by decide⟩, ?_, ?_⟩
  · rw [← allDone_iff]; decide
  · decide

/-- `discard`, resolved later by the registering thread itself; a state in the middle of a run where the adapter is
parked (`c18_single_holder`, first clause) -/
example :
    let c : Cfg := { adapter := Adapter.discard, n := 1, rk := fun _ => none, selfRes := some (RK.value 1) }
    let s := run c (init c) [0]
    c.WF ∧ s.slot = Slot.node ∧ s.calls = 0 ∧ s.allocs = 1 ∧ s.frees = 0 ∧ ¬ AllDone c s := by
  refine ⟨⟨by decide, by decide⟩, by decide, by decide, by decide, by decide, ?_⟩
  rw [← allDone_iff]; decide

/-- re-use: three operations on one `call_fn_future_awaiter` — already resolved, already resolved again (the window of
the stale `_next` link), then parked and resumed by another thread; one callback with its own outcome each time -/
example :
    let o1 : OpRun := { c := { adapter := Adapter.callFn, n := 1, rk := fun _ => none, pre := some (RK.value 3) }, sched := [0, 0] }
    let o2 : OpRun := { c := { adapter := Adapter.callFn, n := 1, rk := fun _ => none, pre := some (RK.exc 4) }, sched := [0, 0] }
    let o3 : OpRun := { c := { adapter := Adapter.callFn, n := 2, rk := fun _ => some (RK.value 5) }, sched := [0, 1, 0, 1, 1] }
    (runOps Slot.null [o1, o2, o3]).map (fun s => (s.calls, s.saw, s.slot, s.nxt)) =
      [(1, [Obs.val 3], Slot.ready, Slot.null), (1, [Obs.exc 4], Slot.ready, Slot.null), (1, [Obs.val 5], Slot.ready, Slot.null)] := by
  decide

/-- `call_fn_awaiter` driven by hand (`ready()` load, then CAS), two operations on the same awaiter node: first the
resolver slips in between the load and the CAS (refused, the caller resumes the awaiter himself), then an operation that
is already resolved at `ready()`; one callback each, nothing allocated, the node unlinked again -/
example :
    let o1 : OpRun := { c := { adapter := Adapter.callAwt, n := 2, rk := fun _ => some (RK.value 8) }, sched := [0, 1, 1, 0, 0, 1] }
    let o2 : OpRun := { c := { adapter := Adapter.callAwt, n := 1, rk := fun _ => none, pre := some RK.drop }, sched := [0, 0, 0] }
    (runOps Slot.null [o1, o2]).map (fun s => (s.calls, s.saw, s.allocs, s.slot, s.nxt)) =
      [(1, [Obs.val 8], 0, Slot.ready, Slot.null), (1, [Obs.canceled], 0, Slot.ready, Slot.null)] := by
  decide

end Cocls.Callback
