import CoclsModel.Callback
/-! # C18 — property theorems (placeholder while the invariant proofs are being written) -/
namespace Cocls.Callback

theorem c18_placeholder (c : Cfg) (s : State) (t : Nat) (h : s.pc t = Pc.done) : (astep c s t).1 = s := by
  unfold astep; simp [h]

end Cocls.Callback
