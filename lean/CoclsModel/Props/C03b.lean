import CoclsModel.Orders
import CoclsModel.Generated.AtomicSites
import CoclsModel.TryLockClock
import CoclsModel.TryLockClockProofs
import CoclsModel.PingPongClock
import CoclsModel.Generated.SharedAccess
import CoclsModel.SignalClock
import CoclsModel.SignalClockProofs
/-!
# C03, second part — the small lock-free protocols that are used REPEATEDLY, and the sites no publication goes through

`Props/C03.lean` decides every publication protocol of the library by the ONE-SHOT message-passing theorem of `Clock.lean` and a
hand-written list of (publishing site, observing site).  Two protocols re-use the same flag and the same plain data round after
round, which the one-shot theorem does not cover:

* `reusable_storage_mtsafe::_busy` — a try-lock taken and given back any number of times by any number of threads
  (`TryLockClock.lean`: `trylock_race_free`, `trylock_owner_sees_previous`, `trylock_mutual_exclusion`, necessity witnesses);
* `generator::promise_type::_block` — reset and set again on every synchronous step of a generator whose body is asynchronous
  (`PingPongClock.lean`: `pingpong_race_free_iff`, relaxed reset store sufficient, coherence argument for stale reads).

Here the memory orders of exactly those sites are looked up in the table `extract/` regenerates from `/repo` on every run
(`Generated.atomicSites`), the protocol theorems are instantiated with them, and the two remaining groups of atomic sites that no
protocol theorem covers (`scheduler::start`'s `_elide_state`, `async::co_awaiter`'s `_awaiter`) are accounted for.

The lookups also fix the SHAPE of each protocol (which synchronising operations touch the flag, in which function, in which source
order): the models run exactly that shape, so an extra load / store / exchange on the flag makes the lookup fail (`none`) and the
`…_orders_current` obligation with it.
-/
namespace Cocls.C03b
open Cocls

/-- n-th synchronising operation of the given kind outside assertions in (class, function) -/
def siteAt (tbl : List Site) (cls fn : String) (kind : OpKind) (nth : Nat) : Option Site :=
  (tbl.filter (fun s => s.cls == cls && s.fn == fn && s.kind == kind && !s.inAssert))[nth]?

/-- all synchronising operations outside assertions on object `obj` of class `cls`, as (function, kind), in table (= source) order -/
def opsOn (tbl : List Site) (cls obj : String) : List (String × OpKind) :=
  (tbl.filter (fun s => s.cls == cls && s.obj == obj && !s.inAssert)).map (fun s => (s.fn, s.kind))

/-! ## `reusable_storage_mtsafe` -/

/-- the operations on `_busy` the model `TryLockClock.lean` runs: the exchange and the give-back store in `alloc`, the store in `dealloc` -/
def tryLockShape : List (String × OpKind) := [("alloc", OpKind.xchg), ("alloc", OpKind.store), ("dealloc", OpKind.store)]

/-- orders of the try-lock protocol according to the extracted table; `none` when a site is missing or the flag is touched by any
other synchronising operation -/
def tryLockOrdersOf (tbl : List Site) : Option TryLock.TryLockOrders :=
  if opsOn tbl "reusable_storage_mtsafe" "_busy" = tryLockShape then
    match siteAt tbl "reusable_storage_mtsafe" "alloc" OpKind.xchg 0, siteAt tbl "reusable_storage_mtsafe" "dealloc" OpKind.store 0,
          siteAt tbl "reusable_storage_mtsafe" "alloc" OpKind.store 0 with
    | some a, some d, some g => some { xchg := a.succ, dealloc := d.succ, giveback := g.succ }
    | _, _, _ => none
  else none

/-- **Table obligation**: on the current source `alloc`'s exchange acquires and both `_busy.store(false)` release. -/
theorem c03_trylock_orders_current :
    (tryLockOrdersOf Generated.atomicSites).map (·.sufficient) = some true := by decide

/-- what the obligation buys, for any table that meets it -/
theorem c03_trylock_safe (tbl : List Site) (h : (tryLockOrdersOf tbl).map (·.sufficient) = some true) :
    ∃ o, tryLockOrdersOf tbl = some o ∧ o.sufficient = true := by
  cases ho : tryLockOrdersOf tbl with
  | none => simp [ho] at h
  | some o => simp only [ho, Option.map_some, Option.some.injEq] at h; exact ⟨o, rfl, h⟩

/-- **Main theorem at the current table's orders**: the `reusable_storage_mtsafe` protocol — any number of threads, each performing
any number of `alloc` … use … `dealloc` rounds (won, contended → heap path, failed growth → give-back, the owner allocating again,
frames destroyed on another thread after a synchronising hand-over or on the same thread) under every schedule — never races on
`_ptr/_capacity` or on the bytes of the shared block. -/
theorem c03_mtsafe_protocol_race_free :
    ∃ o, tryLockOrdersOf Generated.atomicSites = some o ∧
      ∀ (cfg : TryLock.Cfg) (sched : List (Nat × Nat)), (TryLock.run o cfg sched).raced = false := by
  obtain ⟨o, ho, hs⟩ := c03_trylock_safe _ c03_trylock_orders_current
  exact ⟨o, ho, TryLock.trylock_race_free o hs⟩

/-- …round k+1's owner has every plain access of rounds ≤ k (of all previous owners) in its clock -/
theorem c03_mtsafe_owner_sees_previous :
    ∃ o, tryLockOrdersOf Generated.atomicSites = some o ∧
      ∀ (cfg : TryLock.Cfg) (sched : List (Nat × Nat)) (t : Nat), ((TryLock.run o cfg sched).pc t).owner = true →
        ∀ e ∈ (TryLock.run o cfg sched).log, e.2 ≤ (TryLock.run o cfg sched).clk t e.1 := by
  obtain ⟨o, ho, hs⟩ := c03_trylock_safe _ c03_trylock_orders_current
  exact ⟨o, ho, fun cfg sched t ht => TryLock.trylock_owner_sees_previous o hs cfg sched t ht⟩

/-- …and there is at most one owner at a time (this needs no order at all) -/
theorem c03_mtsafe_mutual_exclusion (o : TryLock.TryLockOrders) (cfg : TryLock.Cfg) (sched : List (Nat × Nat)) (t u : Nat)
    (ht : ((TryLock.run o cfg sched).pc t).owner = true) (hu : ((TryLock.run o cfg sched).pc u).owner = true) : t = u :=
  TryLock.trylock_mutual_exclusion o cfg sched t u ht hu

/-- the machine is tied to the model C19 compares with the real headers operation by operation: every run of `StorageMt` (any
schedule of alloc / free / go / fail by threads `< N`) is simulated by a run of the machine at the current orders — same `_busy`
value, corresponding control states (`TryLock.Sim`) -/
theorem c03_mtsafe_model_refines {N : Nat} (sched : List (Nat × Storage.Mt.Act)) (hN : ∀ e ∈ sched, e.1 < N) :
    ∃ o, tryLockOrdersOf Generated.atomicSites = some o ∧
      ∃ es : List (Nat × Nat), TryLock.Sim N (Storage.Mt.run Storage.Mt.init sched) (TryLock.proj (TryLock.run o (TryLock.cfgAll N) es)) := by
  obtain ⟨o, ho, _⟩ := c03_trylock_safe _ c03_trylock_orders_current
  exact ⟨o, ho, TryLock.storageMt_refines o sched hN⟩

/-- the exchange relaxed (as in the pinned commit): the next owner's read of `_capacity` races with the previous owner's growth -/
theorem c03_trylock_needs_acquire :
    (TryLock.run ⟨Order.relaxed, Order.release, Order.release⟩ TryLock.cfgSame TryLock.schedRound).raced = true :=
  TryLock.trylock_needs_acquire

/-- `dealloc`'s store relaxed: same race -/
theorem c03_trylock_needs_release_dealloc :
    (TryLock.run ⟨Order.acquire, Order.relaxed, Order.release⟩ TryLock.cfgSame TryLock.schedRound).raced = true :=
  TryLock.trylock_needs_release_dealloc

/-- the give-back store of fix a532e23 relaxed: a failed growth (`_ptr = nullptr; _capacity = 0`) followed by another thread's
`alloc`, which reads `_capacity` -/
theorem c03_trylock_needs_release_giveback :
    (TryLock.run ⟨Order.acquire, Order.release, Order.relaxed⟩ TryLock.cfgSame TryLock.schedFail).raced = true :=
  TryLock.trylock_needs_release_giveback

/-- every table whose try-lock orders are not sufficient has a racing execution -/
theorem c03_trylock_orders_necessary (o : TryLock.TryLockOrders) (h : o.sufficient = false) :
    ∃ (cfg : TryLock.Cfg) (sched : List (Nat × Nat)), (TryLock.run o cfg sched).raced = true := by
  apply Classical.byContradiction
  intro hne
  have hall : ∀ (cfg : TryLock.Cfg) (sched : List (Nat × Nat)), (TryLock.run o cfg sched).raced = false := by
    intro cfg sched
    cases hr : (TryLock.run o cfg sched).raced with
    | false => rfl
    | true => exact absurd ⟨cfg, sched, hr⟩ hne
  rw [(TryLock.trylock_race_free_iff o).mp hall] at h
  cases h

/-- the lookup is sensitive: the pinned commit's orders (relaxed on both sides) and a table with an extra load of `_busy` are rejected -/
example : (({ xchg := Order.relaxed, dealloc := Order.relaxed, giveback := Order.release } : TryLock.TryLockOrders).sufficient = false)
    ∧ tryLockOrdersOf (Generated.atomicSites ++
        [{ cls := "reusable_storage_mtsafe", fn := "dealloc", idx := 1, kind := OpKind.load, obj := "_busy", succ := Order.relaxed,
           fail := Order.relaxed, inAssert := false }]) = none := by decide

/-- Non-vacuity: three threads, every migration allowed.  Thread 0 wins and grows the block while thread 1's `alloc` is contended
(heap path); the frame moves to thread 2, which destroys it; thread 1 wins, its growth throws, it gives the flag back; thread 2
wins without growth, thread 0's second `alloc` is contended, thread 2 allocates again while it owns the block, releases; thread 1
wins and grows (third round), thread 2 and thread 0 win once more.  Every thread has ≥ 2 rounds; 24 plain accesses, all ordered. -/
def schedDemo : List (Nat × Nat) :=
  [(0, 0), (1, 0), (0, 1), (0, 1), (0, 6), (2, 0), (2, 3), (2, 0),
   (1, 0), (1, 2), (1, 0),
   (2, 0), (2, 0), (0, 0), (2, 2), (2, 3), (2, 0),
   (1, 0), (1, 1), (1, 3), (1, 0),
   (2, 0), (2, 0), (2, 3), (2, 0),
   (0, 0), (0, 0), (0, 3), (0, 0)]

example : (TryLock.run ⟨Order.acquire, Order.release, Order.release⟩ TryLock.cfg3 schedDemo).raced = false
    ∧ (TryLock.run ⟨Order.acquire, Order.release, Order.release⟩ TryLock.cfg3 schedDemo).log.length = 24
    ∧ (TryLock.run ⟨Order.acquire, Order.release, Order.release⟩ TryLock.cfg3 schedDemo).hist.length = 16
    ∧ (TryLock.lastMsg (TryLock.run ⟨Order.acquire, Order.release, Order.release⟩ TryLock.cfg3 schedDemo)).val = 0 := by decide

/-- the same schedule with `dealloc`'s store relaxed races -/
example : (TryLock.run ⟨Order.acquire, Order.relaxed, Order.release⟩ TryLock.cfg3 schedDemo).raced = true := by decide

/-! ## generator `_block` -/

/-- the operations on `_block` the model `PingPongClock.lean` runs, in source order: `unblock_sync` stores and notifies;
`next_sync` stores (reset) BEFORE it waits -/
def genBlockShape : List (String × OpKind) :=
  [("unblock_sync", OpKind.store), ("unblock_sync", OpKind.notify), ("next_sync", OpKind.store), ("next_sync", OpKind.wait)]

def genBlockOrdersOf (tbl : List Site) : Option PingPong.PingPongOrders :=
  if opsOn tbl "generator::promise_type" "_block" = genBlockShape then
    match siteAt tbl "generator::promise_type" "next_sync" OpKind.store 0, siteAt tbl "generator::promise_type" "unblock_sync" OpKind.store 0,
          siteAt tbl "generator::promise_type" "next_sync" OpKind.wait 0 with
    | some r, some s, some w => some { reset := r.succ, set := s.succ, wait := w.succ }
    | _, _, _ => none
  else none

/-- **Table obligation**: on the current source `unblock_sync`'s store releases and `next_sync`'s wait acquires (the reset store
may have any order; it is relaxed). -/
theorem c03_genblock_orders_current :
    (genBlockOrdersOf Generated.atomicSites).map (·.sufficient) = some true := by decide

theorem c03_genblock_safe (tbl : List Site) (h : (genBlockOrdersOf tbl).map (·.sufficient) = some true) :
    ∃ o, genBlockOrdersOf tbl = some o ∧ o.sufficient = true := by
  cases ho : genBlockOrdersOf tbl with
  | none => simp [ho] at h
  | some o => simp only [ho, Option.map_some, Option.some.injEq] at h; exact ⟨o, rfl, h⟩

/-- **Main theorem at the current table's orders**: synchronous stepping of a generator whose body continues on other threads — any
number of rounds, any chain of (synchronising) hops of the body per round, every schedule, every admissible stale read of `_block` —
never races on the promise's fields (yielded value, exception, done flag, argument, caller slot). -/
theorem c03_genblock_protocol_race_free :
    ∃ o, genBlockOrdersOf Generated.atomicSites = some o ∧
      ∀ (cfg : PingPong.Cfg) (sched : List (Nat × Nat)), (PingPong.run o cfg sched).raced = false := by
  obtain ⟨o, ho, hs⟩ := c03_genblock_safe _ c03_genblock_orders_current
  exact ⟨o, ho, PingPong.pingpong_race_free o hs⟩

/-- …whenever `wait` has returned (or the caller prepares the next round) the caller has all accesses of all earlier rounds in its clock -/
theorem c03_genblock_caller_sees_round :
    ∃ o, genBlockOrdersOf Generated.atomicSites = some o ∧
      ∀ (cfg : PingPong.Cfg) (sched : List (Nat × Nat)), (PingPong.run o cfg sched).cpc ≠ PingPong.CPc.wait →
        (PingPong.run o cfg sched).bodyAt = none ∧
        ∀ e ∈ (PingPong.run o cfg sched).log, e.2 ≤ (PingPong.run o cfg sched).clk cfg.caller e.1 := by
  obtain ⟨o, ho, hs⟩ := c03_genblock_safe _ c03_genblock_orders_current
  exact ⟨o, ho, fun cfg sched hc => PingPong.pingpong_caller_sees_round o hs cfg sched hc⟩

/-- `unblock_sync`'s store relaxed: the caller's read of the value races with the body's write on the other thread -/
theorem c03_genblock_needs_release :
    (PingPong.run ⟨Order.relaxed, Order.relaxed, Order.acquire⟩ PingPong.cfg0 PingPong.schedRound).raced = true :=
  PingPong.pingpong_needs_release

/-- `next_sync`'s wait relaxed: same race -/
theorem c03_genblock_needs_acquire :
    (PingPong.run ⟨Order.relaxed, Order.release, Order.relaxed⟩ PingPong.cfg0 PingPong.schedRound).raced = true :=
  PingPong.pingpong_needs_acquire

/-- the condition is exact, and it does not mention the reset store -/
theorem c03_genblock_orders_iff (o : PingPong.PingPongOrders) :
    (∀ (cfg : PingPong.Cfg) (sched : List (Nat × Nat)), (PingPong.run o cfg sched).raced = false) ↔
      (o.set.isRel = true ∧ o.wait.isAcq = true) :=
  PingPong.pingpong_race_free_iff o

/-- Non-vacuity: three rounds.  Round 1: the body hops 0 → 1 → 2 and yields on thread 2; the caller's first `wait` reads its own
reset store (stale but coherent: it blocks), the second reads `true`.  Round 2: the body yields synchronously on the caller's thread.
Round 3: the body hops to thread 2, reads, yields there. -/
def genDemo : List (Nat × Nat) :=
  [(0, 0), (0, 4), (1, 1), (1, 5), (2, 2), (0, 0), (0, 1), (0, 0),
   (0, 0), (0, 2), (0, 0), (0, 0),
   (0, 0), (0, 5), (2, 0), (2, 2), (0, 5), (0, 0)]

example : (PingPong.run ⟨Order.relaxed, Order.release, Order.acquire⟩ PingPong.cfg0 genDemo).raced = false
    ∧ (PingPong.run ⟨Order.relaxed, Order.release, Order.acquire⟩ PingPong.cfg0 genDemo).log.length = 11
    ∧ (PingPong.run ⟨Order.relaxed, Order.release, Order.acquire⟩ PingPong.cfg0 genDemo).hist.length = 7
    ∧ (PingPong.run ⟨Order.relaxed, Order.release, Order.acquire⟩ PingPong.cfg0 genDemo).cpc = PingPong.CPc.start
    ∧ (PingPong.run ⟨Order.relaxed, Order.release, Order.acquire⟩ PingPong.cfg0 (genDemo.take 6)).cpc = PingPong.CPc.wait := by
  decide

/-- the same three rounds with a relaxed wait race -/
example : (PingPong.run ⟨Order.relaxed, Order.release, Order.relaxed⟩ PingPong.cfg0 genDemo).raced = true := by decide


/-! ## the atomic sites no publication goes through

Five sites of `Generated.atomicSites` belong to no protocol of `Props/C03.lean` (`otherSites` there lists them as "no publication") and
to neither model above.  What each protects, read from the code:

**`scheduler::start(awaitable)` — `_elide_state.load(relaxed)`, two `_elide_state.store(…, relaxed)`** (scheduler.h:244/260/279, fix
549691b).  `_elide_state` is a `std::atomic<std::size_t>`: the frame size `start` has learned for the callback coroutine it allocates
with `alloca`.  Every call copies the value into a LOCAL `elide_state`, binds a `stack_storage` to that local, lets
`callback_await_alloc` run (which may raise the local to `sz + 1` when the frame did not fit and went to the heap), and stores the
local back (one store per `if constexpr` branch, so one of the two per instantiation).  The value is a number and nothing else: no
pointer, no plain data behind it.  Whatever admissible value a call reads — 0, its own earlier store, any other thread's store —
`stack_storage::alloc` decides `sz + 1 ≤ _alloc_size` against the size of the buffer THIS call `alloca`ed from the very same
local, so every value is safe and only the hit rate of the stack path depends on it.  It is a pure hint: every order is sufficient,
there is no plain location to race on (`c03_elide_hint_race_free`, `stackFits_sound`).  The obligation that remains is the shape:
the member is touched by atomic loads and stores only (it was a plain member, raced on, before fix 549691b).

**`async::co_awaiter` — `await_ready`: `_awaiter.load(relaxed)`, `await_suspend`: `_awaiter.store(this, relaxed)`** (async.h:101/107).
The `co_awaiter` object is at once the awaiter and the `future<T>` of the `co_await some_async(...)` expression; it lives in the
awaiting coroutine's frame and its address is given to exactly one party: `p._future = this`, the promise of the async coroutine
that `await_suspend` starts by symmetric transfer.  `await_ready` reads the still private future's slot (never `disabled`: the
coroutine is not started yet), `await_suspend` registers the object as the only entry of its own chain by a plain-looking relaxed
store INSTEAD of the subscribing CAS — legitimate because no promise exists yet that could resolve concurrently.  From then on one
control flow touches the object: the started coroutine runs on this thread, may hop to other threads at its own `co_await`s (each
hop publishes the suspended coroutine through one of C03's protocols — the modelled assumption, as for the generator's body), and
at its end `final_awaiter::await_suspend` does `_future->set(…)`, `resolve()` (the `resume_chain_set_ready` exchange, which reads the
stored `this` as the modification-order-latest value and returns the awaiting coroutine's handle) and transfers to the awaiting
coroutine ON THE SAME THREAD, whose `await_resume` reads the value.  No second party ever accesses the object concurrently, so the
two relaxed operations order nothing and need not: the data is ordered by program order plus the hop chain
(`c03_async_awaiter_race_free`: a single control flow that migrates by synchronising hops never races, whatever orders its atomic
operations have).  The resolver's side (`resume_chain_set_ready`, `future::set`) is the promise/future protocol of `Props/C03.lean` /
`ChainClock.lean`.  Obligation: the shape — in `co_awaiter` the slot is touched by exactly this load and this store. -/

/-- `_elide_state` is touched by one relaxed-or-stronger atomic load and the two branch stores of `scheduler::start`, nothing else -/
theorem c03_elide_hint_orders_current :
    opsOn Generated.atomicSites "scheduler" "_elide_state" = [("start", OpKind.load), ("start", OpKind.store), ("start", OpKind.store)]
    ∧ (Generated.atomicSites.filter (fun s => s.obj == "_elide_state" && s.cls != "scheduler")).length = 0 := by decide

/-- operations of any thread on the hint: a load (any order, any admissible message) or a store (any order, any value) -/
inductive HintOp where
  | load (ord : Order) (choice : Nat)
  | store (ord : Order) (v : Nat)
  deriving Repr

def hintStep (s : Clock.St) (e : Nat × HintOp) : Clock.St :=
  match e.2 with
  | HintOp.load o c => Clock.doLoad o s e.1 c
  | HintOp.store o v => Clock.doStore o v s e.1

/-- a location that is only ever loaded and stored atomically, with no plain data behind it, cannot be part of a race: on the machine
of `Clock.lean` any number of threads loading / storing it with any orders never set `raced` -/
theorem c03_elide_hint_race_free (sched : List (Nat × HintOp)) : (sched.foldl hintStep Clock.St.init).raced = false := by
  suffices ∀ s : Clock.St, s.raced = false → (sched.foldl hintStep s).raced = false from this _ rfl
  induction sched with
  | nil => intro s h; exact h
  | cons e es ih =>
    intro s h
    apply ih
    unfold hintStep
    split <;> exact h

/-- `stack_storage::alloc` for a frame of `sz` bytes in a buffer of `hint` bytes (`alloca(storage)` with `_alloc_size = hint`):
`true` = on the stack -/
def stackFits (hint sz : Nat) : Bool := decide (sz + 1 ≤ hint)

/-- whatever value the relaxed load returned, a frame placed on the stack fits the buffer that was sized by that same value -/
theorem stackFits_sound (hint sz : Nat) (h : stackFits hint sz = true) : sz + 1 ≤ hint := by
  simpa [stackFits] using h

/-- the `co_awaiter`'s slot is touched, inside `co_awaiter`, by the relaxed load of `await_ready` and the relaxed store of
`await_suspend` only -/
theorem c03_async_awaiter_orders_current :
    opsOn Generated.atomicSites "async::co_awaiter" "_awaiter" = [("await_ready", OpKind.load), ("await_suspend", OpKind.store)] := by
  decide

/-- what one control flow does: plain accesses to the object, atomic operations on its slot with ANY order, a synchronising hop -/
inductive SoloOp where
  | read | write
  | load (ord : Order) (choice : Nat)
  | store (ord : Order) (v : Nat)
  | rmw (ord : Order) (v : Nat)
  | hop (u : Nat)
  deriving Repr

/-- the machine of `Clock.lean` plus the thread the control flow is on -/
structure SoloSt where
  m : Clock.St
  cur : Nat

/-- MODELLED ASSUMPTION as in `PingPongClock.lean`: a hop joins the leaving thread's clock into the receiving thread's -/
def soloHop (s : SoloSt) (u : Nat) : SoloSt :=
  ⟨{ s.m with clk := Clock.upd (Clock.upd s.m.clk u (Clock.VC.join (s.m.clk u) (s.m.clk s.cur))) s.cur
                        (Clock.VC.tick (s.m.clk s.cur) s.cur) }, u⟩

/-- only the thread the control flow is on acts -/
def soloStep (s : SoloSt) (e : Nat × SoloOp) : SoloSt :=
  if e.1 = s.cur then
    match e.2 with
    | SoloOp.read => ⟨Clock.doRead s.m s.cur, s.cur⟩
    | SoloOp.write => ⟨Clock.doWrite s.m s.cur, s.cur⟩
    | SoloOp.load o c => ⟨Clock.doLoad o s.m s.cur c, s.cur⟩
    | SoloOp.store o v => ⟨Clock.doStore o v s.m s.cur, s.cur⟩
    | SoloOp.rmw o v => ⟨Clock.doRmw o (fun _ => v) s.m s.cur, s.cur⟩
    | SoloOp.hop u => if u = s.cur then s else soloHop s u
  else s

structure SoloInv (s : SoloSt) : Prop where
  nr : s.m.raced = false
  wr : s.m.wr.2 ≤ s.m.clk s.cur s.m.wr.1
  rd : ∀ e ∈ s.m.rd, e.2 ≤ s.m.clk s.cur e.1

theorem soloInv_step {s : SoloSt} (h : SoloInv s) (e : Nat × SoloOp) : SoloInv (soloStep s e) := by
  obtain ⟨nr, wr, rd⟩ := h
  unfold soloStep
  split
  · split <;> (try split) <;>
      (refine ⟨?_, ?_, ?_⟩ <;>
        (try simp only [soloHop, Clock.doRead, Clock.doWrite, Clock.doLoad, Clock.doStore, Clock.doRmw, Clock.ordW, Clock.ordR]) <;>
        (try generalize Clock.lastMsg _ = lm at *) <;>
        (try generalize Clock.readMsg _ _ _ = rm at *) <;>
        grind [Clock.upd_apply, Clock.upd_apply2, Clock.VC.join_apply, Clock.acqVc_apply, Clock.tickIf_apply, Clock.VC.tick])
  · exact ⟨nr, wr, rd⟩

/-- A single control flow that starts on any thread, migrates by synchronising hops and performs any plain accesses and any atomic
operations with ANY memory orders never races with itself: the `co_awaiter` object of `async<T>` needs nothing from its two relaxed
operations. -/
theorem c03_async_awaiter_race_free (t0 : Nat) (sched : List (Nat × SoloOp)) :
    (sched.foldl soloStep ⟨Clock.St.init, t0⟩).m.raced = false := by
  suffices ∀ s, SoloInv s → SoloInv (sched.foldl soloStep s) from
    (this _ ⟨rfl, by simp [Clock.St.init], by simp [Clock.St.init]⟩).nr
  induction sched with
  | nil => intro s h; exact h
  | cons e es ih => intro s h; exact ih _ (soloInv_step h e)

/-- non-vacuity: `await_suspend` on thread 0 (write handle, relaxed store, write `_future`), the coroutine hops to thread 1 and to
thread 2, sets the value there, resolves with an exchange, the awaiting coroutine reads the value on thread 2 -/
example : ([(0, SoloOp.load Order.relaxed 0), (0, SoloOp.write), (0, SoloOp.store Order.relaxed 1), (0, SoloOp.write), (0, SoloOp.hop 1),
            (1, SoloOp.read), (1, SoloOp.hop 2), (2, SoloOp.write), (2, SoloOp.rmw Order.relaxed 2), (2, SoloOp.read)].foldl soloStep
            ⟨Clock.St.init, 0⟩).m.rd = [(2, 1)] := by decide

/-- every atomic site of the five classes / functions looked at in this file is accounted for by one of the four lookups -/
theorem c03_small_sites_accounted :
    (Generated.atomicSites.filter (fun s => !s.inAssert &&
        (s.cls == "reusable_storage_mtsafe" || s.obj == "_block" || s.obj == "_elide_state" || s.cls == "async::co_awaiter"))).length
      = 3 + 4 + 3 + 2 := by decide

/-! ## `signal<T>` — the whole protocol on the happens-before machine

`Props/C03.lean` lists the signal as one line ("awaiter node via signal chain": subscribe CAS / `resume_chain` exchange).
`SignalClock.lean` runs the WHOLE protocol — a collector thread emitting value after value and finally destroying the state, any number
of emitters of both flavours (coroutines, `connect`ed callbacks) subscribing from their own threads at any moment, failed CAS tries,
listeners resumed on the collector's thread that re-await at once / leave for another thread and come back / end — on the
happens-before machine, with FastTrack metadata for EVERY plain location (`_cur_val`, `_value_storage`, the emitted value, each node's
`_next` and handle / resume fn); `SignalClockProofs.signal_race_free` proves race freedom from `SignalOrders.sufficient`, which asks
release of the subscribe CAS and acquire of the `resume_chain` exchange — for the NODES; nothing for the value: every access to `_cur_val`,
`_value_storage` and the value is made by the collector's thread (`signal_waiter_sees_value`, `signal_value_thread0`; the access table
is the module docstring of `SignalClock.lean`).  Here the orders are looked up in the extracted table.

Model assumption → obligation that checks it against the source:

| assumption of `SignalClock.lean` | obligation |
|---|---|
| `awaiter::subscribe` = one CAS (plus a load inside `assert`), `resume_chain` = one exchange; no other atomic operation in `resume_chain_lk` | `c03_signal_orders_current` (shape part of `signalOrdersOf`) |
| `signal.h` has no atomic operation of its own: every synchronisation of the signal goes through those two | `c03_signal_no_own_atomics` |
| in `subscribe` the only access to the node outside `assert` is the CAS's expected value (`_next`, read and written back), not after the successful CAS | `c03_signal_subscribe_accesses` |
| per node the walker reads `_next`, writes `_next`, calls `resume()`, in this order | `c03_signal_walk_accesses` |

Position facts about `signal.h` itself (rows of `Generated.plainAccesses` for the functions of `signal.h`: `SIGNAL_FUNCS` … of
`extract/extract.py`, designated per class; obligations at the end of this section, stated over ROLES — "a value location", "a node set-up
call", "a member of the awaiter object itself", "the classes local to `connect`" — not over the names of locals or of private members):

| assumption of `SignalClock.lean` | obligation |
|---|---|
| `collector::operator()`, every overload: `_value_storage` / `_cur_val` are written BEFORE `notify_awaiters()`, no access to them after it (`hbEmit`) | `c03_signal_collector_writes_before_notify` |
| `~state`: `_cur_val` is written before `notify_awaiters()`, no access to a value location after it (`hbDtor`) | `c03_signal_dtor_clears_before_notify` |
| `notify_awaiters()` is one point for those two: it is the `resume_chain` exchange and touches no value location | `c03_signal_notify_is_resume_chain` |
| `emitter::await_suspend`: `lock()`, `set_handle`, then ONE `subscribe`, nothing of the awaiter after it (`hbTry`) | `c03_signal_emitter_sets_up_before_subscribe` |
| the callback awaiter of `connect` (local class): `set_resume_fn` in the constructor, which does not subscribe; the other member functions do not set the node up, write no member of the object, `lock()` before `subscribe`, touch nothing of the object after `subscribe` | `c03_signal_emitter_sets_up_before_subscribe` |
| `emitter::await_resume`: ONE read of `_cur_val`, under the `lock()`ed strong reference, no write | `c03_signal_await_resume_reads_cur_val` |

Still ASSUMED (not expressible over the table): the VALUE `~state` stores is `nullptr` (the table has positions, not values); calls of
the callback `_fn` and of other member functions are not rows, so "`_fn` is not called after `subscribe`" in the callback awaiter is read
off by hand; the table is in LEXICAL order, alternatives of an `if` / `if constexpr` count as following each other (hence "only further
`subscribe` calls after the first one"); `hook_up_emitter::await_suspend` is not modelled (single-threaded set-up of a fresh state). -/

/-- synchronising operations outside assertions of one function, as (kind, object), in source order -/
def shapeIn (tbl : List Site) (cls fn : String) : List (OpKind × String) :=
  (tbl.filter (fun s => s.cls == cls && s.fn == fn && !s.inAssert)).map (fun s => (s.kind, s.obj))

/-- the memory orders of the signal's chain according to the extracted table; `none` when a site is missing or `subscribe` /
`resume_chain` / `resume_chain_lk` contain any other synchronising operation outside assertions -/
def signalOrdersOf (tbl : List Site) : Option SignalClock.SignalOrders :=
  if shapeIn tbl "awaiter" "subscribe" = [(OpKind.cas, "chain")] ∧ shapeIn tbl "awaiter" "resume_chain" = [(OpKind.xchg, "chain")]
      ∧ shapeIn tbl "awaiter" "resume_chain_lk" = [] then
    match siteAt tbl "awaiter" "subscribe" OpKind.cas 0, siteAt tbl "awaiter" "resume_chain" OpKind.xchg 0 with
    | some cs, some x => some { casSucc := cs.succ, casFail := cs.fail, xchg := x.succ }
    | _, _ => none
  else none

/-- **Table obligation**: on the current source the subscribe CAS releases and the `resume_chain` exchange acquires. -/
theorem c03_signal_orders_current :
    (signalOrdersOf Generated.atomicSites).map (·.sufficient) = some true := by decide

/-- what the obligation buys, for any table that meets it: no plain access of the signal protocol races, for every assignment of
flavours to any number of emitters and every schedule; whoever reads `_cur_val` / the value is the collector's thread and has the
collector's write in its clock; erasing the clocks gives the run of the sequentially consistent base system -/
theorem c03_signal_publish_safe (tbl : List Site) (h : (signalOrdersOf tbl).map (·.sufficient) = some true) :
    ∃ o, signalOrdersOf tbl = some o
      ∧ (∀ (c : SignalClock.Cfg) (sched : List (Nat × Nat)), (SignalClock.run o c sched).raced = false)
      ∧ (∀ (c : SignalClock.Cfg) (sched : List (Nat × Nat)), (SignalClock.run o c sched).base.cpc ≠ SignalClock.CPc.idle →
          (SignalClock.run o c sched).base.alive = true →
          ((SignalClock.run o c sched).val.wr.1 = 0 ∧ 1 ≤ (SignalClock.run o c sched).val.wr.2
            ∧ (SignalClock.run o c sched).val.wr.2 ≤ (SignalClock.run o c sched).clk 0 0)
          ∧ ∀ e ∈ (SignalClock.run o c sched).val.rd, e.2 = 0 ∨ (e.1 = 0 ∧ e.2 ≤ (SignalClock.run o c sched).clk 0 0))
      ∧ (∀ (c : SignalClock.Cfg) (sched : List (Nat × Nat)), (SignalClock.run o c sched).base = SignalClock.brun c sched) := by
  cases ho : signalOrdersOf tbl with
  | none => simp [ho] at h
  | some o =>
    have hs : o.sufficient = true := by simpa [ho] using h
    refine ⟨o, rfl, SignalClock.signal_race_free o hs, fun c sched hp hal => ?_, fun c sched => SignalClock.base_run o c sched⟩
    obtain ⟨_, hv, hr⟩ := SignalClock.signal_waiter_sees_value o hs c sched hp hal
    exact ⟨hv, fun e he => hr e (List.mem_append.mpr (Or.inr he))⟩

/-- **Main theorem at the current table's orders** -/
theorem c03_signal_protocol_race_free :
    ∃ o, signalOrdersOf Generated.atomicSites = some o
      ∧ (∀ (c : SignalClock.Cfg) (sched : List (Nat × Nat)), (SignalClock.run o c sched).raced = false)
      ∧ (∀ (c : SignalClock.Cfg) (sched : List (Nat × Nat)), (SignalClock.run o c sched).base.cpc ≠ SignalClock.CPc.idle →
          (SignalClock.run o c sched).base.alive = true →
          ((SignalClock.run o c sched).val.wr.1 = 0 ∧ 1 ≤ (SignalClock.run o c sched).val.wr.2
            ∧ (SignalClock.run o c sched).val.wr.2 ≤ (SignalClock.run o c sched).clk 0 0)
          ∧ ∀ e ∈ (SignalClock.run o c sched).val.rd, e.2 = 0 ∨ (e.1 = 0 ∧ e.2 ≤ (SignalClock.run o c sched).clk 0 0))
      ∧ (∀ (c : SignalClock.Cfg) (sched : List (Nat × Nat)), (SignalClock.run o c sched).base = SignalClock.brun c sched) :=
  c03_signal_publish_safe _ c03_signal_orders_current

/-- necessity: the subscribe CAS relaxed — the walker's read of `_next` races with the emitter's initialisation of its node -/
theorem c03_signal_needs_release_cas :
    (SignalClock.run { SignalClock.srcOrders with casSucc := Order.relaxed } SignalClock.cfgMix SignalClock.schedOne).raced = true :=
  SignalClock.signal_needs_release_cas

/-- necessity: the `resume_chain` exchange relaxed -/
theorem c03_signal_needs_acquire_xchg :
    (SignalClock.run { SignalClock.srcOrders with xchg := Order.relaxed } SignalClock.cfgMix SignalClock.schedOne).raced = true :=
  SignalClock.signal_needs_acquire_xchg

/-- every order table that does not meet `sufficient` has a racing execution of the signal protocol: the condition is exact -/
theorem c03_signal_orders_necessary (o : SignalClock.SignalOrders) :
    (∀ (c : SignalClock.Cfg) (sched : List (Nat × Nat)), (SignalClock.run o c sched).raced = false) ↔ o.sufficient = true :=
  SignalClock.signal_race_free_iff o

/-- the VALUE needs no memory order at all: for EVERY order table (no hypothesis — all three sites relaxed included) no access to `_cur_val`,
`_value_storage` or the emitted value races; these locations are accessed by the collector's thread only, the listeners' continuations
run inside the collector's call -/
theorem c03_signal_value_needs_no_order (o : SignalClock.SignalOrders) (c : SignalClock.Cfg) (sched : List (Nat × Nat)) :
    (SignalClock.run o c sched).racedV = false :=
  SignalClock.signal_value_needs_no_order o c sched

/-- the base system of `SignalClock.lean` refines the publication micro-model `Signal.Pub` of C15 on the chain (events `cas` / `release`
only, no access after the publishing CAS) -/
theorem c03_signal_base_refines_pub (c : SignalClock.Cfg) (sched : List (Nat × Nat)) :
    ∃ ops : List Signal.Pub.Op, (Signal.Pub.run ops).chain = (SignalClock.brun c sched).chain ∧ (∀ l, Signal.Pub.Op.post l ∉ ops) :=
  SignalClock.base_refines_pub c sched

/-- the CAS failure order is not constrained: whatever is written there, the protocol stays race free at the current table's other orders
(deliberately no obligation that it IS relaxed: strengthening is harmless) -/
theorem c03_signal_failure_order_free (f : Order) :
    ∃ o, signalOrdersOf Generated.atomicSites = some o
      ∧ ∀ (c : SignalClock.Cfg) (sched : List (Nat × Nat)), (SignalClock.run { o with casFail := f } c sched).raced = false := by
  cases ho : signalOrdersOf Generated.atomicSites with
  | none => have h := c03_signal_orders_current; simp [ho] at h
  | some o =>
    have hs : o.sufficient = true := by have h := c03_signal_orders_current; simpa [ho] using h
    exact ⟨o, rfl, SignalClock.signal_race_free _ (by simpa [SignalClock.SignalOrders.sufficient] using hs)⟩

/-- non-vacuity: four emitters of both flavours (1, 3 coroutines; 2, 4 callbacks; 4 subscribes LATE, during the first walk), failed CAS
tries on both kinds of thread, two collector calls (by value, by lvalue), a coroutine that leaves the collector's thread and subscribes
again from its own, a callback that answers false, a coroutine that ends, then `~state` with a coroutine and a callback still
subscribed: seven reads of the value, all by thread 0, every emitter finished, nothing races — and the same run races as soon as either
order is weakened -/
example : (SignalClock.run SignalClock.srcOrders SignalClock.cfgMix SignalClock.schedMany).raced = false
    ∧ (SignalClock.run SignalClock.srcOrders SignalClock.cfgMix SignalClock.schedMany).base.cpc = SignalClock.CPc.dead
    ∧ (SignalClock.run SignalClock.srcOrders SignalClock.cfgMix SignalClock.schedMany).base.emitted = 2
    ∧ (SignalClock.run SignalClock.srcOrders SignalClock.cfgMix SignalClock.schedMany).base.reads.length = 7
    ∧ ((SignalClock.run SignalClock.srcOrders SignalClock.cfgMix SignalClock.schedMany).val.rd.all (fun e => e.1 == 0)) = true
    ∧ (SignalClock.run { SignalClock.srcOrders with casSucc := Order.relaxed } SignalClock.cfgMix SignalClock.schedMany).raced = true
    ∧ (SignalClock.run { SignalClock.srcOrders with xchg := Order.relaxed } SignalClock.cfgMix SignalClock.schedMany).raced = true := by
  decide

/-! position facts the model assumes about `awaiter.h` / `signal.h` -/

/-- `signal.h` has no atomic operation of its own: no site on the state's `_chain` member, none in a class of `signal.h` -/
theorem c03_signal_no_own_atomics :
    (Generated.atomicSites.filter (fun s => s.obj == "_chain" || s.cls == "signal" || s.cls == "signal::state"
      || s.cls == "signal::collector" || s.cls == "signal::emitter" || s.cls == "signal::hook_up_emitter" || s.cls == "Awt"
      || s.cls == "signal::Awt" || s.cls == "signal::connect::Awt")).length = 0 := by decide

/-- rows of one function outside assertions: (object, field, write, number of synchronising operations lexically before it) -/
def plainShape (tbl : List PlainAccess) (cls fn : String) : List (String × String × Bool × Nat) :=
  (tbl.filter (fun a => a.cls == cls && a.fn == fn && !a.inAssert)).map (fun a => (a.base, a.field, a.write, a.nOps))

/-- `subscribe`: outside `assert` the awaiter is touched through the CAS's expected value only (`_next`: read, and written back by a
failed try — `SignalClock.hbTry`), and not after the CAS that publishes it -/
theorem c03_signal_subscribe_accesses :
    plainShape Generated.plainAccesses "awaiter" "subscribe" = [("", "_next", true, 0)] := by decide

/-- `resume_chain_lk` per node: read `chain->_next`, write `y->_next`, `y->resume()` — `SignalClock.hbWalkNode` -/
theorem c03_signal_walk_accesses :
    (plainShape Generated.plainAccesses "awaiter" "resume_chain_lk").map (fun r => (r.1, r.2.1, r.2.2.1))
      = [("chain", "_next", false), ("y", "_next", true), ("", "call:resume", false)] := by decide


/-! ### position facts about `signal.h` the model assumes -/

/-- the rows of (class, function), split into its overloads (the position counter restarts at 0 for every function body) -/
def sigOverloads (tbl : List PlainAccess) (cls fn : String) : List (List PlainAccess) :=
  (tbl.filter (fun a => a.cls == cls && a.fn == fn)).foldr (fun a acc =>
    match acc with
    | [] => [[a]]
    | seg :: rest => if (seg.head?.map (·.pos)).getD 0 == 0 then [a] :: seg :: rest else (a :: seg) :: rest) []

/-- ROLE "a value location of the signal state": `_cur_val`, `_value_storage` through whatever object expression, or a store through a
pointer (pseudo field `*…`) -/
def isSigValue (a : PlainAccess) : Bool :=
  a.field == "_cur_val" || a.field == "_value_storage" || a.field.toList.head? == some '*'

def isCall (a : PlainAccess) (name : String) : Bool := a.field == "call:" ++ name

/-- ROLE "set-up of the awaiter node": `set_handle` / `set_resume_fn` -/
def isNodeSetup (a : PlainAccess) : Bool := isCall a "set_handle" || isCall a "set_resume_fn"

/-- ROLE "something of the awaiter object itself": a member of `*this` under any name, a store through a pointer, or a node set-up call
(calls of OTHER member functions and of the callback are not rows of the table) -/
def isOwnTouch (a : PlainAccess) : Bool :=
  isNodeSetup a || (a.base == "" && a.field.toList.take 5 != "call:".toList) || a.field.toList.head? == some '*'

/-- one function body: there is a `notify_awaiters()` call, `_cur_val` is written, every access (read or write, assertions included) to a
value location precedes every `notify_awaiters()` call — so nothing of the value is written or read by the collector's code once the
chain has been taken -/
def valueBeforeNotify (seg : List PlainAccess) : Bool :=
  let notes := (seg.filter (fun a => isCall a "notify_awaiters")).map (·.pos)
  notes.length ≥ 1
  && (seg.any (fun a => a.field == "_cur_val" && a.write && !a.inAssert))
  && (seg.filter isSigValue).all (fun a => notes.all (fun n => a.pos < n))

/-- every overload of `collector::operator()` (`SignalClock.hbEmit`: value, `_value_storage`, `_cur_val`, THEN the exchange) -/
def collectorWritesBeforeNotify (tbl : List PlainAccess) : Bool :=
  let segs := sigOverloads tbl "signal::collector" "operator()"
  segs.length ≥ 1 && segs.all valueBeforeNotify

/-- `~state` (`SignalClock.hbDtor`: `_cur_val = nullptr`, THEN the exchange) -/
def dtorClearsBeforeNotify (tbl : List PlainAccess) : Bool :=
  let segs := sigOverloads tbl "signal::state" "~state"
  segs.length == 1 && segs.all valueBeforeNotify

/-- `state::notify_awaiters` is the exchange on the chain (`awaiter::resume_chain`) and touches no value location: the call is one
point in the order of the caller's rows -/
def notifyIsResumeChain (tbl : List PlainAccess) : Bool :=
  let rows := tbl.filter (fun a => a.cls == "signal::state" && a.fn == "notify_awaiters")
  (rows.filter (fun a => isCall a "resume_chain" && !a.inAssert)).length == 1 && !(rows.any isSigValue)

/-- rows of the classes local to `signal::connect` (the callback awaiter; its class and member names are nobody's interface) -/
def connectLocalRows (tbl : List PlainAccess) : List PlainAccess :=
  tbl.filter (fun a => "signal::connect::".toList.isPrefixOf a.cls.toList)

/-- name of the constructor of a class given as `a::b::C`: `C` -/
def ctorNameOf (cls : String) : String := String.ofList ((cls.toList.reverse.takeWhile (· != ':')).reverse)

/-- one function body that publishes the awaiter: once `subscribe` has been called nothing of the awaiter object is touched any more and the
node is not set up any more — the only rows after the first `subscribe` are further `subscribe` calls (the alternatives of an
`if` / `if constexpr`: the table is in lexical order) -/
def nothingAfterSubscribe (seg : List PlainAccess) : Bool :=
  match ((seg.filter (fun a => isCall a "subscribe")).map (·.pos)).head? with
  | none => true
  | some p => (seg.filter (fun a => a.pos > p && isOwnTouch a)).isEmpty

/-- `emitter::await_suspend` (`SignalClock.hbTry` after the node's initialisation): the strong reference is taken (`lock()`), the handle is
set, then — once — `subscribe`, and nothing of the awaiter after it.  The callback awaiter of `connect`: the resume function is set by
the constructor, which does not subscribe; no other member function sets the node up or writes a member of the object; each
of them takes the strong reference before it subscribes and touches nothing of the object after `subscribe`. -/
def emitterSetsUpBeforeSubscribe (tbl : List PlainAccess) : Bool :=
  let segs := sigOverloads tbl "signal::emitter" "await_suspend"
  let loc := connectLocalRows tbl
  let ctor := loc.filter (fun a => a.fn == ctorNameOf a.cls)
  let rest := loc.filter (fun a => a.fn != ctorNameOf a.cls)
  segs.length == 1
  && segs.all (fun seg =>
      (seg.filter (fun a => isCall a "subscribe")).length == 1
      && seg.any (fun a => isCall a "set_handle" && !a.inAssert)
      && (seg.filter isNodeSetup).all (fun a => (seg.filter (fun b => isCall b "subscribe")).all (fun b => a.pos < b.pos))
      && (seg.filter (fun a => isCall a "subscribe")).all (fun b => seg.any (fun a => isCall a "lock" && a.pos < b.pos))
      && nothingAfterSubscribe seg)
  && ctor.any (fun a => isCall a "set_resume_fn" && !a.inAssert)
  && !(ctor.any (fun a => isCall a "subscribe"))
  && rest.any (fun a => isCall a "subscribe")
  && !(rest.any (fun a => isNodeSetup a || (isOwnTouch a && a.write)))
  && (rest.map (fun a => (a.cls, a.fn))).eraseDups.all (fun cf =>
      (sigOverloads rest cf.1 cf.2).all (fun seg =>
        nothingAfterSubscribe seg
        && (seg.filter (fun a => isCall a "subscribe")).all (fun b => seg.any (fun a => isCall a "lock" && a.pos < b.pos))))

/-- `emitter::await_resume` (`SignalClock`: ONE read of `_cur_val`, under the `lock()`ed strong reference): outside assertions exactly one
row on a value location — a read of `_cur_val`, after a `lock()` call — and no write to one anywhere -/
def awaitResumeReadsCurVal (tbl : List PlainAccess) : Bool :=
  let segs := sigOverloads tbl "signal::emitter" "await_resume"
  segs.length == 1
  && segs.all (fun seg =>
      !(seg.any (fun a => isSigValue a && a.write))
      && match seg.filter (fun a => isSigValue a && !a.inAssert) with
         | [r] => r.field == "_cur_val" && seg.any (fun a => isCall a "lock" && a.pos < r.pos)
         | _ => false)

/-- **Table obligation**: in every overload of `collector::operator()` every access to `_value_storage` / `_cur_val` precedes the
`notify_awaiters()` call, `_cur_val` is written, nothing of the value is touched after the call -/
theorem c03_signal_collector_writes_before_notify : collectorWritesBeforeNotify Generated.plainAccesses = true := by decide

/-- **Table obligation**: `~state` writes `_cur_val` before its `notify_awaiters()` and touches no value location after it -/
theorem c03_signal_dtor_clears_before_notify : dtorClearsBeforeNotify Generated.plainAccesses = true := by decide

/-- **Table obligation**: `state::notify_awaiters` = `awaiter::resume_chain(_chain)`, no value location -/
theorem c03_signal_notify_is_resume_chain : notifyIsResumeChain Generated.plainAccesses = true := by decide

/-- **Table obligation**: the node is set up before it is published and nothing of the awaiter is touched after `subscribe`, in
`emitter::await_suspend` and in every member function of the callback awaiter of `connect` -/
theorem c03_signal_emitter_sets_up_before_subscribe : emitterSetsUpBeforeSubscribe Generated.plainAccesses = true := by decide

/-- **Table obligation**: `emitter::await_resume` reads `_cur_val` once, holding the strong reference, and writes no value location -/
theorem c03_signal_await_resume_reads_cur_val : awaitResumeReadsCurVal Generated.plainAccesses = true := by decide

/-- the rows exist: three collector overloads, the callback awaiter's constructor and at least two more member functions of it
(an emptied table must not satisfy the obligations vacuously — the `length` / `any` clauses above say the same per obligation) -/
theorem c03_signal_rows_present :
    (sigOverloads Generated.plainAccesses "signal::collector" "operator()").length = 3
    ∧ ((connectLocalRows Generated.plainAccesses).map (fun a => (a.cls, a.fn))).eraseDups.length ≥ 3 := by decide

private def row (cls fn base field : String) (write : Bool) (pos : Nat) : PlainAccess :=
  { cls := cls, fn := fn, base := base, field := field, write := write, pos := pos, nOps := 0, inAssert := false }

/-- `_cur_val` assigned after `notify_awaiters()` in one overload (here: the lvalue one) is rejected -/
example : collectorWritesBeforeNotify
    [row "signal::collector" "operator()" "_state" "_cur_val" true 0, row "signal::collector" "operator()" "" "call:notify_awaiters" false 1,
     row "signal::collector" "operator()" "" "call:notify_awaiters" false 0, row "signal::collector" "operator()" "_state" "_cur_val" true 1] = false := by
  decide

/-- a READ of the storage after the call is rejected as well, under any object expression -/
example : collectorWritesBeforeNotify
    [row "signal::collector" "operator()" "st" "_cur_val" true 0, row "signal::collector" "operator()" "" "call:notify_awaiters" false 1,
     row "signal::collector" "operator()" "st" "_value_storage" false 2] = false := by decide

/-- `await_suspend` as the model has it, and a callback awaiter under other names (class `W`, functions `go` / `again`, members `_ref`,
`_count`) -/
private def suspendOk : List PlainAccess :=
  [row "signal::emitter" "await_suspend" "" "_wk_state" false 0, row "signal::emitter" "await_suspend" "" "call:lock" false 1,
   row "signal::emitter" "await_suspend" "" "call:set_handle" false 2, row "signal::emitter" "await_suspend" "" "call:subscribe" false 3]
private def callbackOk : List PlainAccess :=
  [row "signal::connect::W" "W" "" "call:set_resume_fn" false 0,
   row "signal::connect::W" "go" "" "_ref" false 0, row "signal::connect::W" "go" "" "call:lock" false 1,
   row "signal::connect::W" "go" "" "call:subscribe" false 2, row "signal::connect::W" "go" "" "call:subscribe" false 3,
   row "signal::connect::W" "again" "" "_ref" false 0, row "signal::connect::W" "again" "" "call:lock" false 1,
   row "signal::connect::W" "again" "" "call:subscribe" false 2]

/-- accepted: the obligation does not depend on `Awt`, `resume`, `initial_reg`, `st`, `_wk_state` -/
example : emitterSetsUpBeforeSubscribe (suspendOk ++ callbackOk) = true := by decide

/-- `subscribe` before `set_handle` in `await_suspend` is rejected -/
example : emitterSetsUpBeforeSubscribe
    ([row "signal::emitter" "await_suspend" "" "_wk_state" false 0, row "signal::emitter" "await_suspend" "" "call:lock" false 1,
      row "signal::emitter" "await_suspend" "" "call:subscribe" false 2, row "signal::emitter" "await_suspend" "" "call:set_handle" false 3]
     ++ callbackOk) = false := by decide

/-- a member of the callback awaiter touched after `subscribe` is rejected, whatever the class, the function and the member are called;
so are a node set-up outside the constructor and a constructor that subscribes -/
example : emitterSetsUpBeforeSubscribe (suspendOk ++ callbackOk ++ [row "signal::connect::W" "again" "" "_count" false 3]) = false
    ∧ emitterSetsUpBeforeSubscribe (suspendOk ++ callbackOk ++ [row "signal::connect::W" "again" "" "call:set_resume_fn" false 3]) = false
    ∧ emitterSetsUpBeforeSubscribe (suspendOk ++ callbackOk ++ [row "signal::connect::W" "W" "" "call:subscribe" false 1]) = false := by
  decide

/-- two reads of `_cur_val` in `await_resume` are rejected -/
example : awaitResumeReadsCurVal
    [row "signal::emitter" "await_resume" "" "call:lock" false 0, row "signal::emitter" "await_resume" "s" "_cur_val" false 1,
     row "signal::emitter" "await_resume" "s" "_cur_val" false 2] = false := by decide

end Cocls.C03b
