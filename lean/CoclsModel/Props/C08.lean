import CoclsModel.Mutex
/-! # C08 — property theorems (placeholder while the invariant proofs are being written) -/
namespace Cocls.Mutex

/-- `try_lock`/`ready()` is one step and succeeds iff the mutex is free -/
theorem c08_try_lock_iff_free (c : Cfg) (s : State) (t a : Nat) (r : Round) (hpc : s.pc a = Pc.top)
    (hr : curRound c s a = some r) :
    ((agentStep c s t a).1.pc a = Pc.crit ↔ s.req = []) := by
  unfold agentStep
  simp only [hpc, hr]
  cases h : s.req with
  | nil => simp [setPc]
  | cons x xs => cases hf : r.fl <;> simp [setPc, hf]

end Cocls.Mutex
