import CoclsModel.MutexProofs
import CoclsModel.MutexPtrProofs
/-!
# C08 — coroutine mutex: FIFO hand-off, no lost request (property theorems)

Model `Mutex.lean`, proofs `MutexProofs.lean`; quantifier as in `Props/C07.lean`: every configuration `c` (all
acquisition flavours, all ways of giving the ownership up — `release()`, awaited release, destruction, move into a
temporary, assignment of an empty or of another mutex' ownership —, own ownership object or the shared slot),
every state reachable from `init c` by any sequence of agent activities permitted by `canRun` (which covers every
schedule of enabled OS threads: `trun_init_reachable`).  `pending s` is `queue ++ reverse (nodes of the stack)` without
the found-null acquirer's own node; `s.stamp a` is the value of the clock at `a`'s successful publishing CAS.
-/
namespace Cocls.Mutex
variable {c : Cfg} {s : State}

/-- **Arrival order.** The pending requests (`queue ++ reversed stack`, without the found-null acquirer's own node)
    are strictly sorted by arrival stamp, and every stamp is below the clock. -/
theorem c08_pending_sorted (hs : Reachable c s) :
    (pending s).Pairwise (fun x y => s.stamp x < s.stamp y) ∧ ∀ x ∈ pending s, s.stamp x < s.clock := by
  have h := inv_reachable hs
  refine ⟨h.stampQ.sublist (pending_sublist s), ?_⟩
  intro x hx
  apply h.stampC
  have hx' := (pending_sublist s).subset hx
  have hc := h.cnt x
  have : 0 < s.queue.count x + (nodesOf s.req).count x := by
    rcases List.mem_append.1 hx' with h1 | h1
    · have := List.count_pos_iff.2 h1; omega
    · have := List.count_pos_iff.2 (List.mem_reverse.1 h1); omega
  split at hc
  · assumption
  · omega

/- two requests in the stack (newest first), then moved to the queue: the pending list is the same, in arrival order -/
example : Reachable cfgEx sP ∧ nodesOf sP.req = [2, 1] ∧ sP.queue = [] ∧ pending sP = [1, 2] ∧
    (sP.stamp 1, sP.stamp 2, sP.clock) = (0, 1, 2) := ⟨reachable_of_run _ runP (by decide), by decide⟩
example : nodesOf sA.req = [] ∧ sA.queue = [1, 2] ∧ pending sA = [1, 2] := by decide

/-- stamps are handed out by the publishing CAS in the order of these operations -/
theorem c08_publish_stamp (c : Cfg) (s : State) (t a : Nat) (prev : Seen) (hpc : s.pc a = Pc.sub prev)
    (hseen : seenOf s.req = prev) :
    (agentStep c s t a).1.stamp a = s.clock ∧ (agentStep c s t a).1.clock = s.clock + 1 ∧
    (agentStep c s t a).1.req = Elem.node a (keyOf c s a) :: s.req := by
  unfold agentStep
  simp [hpc, hseen, setPc]

example : (agentStep cfgEx (arun cfgEx (init cfgEx) (runP.take 6)) 2 2).1.stamp 2 = 1 ∧
    (arun cfgEx (init cfgEx) (runP.take 6)).clock = 1 ∧ sP.clock = 2 := by decide

/-- **No lost request.** An agent waits for the lock (parked coroutine / blocking waiter whose flag is not set)
    iff it is a pending request, and then it has exactly one node in `queue ++ stack`. -/
theorem c08_no_lost_request (hs : Reachable c s) (a : Nat) :
    (Waiting s a ↔ a ∈ pending s) ∧ (Waiting s a → s.queue.count a + (nodesOf s.req).count a = 1) := by
  have h := inv_reachable hs
  have hc := h.cnt a
  constructor
  · constructor
    · intro hw
      have hnb : s.pc a ≠ Pc.build := by
        intro e; simp [Waiting, e, isWaiting] at hw
      rw [if_pos (show Listed s a from Or.inl hw)] at hc
      unfold pending
      rw [List.mem_append, List.mem_reverse, List.mem_filter]
      by_cases hq : a ∈ s.queue
      · exact Or.inl hq
      · right
        have : s.queue.count a = 0 := List.count_eq_zero.2 hq
        exact ⟨List.count_pos_iff.1 (by omega), by simpa using hnb⟩
    · intro hm
      unfold pending at hm
      rw [List.mem_append, List.mem_reverse, List.mem_filter] at hm
      have hl : Listed s a := by
        split at hc
        · assumption
        · rcases hm with h1 | h1
          · have := List.count_pos_iff.2 h1; omega
          · have := List.count_pos_iff.2 h1.1; omega
      rcases hl with hw | hb
      · exact hw
      · rcases hm with h1 | h1
        · have := (h.bld a hb).2; rw [this] at h1; simp at h1
        · simp [hb] at h1
  · intro hw
    rw [hc, if_pos (show Listed s a from Or.inl hw)]

example : Waiting sP 1 ∧ Waiting sP 2 ∧ ¬ Waiting sP 0 ∧ pending sP = [1, 2] := by decide
/- a blocked waiter whose flag is not set -/
example : Reachable cfgSy sS ∧ Waiting sS 1 ∧ pending sS = [1] ∧ canRun sS 1 = false :=
  ⟨reachable_of_run _ runS (by decide), by decide⟩

/-- **Shape of the request stack** (`_requests`; (I3) of DESIGN.md Appendix B): null iff nobody owns the mutex; a chain
    of waiting requests ending in the doorman while an owner past its acquisition exists; a chain ending in the
    owner's own node (whose `_next` is null) while the found-null acquirer has not yet run `build_queue`.  All nodes
    above the bottom marker are pending requests. -/
theorem c08_stack_shape (hs : Reachable c s) :
    ((∀ a, ¬ Owner s a) → s.req = []) ∧
    (∀ o, Owner s o → s.pc o ≠ Pc.build →
        ∃ xs : List (Nat × Nat), s.req = nodesL xs ++ [Elem.door] ∧ ∀ x ∈ xs, Waiting s x.1) ∧
    (∀ o, s.pc o = Pc.build → ∃ (xs : List (Nat × Nat)) (k : Nat), s.req = nodesL xs ++ [Elem.node o k] ∧ s.queue = [] ∧
        ∀ x ∈ xs, Waiting s x.1) := by
  have h := inv_reachable hs
  have hwait : ∀ x, x ∈ nodesOf s.req → s.pc x ≠ Pc.build → Waiting s x := by
    intro x hx hnb
    have hc := h.cnt x
    have := List.count_pos_iff.2 hx
    split at hc
    · rename_i hl; rcases hl with hl | hl
      · exact hl
      · exact absurd hl hnb
    · omega
  refine ⟨fun hno => (h.free hno).1, ?_, ?_⟩
  · intro o ho hnb
    obtain ⟨xs, hxs⟩ := (doorEnd_iff _).1 (h.door o ho hnb)
    refine ⟨xs, hxs, ?_⟩
    intro x hx
    refine hwait x.1 (by rw [hxs, nodesOf_nodesL]; simp; exact ⟨x.2, hx⟩) ?_
    intro hb
    have := h.excl o x.1 ho (by simp [Owner, hb, isOwner])
    subst this; exact hnb hb
  · intro o ho
    obtain ⟨xs, k, hxs⟩ := (nodeEnd_iff o _).1 (h.bldEnd o ho)
    refine ⟨xs, k, hxs, (h.bld o ho).2, ?_⟩
    intro x hx
    have hmem : x.1 ∈ xs.map (·.1) := List.mem_map.2 ⟨x, hx, rfl⟩
    have hxo : x.1 ≠ o := by
      intro e
      have hc := h.cnt o
      rw [hxs, nodesOf_nodesL] at hc
      have h1 : 0 < (xs.map (·.1)).count o := List.count_pos_iff.2 (e ▸ hmem)
      simp at hc
      split at hc <;> omega
    refine hwait x.1 (by rw [hxs, nodesOf_nodesL]; simp; exact Or.inl ⟨x.2, hx⟩) ?_
    intro hb
    have := h.excl o x.1 (by simp [Owner, ho, isOwner]) (by simp [Owner, hb, isOwner])
    exact hxo this.symm

example : sP.req = nodesL [(2, 0), (1, 0)] ++ [Elem.door] ∧ sN.req = nodesL [(2, 0)] ++ [Elem.node 1 0] ∧ sZ.req = [] := by decide

/-- **Never locked without an owner.** -/
theorem c08_not_stuck_locked (hs : Reachable c s) :
    (s.req ≠ [] → ∃ a, Owner s a ∧ canRun s a = true) ∧
    ((∀ a, ¬ Owner s a) → s.req = [] ∧ s.queue = [] ∧ pending s = []) ∧
    (s.req = [] → ∀ a, ¬ Owner s a) := by
  have h := inv_reachable hs
  refine ⟨?_, ?_, ?_⟩
  · intro hne
    apply Classical.byContradiction
    intro hno
    have : ∀ a, ¬ Owner s a := fun a ha => hno ⟨a, ha, owner_canRun ha⟩
    exact hne (h.free this).1
  · intro hno
    have := h.free hno
    refine ⟨this.1, this.2, ?_⟩
    simp [pending, this.1, this.2]
  · intro hr a ha
    by_cases hb : s.pc a = Pc.build
    · have := (h.bld a hb).1; rw [hr] at this; simp at this
    · have := h.door a ha hb; rw [hr] at this; simp at this

example : sA.req = [Elem.door] ∧ Owner sA 0 ∧ canRun sA 0 = true := by decide
example : sZ.req = [] ∧ (∀ a, a < 3 → ¬ Owner sZ a) := by decide

/-- **Deadlock freedom (agent level).** If no agent's code can run, every agent has finished all its rounds. -/
theorem c08_no_deadlock (hs : Reachable c s) (hstuck : ∀ a, canRun s a = false) :
    ∀ a, s.pc a = Pc.done ∧ (a < c.n → s.round a = (c.rounds a).length) := by
  have h := inv_reachable hs
  intro a
  have hd := inv_stuck_done h hstuck a
  exact ⟨hd, (h.rnd a).2.2 hd⟩

/- in `sS` only the owner 0 can run (1 is blocked without its flag … ) -/
example : canRun sS 0 = true ∧ canRun sS 1 = false := by decide
/- … and at the end of scenario `runZ` nobody can run and everybody is done -/
example : Reachable cfgEx sZ ∧ (∀ a, a < 3 → canRun sZ a = false ∧ sZ.pc a = Pc.done) :=
  ⟨reachable_of_run _ runZ (by decide), by decide⟩

/-- the found-null acquirer is older than every pending request -/
theorem c08_builder_first (hs : Reachable c s) (o : Nat) (ho : s.pc o = Pc.build) :
    ∀ y ∈ pending s, s.stamp o < s.stamp y := by
  have h := inv_reachable hs
  intro y hy
  unfold pending at hy
  rw [(h.bld o ho).2, List.nil_append, List.mem_reverse, List.mem_filter] at hy
  refine h.bldFirst o y ho hy.1 ?_
  rintro rfl
  simp [ho] at hy

/- 1 found the mutex free (after 0's release) and has not yet run `build_queue`; 2 published behind it -/
example : Reachable cfgEx sN ∧ sN.pc 1 = Pc.build ∧ Owner sN 1 ∧ nodesOf sN.req = [2, 1] ∧ pending sN = [2] ∧
    sN.stamp 1 < sN.stamp 2 := ⟨reachable_of_run _ runN (by decide), by decide⟩
example : (agentStep cfgEx sN 1 1).1.queue = [2] ∧ (agentStep cfgEx sN 1 1).1.req = [Elem.door] := by decide

/-- **FIFO hand-over.** Whenever an activity of `x` hands the lock over (`grantee c s x = some b`: `x` gives its ownership
    up through an armed ownership object — `release()`, awaited release, destruction, move into a temporary, assignment of
    an empty or of the auxiliary mutex' ownership — or continues `unlock` after rebuilding the queue, and the queue is not
    empty), `b` is the pending request with the smallest arrival stamp; after the step `b` is the owner, `x` is not, `b`
    has one more grant and the pending list lost exactly its head. -/
theorem c08_fifo (hs : Reachable c s) (t x b : Nat) (hx : canRun s x = true) (hg : grantee c s x = some b) :
    let s' := (agentStep c s t x).1
    (pending s).head? = some b ∧ (∀ y ∈ pending s, y ≠ b → s.stamp b < s.stamp y) ∧
    Owner s' b ∧ ¬ Owner s' x ∧ s'.grants b = s.grants b + 1 ∧ pending s' = (pending s).tail := by
  intro s'
  have h := inv_reachable hs
  have h' : Inv c s' := inv_step h t hx
  obtain ⟨k, hd, he, rest, hq⟩ := step_handOver c s t x b hg
  have hsp := handOver_spec c { s with incs := k, held := hd } t x b rest hq
  have hs' : s' = (handOver c { s with incs := k, held := hd } t x).1 := he
  have hfle : flOf c { s with incs := k, held := hd } b = flOf c s b := rfl
  obtain ⟨hownx, hw, hbx, _⟩ := h.grantee_facts hg
  obtain ⟨_, hnb, hc1, hc2⟩ := h.head_facts hq
  have hpend : pending s = b :: (rest ++ (nodesOf s.req).reverse) := by
    unfold pending
    rw [hq, List.filter_eq_self.2 (fun y _ => by simpa using hnb y)]; rfl
  have hpc' : s'.pc = (if flOf c s b = some Flavour.co then upd (upd s.pc b Pc.crit) x Pc.relDone
                       else upd s.pc x Pc.relDone) := by
    rw [hs', hsp.2.2.2.2.2.1, hfle]
  have hfl' : s'.flag = (if flOf c s b = some Flavour.co then s.flag else upd s.flag b true) := by
    rw [hs', hsp.2.2.2.2.2.2.1, hfle]
  have hnb' : ∀ y, s'.pc y ≠ Pc.build := by
    intro y
    rw [hpc']
    have := hnb y
    split <;> simp only [upd_apply] <;> (repeat' split) <;> simp_all
  refine ⟨by rw [hpend]; rfl, ?_, ?_, ?_, ?_, ?_⟩
  · intro y hy hyb
    rw [hpend] at hy
    rcases List.mem_cons.1 hy with e | e
    · exact absurd e hyb
    · have hQ := h.stampQ
      rw [hq, List.cons_append, List.pairwise_cons] at hQ
      exact hQ.1 y e
  · unfold Owner
    rw [hpc', hfl']
    by_cases hk : flOf c s b = some Flavour.co
    · simp [hk, hbx, isOwner]
    · have hkw := ((h.head_wait hq).2 hk).1
      rcases hkw with e | e <;> simp [hk, hbx, e, isOwner]
  · unfold Owner
    rw [hpc']
    split <;> simp [isOwner]
  · rw [hs', hsp.2.2.1]; simp
  · unfold pending
    rw [hs', hsp.1, hsp.2.1, ← hs', List.filter_eq_self.2 (fun y _ => by simpa using hnb' y), hq,
      List.filter_eq_self.2 (fun y _ => by simpa using hnb y)]
    rfl

/- every way of giving the ownership up hands over to the head of the queue: scenario `runO3` — 1 assigned an empty
   ownership over the shared slot (→ 2), 2 moved its ownership into a temporary (→ 3); in `sO1` owner 0 calls `release()` -/
example : sO3.grantLog = [0, 1, 2, 3] ∧ sO1.stamp 1 < sO1.stamp 2 ∧ sO1.stamp 2 < sO1.stamp 3 := by decide

/- the hand-over `sA → sB`: 1 (stamp 0) before 2 (stamp 1) -/
example : grantee cfgEx sA 0 = some 1 ∧ pending sA = [1, 2] ∧ sA.stamp 1 < sA.stamp 2 ∧ Owner sB 1 ∧ pending sB = [2] := by decide
/- the whole scenario grants in arrival order -/
example : sZ.grantLog = [0, 1, 2, 2] := by decide

/-- **No barging.** An agent acquires the mutex by a CAS of its own (`ready()` or the publishing CAS on `null`)
    only when the mutex is free: no owner, no pending request. -/
theorem c08_no_barging (hs : Reachable c s) (t x : Nat)
    (hacq : s.pc x = Pc.top ∨ ∃ p, s.pc x = Pc.sub p) (hown : Owner (agentStep c s t x).1 x) :
    s.req = [] ∧ s.queue = [] ∧ pending s = [] ∧ ∀ y, ¬ Owner s y := by
  have h := inv_reachable hs
  have hreq : s.req = [] := by
    rcases hacq with hpc | ⟨p, hpc⟩
    · unfold agentStep at hown
      simp only [hpc] at hown
      split at hown
      · simp [Owner, setPc, isOwner] at hown
      · rename_i r hr
        split at hown
        · assumption
        · exfalso
          revert hown
          cases r.fl <;> simp [Owner, setPc, isOwner]
    · unfold agentStep at hown
      simp only [hpc] at hown
      split at hown
      · rename_i hseen
        by_cases hp : p = Seen.null
        · subst hp; exact seenOf_eq_null.1 hseen
        · exfalso
          simp only [hp, if_false] at hown
          by_cases hk : flOf c s x = some Flavour.co
          · simp [Owner, setPc, hk, isOwner] at hown
          · have := h.subF x p hpc hk
            split at hown
            · rename_i hk'; exact absurd hk' hk
            · simp [Owner, setPc, isOwner, this] at hown
      · simp [Owner, setPc, isOwner] at hown
  have hno := (c08_not_stuck_locked hs).2.2 hreq
  have := (c08_not_stuck_locked hs).2.1 hno
  exact ⟨this.1, this.2.1, this.2.2, hno⟩

/- 1's publishing CAS on `null` in scenario `runN` (5th activity) happens when nothing is pending -/
example : (arun cfgEx (init cfgEx) (runN.take 4)).req = [] ∧ pending (arun cfgEx (init cfgEx) (runN.take 4)) = [] ∧
    Owner (arun cfgEx (init cfgEx) (runN.take 5)) 1 := by decide

/-- **`try_lock`** is one synchronising operation, succeeds iff the mutex is free (iff nobody owns it) and never
    parks or blocks: afterwards the agent is at `crit` or at `tryFail`, from where it goes straight on to its next round. -/
theorem c08_try_lock (hs : Reachable c s) (t a : Nat) (r : Round) (hpc : s.pc a = Pc.top)
    (hr : curRound c s a = some r) (hfl : r.fl = Flavour.try_) :
    let res := agentStep c s t a
    res.2.2 = Outcome.op ∧
    ((res.1.pc a = Pc.crit ∧ Owner res.1 a ∧ ∀ y, ¬ Owner s y) ∨ (res.1.pc a = Pc.tryFail ∧ ∃ y, Owner s y)) ∧
    (res.1.pc a = Pc.tryFail →
      (agentStep c res.1 t a).1.pc a = Pc.top ∧ (agentStep c res.1 t a).1.round a = s.round a + 1 ∧
      (agentStep c res.1 t a).2.2 = Outcome.continue_) := by
  intro res
  have hres : res = agentStep c s t a := rfl
  unfold agentStep at hres
  simp only [hpc, hr, hfl] at hres
  cases hq : s.req with
  | nil =>
    simp only [hq] at hres
    have hno := (c08_not_stuck_locked hs).2.2 hq
    refine ⟨by rw [hres], Or.inl ⟨by rw [hres]; simp [setPc], by rw [hres]; simp [Owner, setPc, isOwner], hno⟩, ?_⟩
    intro h; rw [hres] at h; simp [setPc] at h
  | cons e es =>
    simp only [hq] at hres
    have hex := (c08_not_stuck_locked hs).1 (by rw [hq]; simp)
    obtain ⟨y, hy, _⟩ := hex
    refine ⟨by rw [hres], Or.inr ⟨by rw [hres]; simp [setPc], y, hy⟩, ?_⟩
    intro h
    unfold agentStep
    simp only [h]
    rw [hres]
    simp [setPc]

/- 2's `try_lock` in `runS` fails (0 owns the mutex), 2's `try_lock` in `runZ` (second round) succeeds -/
example : (arun cfgSy (init cfgSy) (runS.take 7)).pc 2 = Pc.tryFail ∧ sS.pc 2 = Pc.top ∧ sS.round 2 = 1 ∧ Owner sS 0 := by
  decide
example : (arun cfgEx (init cfgEx) (runZ.take 16)).pc 2 = Pc.top ∧ (arun cfgEx (init cfgEx) (runZ.take 17)).pc 2 = Pc.crit := by
  decide

/-- **Relockable.** When every agent has finished, the mutex is free again (`_requests = nullptr`, `_queue` empty);
    and whenever nobody owns it, a new `ready()` CAS succeeds. -/
theorem c08_relockable (hs : Reachable c s) :
    ((∀ a, s.pc a = Pc.done) → s.req = [] ∧ s.queue = []) ∧
    ((∀ a, ¬ Owner s a) → ∀ t a r, s.pc a = Pc.top → curRound c s a = some r →
        (agentStep c s t a).1.pc a = Pc.crit ∧ Owner (agentStep c s t a).1 a) := by
  have hnsl := c08_not_stuck_locked hs
  constructor
  · intro hd
    have := hnsl.2.1 (fun a ha => by simp [Owner, hd a, isOwner] at ha)
    exact ⟨this.1, this.2.1⟩
  · intro hno t a r hpc hr
    have hq := (hnsl.2.1 hno).1
    unfold agentStep
    simp [hpc, hr, hq, setPc, Owner, isOwner]


example : (∀ a, a < 3 → sZ.pc a = Pc.done) ∧ sZ.req = [] ∧ sZ.queue = [] := by decide

/-! ## transfer to the OS-thread level (the level the harness exercises) -/

/-- **C07/C08 hold for every schedule of OS threads**: the state after any schedule of enabled threads
    (`threadStep`, any fuel) is `Reachable`, so every theorem above and in `Props/C07.lean` applies to it. -/
theorem c08_thread_level (hwf : c.WFT) (fuel : Nat) (ts : List Nat) (hg : TGuarded c fuel (init c) ts) :
    Reachable c (trun c fuel (init c) ts) :=
  trun_init_reachable hwf fuel ts hg

/-- **Deadlock freedom (OS-thread level, what the harness' deadlock detector observes).** After any schedule of
    enabled threads: if no thread is enabled any more, every agent has finished all its rounds, every thread has
    finished and the mutex is free — the executor glue never loses a runnable coroutine (`LInv`). -/
theorem c08_no_deadlock_threads (hwf : c.WFT) (fuel : Nat) (ts : List Nat) (hg : TGuarded c fuel (init c) ts)
    (hstuck : ∀ t, enabled (trun c fuel (init c) ts) t = false) :
    (∀ a, (trun c fuel (init c) ts).pc a = Pc.done) ∧
    (∀ a, a < c.n → (trun c fuel (init c) ts).round a = (c.rounds a).length) ∧
    (∀ t, (trun c fuel (init c) ts).tmain t = TMain.finished) ∧
    (trun c fuel (init c) ts).req = [] ∧ (trun c fuel (init c) ts).queue = [] := by
  obtain ⟨hs, hT, hL⟩ := treachable_reachable hwf fuel ts _ (reachable_init c) (tinv_init c) (linv_init c) hg
  have h := inv_reachable hs
  obtain ⟨h1, h2⟩ := threads_stuck_done hwf h hT hL hstuck
  have := (c08_relockable hs).1 h1
  exact ⟨h1, fun a ha => (h.rnd a).2.2 (h1 a) ha, h2, this.1, this.2⟩

example : TGuarded cfgEx 100 (init cfgEx) schedZ ∧ (∀ t, t < 3 → enabled (trun cfgEx 100 (init cfgEx) schedZ) t = false) ∧
    enabled (trun cfgEx 100 (init cfgEx) schedB) 0 = true := by decide
example : (trun cfgEx 100 (init cfgEx) schedB).queue = sB.queue ∧ (trun cfgEx 100 (init cfgEx) schedB).cur 0 = some 1 ∧
    (∀ a, a < 3 → (trun cfgEx 100 (init cfgEx) schedZ).pc a = Pc.done) := by decide

end Cocls.Mutex

/-!
# C08 at pointer level (`MutexPtr.lean`, `MutexPtrProofs.lean`): the FIFO is the list

The theorems above are about the list-level model, where `_requests` is a `List Elem` and `_queue` a `List Nat`.  The code
has raw `awaiter::_next` links.  `MutexPtr.lean` models them (`requests`/`queue : Ptr`, `next : Node → Ptr`; `build_queue` =
exchange + an explicit loop over the links that runs in the caller's next segment; `unlock` pops by pointer), the driver
`Drivers/C08P.lean` runs that model against the real header step for step *including a digest of the real pointer state*
(suite `ptr-level` of `checks/c08.py`), and the theorems below prove that it refines the list-level model — so all the
theorems above hold for what the pointers denote.  Quantifier: every configuration `c`, every loop fuel `wf ≥ c.n`, every
list of agent activities permitted by `canRun` (resp. every schedule of enabled OS threads, `c.WFT`).
-/
namespace Cocls.MutexPtr
open Cocls.Mutex (Elem Seen Flavour Rel Round AKind Cfg Pc TMain Ev Outcome upd nodesL nodesOf seenOf Inv Listed Owner
  Waiting canRun cfgEx runP runA runB runN runZ sP sA sB sN sZ)
variable {c : Cfg}

/-- **`build_queue`'s walk over the `_next` links is list reversal.**  Whatever the state: if following `_next` from the
    detached top `req` visits exactly `l` and reaches the stop marker, `_queue` is a null-terminated chain visiting `q`,
    the two are disjoint and the nodes of `l` are alive, then the loop (any fuel `≥ l.length`) ends with `_queue` visiting
    `l.reverse ++ q`, writes no `_next` outside `l`, makes exactly the accesses `read n._next; write n._next` for `n ∈ l` in
    chain order, and touches nothing that is not alive. -/
theorem c08_build_queue_is_reversal (a : Nat) (stop : Ptr) (l : List Node) (fuel : Nat) (s : State) (req : Ptr) (q : List Node)
    (hl : ChainIs s.next req l stop) (hq : ChainIs s.next s.queue q Seen.null) (hd : ∀ n ∈ l, n ∉ q)
    (hlive : ∀ n ∈ l, s.live n = true) (hf : l.length ≤ fuel) :
    ChainIs (walk a stop fuel s req).next (walk a stop fuel s req).queue (l.reverse ++ q) Seen.null ∧
    (∀ m, m ∉ l → (walk a stop fuel s req).next m = s.next m) ∧
    (walk a stop fuel s req).acc = s.acc ++ walkAcc a l ∧ (walk a stop fuel s req).viol = s.viol := by
  obtain ⟨h1, h2, h3, h4, _⟩ := walk_chain a stop l fuel s req q hl hq hd hlive hf
  exact ⟨h1, h2, h4, h3⟩

/-- the pointer-level run of scenario `runA` up to the owner's exchange (`relBuild`), and one activity later -/
def pA : State := arun cfgEx 3 (init cfgEx) runA
def pA' : State := arun cfgEx 3 (init cfgEx) (runA ++ [(0, 0)])

/- after the exchange the stack `2 → 1 → door` is detached (reachable only from the owner's local variable `pend 0`), the
   loop has not run yet; the owner's next activity runs it: `_queue = 1 → 2 → null`, then pops 1 -/
example : pA.requests = Seen.door ∧ pA.queue = Seen.null ∧ pA.pend 0 = some (Seen.node 2 0, Seen.door) ∧
    pA.next (2, 0) = Seen.node 1 0 ∧ pA.next (1, 0) = Seen.door := by decide
example : (flush 3 pA 0).queue = Seen.node 1 0 ∧ (flush 3 pA 0).next (1, 0) = Seen.node 2 0 ∧
    (flush 3 pA 0).next (2, 0) = Seen.null ∧ (flush 3 pA 0).acc = pA.acc ++ walkAcc 0 [(2, 0), (1, 0)] := by decide
example : pA'.queue = Seen.node 2 0 ∧ pA'.next (1, 0) = Seen.null ∧ pA'.next (2, 0) = Seen.null ∧ pA'.pend 0 = none ∧
    pA'.pc 1 = Pc.crit := by decide

/-- **The pointer-level model refines the list-level model (agent level).**  For every configuration, every fuel
    `wf ≥ c.n` and every activity list `l` permitted by `canRun`: the pointer-level state after `l` is related by `Repr` to
    the list-level state after `l` — same control part, `_requests` represents its stack, `_queue` (after the owner's
    pending loop) represents its queue, every linked node alive —, the abstraction function maps one to the other, and the
    next activity of any agent emits the same events (what the CAS/exchange observed and stored, which flag is stored: the
    node handed over) with the same outcome at both levels. -/
theorem c08_ptr_refines_list (wf : Nat) (hwf : c.n ≤ wf) (l : List (Nat × Nat)) (hg : Mutex.Guarded c (Mutex.init c) l) :
    Repr c (arun c wf (init c) l) (Mutex.arun c (Mutex.init c) l) ∧
    abs c (arun c wf (init c) l) = Mutex.arun c (Mutex.init c) l ∧
    ∀ t a, (agentStep c wf (arun c wf (init c) l) t a).2 = (Mutex.agentStep c (Mutex.arun c (Mutex.init c) l) t a).2 := by
  have hR := repr_run wf hwf l hg
  have hs := Mutex.reachable_of_run c l hg
  refine ⟨hR, abs_of_repr hs hR, fun t a => ?_⟩
  exact (agentStep_sim wf hR (Mutex.inv_reachable hs) (by have := queue_length_le hs; omega) t a).1

/-- **Step form: `abs (pstep ps a) = lstep (abs ps) a`.**  From any pointer state related to a reachable list-level state,
    every permitted activity commutes with the abstraction function and emits the same events and outcome. -/
theorem c08_abs_commutes (wf : Nat) (hwf : c.n ≤ wf) {ps : State} {ls : Mutex.State} (hs : Mutex.Reachable c ls)
    (hR : Repr c ps ls) (t a : Nat) (hcan : canRun ls a = true) :
    abs c (agentStep c wf ps t a).1 = (Mutex.agentStep c (abs c ps) t a).1 ∧
    (agentStep c wf ps t a).2 = (Mutex.agentStep c (abs c ps) t a).2 :=
  abs_agentStep wf hwf hs hR hcan

example : abs cfgEx pA = sA ∧ (abs cfgEx pA).queue = [1, 2] ∧ (abs cfgEx pA).req = [Elem.door] := by
  have h : abs cfgEx pA = sA := (c08_ptr_refines_list (c := cfgEx) 3 (by decide) runA (by decide)).2.1
  exact ⟨h, by rw [h]; decide⟩
/- the same by evaluation of the abstraction function (a pending loop is completed virtually) -/
example : (abs cfgEx pA).queue = [1, 2] ∧ (abs cfgEx pA').queue = [2] ∧
    (abs cfgEx (arun cfgEx 3 (init cfgEx) runP)).req = [Elem.node 2 0, Elem.node 1 0, Elem.door] := by decide

/-- **… and for every schedule of OS threads** (the executor glue; what the harness runs): the pointer-level machine and the
    list-level machine under the same schedule of enabled threads stay related, and the next step of any enabled thread
    prints the same operation lines. -/
theorem c08_ptr_refines_list_threads (hwf : c.WFT) (wf : Nat) (hn : c.n ≤ wf) (fuel : Nat) (ts : List Nat)
    (hg : Mutex.TGuarded c fuel (Mutex.init c) ts) :
    Repr c (trun c wf fuel (init c) ts) (Mutex.trun c fuel (Mutex.init c) ts) ∧
    abs c (trun c wf fuel (init c) ts) = Mutex.trun c fuel (Mutex.init c) ts ∧
    ∀ t, Mutex.enabled (Mutex.trun c fuel (Mutex.init c) ts) t = true →
      (threadStep c wf fuel (trun c wf fuel (init c) ts) t).2 =
        (Mutex.threadStep c fuel (Mutex.trun c fuel (Mutex.init c) ts) t).2 := by
  obtain ⟨hR, hev⟩ := trun_init_sim hwf wf hn fuel ts hg
  exact ⟨hR, abs_of_repr (Mutex.trun_init_reachable hwf fuel ts hg) hR, hev⟩

example : (trun cfgEx 3 100 (init cfgEx) Mutex.schedB).queue = Seen.node 2 0 ∧
    abs cfgEx (trun cfgEx 3 100 (init cfgEx) Mutex.schedB) = Mutex.trun cfgEx 100 (Mutex.init cfgEx) Mutex.schedB :=
  ⟨by decide, (c08_ptr_refines_list_threads Mutex.cfgEx_wft 3 (by decide) 100 Mutex.schedB (by decide)).2.1⟩


/-- **The FIFO is the list: `_queue` then the reversed `_requests` chain is the arrival order.**  In every pointer state
    reached by a permitted activity list: whatever lists the pointer fields denote (`Links`: `det` = the chain a pending
    `build_queue` loop still has to move, `q0` = the chain of `_queue`, `stk` = the chain of `_requests`; they are determined
    by the pointers, `links_unique`), the sequence `det.reverse ++ q0 ++ stk.reverse` of request nodes is strictly increasing
    in the arrival stamp of the owners (the stamp is taken by the successful publishing CAS), no node occurs twice, and all of
    them are alive.  `det.reverse ++ q0` is the list-level queue and `stk` the list-level stack. -/
theorem c08_queue_is_arrival_order_ptr (wf : Nat) (hwf : c.n ≤ wf) (l : List (Nat × Nat))
    (hg : Mutex.Guarded c (Mutex.init c) l) (det q0 stk : List Node) (bottom : Ptr)
    (hk : Links (arun c wf (init c) l) det q0 stk bottom) :
    ((det.reverse ++ q0 ++ stk.reverse).map (·.1)).Pairwise
      (fun x y => (arun c wf (init c) l).stamp x < (arun c wf (init c) l).stamp y) ∧
    (det ++ q0 ++ stk).Nodup ∧ (∀ n ∈ det ++ q0 ++ stk, (arun c wf (init c) l).live n = true) ∧
    (Mutex.arun c (Mutex.init c) l).queue = (det.reverse ++ q0).map (·.1) ∧
    nodesOf (Mutex.arun c (Mutex.init c) l).req = stk.map (·.1) := by
  have hR := repr_run wf hwf l hg
  have hI := Mutex.inv_reachable (Mutex.reachable_of_run c l hg)
  generalize arun c wf (init c) l = ps at *
  generalize Mutex.arun c (Mutex.init c) l = ls at *
  obtain ⟨det', q0', b', hk', hq, hlv⟩ := links_of_repr hR
  obtain ⟨e1, e2, e3, _⟩ := links_unique hk hk'
  subst e1 e2 e3
  have hst : ps.stamp = ls.stamp := by rw [hR.1]; rfl
  have hS := hI.stampQ
  have hnd := inv_nodup hI
  rw [hq, nodesOf_eq_map] at hS hnd
  refine ⟨?_, ?_, fun n hn => (hlv n hn).1, hq, nodesOf_eq_map _⟩
  · rw [hst]
    simpa [List.map_append, List.map_reverse] using hS
  · have : ((det ++ q0 ++ nodesN ls.req).map (·.1)).Nodup := by
      have h2 : (List.map (fun x : Node => x.1) (det.reverse ++ q0) ++ List.map (fun x : Node => x.1) (nodesN ls.req)).Perm
          ((det ++ q0 ++ nodesN ls.req).map (·.1)) := by
        simp only [List.map_append, List.map_reverse]
        exact List.Perm.append_right _ (List.Perm.append_right _ (List.reverse_perm _))
      exact h2.nodup_iff.1 hnd
    exact List.Pairwise.of_map (fun x : Node => x.1) (fun a b h e => h (by rw [e])) this

/- scenario `runA` after the owner's exchange: the pointers denote `det = [n2.0, n1.0]`, `q0 = []`, `stk = []` (readout by
   the executable chain followers), list-level queue `[1, 2]`; 1 arrived before 2 -/
example : ∃ det q0 b, Links pA det q0 (nodesN sA.req) b ∧ sA.queue = (det.reverse ++ q0).map (·.1) := by
  obtain ⟨det, q0, b, h1, h2, _⟩ := links_of_repr (repr_run (c := cfgEx) 3 (by decide) runA (by decide))
  exact ⟨det, q0, b, h1, h2⟩
example : followTo pA.next Seen.door 3 (Seen.node 2 0) = [(2, 0), (1, 0)] ∧ (follow pA.next 3 pA.queue).1 = [] ∧
    sA.queue = [1, 2] ∧ pA.stamp 1 < pA.stamp 2 ∧ pA.live (1, 0) = true ∧ pA.live (2, 0) = true := by decide

/-- **No lost request (pointer level).**  Whatever lists the pointers denote: every agent that waits for the lock (parked
    coroutine / blocking waiter whose flag is not set) — and the found-null acquirer before its `build_queue` — owns exactly
    one linked node (in the stack, in the chain a pending loop has to move, or in `_queue`); nobody else owns one. -/
theorem c08_no_lost_request_ptr (wf : Nat) (hwf : c.n ≤ wf) (l : List (Nat × Nat))
    (hg : Mutex.Guarded c (Mutex.init c) l) (det q0 stk : List Node) (bottom : Ptr)
    (hk : Links (arun c wf (init c) l) det q0 stk bottom) (a : Nat) :
    ((det ++ q0 ++ stk).map (·.1)).count a = (if Listed (Mutex.arun c (Mutex.init c) l) a then 1 else 0) ∧
    (Waiting (Mutex.arun c (Mutex.init c) l) a → ∃ n ∈ det ++ q0 ++ stk, n.1 = a) := by
  have hR := repr_run wf hwf l hg
  have hI := Mutex.inv_reachable (Mutex.reachable_of_run c l hg)
  generalize arun c wf (init c) l = ps at *
  generalize Mutex.arun c (Mutex.init c) l = ls at *
  obtain ⟨det', q0', b', hk', hq, _⟩ := links_of_repr hR
  obtain ⟨e1, e2, e3, _⟩ := links_unique hk hk'
  subst e1 e2 e3
  have hc := hI.cnt a
  rw [hq, nodesOf_eq_map] at hc
  have hcount : ((det ++ q0 ++ nodesN ls.req).map (·.1)).count a = (if Listed ls a then 1 else 0) := by
    rw [← hc]
    simp only [List.map_append, List.count_append, List.map_reverse, List.count_reverse]
  refine ⟨hcount, fun hw => ?_⟩
  rw [if_pos (show Listed ls a from Or.inl hw)] at hcount
  have : a ∈ (det ++ q0 ++ nodesN ls.req).map (·.1) := List.count_pos_iff.1 (by omega)
  obtain ⟨n, hn, e⟩ := List.mem_map.1 this
  exact ⟨n, hn, e⟩

example : Waiting sA 1 ∧ Waiting sA 2 ∧ ¬ Listed sA 0 ∧
    (followTo pA.next Seen.door 3 (Seen.node 2 0)).map (·.1) = [2, 1] := by decide

/-- **FIFO hand-over at pointer level.**  Whenever an activity of `x` hands the lock over (`grantee c ls x = some b`), the
    pointer-level activity pops the node of `b` — the pending request with the smallest arrival stamp — off `_queue`: the new
    pointer state represents the list-level state whose pending list lost exactly its head, `b` is the owner. -/
theorem c08_fifo_ptr (wf : Nat) (hwf : c.n ≤ wf) {ps : State} {ls : Mutex.State} (hs : Mutex.Reachable c ls)
    (hR : Repr c ps ls) (t x b : Nat) (hx : canRun ls x = true) (hg : Mutex.grantee c ls x = some b) :
    Repr c (agentStep c wf ps t x).1 (Mutex.agentStep c ls t x).1 ∧
    (Mutex.pending ls).head? = some b ∧ (∀ y ∈ Mutex.pending ls, y ≠ b → ls.stamp b < ls.stamp y) ∧
    Mutex.pending (Mutex.agentStep c ls t x).1 = (Mutex.pending ls).tail ∧
    Owner (abs c (agentStep c wf ps t x).1) b := by
  have h := Mutex.c08_fifo hs t x b hx hg
  have hsim := agentStep_sim wf hR (Mutex.inv_reachable hs) (by have := queue_length_le hs; omega) t x
  refine ⟨hsim.2, h.1, h.2.1, h.2.2.2.2.2, ?_⟩
  rw [abs_of_repr (Mutex.reachable_step hs t hx) hsim.2]
  exact h.2.2.1

/- `pA → pA'`: the owner 0 (at `relHand`) runs the loop and pops the head: node of 1 -/
example : Mutex.grantee cfgEx sA 0 = some 1 ∧ (flush 3 pA 0).queue = Seen.node 1 0 ∧ pA'.queue = Seen.node 2 0 ∧
    (abs cfgEx pA').queue = [2] ∧ Owner (abs cfgEx pA') 1 := by decide

/-- **The assertions of mutex.h hold**: `assert(_queue == nullptr)` in `build_queue` (evaluated after the exchange, before
    the loop) and `assert(_requests != nullptr)` at the entry of `unlock` never fail, and the doorman's `_next` is never
    written — along every permitted activity list, and along every schedule of enabled OS threads. -/
theorem c08_assertions_hold_ptr (wf : Nat) (hwf : c.n ≤ wf) :
    (∀ l, Mutex.Guarded c (Mutex.init c) l → (arun c wf (init c) l).asrt = false ∧ (arun c wf (init c) l).doorNext = Seen.null) ∧
    (c.WFT → ∀ fuel ts, Mutex.TGuarded c fuel (Mutex.init c) ts →
      (trun c wf fuel (init c) ts).asrt = false ∧ (trun c wf fuel (init c) ts).doorNext = Seen.null) := by
  refine ⟨fun l hg => ?_, fun hw fuel ts hg => ?_⟩
  · have h := (repr_run wf hwf l hg).2
    exact ⟨h.noAsrt, h.doorN⟩
  · have h := (trun_init_sim hw wf hwf fuel ts hg).1.2
    exact ⟨h.noAsrt, h.doorN⟩

example : pA'.asrt = false ∧ (arun cfgEx 3 (init cfgEx) runZ).asrt = false ∧
    (arun cfgEx 3 (init cfgEx) runZ).requests = Seen.null ∧ (arun cfgEx 3 (init cfgEx) runZ).queue = Seen.null := by decide

end Cocls.MutexPtr
