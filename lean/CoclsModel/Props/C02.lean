import CoclsModel.ChainProofs
import CoclsModel.ChainPtrProofs
/-!
# C02 — no lost, early or duplicate wake-up of a future's waiters

Same model and quantifiers as C01 (`Chain.lean`; every configuration `c : Cfg` — any number of waiters of every kind:
coroutine, blocking thread, callback, `has_value()` awaiter, against any number of resolver calls and destructor
agents (`~promise`, and `~promise_with_default` resolving with a default value) — and every schedule: `Reachable c s` = `∃ sched, s = run c (init c) sched`).

Ghost fields read by the statements: `subscribed w` (w's CAS push succeeded), `woken w` (number of times the walker
released `w`: `flag.store(true)` for a blocking waiter, resume / callback invocation otherwise), `observed w` (number
of times the result was read for `w`: by `w` itself, or inline by the walker that resumed it); `Ev.obs w o` is that
read and its value.
-/
namespace Cocls.Chain

/-- witness configuration: a value resolver, one waiter of every kind, the destructor -/
def c02Cfg : Cfg :=
  { n := 6
    kind := fun i => match i with
      | 0 => Kind.res (RK.value 7)
      | 1 => Kind.wait WK.coro
      | 2 => Kind.wait WK.sync
      | 3 => Kind.wait WK.cb
      | 4 => Kind.wait WK.hasv
      | _ => Kind.dtor }

/-- waiters 1, 2, 3 subscribe (2 and 3 each retry their CAS once), 2 blocks in `wait()`, the resolver claims, sets and
exchanges, waiter 4 comes late and finds the future ready, the walker releases the chain, everybody finishes -/
def c02Sched : List Nat := [1, 1, 2, 2, 3, 2, 3, 3, 2, 0, 0, 4, 0, 0, 4, 2, 2, 1, 3, 5, 5]

/-! ## at most once -/

/-- **No duplicate wake-up.**  In every reachable state every waiter has been released at most once, and only if it
had subscribed. -/
theorem c02_woken_at_most_once (c : Cfg) (s : State) (hr : Reachable c s) (w : Nat) :
    s.woken w ≤ 1 ∧ (1 ≤ s.woken w → s.subscribed w = true) := by
  have h := hr.inv
  rcases slot_cases s with hs | ⟨l, hl⟩
  · obtain ⟨x, hx, _, _⟩ := h.ready_phase hs
    have := h.readyW hs x hx w
    split at this
    · exact ⟨by omega, fun _ => by assumption⟩
    · exact ⟨by omega, fun _ => by omega⟩
  · have := ((h.chain_phase l hl).2.1 w).1
    exact ⟨by omega, fun _ => by omega⟩

/-- **The result is read at most once per waiter**, and only for waiter agents of the configuration. -/
theorem c02_observed_at_most_once (c : Cfg) (s : State) (hr : Reachable c s) (w : Nat) :
    s.observed w ≤ 1 ∧ (1 ≤ s.observed w → isW c w = true) := by
  have h := hr.inv
  rcases slot_cases s with hs | ⟨l, hl⟩
  · obtain ⟨x, hx, _, _⟩ := h.ready_phase hs
    have := h.readyO hs x hx w
    by_cases hw : isW c w = true
    · rw [if_pos hw] at this; exact ⟨by omega, fun _ => hw⟩
    · rw [if_neg hw] at this; exact ⟨by omega, fun _ => by omega⟩
  · have := h.chainO l hl w
    by_cases hw : isW c w = true
    · rw [if_pos hw] at this; exact ⟨by omega, fun _ => hw⟩
    · rw [if_neg hw] at this; exact ⟨by omega, fun _ => by omega⟩

/-- the same at trace level: in the event trace of any schedule there is at most one result read per waiter -/
theorem c02_observed_at_most_once_trace (c : Cfg) (sched : List Nat) (w : Nat) :
    (runEv c (init c) sched).2.countP (isObsOf w) ≤ 1 := by
  rw [obs_count]; exact (c02_observed_at_most_once c _ (reachable_run c sched) w).1

example : (run c02Cfg (init c02Cfg) c02Sched).woken 1 = 1 ∧ (run c02Cfg (init c02Cfg) c02Sched).woken 2 = 1
    ∧ (run c02Cfg (init c02Cfg) c02Sched).woken 3 = 1 ∧ (run c02Cfg (init c02Cfg) c02Sched).woken 4 = 0 := by decide
example : (List.range 6).map (run c02Cfg (init c02Cfg) c02Sched).observed = [0, 1, 1, 1, 1, 0] := by decide

/-! ## never early -/

/-- **Never early.**  A waiter is released (and a blocking waiter's flag set, and a waiter gets to its result read)
only when the slot is already `ready` — hence (`c01_result_is_winners`, `c01_stable`) the result is complete and
final; and no result read emitted by any step from a reachable state ever sees "not ready". -/
theorem c02_never_early (c : Cfg) (s : State) (hr : Reachable c s) :
    (∀ w, 1 ≤ s.woken w → s.slot = Slot.ready) ∧
    (∀ w, s.flag w = true → s.slot = Slot.ready) ∧
    (∀ w, s.pc w = Pc.wRead ∨ (∃ sn, s.pc w = Pc.wRead2 sn) → s.slot = Slot.ready) ∧
    (∀ t w o, Ev.obs w o ∈ (astep c s t).2 → s.slot = Slot.ready ∧ o ≠ Obs.notready) := by
  have h := hr.inv
  refine ⟨?_, ?_, ?_, ?_⟩
  · intro w hw
    rcases slot_cases s with hs | ⟨l, hl⟩
    · exact hs
    · have := ((h.chain_phase l hl).2.1 w).1; omega
  · intro w hw
    rcases slot_cases s with hs | ⟨l, hl⟩
    · exact hs
    · have := ((h.chain_phase l hl).2.1 w).2; rw [hw] at this; cases this
  · intro w hw
    rcases hw with hw | ⟨sn, hw⟩
    · exact (h.reader w).1 hw
    · exact ((h.reader w).2 sn hw).2
  · intro t w o he
    obtain ⟨hs, ho, _, _⟩ := astep_obs c t s h w o he
    refine ⟨hs, ?_⟩
    rw [ho]; unfold obsOf
    cases wkOf c w <;> simp <;> split <;> simp

example : (run c02Cfg (init c02Cfg) (c02Sched.take 9)).slot ≠ Slot.ready
    ∧ (List.range 6).map (run c02Cfg (init c02Cfg) (c02Sched.take 9)).woken = [0, 0, 0, 0, 0, 0] := by decide

/-! ## the released waiter sees the complete result -/

/-- **Sees the result.**  Every result read `Ev.obs w o` emitted by any step from a reachable state — whether `w` took
the ready path, the refused-subscribe path, was woken from `wait()`, or is a callback / coroutine resumed inline by the
walker — is a read by a waiter agent `w` of the configuration that had not read before, happens with the slot `ready`,
and returns exactly the value of the future's final result (`obsOf` of the payload, which equals the winner's payload by
`c01_result_is_winners`), where "final" is literal: the same in every state reached by any continuation of the
schedule. -/
theorem c02_sees_result (c : Cfg) (s : State) (hr : Reachable c s) (t w : Nat) (o : Obs)
    (he : Ev.obs w o ∈ (astep c s t).2) :
    isW c w = true ∧ s.observed w = 0 ∧ s.slot = Slot.ready ∧
    ∀ sched', o = obsOf (run c s sched') (wkOf c w) Seen.ready := by
  obtain ⟨hs, ho, hw, h0⟩ := astep_obs c t s hr.inv w o he
  refine ⟨hw, h0, hs, ?_⟩
  intro sched'
  rw [ho]
  exact (obsOf_congr _ _ (run_stable c s hr.inv hs sched').2 _ _).symm

example : Ev.obs 1 (Obs.val 7) ∈ (runEv c02Cfg (init c02Cfg) c02Sched).2
    ∧ Ev.obs 2 (Obs.val 7) ∈ (runEv c02Cfg (init c02Cfg) c02Sched).2
    ∧ Ev.obs 3 (Obs.val 7) ∈ (runEv c02Cfg (init c02Cfg) c02Sched).2
    ∧ Ev.obs 4 (Obs.hv true) ∈ (runEv c02Cfg (init c02Cfg) c02Sched).2 := by decide

/-- **Sees the result, whole-run form.**  For every schedule: every result read that occurs anywhere in the trace of
the run returns the value of the result as it stands at the *end* of that run, and is never "not ready". -/
theorem c02_sees_result_trace (c : Cfg) (sched : List Nat) (w : Nat) (o : Obs)
    (he : Ev.obs w o ∈ (runEv c (init c) sched).2) :
    (run c (init c) sched).slot = Slot.ready ∧ o = obsOf (run c (init c) sched) (wkOf c w) Seen.ready
      ∧ o ≠ Obs.notready := by
  obtain ⟨pre, t, post, hsched, _, hmem⟩ := runEv_mem c sched _ he
  have hr := reachable_run c pre
  obtain ⟨_, _, hs, hfin⟩ := c02_sees_result c _ hr t w o hmem
  have hrun : run c (init c) sched = run c (run c (init c) pre) (t :: post) := by rw [hsched, run_append]
  refine ⟨?_, ?_, ((c02_never_early c _ hr).2.2.2 t w o hmem).2⟩
  · rw [hrun]; exact (run_stable c _ hr.inv hs _).1
  · rw [hrun]; exact hfin _

example : (runEv c02Cfg (init c02Cfg) c02Sched).2.countP (isObsOf 3) = 1 := by decide

/-! ## no lost wake-up -/

/-- **No lost wake-up.**  In every reachable state in which the resolving agent (the winning call, or the destructor
if it resolved) has finished — `done`, or `dFin` for `~promise_with_default`, whose base destructor runs after its walk —
the slot is `ready`, every subscribed waiter has been released exactly once, and every
waiter agent either has had its result read exactly once or is itself still on its way to read it (and then it is
not blocked: its next step is enabled). -/
theorem c02_no_lost_wakeup (c : Cfg) (s : State) (hr : Reachable c s) (r : Nat) (hwin : s.winner = some r)
    (hdone : s.pc r = Pc.done ∨ s.pc r = Pc.dFin) :
    s.slot = Slot.ready ∧
    (∀ w, s.subscribed w = true → s.woken w = 1) ∧
    (∀ w, isW c w = true → s.observed w = 1 ∨ (s.observed w = 0 ∧ s.pc w ≠ Pc.done ∧ enabled c s w = true)) := by
  have h := hr.inv
  have hs : s.slot = Slot.ready := by
    rcases slot_cases s with hs | ⟨l, hl⟩
    · exact hs
    · have := (h.chain_phase l hl).2.2 r hwin
      rcases hdone with hdone | hdone <;> simp [hdone, isResolve] at this
  have hacts : actsOf (s.pc r) = [] := by rcases hdone with hdone | hdone <;> simp [hdone, actsOf]
  refine ⟨hs, ?_, ?_⟩
  · intro w hw
    have := h.readyW hs r hwin w
    simpa [hacts, hw] using this
  · intro w hw
    have hO := h.readyO hs r hwin w
    have hW := h.readyW hs r hwin w
    simp only [hacts, cntO_nil, cntW_nil, hw, if_true, Nat.add_zero] at hO hW
    by_cases ho : s.observed w = 1
    · exact Or.inl ho
    · right
      have hp : selfP (s.pc w) = 1 := by omega
      refine ⟨by omega, ?_, ?_⟩
      · intro hd; rw [hd] at hp; simp [selfP] at hp
      · unfold enabled
        split <;> simp_all [selfP]
        · -- a blocked waiter: it is subscribed, hence released, hence its flag is set
          rename_i hpc
          have hsub := h.parked w (Or.inr (Or.inl hpc))
          have hk := h.kindpc w
          rw [hpc] at hk
          simp only [pcOK] at hk
          rw [hsub] at hW
          exact (h.flag_iff w).2 ⟨hk.2, by simp at hW; omega⟩

/-- **Exactly once at quiescence.**  When all agents have finished (and there is a resolving party), every waiter agent
of the configuration has had its result read exactly once, every subscribed waiter was released exactly once, and
a waiter that did not subscribe (it found the future ready) was never "released". -/
theorem c02_exactly_once_quiescent (c : Cfg) (s : State) (hr : Reachable c s) (hwf : WF c) (hq : Quiescent c s) (w : Nat)
    (hw : isW c w = true) :
    s.observed w = 1 ∧ s.woken w = if s.subscribed w = true then 1 else 0 := by
  obtain ⟨t, ht, hk⟩ := hwf
  have hall := hq.all hr.inv
  obtain ⟨_, hs, r, hr'⟩ := quiescent_ready c s hr.inv t ht hk hall
  have hO := hr.inv.readyO hs r hr' w
  have hW := hr.inv.readyW hs r hr' w
  simp only [hall, actsOf, selfP, cntO_nil, cntW_nil, hw, if_true, Nat.add_zero] at hO hW
  exact ⟨hO, hW⟩

example : WF c02Cfg ∧ Quiescent c02Cfg (run c02Cfg (init c02Cfg) c02Sched) := by decide
example : (List.range 6).map (run c02Cfg (init c02Cfg) c02Sched).subscribed = [false, true, true, true, false, false] := by decide
/-- the hypothesis of `c02_no_lost_wakeup` in a non-quiescent state: the walker has finished, waiter 2 (blocking) not yet -/
example : (run c02Cfg (init c02Cfg) (c02Sched.take 14)).winner = some 0
    ∧ (run c02Cfg (init c02Cfg) (c02Sched.take 14)).pc 0 = Pc.done
    ∧ (run c02Cfg (init c02Cfg) (c02Sched.take 14)).pc 2 = Pc.wBlocked
    ∧ enabled c02Cfg (run c02Cfg (init c02Cfg) (c02Sched.take 14)) 2 = true := by decide

/-- the same with the destruction of a `promise_with_default` (default 42) as the resolving agent: after its walk (`dFin`,
the base destructor still to return) the callback waiter and the `has_value()` awaiter have been served inline, the
blocking waiter is released and can go on -/
example :
    let c : Cfg := { n := 4, kind := fun i => match i with
      | 0 => Kind.wait WK.cb | 1 => Kind.wait WK.sync | 2 => Kind.wait WK.hasv | _ => Kind.ddef 42 }
    let s := run c (init c) [0, 0, 1, 1, 1, 1, 2, 2, 2, 3, 3, 3, 3]
    s.winner = some 3 ∧ s.pc 3 = Pc.dFin ∧ s.observed 0 = 1 ∧ s.observed 2 = 1 ∧ s.woken 1 = 1
      ∧ s.pc 1 = Pc.wBlocked ∧ enabled c s 1 = true
      ∧ Ev.obs 0 (Obs.val 42) ∈ (runEv c (init c) [0, 0, 1, 1, 1, 1, 2, 2, 2, 3, 3, 3, 3]).2
      ∧ Ev.obs 2 (Obs.hv true) ∈ (runEv c (init c) [0, 0, 1, 1, 1, 1, 2, 2, 2, 3, 3, 3, 3]).2 := by decide

/-- **Not stuck.**  With a resolving party in the configuration, a reachable state in which no agent is enabled is a
state in which every agent has finished: there is no deadlock and no waiter is left suspended. -/
theorem c02_not_stuck (c : Cfg) (s : State) (hr : Reachable c s) (hwf : WF c)
    (hstuck : ∀ t, t < c.n → enabled c s t = false) : ∀ t, s.pc t = Pc.done := by
  obtain ⟨r, hr', hk⟩ := hwf
  apply not_stuck c s hr.inv r hr' hk
  intro t
  by_cases ht : t < c.n
  · exact hstuck t ht
  · have := hr.inv.range t (by omega)
    simp [enabled, this]

/-- the hypothesis is satisfiable: at the end of `c02Sched` nobody is enabled -/
example : ∀ t, t < c02Cfg.n → enabled c02Cfg (run c02Cfg (init c02Cfg) c02Sched) t = false := by decide

/-- without a resolving party a blocking waiter does hang (so `WF` cannot be dropped) -/
example : let c : Cfg := { n := 1, kind := fun _ => Kind.wait WK.sync }
    (run c (init c) [0, 0, 0]).pc 0 = Pc.wBlocked ∧ enabled c (run c (init c) [0, 0, 0]) 0 = false := by decide

/-! ## shape of the chain -/

/-- **Chain shape (before the exchange).**  While the slot holds a chain `l`: `l` has no duplicates; its members are
exactly the subscribed waiters; each of them is a waiter agent that has not been released and is parked — a blocking
waiter in `flag.wait`, any other kind returned from `await_suspend` / `subscribe`. -/
theorem c02_chain_shape (c : Cfg) (s : State) (hr : Reachable c s) (l : List Nat) (hl : s.slot = Slot.chain l) :
    l.Nodup ∧ (∀ x, x ∈ l ↔ s.subscribed x = true) ∧
    ∀ x, x ∈ l → isW c x = true ∧ s.woken x = 0 ∧
      (if wkOf c x = WK.sync then s.pc x = Pc.wWait ∨ s.pc x = Pc.wBlocked
       else s.pc x = Pc.wFinParked ∨ s.pc x = Pc.done) := by
  have h := hr.inv
  have hmem : ∀ x, x ∈ l ↔ s.subscribed x = true := by
    intro x
    have := h.chainW l hl x
    rw [← List.count_pos_iff]
    split at this <;> simp_all
  refine ⟨?_, hmem, ?_⟩
  · rw [List.nodup_iff_count]
    intro x; have := h.chainW l hl x; split at this <;> omega
  · intro x hx
    have hsub := (hmem x).1 hx
    obtain ⟨hw, hpc⟩ := h.sub x hsub
    have hfl := ((h.chain_phase l hl).2.1 x)
    refine ⟨hw, hfl.1, ?_⟩
    split
    · rename_i hk
      simp only [hk, if_true, hfl.2] at hpc
      rcases hpc with hpc | hpc | hpc
      · exact Or.inl hpc
      · exact Or.inr hpc
      · simp at hpc
    · rename_i hk
      simpa only [hk, if_false] using hpc

/-- **Chain shape (after the exchange).**  While the winner walks the detached chain with remaining actions `acts`: the
subscribed waiters not yet released are exactly the targets of the remaining `store` / `wake` actions, each occurring
once; `store` targets are blocking waiters, `wake` targets are not; and nobody can subscribe any more (the slot is `ready`). -/
theorem c02_walk_shape (c : Cfg) (s : State) (hr : Reachable c s) (t : Nat) (dt : Bool) (acts : List Act)
    (hpc : s.pc t = Pc.rRun dt acts) :
    s.slot = Slot.ready ∧
    (∀ x, (s.subscribed x = true ∧ s.woken x = 0) ↔ (Act.store x ∈ acts ∨ Act.wake x ∈ acts)) ∧
    (∀ x, cntW x acts ≤ 1) ∧
    (∀ x, Act.store x ∈ acts → wkOf c x = WK.sync) ∧ (∀ x, Act.wake x ∈ acts → wkOf c x ≠ WK.sync) := by
  have h := hr.inv
  obtain ⟨hs, hw⟩ := ready_of_run c t s h dt acts hpc
  have hW := fun x => h.readyW hs t hw x
  simp only [hpc, actsOf] at hW
  have hok := h.actsok t
  rw [hpc] at hok
  simp only [actsOf] at hok
  rw [actsOK_iff] at hok
  refine ⟨hs, ?_, ?_, ?_, ?_⟩
  · intro x
    rw [← cntW_pos_iff]
    have := hW x
    split at this
    · rename_i hsub; simp only [hsub, true_and]; omega
    · rename_i hsub
      constructor
      · intro h1; exact absurd h1.1 hsub
      · intro h1; omega
  · intro x; have := hW x; split at this <;> omega
  · intro x hx; exact hok _ hx
  · intro x hx; exact hok _ hx

example : (run c02Cfg (init c02Cfg) (c02Sched.take 8)).slot = Slot.chain [3, 2, 1] := by decide
example : (run c02Cfg (init c02Cfg) (c02Sched.take 11)).pc 0 = Pc.rRun false [Act.wake 3, Act.store 2, Act.wake 1] := by decide

/-! ## the resolver is a coroutine that awaits its suspend point: `bool won = co_await promise(...)`

`Cfg.aw t` marks such a resolver call.  Claim, `set`, the exchange and the walk are those of every call; the suspend point with
the collected coroutine handles is not dropped (its destructor resumes them in order) but awaited:
`suspend_point::await_suspend` pops the last handle for the symmetric transfer, queues the others in order and the awaiting
coroutine behind them.  `Cfg.aw` is a field of the configuration, so **every theorem of this file and of `Props/C01.lean`
covers awaiting resolvers** (they quantify over all `c : Cfg`); what is specific to them is the order below. -/

/-- the blocking waiters and callbacks of a detached chain `l`, handled while it is walked (chain order) -/
def inWalkActs (c : Cfg) (l : List Nat) : List Act :=
  (l.filter (fun x => wkOf c x = WK.sync ∨ wkOf c x = WK.cb)).map
    (fun x => if wkOf c x = WK.sync then Act.store x else Act.wake x)

/-- the coroutine-like waiters (coroutines, `has_value()` awaiters) of a detached chain `l`: their handles are collected -/
def collected (c : Cfg) (l : List Nat) : List Nat :=
  l.filter (fun x => ¬ (wkOf c x = WK.sync ∨ wkOf c x = WK.cb))

/-- **Order of release.**  The exchange of agent `t` on a chain `l` leaves it with: the blocking waiters and callbacks of `l` in
chain order, then the collected coroutines — in collection order when the suspend point is dropped, and when `t` awaits it
the *last* collected one first, followed by the others in collection order (`awaitOrder (r ++ [y]) = y :: r`). -/
theorem c02_await_order (c : Cfg) (s : State) (t : Nat) (dt : Bool) (l : List Nat)
    (hpc : s.pc t = Pc.rResolve dt) (hs : s.slot = Slot.chain l) :
    (astep c s t).1.pc t = Pc.rRun dt (inWalkActs c l ++
      (if c.aw t then awaitOrder (collected c l) else collected c l).map Act.wake)
    ∧ awaitOrder [] = []
    ∧ (∀ (r : List Nat) (y : Nat), awaitOrder (r ++ [y]) = y :: r) := by
  refine ⟨?_, rfl, awaitOrder_snoc⟩
  simp only [astep, hpc, hs, chainOf, setPc, upd_same, buildActs, resumeOrder, inWalkActs, collected]

/-- **Awaiting releases the same waiters.**  Whether agent `t` awaits its suspend point or drops it, the walk performs the same
actions on the same waiters, each as often — only the order of the coroutine resumptions differs. -/
theorem c02_await_same_waiters (c : Cfg) (t : Nat) (l : List Nat) :
    (buildActs c t l).Perm (buildActs { c with aw := fun _ => false } t l) := by
  unfold buildActs
  refine List.Perm.append (List.Perm.refl _) ?_
  have h1 : wkOf { c with aw := fun _ => false } = wkOf c := rfl
  rw [h1]
  have h2 : resumeOrder { c with aw := fun _ => false } t (l.filter (fun x => ¬ (wkOf c x = WK.sync ∨ wkOf c x = WK.cb)))
      = l.filter (fun x => ¬ (wkOf c x = WK.sync ∨ wkOf c x = WK.cb)) := by simp [resumeOrder]
  rw [h2]
  exact (resumeOrder_perm c t _).map _

/-- witness: two coroutines, a `has_value()` awaiter and a callback wait; the resolver (agent 4) is a coroutine awaiting its call -/
def c02AwCfg : Cfg :=
  { n := 5
    kind := fun i => match i with
      | 0 => Kind.wait WK.coro
      | 1 => Kind.wait WK.hasv
      | 2 => Kind.wait WK.coro
      | 3 => Kind.wait WK.cb
      | _ => Kind.res (RK.value 7)
    aw := fun i => i == 4 }
def c02AwSched : List Nat := [0, 0, 0, 1, 1, 1, 1, 2, 2, 2, 2, 3, 3, 3, 3, 4, 4, 4]

-- the chain is [3, 2, 1, 0]; the callback 3 is invoked while walking, the collected handles are 2, 1, 0: resumed 0, 2, 1
example : (run c02AwCfg (init c02AwCfg) (c02AwSched.take 17)).pc 4
    = Pc.rRun false [Act.wake 3, Act.wake 0, Act.wake 2, Act.wake 1] := by decide
example : (runEv c02AwCfg (init c02AwCfg) c02AwSched).2.drop 17
    = [Ev.obs 3 (Obs.val 7), Ev.obs 0 (Obs.val 7), Ev.obs 2 (Obs.val 7), Ev.obs 1 (Obs.hv true), Ev.ret 4 true, Ev.fin 4] := by decide
example : Quiescent c02AwCfg (run c02AwCfg (init c02AwCfg) c02AwSched)
    ∧ (List.range 5).map (run c02AwCfg (init c02AwCfg) c02AwSched).observed = [1, 1, 1, 1, 0] := by decide
-- the same run with the suspend point dropped: 2, 1, 0
example : (run { c02AwCfg with aw := fun _ => false } (init c02AwCfg) (c02AwSched.take 17)).pc 4
    = Pc.rRun false [Act.wake 3, Act.wake 2, Act.wake 1, Act.wake 0] := by decide

end Cocls.Chain

/-!
# C02, pointer level — the list abstraction of the awaiter chain is a theorem

Model: `ChainPtr.lean` — the same agents, steps and events as `Chain.lean`, but the chain is what `awaiter.h` has: the atomic slot
(`head`), one intrusive `_next` field per awaiter node (`next`), the walker's local `chain` pointer and the handles collected in its
suspend point; ghost `live` (the node has not died: a blocking waiter's stack node dies when its thread passes `flag.wait`, a
coroutine's / callback's node when it is resumed / invoked), ghost `log` (every plain access to a node field with snapshots of the
node's liveness and publication).  `abs : ChainPtr.State → Chain.State` reads the lists off the pointers.  All statements quantify over
every configuration and every schedule (`PReachable c s` = `∃ sched, s = prun c (init c) sched`).
-/
namespace Cocls.ChainPtr
open Cocls.Chain (Outcome RK WK Kind Seen Obs Ev Cfg upd wkOf Slot Act c02Cfg c02Sched)

/-! ## the refinement -/

/-- **The pointer-level model refines the list-level model** (whole runs).  For every configuration and every schedule, the
list-level state denoted by the pointer-level run — the chain read off the `_next` fields, the walker's remaining work read off
its local pointer — *is* the list-level run, and the two runs emit the same trace of events.  Every list-level theorem of
C01 / C02 therefore holds of the pointer-level run. -/
theorem c02_ptr_refines_list (c : Cfg) (sched : List Nat) :
    abs c (prun c (init c) sched) = Chain.run c (Chain.init c) sched
      ∧ (prunEv c (init c) sched).2 = (Chain.runEv c (Chain.init c) sched).2 :=
  ⟨sim_run c sched, sim_runEv c sched⟩

/-- **One-step refinement.**  From every reachable pointer-level state, for every agent `t`: the abstraction commutes with the
step, the step emits the same events as the list-level step, and `t` is enabled at one level iff it is at the other. -/
theorem c02_ptr_step_refines (c : Cfg) (s : State) (hr : PReachable c s) (t : Nat) :
    abs c (pstep c s t).1 = (Chain.astep c (abs c s) t).1
      ∧ (pstep c s t).2 = (Chain.astep c (abs c s) t).2
      ∧ enabled c s t = Chain.enabled c (abs c s) t :=
  ⟨(sim_step c s hr.inv t).1, (sim_step c s hr.inv t).2, enabled_eq c s t⟩

/-- the witness run of the list-level theorems (`c02Cfg`: a value resolver, a coroutine, a blocking thread, a callback, a
`has_value()` awaiter, the destructor; `c02Sched`: three subscriptions with two CAS retries, a late waiter that finds the
future ready, the walk) at pointer level: after the three pushes the slot heads `w3 → w2 → w1 → null`, which `abs` reads as the
list `[3, 2, 1]`; the exchange hands the head to the walker; 21 plain accesses to node fields are logged -/
example : (prun c02Cfg (init c02Cfg) (c02Sched.take 8)).head = Seen.node 3
    ∧ (prun c02Cfg (init c02Cfg) (c02Sched.take 8)).next 3 = Seen.node 2
    ∧ (prun c02Cfg (init c02Cfg) (c02Sched.take 8)).next 2 = Seen.node 1
    ∧ (prun c02Cfg (init c02Cfg) (c02Sched.take 8)).next 1 = Seen.null
    ∧ (abs c02Cfg (prun c02Cfg (init c02Cfg) (c02Sched.take 8))).slot = Slot.chain [3, 2, 1]
    ∧ (prun c02Cfg (init c02Cfg) (c02Sched.take 11)).pc 0 = Pc.rWalk false (Seen.node 3) [] none
    ∧ (prun c02Cfg (init c02Cfg) (c02Sched.take 11)).head = Seen.ready
    ∧ (prun c02Cfg (init c02Cfg) c02Sched).log.length = 21 := by decide
/-- a failed CAS stored the observed head into the subscriber's own `_next`: the expected value of the retry -/
example : (prun c02Cfg (init c02Cfg) (c02Sched.take 4)).pc 2 = Pc.wCas false
    ∧ (prun c02Cfg (init c02Cfg) (c02Sched.take 4)).next 2 = Seen.node 1
    ∧ (abs c02Cfg (prun c02Cfg (init c02Cfg) (c02Sched.take 4))).pc 2 = Chain.Pc.wCas (Seen.node 1) := by decide
/-- the walker in the middle of the chain: callback 3 served, the blocking waiter 2 released by the `flag.store` that ended the
step, local pointer at `w1`, all visited `_next` fields cleared -/
example : (prun c02Cfg (init c02Cfg) (c02Sched.take 13)).pc 0 = Pc.rWalk false (Seen.node 1) [] none
    ∧ (prun c02Cfg (init c02Cfg) (c02Sched.take 13)).next 3 = Seen.null
    ∧ (prun c02Cfg (init c02Cfg) (c02Sched.take 13)).next 2 = Seen.null
    ∧ (prun c02Cfg (init c02Cfg) (c02Sched.take 13)).live 3 = false
    ∧ (prun c02Cfg (init c02Cfg) (c02Sched.take 13)).live 2 = true
    ∧ (prun c02Cfg (init c02Cfg) (c02Sched.take 13)).live 1 = true := by decide

/-- a resolution without a value (`drop`): `value()` inside the callback and inside the resumed coroutine performs the `pending()`
load — a step boundary in the middle of `resume()`; the late refused waiter 3 clears its `_next` in the segment after the CAS -/
def c02PtrCfgDrop : Cfg :=
  { n := 5
    kind := fun i => match i with
      | 0 => Kind.res RK.drop
      | 1 => Kind.wait WK.cb
      | 2 => Kind.wait WK.coro
      | 3 => Kind.wait WK.coro
      | _ => Kind.dtor }
def c02PtrSchedDrop : List Nat := [1, 1, 2, 2, 2, 3, 0, 0, 3, 0, 3, 0, 0, 3, 1, 2, 4, 4]


example : (prun c02PtrCfgDrop (init c02PtrCfgDrop) (c02PtrSchedDrop.take 10)).pc 0 = Pc.rWalk false Seen.null [2] (some (1, Seen.ready))
    ∧ (prun c02PtrCfgDrop (init c02PtrCfgDrop) (c02PtrSchedDrop.take 10)).pc 3 = Pc.wRead true
    ∧ (prun c02PtrCfgDrop (init c02PtrCfgDrop) (c02PtrSchedDrop.take 10)).next 3 = Seen.ready
    ∧ (prun c02PtrCfgDrop (init c02PtrCfgDrop) (c02PtrSchedDrop.take 11)).next 3 = Seen.null
    ∧ (abs c02PtrCfgDrop (prun c02PtrCfgDrop (init c02PtrCfgDrop) (c02PtrSchedDrop.take 10))).pc 0
        = Chain.Pc.rRun false [Act.obsAfter 1 Seen.ready, Act.wake 2]
    ∧ (prun c02PtrCfgDrop (init c02PtrCfgDrop) (c02PtrSchedDrop.take 12)).pc 0 = Pc.rWalk false Seen.null [] (some (2, Seen.ready))
    ∧ (∀ t, t < 5 → (prun c02PtrCfgDrop (init c02PtrCfgDrop) c02PtrSchedDrop).pc t = Pc.done)
    ∧ (prunEv c02PtrCfgDrop (init c02PtrCfgDrop) c02PtrSchedDrop).2
        = (Chain.runEv c02PtrCfgDrop (Chain.init c02PtrCfgDrop) c02PtrSchedDrop).2 := by
  decide

/-! ## node-lifetime safety -/

/-- **The walk is safe: no access to a dead node, ever.**  In every reachable state, every plain access to a field of an awaiter
node that has been performed (`log`), and every access that the next step of *any* agent performs, touched a node that was
live at the moment of the access — where a blocking waiter's stack node dies when its thread passes `flag.wait`, and a
coroutine's / callback's node dies when it is resumed / invoked.  In particular the walker of `resume_chain_lk` reads
`y->_next`, clears it and reads the resumption target *before* `y->resume()`, and never touches `y` afterwards. -/
theorem c02_walk_safe (c : Cfg) (s : State) (hr : PReachable c s) :
    (∀ a, a ∈ s.log → a.live = true) ∧ (∀ t a, a ∈ (pstep c s t).1.log → a.live = true) := by
  refine ⟨fun a ha => (log_ok hr a ha).live, ?_⟩
  intro t a ha
  rcases step_access_ok c s hr.inv t a ha with h | h
  · exact (log_ok hr a h).live
  · exact h.live

/-- what the walker still holds is intact: while the walker stands at local pointer `cur`, the nodes reachable from `cur` form a
chain `l` without repetition, each node of it belongs to a subscribed waiter that has not been released and is live, and the
walker itself is none of them, nor is any of them among the handles already collected -/
theorem c02_walk_nodes_live (c : Cfg) (s : State) (hr : PReachable c s) (t : Nat) (dt : Bool) (cur : Ptr) (ret : List Nat)
    (pend : Option (Nat × Seen)) (hpc : s.pc t = Pc.rWalk dt cur ret pend) :
    s.head = Seen.ready ∧ ∃ l, ChainIs s.next cur l ∧ l.Nodup ∧
      ∀ x, x ∈ l → s.subscribed x = true ∧ s.woken x = 0 ∧ s.live x = true ∧ x ≠ t ∧ x ∉ ret := by
  have h := hr.inv
  obtain ⟨hh, _, hc, hcnt⟩ := h.walk_facts hpc
  obtain ⟨_, hn⟩ := h.walk_nodes hpc
  refine ⟨hh, _, hc, chainIs_nodup hc, ?_⟩
  intro x hx
  obtain ⟨h1, h2, h3⟩ := hn x hx
  refine ⟨h1, h2, h.str.alive x h2, h3, ?_⟩
  intro hr'
  have := hcnt x
  have p1 : 0 < (follow s.next c.n cur).count x := List.count_pos_iff.2 hx
  have p2 : 0 < ret.count x := List.count_pos_iff.2 hr'
  split at this <;> omega

example : (prun c02Cfg (init c02Cfg) (c02Sched.take 13)).pc 0 = Pc.rWalk false (Seen.node 1) [] none
    ∧ ChainIs (prun c02Cfg (init c02Cfg) (c02Sched.take 13)).next (Seen.node 1) [1] :=
  ⟨by decide, ChainIs.cons (by rw [show (prun c02Cfg (init c02Cfg) (c02Sched.take 13)).next 1 = Seen.null by decide]; exact ChainIs.nil)⟩

/-- **No touch after publish.**  In every reachable state, every logged access obeys the ownership discipline: a waiter accesses
its own node only while the node is unpublished (never after its successful CAS — from then on another thread may resume it
and the node may be gone); any other agent that accesses a node is not a waiter (it is the walker, after the exchange), and the
node it accesses is a published one.  Hence owner and walker never access the same node concurrently. -/
theorem c02_no_touch_after_publish (c : Cfg) (s : State) (hr : PReachable c s) (a : Access) (ha : a ∈ s.log) :
    (a.agent = a.node → a.pub = false) ∧
    (a.agent ≠ a.node → a.pub = true ∧ Chain.isW c a.agent = false ∧ Chain.isW c a.node = true) :=
  ⟨(log_ok hr a ha).own, (log_ok hr a ha).other⟩

/-- the same for the accesses of the next step of any agent -/
theorem c02_no_touch_after_publish_step (c : Cfg) (s : State) (hr : PReachable c s) (t : Nat) (a : Access)
    (ha : a ∈ (pstep c s t).1.log) :
    (a.agent = a.node → a.pub = false) ∧
    (a.agent ≠ a.node → a.pub = true ∧ Chain.isW c a.agent = false ∧ Chain.isW c a.node = true) := by
  rcases step_access_ok c s hr.inv t a ha with h | h
  · exact c02_no_touch_after_publish c s hr a h
  · exact ⟨h.own, h.other⟩

/-- the witness run has accesses of both kinds (12 by subscribers to their own unpublished nodes, 9 by the walker to published
nodes), all to live nodes; and nodes do die in it (the callback's when invoked, the coroutine's when resumed, the blocking
waiter's when it passes the wait) -/
example : ((prun c02Cfg (init c02Cfg) c02Sched).log.filter (fun a => a.agent == a.node)).length = 12
    ∧ ((prun c02Cfg (init c02Cfg) c02Sched).log.filter (fun a => a.agent != a.node)).length = 9
    ∧ (prun c02Cfg (init c02Cfg) c02Sched).log.all (fun a => a.live && (a.pub == (a.agent != a.node))) = true
    ∧ (List.range 6).map (prun c02Cfg (init c02Cfg) c02Sched).live = [true, false, false, false, true, true] := by decide

/-! ### as-is negative witness: the classic broken walker

`auto y = chain; ret << y->resume(); chain = y->_next; y->_next = nullptr;` (`AsIs.pstepAsIs`: the same model with this loop
body).  A resolver, a blocking waiter (1) and a callback (2): the callback is invoked and its node read afterwards within one
step; the blocking waiter is released by the `flag.store`, passes its wait and returns, and the walker's next step reads and
writes `_next` of its dead stack node. -/

def c02AsIsCfg : Cfg :=
  { n := 3
    kind := fun i => match i with
      | 0 => Kind.res (RK.value 7)
      | 1 => Kind.wait WK.sync
      | _ => Kind.wait WK.cb }
def c02AsIsSched : List Nat := [1, 1, 1, 2, 2, 2, 0, 0, 0, 1, 0, 1, 2]

/-- **The safety theorem is not vacuous**: on `c02AsIsSched` the resume-before-read walker accesses dead nodes — the `_next` of
the callback's node after the callback ran, and the `_next` of the blocking waiter's stack node after that thread passed its
wait (read and write) -/
theorem c02_walk_asis_witness :
    (AsIs.prunAsIs c02AsIsCfg ⟨init c02AsIsCfg, none⟩ c02AsIsSched).s.log.any
        (fun a => a.agent == 0 && a.node == 2 && a.field == Field.next && !a.live) = true
    ∧ (AsIs.prunAsIs c02AsIsCfg ⟨init c02AsIsCfg, none⟩ c02AsIsSched).s.log.any
        (fun a => a.agent == 0 && a.node == 1 && a.field == Field.next && a.write && !a.live) = true
    ∧ (AsIs.prunAsIs c02AsIsCfg ⟨init c02AsIsCfg, none⟩ c02AsIsSched).s.pc 0 = Pc.done := by decide

/-- the same configuration and schedule with the walker as coded: every access is to a live node -/
example : (prun c02AsIsCfg (init c02AsIsCfg) c02AsIsSched).log.all (fun a => a.live) = true
    ∧ (prun c02AsIsCfg (init c02AsIsCfg) c02AsIsSched).log.length = 13
    ∧ (prun c02AsIsCfg (init c02AsIsCfg) c02AsIsSched).pc 0 = Pc.done := by decide

/-! ## transport of the list-level theorems -/

/-- **The list-level theorems hold of the pointer-level run** (transport through `abs`; three of them spelled out).  In every
reachable pointer-level state every waiter has been released at most once and only after its CAS succeeded, the result has been
read at most once per waiter (`c02_woken_at_most_once`, `c02_observed_at_most_once`); and at quiescence — with a resolving party
in the configuration — every waiter agent has had its result read exactly once, every published waiter was released exactly
once (`c02_exactly_once_quiescent`). -/
theorem c02_ptr_properties_transfer (c : Cfg) (s : State) (hr : PReachable c s) (w : Nat) :
    s.woken w ≤ 1 ∧ (1 ≤ s.woken w → s.subscribed w = true) ∧ s.observed w ≤ 1 ∧
    (Chain.WF c → (∀ t, t < c.n → s.pc t = Pc.done) → Chain.isW c w = true →
      s.observed w = 1 ∧ s.woken w = if s.subscribed w = true then 1 else 0) := by
  have hl := hr.abs
  obtain ⟨h1, h2⟩ := Chain.c02_woken_at_most_once c (abs c s) hl w
  refine ⟨h1, h2, (Chain.c02_observed_at_most_once c (abs c s) hl w).1, ?_⟩
  intro hwf hq hw
  have hq' : Chain.Quiescent c (abs c s) := by
    intro t ht
    rw [abs_pc, hq t ht]; rfl
  exact Chain.c02_exactly_once_quiescent c (abs c s) hl hwf hq' w hw

/-- **Shape of the pointer chain before the exchange** (`c02_chain_shape` transported, plus what only the pointer level can say):
while the slot is not `ready`, following `_next` from the head reaches null after visiting a list `l` without repetition; its
nodes are exactly the published waiters; each of them is unreleased, live and parked; and nobody walks. -/
theorem c02_ptr_chain_shape (c : Cfg) (s : State) (hr : PReachable c s) (hh : s.head ≠ Seen.ready) :
    ∃ l, ChainIs s.next s.head l ∧ l.Nodup ∧ (∀ x, x ∈ l ↔ s.subscribed x = true) ∧
      (∀ x, x ∈ l → Chain.isW c x = true ∧ s.woken x = 0 ∧ s.live x = true ∧
        (if wkOf c x = WK.sync then s.pc x = Pc.wWait ∨ s.pc x = Pc.wBlocked else s.pc x = Pc.wFinParked ∨ s.pc x = Pc.done)) ∧
      ∀ t dt cur ret pend, s.pc t ≠ Pc.rWalk dt cur ret pend := by
  have h := hr.inv
  obtain ⟨hc, _, hwk, hnw⟩ := h.chain_facts hh
  obtain ⟨l1, l2, l3⟩ := Chain.c02_chain_shape c (abs c s) hr.abs _ (absSlot_chain c s hh)
  refine ⟨_, hc, l1, l2, ?_, hnw⟩
  intro x hx
  obtain ⟨a1, a2, a3⟩ := l3 x hx
  refine ⟨a1, a2, h.str.alive x (hwk x), ?_⟩
  rw [abs_pc] at a3
  split at a3
  · rename_i hk; rw [if_pos hk]
    cases hp : s.pc x <;> rw [hp] at a3 <;> simp [absPc] at a3 ⊢
  · rename_i hk; rw [if_neg hk]
    cases hp : s.pc x <;> rw [hp] at a3 <;> simp [absPc] at a3 ⊢

example : Chain.WF c02Cfg ∧ (∀ t, t < c02Cfg.n → (prun c02Cfg (init c02Cfg) c02Sched).pc t = Pc.done)
    ∧ (List.range 6).map (prun c02Cfg (init c02Cfg) c02Sched).observed = [0, 1, 1, 1, 1, 0]
    ∧ (List.range 6).map (prun c02Cfg (init c02Cfg) c02Sched).woken = [0, 1, 1, 1, 0, 0] := by decide
example : (prun c02Cfg (init c02Cfg) (c02Sched.take 9)).head ≠ Seen.ready
    ∧ (List.range 6).map (prun c02Cfg (init c02Cfg) (c02Sched.take 9)).subscribed = [false, true, true, true, false, false]
    ∧ (prun c02Cfg (init c02Cfg) (c02Sched.take 9)).pc 2 = Pc.wBlocked := by decide

end Cocls.ChainPtr
