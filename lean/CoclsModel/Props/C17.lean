import CoclsModel.SharedFutureTrace
import CoclsModel.SharedFutureApiProofs
/-!
# C17 — shared_future: one result for all copies; state lives exactly as long as needed

Model: `CoclsModel/SharedFuture.lean` (micro-steps: one step of a thread = plain code up to and including its next atomic
operation; copying / dropping a handle is an atomic reference-count step).  A configuration `c : Cfg` fixes the
construction path (`Mode`: constructor from a promise function, constructor from a future-returning function, late
initialisation through `get_promise()`, `init_if_needed()` + `operator<<`, ready-made factories), ANY number `c.n` of
threads, ANY program of copy / drop / peek / await (coroutine, blocking, callback) per thread, and the resolver kind
(value, exception, drop, promise destroyed).  Every theorem quantifies over all configurations of the repaired code
(`Fixed c`) and over ALL schedules `sched : List Nat` (interleavings at atomic-operation granularity), by induction.

`runEv c sched` is the run from the initial state together with the printed events; `run c (init c) sched` its state.
-/
namespace Cocls.SharedFuture

/-- **One result for all copies.** Whatever the schedule, every observation of the result — by the await of any thread
through its own copy, in any style (coroutine, blocking `wait()`, callback) or by `ready()`+`value()` — is the single
result fixed by the configuration (`resultObs`: the resolver's value / exception, `canceled` for a dropped or destroyed
promise, the factory's value). -/
theorem c17_same_result (c : Cfg) (hf : Fixed c) (hn : 0 < c.n) (sched : List Nat) (x : Nat) (k : WK) (o : Obs)
    (h : Ev.obs x k o ∈ (runEv c sched).2) : o = resultObs c :=
  obsGood_runEv hf hn sched x k o h

/-- **Never more than once.** In every reachable state each awaiter has been woken at most once and has observed the
result at most once, and the number of observation events printed for it is exactly its counter. -/
theorem c17_awaiters_at_most_once (c : Cfg) (hf : Fixed c) (hn : 0 < c.n) (sched : List Nat) (x : Nat) :
    (run c (init c) sched).woken x ≤ 1 ∧ (run c (init c) sched).observed x ≤ 1 ∧
    (runEv c sched).2.countP (isAwObs x) = (run c (init c) sched).observed x := by
  have h := inv_run hf sched _ (inv_init c hf hn)
  refine ⟨?_, ?_, ?_⟩
  · have := h.wake x
    have h1 : (if (run c (init c) sched).subscribed x = true then 1 else 0) ≤ 1 := by split <;> omega
    omega
  · have := h.obsv x
    have h1 : (if (run c (init c) sched).awaited x = true then 1 else 0) ≤ 1 := by split <;> omega
    omega
  · have := (acc_runEv c sched).1 x
    rw [runEv_fst] at this
    simpa [init] using this

/-- **Exactly once.** When every thread has finished: every thread that awaited (in whatever style, subscribed or
refused because the result was already there) observed the result exactly once, every subscribed awaiter was woken
exactly once, and exactly that many observation events were printed. -/
theorem c17_awaiters_once (c : Cfg) (hf : Fixed c) (hwf : WF c) (sched : List Nat)
    (hq : Quiescent c (run c (init c) sched)) (x : Nat) :
    (run c (init c) sched).observed x = (if (run c (init c) sched).awaited x then 1 else 0) ∧
    (run c (init c) sched).woken x = (if (run c (init c) sched).subscribed x then 1 else 0) ∧
    (runEv c sched).2.countP (isAwObs x) = (if (run c (init c) sched).awaited x then 1 else 0) := by
  have h := inv_run hf sched _ (inv_init c hf hwf.1)
  have hfacts := quiescent_facts hq h hwf.hasResolver
  refine ⟨hfacts.1 x, hfacts.2.1 x, ?_⟩
  rw [(c17_awaiters_at_most_once c hf hwf.1 sched x).2.2]
  exact hfacts.1 x

/-- **No lost wake-up.** A reachable state in which no thread can take a step is quiescent: no awaiter (in particular
no thread blocked in `wait()`) is left behind, whatever the order of subscription, resolution and handle drops. -/
theorem c17_no_lost_wakeup (c : Cfg) (hf : Fixed c) (hwf : WF c) (sched : List Nat)
    (hst : ∀ t, enabled (run c (init c) sched) t = false) : Quiescent c (run c (init c) sched) :=
  not_stuck (inv_run hf sched _ (inv_init c hf hwf.1)) hwf hst

/-- **Alive until resolved.** While the future is pending the shared state has not been freed and at least one
reference exists — whatever the handle threads did (in particular after every one of them dropped every handle). -/
theorem c17_alive_until_resolved (c : Cfg) (hf : Fixed c) (hn : 0 < c.n) (sched : List Nat)
    (hp : (run c (init c) sched).slot ≠ Slot.ready) :
    (run c (init c) sched).freed = 0 ∧ 1 ≤ (run c (init c) sched).refs :=
  inv_alive_pending (inv_run hf sched _ (inv_init c hf hn)) hp

/-- **Freed at most once, by the step that drops the last reference.** `freed ≤ 1` in every reachable state, the state
is freed exactly when no reference is left, the reference count is the number of owners (handles held by threads,
handles owned by waiting coroutine frames / callback contexts, the tracer), and the printed `freed` events are exactly
the counter. -/
theorem c17_freed_at_most_once (c : Cfg) (hf : Fixed c) (hn : 0 < c.n) (sched : List Nat) :
    (run c (init c) sched).freed ≤ 1 ∧
    ((run c (init c) sched).freed = 1 ↔ (run c (init c) sched).refs = 0) ∧
    (run c (init c) sched).refs = (run c (init c) sched).holders.length ∧
    (runEv c sched).2.countP isFreedEv = (run c (init c) sched).freed := by
  have h := inv_run hf sched _ (inv_init c hf hn)
  refine ⟨inv_freed_le_one h, ?_, h.refsLen, ?_⟩
  · rw [h.freedIff]; split <;> simp [*]
  · have := (acc_runEv c sched).2
    rw [runEv_fst] at this
    simpa [init] using this

/-- **No leak.** When every thread has finished, the state has been freed exactly once (and exactly one `freed` event
was printed): neither the tracer nor a forgotten context keeps it. -/
theorem c17_freed_once (c : Cfg) (hf : Fixed c) (hwf : WF c) (sched : List Nat)
    (hq : Quiescent c (run c (init c) sched)) :
    (run c (init c) sched).freed = 1 ∧ (run c (init c) sched).refs = 0 ∧ (runEv c sched).2.countP isFreedEv = 1 := by
  have h := inv_run hf sched _ (inv_init c hf hwf.1)
  have := quiescent_freed hq h hwf.hasResolver
  exact ⟨this.1, this.2, by rw [(c17_freed_at_most_once c hf hwf.1 sched).2.2.2, this.1]⟩

/-- **No use after free.** `uaf` counts the accesses to the shared state or its control block (every operation on the
awaiter slot, `set`, reading the result, the tracer's fields, every reference-count operation) made after the state was
freed: it is 0 in every reachable state. -/
theorem c17_no_use_after_free (c : Cfg) (hf : Fixed c) (hn : 0 < c.n) (sched : List Nat) :
    (run c (init c) sched).uaf = 0 :=
  (inv_run hf sched _ (inv_init c hf hn)).noUaf

/-- **The tracer is subscribed first, hence released last.** Whenever the tracer is in the chain it is the bottom
element; once the object is constructed and while it is pending, the tracer IS in the chain (exactly once) — so the
walker (the chain is LIFO) visits it after every other node. -/
theorem c17_tracer_last (c : Cfg) (hf : Fixed c) (hn : 0 < c.n) (sched : List Nat) :
    (Node.tracer ∈ chainOf (run c (init c) sched).slot → (chainOf (run c (init c) sched).slot).getLast? = some Node.tracer) ∧
    ((run c (init c) sched).slot ≠ Slot.ready → (run c (init c) sched).constructed = true →
      Node.tracer ∈ chainOf (run c (init c) sched).slot ∧ (chainOf (run c (init c) sched).slot).count Node.tracer = 1) := by
  have h := inv_run hf sched _ (inv_init c hf hn)
  exact ⟨h.tracerLast, fun hp hc => ⟨(inv_tracer_in_chain h hp hc).1, (inv_tracer_in_chain h hp hc).2.2⟩⟩

/-- **Late initialisation.** A default-constructed object initialised through `get_promise()` (mode `gp`; mode `ip`:
`init_if_needed()` first and the other threads' copies taken BEFORE `get_promise()` — they share the state that
`get_promise()` then initialises, so `c17_same_result` / `c17_awaiters_once` speak about those copies; mode `ls`:
`init_if_needed()` + `operator<<`) never crashes, and once the construction is complete the promise has been handed
out and, while pending, the tracer holds the extra reference — i.e. it behaves like any other shared_future (all
theorems above cover these modes).  `Pre` (contract of future.h, asserted by the code): a state is awaited only after
`get_promise()` has initialised it (the handle threads wait for the end of the construction), and `get_promise()` is
called once, on an object without a state or with a fresh `init_if_needed()` state (not on a pending or resolved one). -/
theorem c17_late_init (c : Cfg) (hf : Fixed c) (hn : 0 < c.n) (hm : c.mode = Mode.gp ∨ c.mode = Mode.ip ∨ c.mode = Mode.ls)
    (sched : List Nat) :
    (run c (init c) sched).crashed = false ∧
    ((run c (init c) sched).constructed = true →
      (run c (init c) sched).published = true ∧
      ((run c (init c) sched).slot ≠ Slot.ready → (run c (init c) sched).tracerRef = true)) := by
  have h := inv_run hf sched _ (inv_init c hf hn)
  have hpm : c.mode.hasPromise = true := by rcases hm with e | e | e <;> (rw [e]; rfl)
  refine ⟨h.noCrash, fun hc => ⟨?_, fun hp => ?_⟩⟩
  · cases hq : (run c (init c) sched).published
    · have h1 := h.pubCtor hq hpm
      cases hq0 : (run c (init c) sched).pc 0 with
      | cRun is => have := (h.aCtor 0 is hq0).2.1; rw [hc] at this; cases this
      | _ => simp [hq0, isCtor] at h1
    · rfl
  · rcases h.alive hp with h1 | h1
    · exact h1
    · cases hq0 : (run c (init c) sched).pc 0 with
      | cRun is => have := (h.aCtor 0 is hq0).2.1; rw [hc] at this; cases this
      | _ => simp [hq0, isCtor] at h1

/-! ## Non-vacuity: concrete reachable states that meet the hypotheses -/

/-- creator awaits in a coroutine, a handle thread blocks in `wait()` and drops, a third uses a callback; value 5 -/
def exCfg : Cfg :=
  { n := 4, mode := Mode.pf, rtid := 3, rk := RK.value 5,
    prog := fun t => if t = 0 then [Act.await WK.coro] else if t = 1 then [Act.copy, Act.await WK.sync, Act.drop]
                     else if t = 2 then [Act.await WK.cb] else [] }

def exSched : List Nat := [0, 0, 0, 0, 0, 0, 0, 1, 1, 1, 1, 2, 2, 2, 2, 3, 3, 3, 3, 1, 1, 3, 3]

example : Fixed exCfg ∧ WF exCfg := ⟨⟨rfl, rfl⟩, by decide, by decide⟩
example : (run exCfg (init exCfg) exSched).freed = 1 ∧ (run exCfg (init exCfg) exSched).refs = 0 := by decide
example : ((List.range 4).all fun t => (run exCfg (init exCfg) exSched).pc t == Pc.done) = true := by decide
example : ((List.range 3).all fun t => (run exCfg (init exCfg) exSched).observed t == 1) = true := by decide
example : (runEv exCfg exSched).2.countP isObsEv = 3 ∧ (runEv exCfg exSched).2.countP isFreedEv = 1 := by decide
/-- every handle dropped while pending: the state is still alive (the tracer keeps it), and freed by the resolver -/
def exDropCfg : Cfg := { n := 3, mode := Mode.ff, rtid := 2, rk := RK.exc 7, prog := fun _ => [Act.drop] }
example : (run exDropCfg (init exDropCfg) [0, 0, 0, 0, 0, 1]).slot ≠ Slot.ready ∧
    (run exDropCfg (init exDropCfg) [0, 0, 0, 0, 0, 1]).refs = 1 ∧ (run exDropCfg (init exDropCfg) [0, 0, 0, 0, 0, 1]).freed = 0 ∧
    (run exDropCfg (init exDropCfg) [0, 0, 0, 0, 0, 1]).held 0 = 0 ∧ (run exDropCfg (init exDropCfg) [0, 0, 0, 0, 0, 1]).held 1 = 0 := by decide
example : (run exDropCfg (init exDropCfg) [0, 0, 0, 0, 0, 1, 2, 2, 2]).freed = 1 := by decide
/-- late initialisation through `get_promise()` -/
def exGpCfg : Cfg := { n := 2, mode := Mode.gp, rtid := 1, rk := RK.value 1, prog := fun _ => [Act.await WK.sync] }
example : (run exGpCfg (init exGpCfg) [0, 0, 0, 0, 0]).constructed = true ∧ (run exGpCfg (init exGpCfg) [0, 0, 0, 0, 0]).tracerRef = true := by decide

/-- copies taken between `init_if_needed()` and `get_promise()` observe the result of that promise -/
def exIpCfg : Cfg := { n := 3, mode := Mode.ip, rtid := 2, rk := RK.value 9, prog := fun t => if t = 1 then [Act.await WK.sync] else [] }
example : (run exIpCfg (init exIpCfg) [0]).refs = 2 ∧ (run exIpCfg (init exIpCfg) [0]).held 1 = 1 ∧
    (run exIpCfg (init exIpCfg) [0]).constructed = false := by decide
example : (runEv exIpCfg [0, 0, 0, 0, 0, 1, 1, 1, 1, 2, 2, 2, 1, 1, 2]).2.filter isObsEv = [Ev.obs 1 WK.sync (Obs.val 9)] ∧
    (runEv exIpCfg [0, 0, 0, 0, 0, 1, 1, 1, 1, 2, 2, 2, 1, 1, 2]).1.freed = 1 := by decide

/-! ## The two defects of the pinned commit, as-is variants of the step, certified on concrete runs -/

/-- `init_if_needed()` as pinned (`if (_ptr)` instead of `if (!_ptr)`): `get_promise()` on a default-constructed object
dereferences null — the first step of the creator crashes (replayed on the real headers: corpus/c17_late_init.txt) -/
theorem c17_asis_late_init_crashes :
    (run { exGpCfg with asIsInit := true } (init { exGpCfg with asIsInit := true }) [0]).crashed = true := by decide

/-- `operator<<` as pinned (tracer not wired): with every handle dropped while pending the state is freed while the
promise still points at it, and the resolution then writes into freed memory (corpus/c17_lshift_tracer.txt) -/
def exLsAsIs : Cfg := { n := 2, mode := Mode.ls, rtid := 1, rk := RK.value 3, prog := fun _ => [Act.drop], asIsLshift := true }

theorem c17_asis_lshift_freed_while_pending :
    (run exLsAsIs (init exLsAsIs) [0, 0, 0]).freed = 1 ∧ (run exLsAsIs (init exLsAsIs) [0, 0, 0]).slot ≠ Slot.ready ∧
    (run exLsAsIs (init exLsAsIs) [0, 0, 0, 1, 1]).uaf = 1 := by decide

end Cocls.SharedFuture

namespace Cocls.SharedFutureApi

/-! # C17 at the level of whole calls: every access spelling, any number of handles and states, the stored value's state

Model: `CoclsModel/SharedFutureApi.lean` — a history is ANY list of calls `ops : List Op` of the public interface
(construction paths, copy / copy-assignment / destruction of handles, `init_if_needed()`, `get_promise()`, `operator<<`,
the promise used in any of the four ways, every observer spelling `Sp` on any handle at any point, the user moving the
value out).  The stored value carries its state (`Res.val v intact`): a moved-from value is observable (`Obs.moved`).
`run init ops` is the state after the history; the theorems are proved by induction over the history (`inv_run`). -/

/-- the spellings that hand out the stored value (or throw the stored exception) -/
def Sp.returnsValue : Sp → Bool
  | Sp.value => true | Sp.cvalue => true | Sp.wait => true | Sp.fwait => true
  | Sp.cwait => true | Sp.cjoin => true | Sp.cderef => true
  | _ => false

/-- **One result, whatever the spelling and whichever copy.** After ANY history, a state that has been resolved (by the
promise or by a factory) and whose value the user has not moved out shows exactly what the resolver stored — value intact —
to every value-returning spelling (`value()`, `wait()`, `force_wait()`, `operator Base&` + `value()` / `wait()` / `join()` /
`operator*`), to `join()` (returns / throws accordingly), to a `co_await` or callback awaiter created now, and `ready()`
is true: the answers are functions of the state alone (not of the handle) and the state holds the resolver's result. -/
theorem c17_api_single_result (ops : List Op) (k : Nat) (ss : SState) (rk : RK)
    (hk : (run init ops).states[k]? = some ss) (hr : ss.resolvedBy = some rk) (ht : ss.taken = false) :
    look ss = rk.obs ∧ readyOf ss = true ∧
    (∀ sp : Sp, sp.returnsValue = true → seeOut sp k ss = Out.o (some k) rk.obs) ∧
    seeOut Sp.join k ss = Out.j k rk.obs := by
  have hg : Good ss := inv_run ops init inv_init ss (List.mem_of_getElem? hk)
  have hph : ss.phase = Phase.ready := by
    refine Classical.byContradiction fun hn => ?_
    have := (hg.unresolved hn).2.1
    rw [hr] at this; cases this
  obtain ⟨rk', h1, h2⟩ := hg.resolved hph
  rw [hr] at h1; cases h1
  have hres := h2 ht
  have hl : look ss = rk.obs := by
    unfold look; rw [hres, hph]; cases rk <;> rfl
  refine ⟨hl, by simp [readyOf, hph], fun sp hsp => ?_, by simp [seeOut, hl]⟩
  cases sp <;> simp [Sp.returnsValue] at hsp <;> simp [seeOut, hl]

/-- **`ready()` is false until the resolution** — at every point of the late-initialisation life cycle (no state,
`init_if_needed()` done, copies taken, `get_promise()` done) and on every handle: after ANY history, `ready()` (and
`ready()` through `operator Base&`) answers true on handle `i` only if the handle has a state and that state has been
resolved (`resolvedBy` is set by the promise call / promise destruction / the ready-made factories only). -/
theorem c17_api_ready_only_when_resolved (ops : List Op) (sp : Sp) (hsp : sp = Sp.ready ∨ sp = Sp.cready) (i : Nat) (kk : Option Nat)
    (h : (opSee (run init ops) sp i).2.1 = Out.b kk true) :
    ∃ k ss, kk = some k ∧ handleAt (run init ops) i = Handle.at k ∧ (run init ops).states[k]? = some ss ∧ ss.resolvedBy.isSome = true := by
  generalize hs : run init ops = s at h
  have hinv : Inv s := hs ▸ inv_run ops init inv_init
  unfold opSee at h
  split at h
  · cases h
  · rcases hsp with rfl | rfl <;> simp at h
  · rename_i k hk
    split at h
    · cases h
    · rename_i ss hss
      have hg : Good ss := hinv ss (List.mem_of_getElem? hss)
      have hcls : sp.cls = SpClass.poll := by rcases hsp with rfl | rfl <;> rfl
      rw [hcls] at h
      simp only at h
      have hrd : readyOf ss = true ∧ kk = some k := by
        rcases hsp with rfl | rfl <;> (simp only [seeOut, Out.b.injEq] at h; exact ⟨h.2, h.1.symm⟩)
      have hph : ss.phase = Phase.ready := by simpa [readyOf] using hrd.1
      obtain ⟨rk, h1, _⟩ := hg.resolved hph
      exact ⟨k, ss, hrd.2, hk, hss, by simp [h1]⟩

/-- **Nothing but `notready` / `canceled` before the resolution**: after ANY history an unresolved state yields no value
and no exception to any spelling, and `ready()` is false. -/
theorem c17_api_unresolved_shows_nothing (ops : List Op) (k : Nat) (ss : SState)
    (hk : (run init ops).states[k]? = some ss) (hr : ss.resolvedBy = none) :
    readyOf ss = false ∧ (look ss = Obs.notready ∨ look ss = Obs.canceled) := by
  have hg : Good ss := inv_run ops init inv_init ss (List.mem_of_getElem? hk)
  have hph : ss.phase ≠ Phase.ready := by
    intro hp
    obtain ⟨rk, h1, _⟩ := hg.resolved hp
    rw [hr] at h1; cases h1
  have hres := (hg.unresolved hph).1
  refine ⟨by simp [readyOf, hph], ?_⟩
  unfold look; rw [hres]
  by_cases hp : ss.phase = Phase.pending <;> simp [hp]

/-- **No access spelling of any copy changes what later accesses observe.** From ANY state, an observer call in any
spelling on any handle — and likewise creating, copying, assigning, destroying handles and `init_if_needed()` — leaves
phase, stored result (including intact / moved-from), and resolution of EVERY state as they were; only the resolver, the
calls attaching a promise and the user's explicit `std::move(h.value())` (`Op.mutates`) are exempt. -/
theorem c17_api_access_changes_nothing (s : St) (op : Op) (hq : op.mutates = false) (k : Nat) (ss : SState)
    (h : s.states[k]? = some ss) :
    ∃ ss', (step s op).1.states[k]? = some ss' ∧ ss'.phase = ss.phase ∧ ss'.res = ss.res ∧
      ss'.resolvedBy = ss.resolvedBy ∧ ss'.taken = ss.taken ∧ look ss' = look ss ∧ readyOf ss' = readyOf ss := by
  obtain ⟨ss', h1, hv⟩ := quiet_keeps_view s op hq k ss h
  simp only [view, Prod.mk.injEq] at hv
  obtain ⟨a, b, c, d⟩ := hv
  exact ⟨ss', h1, a, b, c, d, by simp [look, a, b], by simp [readyOf, a]⟩

/-- the same over whole histories: any sequence of non-mutating calls (any spellings by any holders, in any order) -/
theorem c17_api_accesses_change_nothing (ops : List Op) (hq : ∀ op ∈ ops, op.mutates = false) :
    ∀ (s : St) (k : Nat) (ss : SState), s.states[k]? = some ss →
    ∃ ss', (run s ops).states[k]? = some ss' ∧ look ss' = look ss ∧ readyOf ss' = readyOf ss ∧ ss'.res = ss.res := by
  induction ops with
  | nil => intro s k ss h; exact ⟨ss, h, rfl, rfl, rfl⟩
  | cons o l ih =>
      intro s k ss h
      obtain ⟨s1, h1, _, hres, _, _, hl, hr⟩ := c17_api_access_changes_nothing s o (hq o (by simp)) k ss h
      obtain ⟨s2, h2, hl2, hr2, hres2⟩ := ih (fun op hop => hq op (by simp [hop])) (step s o).1 k s1 h1
      exact ⟨s2, h2, hl2.trans hl, hr2.trans hr, hres2.trans hres⟩

/-- **All copies agree**: two handles that share a state get the same answer (and cause the same events and the same
successor state) from every spelling. -/
theorem c17_api_copies_agree (s : St) (sp : Sp) (i j : Nat) (h : handleAt s i = handleAt s j) :
    opSee s sp i = opSee s sp j := by
  unfold opSee; rw [h]

/-- **An intact value stays intact unless the user moves it out**: from any reachable state, no call other than `take`
turns a stored intact value into anything else. -/
theorem c17_api_only_take_moves (ops : List Op) (op : Op) (hop : ∀ i, op ≠ Op.take i) (k v : Nat) (ss : SState)
    (h : (run init ops).states[k]? = some ss) (hv : ss.res = Res.val v true) :
    ∃ ss', (step (run init ops) op).1.states[k]? = some ss' ∧ ss'.res = Res.val v true := by
  generalize hs : run init ops = s at h
  have hinv : Inv s := hs ▸ inv_run ops init inv_init
  have hg : Good ss := hinv ss (List.mem_of_getElem? h)
  have hph : ss.phase = Phase.ready := by
    refine Classical.byContradiction fun hn => ?_
    have := (hg.unresolved hn).1
    rw [hv] at this; cases this
  have hnp : ss.promised = false := by
    cases hp : ss.promised
    · rfl
    · have := hg.promised hp; rw [hph] at this; cases this
  have keepP : ∃ ss', (modAt s.states k promiseS)[k]? = some ss' ∧ ss'.res = Res.val v true := by
    refine ⟨ss, ?_, hv⟩
    rw [getElem?_modAt]; simp [h, promiseS, hph]
  by_cases hm : op.mutates = false
  · obtain ⟨ss', h1, _, hres, _⟩ := c17_api_access_changes_nothing s op hm k ss h
    exact ⟨ss', h1, hres.trans hv⟩
  · have hf : ∀ (f : SState → SState) (j : Nat), f ss = ss → ∃ ss', (modAt s.states j f)[k]? = some ss' ∧ ss'.res = Res.val v true := by
      intro f j hfix
      rw [getElem?_modAt]
      split
      · exact ⟨f ss, by simp [h], by rw [hfix]; exact hv⟩
      · exact ⟨ss, h, hv⟩
    have hP : promiseS ss = ss := by simp [promiseS, hph]
    have hR : ∀ rk, resolveS rk ss = ss := by intro rk; simp [resolveS, hnp]
    cases op with
    | take i => exact absurd rfl (hop i)
    | resolve j rk =>
        simp only [step, opResolve]
        repeat' split
        all_goals first | exact ⟨ss, h, hv⟩ | exact hf _ _ (hR rk)
    | getp i =>
        simp only [step, opGetp]
        repeat' split
        all_goals first
          | exact ⟨ss, h, hv⟩
          | exact hf _ _ hP
          | (obtain ⟨s1, h1, e1⟩ := view_snoc_keep (promiseS freshState) k ss h
             exact ⟨s1, h1, by simp only [view, Prod.mk.injEq] at e1; exact e1.2.1.trans hv⟩)
    | lshift i =>
        simp only [step, opLshift]
        repeat' split
        all_goals first | exact ⟨ss, h, hv⟩ | exact hf _ _ hP
    | _ => simp [Op.mutates] at hm

/-! ### The hypotheses are satisfiable: the histories of the two corpus files -/

/-- late initialisation with a poll at every point: default-constructed, `init_if_needed()`, a copy, `get_promise()`,
resolved — `ready()` on the copy is false, false, then true; then `join()` through the copy and a re-read through the
original -/
def exLate : List Op :=
  [Op.new, Op.init 0, Op.copy 0, Op.see Sp.ready 1, Op.getp 0, Op.see Sp.ready 1, Op.resolve 0 (RK.value 42)]

example : (opSee (run init [Op.new]) Sp.ready 0).2.1 = Out.b none false := by decide
example : (opSee (run init [Op.new, Op.init 0, Op.copy 0]) Sp.ready 1).2.1 = Out.b (some 0) false := by decide
example : (opSee (run init [Op.new, Op.init 0, Op.copy 0]) Sp.value 1).2.1 = Out.o (some 0) Obs.canceled := by decide
example : (opSee (run init [Op.new, Op.init 0, Op.copy 0, Op.getp 0]) Sp.ready 1).2.1 = Out.b (some 0) false := by decide
example : (opSee (run init exLate) Sp.ready 1).2.1 = Out.b (some 0) true := by decide
example : (run init exLate).states[0]? =
    some { phase := Phase.ready, res := Res.val 42 true, refs := 2, resolvedBy := some (RK.value 42) } := by decide
example : (opSee (run init (exLate ++ [Op.see Sp.join 1])) Sp.value 0).2.1 = Out.o (some 0) (Obs.val 42) := by decide
/-- the stored value's state is real data: after the user's explicit move every copy observes `moved` -/
example : (opSee (run init (exLate ++ [Op.take 1])) Sp.value 0).2.1 = Out.o (some 0) Obs.moved := by decide
/-- suspended awaiters of both kinds observe the resolver's value when the promise is called -/
example : (step (run init [Op.mk Mk.pf, Op.copy 0, Op.see Sp.coro 1, Op.see Sp.cb 0, Op.drop 0, Op.drop 1]) (Op.resolve 0 (RK.value 7))).2.2 =
    [Ev.obs 1 WK.cb (Obs.val 7), Ev.obs 0 WK.coro (Obs.val 7), Ev.freed 0] := by decide

end Cocls.SharedFutureApi
