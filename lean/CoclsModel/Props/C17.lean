import CoclsModel.SharedFuture
/-! # C17 — property theorems (placeholder while the invariant proofs are being written) -/
namespace Cocls.SharedFuture

theorem c17_placeholder (c : Cfg) : (init c).refs = 1 := rfl

end Cocls.SharedFuture
