import CoclsModel.GeneratorProofs
import CoclsModel.GeneratorHandover
/-!
# C13 — generator: the consumer sees exactly the yielded sequence, in every access style

Model: `CoclsModel/Generator.lean` — the body is an arbitrary script (`co_yield v`, `co_yield nullptr`, `co_await` of ready or
pending operations, locals with destructors, `throw`, `co_return`), the consumer an arbitrary list of operations in every
access style (`bool(next())` split at its blocking point, `value()`, `co_await next()`, `gen()` + `wait` / `co_await` /
`has_value`, iterators, `complete k` on any thread, `destroy`).  Every theorem quantifies over **all** scripts, both generator
types (with / without argument) and **all** operation lists (`Reachable`); an interleaving of the consumer thread with the
threads that complete awaited operations is such a list.

`s.seen` is the chronological list of what the consumer's accesses delivered (one entry per completed access, whatever its
style); `yields sc` / `ending sc` are read off the script.
-/
namespace Cocls.Gen

/-- every state the generator can be in: any script, any operation list -/
def Reachable (mode : Bool) (sc : List Act) (s : State) : Prop := ∃ ops, s = run (init mode sc) ops

theorem reachable_inv {mode : Bool} {sc : List Act} {s : State} (h : Reachable mode sc s) : Inv s := by
  obtain ⟨ops, rfl⟩ := h
  exact inv_run _ ops (inv_init mode sc)

theorem reachable_konst {mode : Bool} {sc : List Act} {s : State} (h : Reachable mode sc s) :
    s.script0 = sc ∧ s.mode = mode := by
  obtain ⟨ops, rfl⟩ := h
  have := konst_run (init mode sc) ops
  simp only [konst, Prod.mk.injEq] at this
  exact ⟨this.1, this.2⟩

theorem reachable_not_run {mode : Bool} {sc : List Act} {s : State} (h : Reachable mode sc s) : s.bst ≠ .run := by
  obtain ⟨ops, rfl⟩ := h
  exact run_not_run _ ops (by simp [init])

theorem reachable_step {mode : Bool} {sc : List Act} {s : State} (h : Reachable mode sc s) (op : Op) :
    Reachable mode sc (step s op).1 := by
  obtain ⟨ops, rfl⟩ := h
  exact ⟨ops ++ [op], by simp [run, List.foldl_append]⟩

/-- what the body itself hands over (`s.obs`) is a prefix of its sequence — `expected sc` = the yielded values, then the exception /
the end: no value skipped, repeated or reordered at the hand-over, the ending handed over at most once -/
theorem c13_handed_over_prefix {mode : Bool} {sc : List Act} {s : State} (h : Reachable mode sc s) : s.obs <+: expected sc := by
  have hi := reachable_inv h
  have hk := (reachable_konst h).1
  by_cases hf : s.bst = .final
  · exact ⟨pend s, by rw [hi.seq_fin hf, hk]⟩
  · exact ⟨pend s ++ expectedFrom s.acc s.script, by rw [← List.append_assoc, hi.seq_run hf, hk]⟩

/-- **Sequence.** For every script and every operation list mixing the access styles, what the consumer has observed so far
is a prefix of: the yielded values in order (none skipped, none repeated), then the body's own ending (exception or end marker),
then end-of-sequence indications only. One entry per completed access, so each access advances by exactly one. -/
theorem c13_sequence {mode : Bool} {sc : List Act} {s : State} (h : Reachable mode sc s) :
    ∃ ends, (∀ e ∈ ends, e = Item.fin ∨ e = Item.nomore) ∧
      s.seen <+: (yields sc).map Item.val ++ [ending sc] ++ ends := by
  have hi := reachable_inv h
  have hk := (reachable_konst h).1
  by_cases hp : s.post = []
  · refine ⟨[], by simp, ?_⟩
    rw [hi.seen_eq, hp, List.append_nil, List.append_nil]
    exact c13_handed_over_prefix h
  · refine ⟨s.post, hi.post_end, ?_⟩
    have hf := hi.post_fin hp
    have hns : inSync s = false := by
      cases hs : inSync s with
      | false => rfl
      | true => exact absurd (hi.sync_post hs) hp
    have hpe : pend s = [] := by simp [pend, hns]
    have := hi.seq_fin hf
    rw [hpe, List.append_nil, hk] at this
    rw [hi.seen_eq, this]
    exact List.prefix_refl _

/-- **Sequence, position by position**: the i-th completed access (counting from 0, in whatever style) delivered the i-th
yielded value; the access after the last value delivered the body's ending; every later access an end indication. -/
theorem c13_positions {mode : Bool} {sc : List Act} {s : State} (h : Reachable mode sc s) (i : Nat)
    (hi : i < s.seen.length) :
    (i < (yields sc).length → s.seen[i]? = ((yields sc)[i]?).map Item.val) ∧
    (i = (yields sc).length → s.seen[i]? = some (ending sc)) ∧
    ((yields sc).length < i → s.seen[i]? = some Item.fin ∨ s.seen[i]? = some Item.nomore) := by
  obtain ⟨ends, hends, t, ht⟩ := c13_sequence h
  have hget : s.seen[i]? = ((yields sc).map Item.val ++ [ending sc] ++ ends)[i]? := by
    rw [← ht, List.getElem?_append_left hi]
  have hl : ((yields sc).map Item.val).length = (yields sc).length := List.length_map _
  refine ⟨fun h1 => ?_, fun h1 => ?_, fun h1 => ?_⟩
  · rw [hget, List.append_assoc, List.getElem?_append_left (by rw [hl]; exact h1), List.getElem?_map]
  · rw [hget, List.append_assoc, List.getElem?_append_right (by rw [hl]; omega), hl, h1]
    simp
  · rw [List.append_assoc, List.getElem?_append_right (by rw [hl]; omega), hl,
      List.getElem?_append_right (by simp; omega)] at hget
    have hlt : i - (yields sc).length - [ending sc].length < ends.length := by
      have : s.seen.length ≤ ((yields sc).map Item.val ++ [ending sc] ++ ends).length := by
        rw [← ht]; simp
      simp at this ⊢; omega
    have hmem := hends _ (List.getElem_mem hlt)
    rw [hget, List.getElem?_eq_getElem hlt]
    rcases hmem with hm | hm
    · exact Or.inl (congrArg some hm)
    · exact Or.inr (congrArg some hm)

/-- **End, once.** The body hands over its ending exactly once (`s.obs`, the part of `seen` handed over by the body, is a prefix
of values ++ [ending], so the ending cannot be preceded by a missing value nor repeated); an access is answered *without
resuming the body* only after that complete sequence was delivered, and such answers are end indications —
`no_more_values` only, if the body ended with an exception. -/
theorem c13_end_once {mode : Bool} {sc : List Act} {s : State} (h : Reachable mode sc s) :
    s.seen = s.obs ++ s.post ∧ s.obs <+: (yields sc).map Item.val ++ [ending sc] ∧
    (s.post ≠ [] → s.obs = (yields sc).map Item.val ++ [ending sc]) ∧
    (∀ e ∈ s.post, e = Item.fin ∨ e = Item.nomore) ∧
    (s.exp = true → ∀ e ∈ s.post, e = Item.nomore) := by
  have hi := reachable_inv h
  have hk := (reachable_konst h).1
  refine ⟨hi.seen_eq, c13_handed_over_prefix h, fun hp => ?_, hi.post_end, hi.post_exc⟩
  have hf := hi.post_fin hp
  have hns : inSync s = false := by
    cases hs : inSync s with
    | false => rfl
    | true => exact absurd (hi.sync_post hs) hp
  have hpe : pend s = [] := by simp [pend, hns]
  have := hi.seq_fin hf
  rw [hpe, List.append_nil, hk] at this
  exact this

/-- **Exception position.** If an exception escapes the body, the consumer meets it at exactly the position after the last
yielded value — never earlier, never later, never twice — whatever the access styles. -/
theorem c13_exception_position {mode : Bool} {sc : List Act} {s : State} (h : Reachable mode sc s)
    (hexc : ending sc = Item.exc) (i : Nat) (hi : i < s.seen.length) :
    s.seen[i]? = some Item.exc ↔ i = (yields sc).length := by
  obtain ⟨h1, h2, h3⟩ := c13_positions h i hi
  constructor
  · intro he
    rcases Nat.lt_trichotomy i (yields sc).length with hlt | heq | hgt
    · have := h1 hlt
      rw [he] at this
      cases hy : (yields sc)[i]? <;> simp [hy] at this
    · exact heq
    · rcases h3 hgt with h4 | h4 <;> rw [he] at h4 <;> simp at h4
  · intro he
    rw [h2 he, hexc]

/-- the flags the consumer reads agree with the script: a finished body has `_done` set iff it ended regularly and `_exp` set iff
an exception escaped; a body that has not finished has neither — so `value()` rethrows exactly from the exception position on -/
theorem c13_exception_flag {mode : Bool} {sc : List Act} {s : State} (h : Reachable mode sc s) :
    (s.bst ≠ .final → s.done = false ∧ s.exp = false) ∧ (s.bst = .final → s.done = !s.exp) ∧
    (s.exp = true → readVal s = Item.exc) := by
  have hi := reachable_inv h
  exact ⟨hi.flags_run, hi.flags_fin, fun he => by simp [readVal, he]⟩

/-- **Argument.** Whenever the body receives an argument — as the result of the `co_yield` it is resumed from, or of
`co_yield nullptr` (on its first activation or later) — it is exactly the argument of the call that resumed it (the most recent
access); and no null `_arg` / `_caller` / `_ret` is ever dereferenced. -/
theorem c13_argument {mode : Bool} {sc : List Act} {s : State} (h : Reachable mode sc s) :
    (∀ p ∈ s.gotLog, p.1 = p.2) ∧ s.ub = false :=
  ⟨(reachable_inv h).got_ok, (reachable_inv h).noub⟩

/-- while the body is inside an access (parked on an awaited operation), `*_arg` still is the argument of that access -/
theorem c13_argument_kept {mode : Bool} {sc : List Act} {s : State} (h : Reachable mode sc s) (k : Nat)
    (hm : s.mode = true) (hb : s.bst = .await k) : s.arg = some s.lastArg :=
  (reachable_inv h).arg_ok hm (by simp [midAccess_eq, hb])

/-- **Asynchronous body, no lost wake-up.** A synchronous access stays blocked (`_block` false), a consumer coroutine stays
parked, a future stays pending **only while** the body is parked on an awaited operation that has not completed … -/
theorem c13_waits_only_for_awaited {mode : Bool} {sc : List Act} {s : State} (h : Reachable mode sc s)
    (hw : (inSync s = true ∧ s.block = false) ∨ s.cons = .parked ∨ s.fut = .pending) :
    ∃ k, s.bst = .await k ∧ k ∉ s.resolved := by
  have hi := reachable_inv h
  have hnr := reachable_not_run h
  have hm : midAccess s = true := by
    cases hm : midAccess s with
    | true => rfl
    | false =>
        have := hi.c_none hm
        rcases hw with ⟨h1, h2⟩ | h1 | h1
        · have := this.2.2 h1; simp [h2] at this
        · exact absurd h1 this.1
        · exact absurd h1 this.2.1
  rw [midAccess_eq] at hm
  cases hb : s.bst with
  | await k => exact ⟨k, rfl, hi.await_unres k hb⟩
  | run => exact absurd hb hnr
  | init => simp [hb] at hm
  | yield => simp [hb] at hm
  | final => simp [hb] at hm

/-- … and conversely the body is parked on an awaited operation only while exactly one consumer access waits for it
(`_caller` designates it): the blocked synchronous access, the parked coroutine, or the pending future. -/
theorem c13_awaiting_body_has_a_waiter {mode : Bool} {sc : List Act} {s : State} (h : Reachable mode sc s) (k : Nat)
    (hb : s.bst = .await k) :
    (s.caller = .internal ∧ s.ifn = .sync ∧ inSync s = true ∧ s.block = false) ∨
    (s.caller = .awt ∧ s.cons = .parked) ∨
    (s.caller = .internal ∧ s.ifn = .future ∧ s.awaiting = true ∧ s.fut = .pending) := by
  have hi := reachable_inv h
  have hcn : s.caller ≠ .none := hi.busy_iff.mpr (Or.inl (by simp [midAccess_eq, hb]))
  have hst : s.stuck = false := by
    cases hs : s.stuck with
    | false => rfl
    | true => have := (hi.stuck_fin hs).1; simp [hb] at this
  cases hc : s.caller with
  | none => exact absurd hc hcn
  | awt => exact Or.inr (Or.inl ⟨rfl, (hi.c_awt hc hst).1⟩)
  | internal =>
      rcases hi.c_int hc with ⟨a, b, c, _⟩ | ⟨a, b, c, _⟩
      · exact Or.inl ⟨rfl, a, b, c⟩
      · exact Or.inr (Or.inr ⟨rfl, a, b, c⟩)

/-- **Asynchronous body** (summary of the two theorems above; the sequence theorems hold for these scripts and schedules like for
any other): an access is outstanding — the synchronous caller blocked in `_block.wait`, the consumer coroutine parked, the future
pending — **iff** the body is parked on an awaited operation, and that operation has not completed. -/
theorem c13_async_body {mode : Bool} {sc : List Act} {s : State} (h : Reachable mode sc s) :
    (((inSync s = true ∧ s.block = false) ∨ s.cons = .parked ∨ s.fut = .pending) ↔ ∃ k, s.bst = .await k) ∧
    (∀ k, s.bst = .await k → k ∉ s.resolved) := by
  refine ⟨⟨fun hw => ?_, fun ⟨k, hk⟩ => ?_⟩, (reachable_inv h).await_unres⟩
  · obtain ⟨k, hk, _⟩ := c13_waits_only_for_awaited h hw
    exact ⟨k, hk⟩
  · rcases c13_awaiting_body_has_a_waiter h k hk with ⟨_, _, a, b⟩ | ⟨_, a⟩ | ⟨_, _, _, a⟩
    · exact Or.inl ⟨a, b⟩
    · exact Or.inr (Or.inl a)
    · exact Or.inr (Or.inr a)

/-- **Asynchronous body, progress.** Completing the operation the body waits for (on any thread) resumes it; afterwards it has
finished, or is parked at a `co_yield`, or waits for another operation — with a strictly shorter rest of the script (so finitely
many completions serve the access); and at a `co_yield` / at the end nobody is left waiting (`c13_served_when_parked`). -/
theorem c13_complete_progress {mode : Bool} {sc : List Act} {s : State} (h : Reachable mode sc s) (k : Nat)
    (hb : s.bst = .await k) :
    ((step s (.complete k)).1.bst = .final ∨ (step s (.complete k)).1.script.length < s.script.length) ∧
    ((step s (.complete k)).1.bst = .final ∨ (step s (.complete k)).1.bst = .yield ∨
      ∃ k', (step s (.complete k)).1.bst = .await k') := by
  have hi := reachable_inv h
  have hal : s.alive = true := by
    cases ha : s.alive with
    | true => rfl
    | false => have := (hi.live_dead ha).2; simp [midAccess_eq, hb] at this
  have hk := hi.await_unres k hb
  have : (step s (.complete k)).1 = exec s.script { s with resolved := k :: s.resolved, bst := .run } := by
    simp [step, stepComplete, hk, hal, hb, resumeBody]
  rw [this]
  exact exec_pos _ _

/-- when the body is parked at a `co_yield` or has finished, every access has been served: nobody is blocked, parked or pending -/
theorem c13_served_when_parked {mode : Bool} {sc : List Act} {s : State} (h : Reachable mode sc s)
    (hb : s.bst = .yield ∨ s.bst = .final ∨ s.bst = .init) :
    s.cons ≠ .parked ∧ s.fut ≠ .pending ∧ (inSync s = true → s.block = true) := by
  apply (reachable_inv h).c_none
  rw [midAccess_eq]
  rcases hb with hb | hb | hb <;> simp [hb]

/-- `value()` re-reads exactly what the last access delivered: parked at a `co_yield`, with no synchronous access in flight,
`value()` is the value delivered last -/
theorem c13_value_rereads_last {mode : Bool} {sc : List Act} {s : State} (h : Reachable mode sc s)
    (hy : s.bst = .yield) (hns : inSync s = false) :
    ∃ v, readVal s = Item.val v ∧ s.obs.getLast? = some (Item.val v) := by
  have hi := reachable_inv h
  have hfl := hi.flags_run (by simp [hy])
  obtain ⟨h1, h2⟩ := hi.ret_yield hy
  have hpe : pend s = [] := by simp [pend, hns]
  rw [hpe, List.append_nil] at h2
  cases hr : s.ret with
  | none => exact absurd hr h1
  | some v => exact ⟨v, by simp [readVal, hfl.2, hr], by rw [h2, hr]; rfl⟩

/-- what a synchronous access returns is what was logged: when `bool(next())` (or `begin()` / `++it`) returns `b`, exactly one
item was appended to `seen`; `b` is true iff that item is not the end marker, and then `value()` reads that very item -/
theorem c13_sync_result_logged (s : State) (b : Bool) (hr : (step s .syncEnd).2 = .next b) :
    ∃ i, (step s .syncEnd).1.seen = s.seen ++ [i] ∧ (b = true ↔ i ≠ Item.fin) ∧ (b = true → i = readVal s) := by
  have hrv : readVal s ≠ Item.fin := by
    unfold readVal; split
    · simp
    · split <;> simp
  simp only [step, stepSyncEnd] at hr ⊢
  cases hc : s.cons with
  | idle => simp [hc] at hr
  | parked => simp [hc] at hr
  | inSync kind =>
      simp only [hc] at hr ⊢
      cases hb : s.block with
      | false => simp [hb] at hr
      | true =>
          simp only [hb, if_true] at hr ⊢
          refine ⟨cur s, ?_, ?_, ?_⟩
          · cases kind <;> rfl
          · cases kind <;> simp [endSync] at hr <;> (cases b <;> simp [cur, hr, hrv])
          · cases kind <;> simp [endSync] at hr <;> (cases b <;> simp [cur, hr])

/-- **`while (gen)`** — `generator::operator bool` (`!done()`): it reads false exactly when the body has ended regularly, and then the
complete sequence including the end marker has been handed over — so a consumer looping on it never stops early. After an
exception it stays true (`_done` is only set by `return_void`); the next access then reports the end (`c13_end_once`). -/
theorem c13_operator_bool {mode : Bool} {sc : List Act} {s : State} (h : Reachable mode sc s) (b : Bool)
    (hr : (step s .active).2 = .active b) :
    (b = false ↔ (s.bst = .final ∧ s.exp = false)) ∧
    (b = false → s.obs ++ pend s = (yields sc).map Item.val ++ [ending sc]) := by
  have hi := reachable_inv h
  have hk := (reachable_konst h).1
  have hb : b = !s.done := by
    simp only [step, stepActive] at hr
    by_cases h1 : s.alive = true <;> by_cases h2 : inSync s = true <;> by_cases h3 : inflight s = true <;>
      simp [h1, h2, h3] at hr
    cases b <;> cases hd : s.done <;> simp_all
  have hdf : s.done = true ↔ (s.bst = .final ∧ s.exp = false) := by
    constructor
    · intro hd
      have hf : s.bst = .final := by
        cases hbs : s.bst <;> first | rfl | (have := (hi.flags_run (by simp [hbs])).1; simp [hd] at this)
      have hff := hi.flags_fin hf
      rw [hd] at hff
      refine ⟨hf, ?_⟩
      cases he : s.exp
      · rfl
      · rw [he] at hff; exact absurd hff (by decide)
    · rintro ⟨hf, he⟩
      have := hi.flags_fin hf
      simpa [he] using this
  constructor
  · rw [hb]; cases hd : s.done <;> simp_all
  · intro hbf
    have hd : s.done = true := by rw [hb] at hbf; cases hd : s.done <;> simp_all
    have := hi.seq_fin (hdf.mp hd).1
    rw [this, hk]; rfl

/-- **Kept `next()` object.** Once a consultation of a kept `auto n = gen.next(a)` has answered true (`_state`), every further
truth test `bool(n)` / `!n` of the same object is **not a step of the generator**: it answers true and leaves the whole state —
hence the sequence position, the body, the hand-over record — unchanged, for any number of re-consultations. (Only `co_await n`
does not look at `_state`: it always is a fresh access, and so is a truth test of an object that has not answered true yet.) -/
theorem c13_kept_reconsult_no_step (s : State) (hk : s.kept ≠ none) (hal : s.alive = true) (hns : inSync s = false)
    (hst : s.kstate = true) (n : Nat) :
    run s (List.replicate n .ktest) = s ∧ (step s .ktest).2 = .next true := by
  have hstep : step s .ktest = (s, .next true) := by
    simp only [step, stepKtest]
    cases hkk : s.kept with
    | none => exact absurd hkk hk
    | some a => simp [hal, hns, hst]
  refine ⟨?_, by rw [hstep]⟩
  induction n with
  | zero => rfl
  | succ k ih =>
      rw [List.replicate_succ]
      simp only [run, List.foldl_cons, hstep]
      exact ih

/-- the flag of the kept object is set only by a consultation that was served with an item (a value or the body's exception): a
truth test that finds the kept object "true" re-reads an access that really happened -/
example :
    let s := run (init false [.yield 1, .yield 2, .yield 3]) [.keep 0, .ktest, .syncEnd, .ktest, .ktest, .kawait, .ktest]
    s.seen = [.val 1, .val 2] ∧ s.kstate = true := by decide

/-- **Locals destroyed exactly once.** At any time every guard constructed by the body is either still in scope or was
destroyed exactly once — never twice, never lost; a finished body has none in scope. -/
theorem c13_guards_once {mode : Bool} {sc : List Act} {s : State} (h : Reachable mode sc s) (g : Nat) :
    s.dtors.count g + s.live.count g = (if g < s.made then 1 else 0) ∧ s.dtors.count g ≤ 1 ∧
    (s.bst = .final → s.live = []) := by
  have hi := reachable_inv h
  have := hi.guards g
  refine ⟨this, ?_, hi.live_fin⟩
  split at this <;> omega

/-- **Destroying a parked generator** (at a `co_yield`, before its first activation, or finished) destroys each of its locals
exactly once: afterwards every guard ever constructed has been destroyed once, none is left, and whatever the consumer still
does (reading futures, stray operations), nothing is destroyed again. -/
theorem c13_destroy_parked {mode : Bool} {sc : List Act} {s : State} (h : Reachable mode sc s)
    (hd : (step s .destroy).2 = .destroyed) (ops : List Op) (g : Nat) :
    (step s .destroy).1.alive = false ∧ (step s .destroy).1.live = [] ∧
    (step s .destroy).1.dtors.count g = (if g < (step s .destroy).1.made then 1 else 0) ∧
    (run (step s .destroy).1 ops).dtors.count g ≤ 1 := by
  have hr' := reachable_step h .destroy
  have hi' := reachable_inv hr'
  have hal : (step s .destroy).1.alive = false := destroyed_dead s hd
  have hl := (hi'.live_dead hal).1
  have hg := hi'.guards g
  rw [hl] at hg
  refine ⟨hal, hl, by simpa using hg, ?_⟩
  have hr'' : Reachable mode sc (run (step s .destroy).1 ops) := by
    obtain ⟨ops0, h0⟩ := hr'
    exact ⟨ops0 ++ ops, by rw [h0]; simp [run, List.foldl_append]⟩
  exact (c13_guards_once hr'' g).2.1

/-- **When is the generator "busy"?** `_caller` is non-null (the assert of next_sync / next_async / next_future fires)
exactly while the body is parked on an awaited operation inside an access — or after `next_async` (`co_await next()` on a generator
that ended with an exception, `next().subscribe()` on any finished generator) threw `no_more_values`: it stores `_caller`
*before* it throws (see the witness below). That access is answered without resuming the body, i.e. it comes after the complete
sequence and its ending were delivered (`c13_end_once`) — beyond what the property speaks about. -/
theorem c13_busy_iff {mode : Bool} {sc : List Act} {s : State} (h : Reachable mode sc s) :
    (s.caller ≠ .none ↔ ((∃ k, s.bst = .await k) ∨ s.stuck = true)) ∧
    (s.stuck = true → s.bst = .final ∧ s.post ≠ []) := by
  have hi := reachable_inv h
  have hnr := reachable_not_run h
  constructor
  · rw [hi.busy_iff, midAccess_eq]
    constructor
    · rintro (hm | hs)
      · cases hb : s.bst with
        | await k => exact Or.inl ⟨k, rfl⟩
        | run => exact absurd hb hnr
        | init => simp [hb] at hm
        | yield => simp [hb] at hm
        | final => simp [hb] at hm
      · exact Or.inr hs
    · rintro (⟨k, hk⟩ | hs)
      · exact Or.inl (by simp [hk])
      · exact Or.inr hs
  · intro hs
    have := hi.stuck_fin hs
    exact ⟨this.1, this.2.2⟩

/-! ### the hand-over at a `co_yield` between two threads (micro-steps, `CoclsModel/GeneratorHandover.lean`)

The theorems above treat one operation as one step. That is sound for the threads involved because the thread that runs the body
up to a `co_yield` (it completed the awaited operation) writes nothing to the hand-over record after it has notified the
consumer — so the consumer's next access (from its own thread, or re-entrantly from inside the notification) never overlaps
with it. -/

/-- **Notify last.** In every interleaving of the yielding thread (`_arg = nullptr; caller = exchange(_caller, nullptr);
caller->resume()`) with the consumer's next access (`set_arg; assert(_caller == nullptr); _caller = &_internal; h.resume()`,
enabled as soon as the consumer is notified): the assert holds, the body reads the new access's argument, and the new caller
slot is still set when the body runs on. -/
theorem c13_yield_notifies_last {s : Handover.HS} (h : Handover.Reach Handover.asIs s) (hdone : s.pcA = 4) :
    s.assertOk = true ∧ s.got = some .new ∧ s.callerAtResume = some true :=
  Handover.chain_ok s (Handover.reach_chain h) hdone

/-- the order matters — witness for "notify first, clear afterwards": an interleaving in which the consumer's next access trips the
"Generator is busy" assert, and one in which it passes the assert but its argument is wiped before the body reads it (a null
reference) -/
theorem c13_late_clear_breaks :
    (∃ s, Handover.Reach Handover.late s ∧ s.pcA = 4 ∧ s.assertOk = false) ∧
    (∃ s, Handover.Reach Handover.late s ∧ s.pcA = 4 ∧ s.assertOk = true ∧ s.got = some .null) := by
  open Handover in
  constructor
  · -- B: notify; A: set_arg, assert (fires: _caller not yet cleared), ...
    let s1 := stepB late Handover.init
    let s2 := stepA s1
    let s3 := stepA s2
    let s4 := stepA s3
    let s5 := stepA s4
    have r1 : Reach late s1 := Reach.step Reach.init (by decide)
    have r2 : Reach late s2 := Reach.step r1 (by decide)
    have r3 : Reach late s3 := Reach.step r2 (by decide)
    have r4 : Reach late s4 := Reach.step r3 (by decide)
    have r5 : Reach late s5 := Reach.step r4 (by decide)
    exact ⟨s5, r5, by decide, by decide⟩
  · -- B clears _caller before A's assert, but _arg only after A's set_arg
    let s1 := stepB late Handover.init      -- notify
    let s2 := stepA s1             -- set_arg
    let s3 := stepB late s2        -- _caller = nullptr
    let s4 := stepA s3             -- assert passes
    let s5 := stepA s4             -- _caller = &_internal
    let s6 := stepB late s5        -- _arg = nullptr  (wipes the new argument)
    have r1 : Reach late s1 := Reach.step Reach.init (by decide)
    have r2 : Reach late s2 := Reach.step r1 (by decide)
    have r3 : Reach late s3 := Reach.step r2 (by decide)
    have r4 : Reach late s4 := Reach.step r3 (by decide)
    have r5 : Reach late s5 := Reach.step r4 (by decide)
    have r6 : Reach late s6 := Reach.step r5 (by decide)
    have r7 : Reach late (stepA s6) := Reach.step r6 (by decide)
    exact ⟨stepA s6, r7, by decide, by decide, by decide⟩

/-! ### `co_await pause()` between yields

The body scripts every theorem above quantifies over include `Act.pause` (`co_await cocls::pause()`, an awaitable that is never
ready and resumes the body through its thread's coroutine queue).  For the consumer it is invisible: -/

/-- a `pause` anywhere in the body changes neither what the consumer must see nor what the body does next: the sequence, end
and exception position of `c13_sequence` / `c13_positions` / `c13_end_once` are those of the body without it.  (The pinned
code ran a body that is read by ordinary code without a coroutine queue, where `pause` dereferences a null pointer:
`c13_asis_pause_without_queue`, `/repo` commit 191263e.) -/
theorem c13_pause_is_transparent (a b : List Act) :
    expected (a ++ Act.pause :: b) = expected (a ++ b)
    ∧ ∀ s : State, exec (Act.pause :: b) s = exec b { s with script := b } := by
  refine ⟨?_, fun s => by simp [exec]⟩
  have hacc : ∀ acc, expectedFrom acc (a ++ Act.pause :: b) = expectedFrom acc (a ++ b) := by
    induction a with
    | nil => intro acc; simp
    | cons x a ih => intro acc; cases x <;> simp [ih]
  exact hacc 0

/-- The pinned synchronous access (before `/repo` commit 191263e "fix: synchronous and future access to a generator ran its body
without a coroutine queue"; replayed on the headers in corpus/c13_pause_in_body.txt): `bool(gen.next())` from ordinary code on a
body that pauses before its first / between its first and second `co_yield` dereferences the null `coro_queue::instance`
(`ub`, contradicting `c13_argument`'s `s.ub = false`): the consumer never sees the value.  The repaired access installs a
queue: the consumer sees 1, 2, end. -/
theorem c13_asis_pause_without_queue :
    (stepSyncBeginAsIs (init false [.pause, .yield 1]) .plain 0).1.ub = true
    ∧ (stepSyncBeginAsIs (init false [.yield 1, .pause, .yield 2]) .plain 0).1.ub = false
    ∧ (stepSyncBeginAsIs (run (init false [.yield 1, .pause, .yield 2]) [.syncBegin 0, .syncEnd]) .plain 0).1.ub = true
    ∧ (run (init false [.yield 1, .pause, .yield 2]) [.syncBegin 0, .syncEnd, .syncBegin 0, .syncEnd, .syncBegin 0, .syncEnd]).seen
        = [.val 1, .val 2, .fin]
    ∧ (run (init false [.yield 1, .pause, .yield 2]) [.syncBegin 0, .syncEnd, .syncBegin 0, .syncEnd, .syncBegin 0, .syncEnd]).ub
        = false := by decide


/-! ### the body's own variable, yielded as an lvalue (`acc.append(c); co_yield acc;`) -/

/-- **The yielded variable is the body's.** The library never modifies the variable the body yielded as an lvalue: on every
resumption from `co_yield acc` the body finds in it exactly what it had yielded (`accLog`), and while the body is parked there,
`value()` reads the content of that very variable. -/
theorem c13_body_variable_untouched {mode : Bool} {sc : List Act} {s : State} (h : Reachable mode sc s) :
    (∀ p ∈ s.accLog, p.1 = p.2) ∧ (s.bst = .yield → s.atAcc = true → readVal s = Item.val s.acc) := by
  have hi := reachable_inv h
  refine ⟨hi.acc_ok, fun hy ha => ?_⟩
  have hfl := hi.flags_run (by simp [hy])
  simp [readVal, hfl.2, hi.acc_ret hy ha]

/-- what a body that keeps appending the digits `cs` to one variable holding `a` yields: every prefix, built on the previous one -/
def running : Nat → List Nat → List Nat
  | _, [] => []
  | a, c :: cs => (a * 10 + c) :: running (a * 10 + c) cs

/-- **Accumulated values.** A stretch of `acc.append(c); co_yield acc;` statements must deliver every prefix of the accumulated
content, each built on the previous one, and the rest of the body continues from the final content — so with `c13_sequence` the
consumer sees 1, 12, 123, … and never a stale or a doubled prefix. -/
theorem c13_accumulator_values (acc : Nat) (cs : List Nat) (rest : List Act) :
    yieldsFrom acc (cs.map Act.yieldAcc ++ rest)
      = running acc cs ++ yieldsFrom (cs.foldl (fun a c => a * 10 + c) acc) rest := by
  induction cs generalizing acc with
  | nil => simp [running]
  | cons c cs ih => simp [running, yieldsFrom, ih]

/-! ### the consumer's execution context (`resume_in_queue`) -/

/-- a call whose future comes back pending has left the future pending -/
theorem call_pending_fut (s : State) (a : Nat) (hp : (stepCall s a).2 = .pending) : (stepCall s a).1.fut = .pending := by
  have key : ∀ t : State, (futRes t).2 = .pending → (futRes t).1.fut = .pending := by
    intro t ht
    unfold futRes at ht ⊢
    by_cases hf : t.fut = .pending
    · exact hf
    · simp [hf] at ht
  revert hp
  unfold stepCall
  split
  · intro hp; cases hp
  · split
    · intro hp; cases hp
    · split
      · intro hp; cases hp
      · unfold callGo
        split
        · intro hp; cases hp
        · exact key _

/-- **Served inside the call, in every execution context.** Whether the consumer is ordinary code or itself runs inside a
coroutine (`s.coro` is arbitrary), an access made by non-awaiting code — `bool(gen.next(a))`, `gen(a)` — runs the body inside the
call: the synchronous access is left blocked, the returned future pending, only if the body itself waits for an operation that
has not completed. -/
theorem c13_served_inside_the_call {mode : Bool} {sc : List Act} {s : State} (h : Reachable mode sc s) (a : Nat) :
    (inSync (step s (.syncBegin a)).1 = true ∧ (step s (.syncBegin a)).1.block = false →
      ∃ k, (step s (.syncBegin a)).1.bst = .await k ∧ k ∉ (step s (.syncBegin a)).1.resolved) ∧
    ((step s (.call a)).2 = .pending →
      ∃ k, (step s (.call a)).1.bst = .await k ∧ k ∉ (step s (.call a)).1.resolved) :=
  ⟨fun hw => c13_waits_only_for_awaited (reachable_step h _) (Or.inl hw),
   fun hp => c13_waits_only_for_awaited (reachable_step h _) (Or.inr (Or.inr (call_pending_fut s a hp)))⟩

/-- `resume_in_queue` is `resume()`: the execution context decides only whether a queue is installed for the activation (which is
counted), never whether or how the body runs -/
theorem c13_context_only_counts (s : State) :
    resumeInQueue s = resumeBody s ∨ (s.coro = false ∧ resumeInQueue s = resumeBody { s with qinst := s.qinst + 1 }) := by
  unfold resumeInQueue
  cases hc : s.coro
  · exact Or.inr ⟨rfl, by simp⟩
  · exact Or.inl (by simp)

/-! #### nothing but `resume_in_queue` looks at the execution context

`Blind f`: two states that differ only in the execution context and the count of installed queues are mapped by `f` to two such
states (and to the same result).  Shown for every helper of the model, the body (`exec`, induction over the script) and every
consumer operation. -/

/-- a state with the consumer's execution context and the count of installed queues blanked out -/
def erase (s : State) : State := { s with coro := false, qinst := 0 }

/-- the same state in another execution context, with another count of installed queues -/
def setCQ (b : Bool) (n : Nat) (s : State) : State := { s with coro := b, qinst := n }

theorem exists_cq {s t : State} (h : erase s = erase t) : ∃ b n, t = setCQ b n s := by
  refine ⟨t.coro, t.qinst, ?_⟩
  cases s; cases t
  simp only [erase, State.mk.injEq] at h
  simp only [setCQ, State.mk.injEq]
  simp_all

@[simp] theorem inSync_cq (b n s) : inSync (setCQ b n s) = inSync s := rfl
@[simp] theorem inflight_cq (b n s) : inflight (setCQ b n s) = inflight s := rfl
@[simp] theorem readVal_cq (b n s) : readVal (setCQ b n s) = readVal s := rfl
@[simp] theorem cur_cq (b n s) : cur (setCQ b n s) = cur s := rfl
@[simp] theorem keptArgOk_cq (b n s a) : keptArgOk (setCQ b n s) a = keptArgOk s a := rfl
@[simp] theorem cq_alive (b n s) : (setCQ b n s).alive = s.alive := rfl
@[simp] theorem cq_reader (b n s) : (setCQ b n s).reader = s.reader := rfl
@[simp] theorem cq_awaiting (b n s) : (setCQ b n s).awaiting = s.awaiting := rfl
@[simp] theorem cq_done (b n s) : (setCQ b n s).done = s.done := rfl
@[simp] theorem cq_exp (b n s) : (setCQ b n s).exp = s.exp := rfl
@[simp] theorem cq_ret (b n s) : (setCQ b n s).ret = s.ret := rfl
@[simp] theorem cq_caller (b n s) : (setCQ b n s).caller = s.caller := rfl
@[simp] theorem cq_ifn (b n s) : (setCQ b n s).ifn = s.ifn := rfl
@[simp] theorem cq_atAcc (b n s) : (setCQ b n s).atAcc = s.atAcc := rfl
@[simp] theorem cq_mode (b n s) : (setCQ b n s).mode = s.mode := rfl
@[simp] theorem cq_arg (b n s) : (setCQ b n s).arg = s.arg := rfl
@[simp] theorem cq_bst (b n s) : (setCQ b n s).bst = s.bst := rfl
@[simp] theorem cq_script (b n s) : (setCQ b n s).script = s.script := rfl
@[simp] theorem cq_resolved (b n s) : (setCQ b n s).resolved = s.resolved := rfl
@[simp] theorem cq_cons (b n s) : (setCQ b n s).cons = s.cons := rfl
@[simp] theorem cq_block (b n s) : (setCQ b n s).block = s.block := rfl
@[simp] theorem cq_kept (b n s) : (setCQ b n s).kept = s.kept := rfl
@[simp] theorem cq_kstate (b n s) : (setCQ b n s).kstate = s.kstate := rfl
@[simp] theorem cq_fut (b n s) : (setCQ b n s).fut = s.fut := rfl
@[simp] theorem cq_it (b n s) : (setCQ b n s).it = s.it := rfl
@[simp] theorem cq_coro (b n s) : (setCQ b n s).coro = b := rfl
@[simp] theorem cq_qinst (b n s) : (setCQ b n s).qinst = n := rfl

macro "isplit" : tactic => `(tactic| (split <;> (try simp only [*, ↓reduceIte, if_true, if_false, Bool.false_eq_true])))

/-- `f` does not look at the execution context / the queue count -/
def Blind (f : State → State) : Prop := ∀ s t, erase s = erase t → erase (f s) = erase (f t)
def Blind2 (f : State → State × Res) : Prop :=
  ∀ s t, erase s = erase t → erase (f s).1 = erase (f t).1 ∧ (f s).2 = (f t).2

theorem wakeReader_blind (i : Item) : Blind (wakeReader · i) := by
  intro s t h
  obtain ⟨b, n, rfl⟩ := exists_cq h; clear h
  simp only [wakeReader, cq_reader]
  cases s.reader with
  | none => rfl
  | some r => cases r <;> rfl

theorem unblockFuture_blind : Blind unblockFuture := by
  intro s t h
  obtain ⟨b, n, rfl⟩ := exists_cq h; clear h
  simp only [unblockFuture, cq_awaiting, cq_done, cq_exp, cq_ret, cur_cq]
  isplit
  · isplit
    · rfl
    · exact wakeReader_blind _ _ _ rfl
  · rfl

theorem deliver_blind : Blind deliver := by
  intro s t h
  obtain ⟨b, n, rfl⟩ := exists_cq h; clear h
  simp only [deliver, cq_caller, cq_ifn]
  cases s.caller with
  | none => rfl
  | awt => rfl
  | internal =>
    cases s.ifn with
    | null => rfl
    | sync => rfl
    | future => exact unblockFuture_blind _ _ rfl

theorem finish_blind (th : Bool) : Blind (finish · th) := by
  intro s t h
  obtain ⟨b, n, rfl⟩ := exists_cq h; clear h
  exact deliver_blind _ _ rfl

theorem yieldAt_blind (v : Nat) : Blind (yieldAt · v) := by
  intro s t h
  obtain ⟨b, n, rfl⟩ := exists_cq h; clear h
  exact deliver_blind _ _ rfl

theorem yieldAccAt_blind (v : Nat) : Blind (yieldAccAt · v) := by
  intro s t h
  obtain ⟨b, n, rfl⟩ := exists_cq h; clear h
  exact deliver_blind _ _ rfl

theorem seeAcc_blind : Blind seeAcc := by
  intro s t h
  obtain ⟨b, n, rfl⟩ := exists_cq h; clear h
  simp only [seeAcc, cq_atAcc]
  isplit <;> rfl

theorem recvArg_blind : Blind recvArg := by
  intro s t h
  obtain ⟨b, n, rfl⟩ := exists_cq h; clear h
  simp only [recvArg, cq_mode, cq_arg]
  isplit
  · cases s.arg <;> rfl
  · rfl

theorem exec_blind : ∀ (sc : List Act), Blind (exec sc)
  | [], s, t, h => by unfold exec; exact finish_blind false s t h
  | .yield v :: rest, s, t, h => by
      obtain ⟨b, n, rfl⟩ := exists_cq h; clear h
      unfold exec; exact yieldAt_blind v _ _ rfl
  | .yieldAcc c :: rest, s, t, h => by
      obtain ⟨b, n, rfl⟩ := exists_cq h; clear h
      unfold exec; exact yieldAccAt_blind c _ _ rfl
  | .yieldNull :: rest, s, t, h => by
      obtain ⟨b, n, rfl⟩ := exists_cq h; clear h
      unfold exec; exact exec_blind rest _ _ (recvArg_blind _ _ rfl)
  | .awaitReady :: rest, s, t, h => by
      obtain ⟨b, n, rfl⟩ := exists_cq h; clear h
      unfold exec; exact exec_blind rest _ _ rfl
  | .pause :: rest, s, t, h => by
      obtain ⟨b, n, rfl⟩ := exists_cq h; clear h
      unfold exec; exact exec_blind rest _ _ rfl
  | .await k :: rest, s, t, h => by
      obtain ⟨b, n, rfl⟩ := exists_cq h; clear h
      unfold exec
      simp only [cq_resolved]
      isplit
      · exact exec_blind rest _ _ rfl
      · rfl
  | .guard :: rest, s, t, h => by
      obtain ⟨b, n, rfl⟩ := exists_cq h; clear h
      unfold exec; exact exec_blind rest _ _ rfl
  | .throw :: rest, s, t, h => by unfold exec; exact finish_blind true s t h
  | .ret :: rest, s, t, h => by unfold exec; exact finish_blind false s t h

theorem resumeBody_blind : Blind resumeBody := by
  intro s t h
  obtain ⟨b, n, rfl⟩ := exists_cq h; clear h
  simp only [resumeBody, cq_bst, cq_script]
  cases s.bst with
  | init => exact exec_blind _ _ _ rfl
  | yield => exact exec_blind _ _ _ (seeAcc_blind _ _ (recvArg_blind _ _ rfl))
  | await k => exact exec_blind _ _ _ rfl
  | run => rfl
  | final => rfl

theorem resumeInQueue_blind : Blind resumeInQueue := by
  intro s t h
  obtain ⟨b, n, rfl⟩ := exists_cq h; clear h
  simp only [resumeInQueue, cq_coro, cq_qinst]
  cases s.coro <;> cases b <;> exact resumeBody_blind _ _ rfl


theorem setArg_blind (a : Nat) : Blind (setArg · a) := by
  intro s t h
  obtain ⟨b, n, rfl⟩ := exists_cq h; clear h
  simp only [setArg, cq_mode]
  isplit <;> rfl

theorem endSync_blind (kind : SyncKind) (x : Bool) : Blind2 (endSync · kind x) := by
  intro s t h
  obtain ⟨b, n, rfl⟩ := exists_cq h; clear h
  cases kind <;> exact ⟨rfl, by first | rfl | trivial⟩

theorem syncGo_blind (kind : SyncKind) : Blind2 (syncGo · kind) := by
  intro s t h
  obtain ⟨b, n, rfl⟩ := exists_cq h; clear h
  simp only [syncGo, cq_done, cq_bst]
  isplit
  · exact endSync_blind kind false _ _ rfl
  · isplit
    · exact ⟨rfl, by first | rfl | trivial⟩
    · exact ⟨resumeInQueue_blind _ _ rfl, by first | rfl | trivial⟩

/-- the common prologue of an access: the generator exists, no synchronous access is under way, `_caller` is null -/
theorem guarded_blind {f g : State → State × Res} (hf : Blind2 f)
    (hg : ∀ s, g s = if !s.alive then (s, .gone) else if inSync s then (s, .blocked)
      else if s.caller != .none then (s, .busy) else f s) : Blind2 g := by
  intro s t h
  obtain ⟨b, n, rfl⟩ := exists_cq h; clear h
  simp only [hg, cq_alive, inSync_cq, cq_caller]
  isplit
  · exact ⟨rfl, by first | rfl | trivial⟩
  · isplit
    · exact ⟨rfl, by first | rfl | trivial⟩
    · isplit
      · exact ⟨rfl, by first | rfl | trivial⟩
      · exact hf _ _ rfl

theorem stepSyncBegin_blind (kind : SyncKind) (a : Nat) : Blind2 (stepSyncBegin · kind a) :=
  guarded_blind (f := fun s => syncGo (setArg s a) kind)
    (fun s t h => syncGo_blind kind _ _ (setArg_blind a s t h)) (fun _ => rfl)

theorem stepSyncEnd_blind : Blind2 stepSyncEnd := by
  intro s t h
  obtain ⟨b, n, rfl⟩ := exists_cq h; clear h
  simp only [stepSyncEnd, cq_cons, cq_block, cq_done, cur_cq]
  cases s.cons with
  | idle => exact ⟨rfl, by first | rfl | trivial⟩
  | parked => exact ⟨rfl, by first | rfl | trivial⟩
  | inSync kind =>
    simp only []
    isplit
    · exact endSync_blind kind _ _ _ rfl
    · exact ⟨rfl, by first | rfl | trivial⟩

theorem stepValue_blind : Blind2 stepValue := by
  intro s t h
  obtain ⟨b, n, rfl⟩ := exists_cq h; clear h
  simp only [stepValue, cq_alive, inSync_cq, inflight_cq, readVal_cq]
  repeat (first | exact ⟨rfl, by first | rfl | trivial⟩ | isplit)

theorem stepActive_blind : Blind2 stepActive := by
  intro s t h
  obtain ⟨b, n, rfl⟩ := exists_cq h; clear h
  simp only [stepActive, cq_alive, inSync_cq, inflight_cq, cq_done]
  repeat (first | exact ⟨rfl, by first | rfl | trivial⟩ | isplit)

theorem anextGo_blind : Blind2 anextGo := by
  intro s t h
  obtain ⟨b, n, rfl⟩ := exists_cq h; clear h
  simp only [anextGo, cq_done, cq_bst]
  isplit
  · exact ⟨rfl, by first | rfl | trivial⟩
  · isplit
    · exact ⟨rfl, by first | rfl | trivial⟩
    · exact ⟨resumeBody_blind _ _ rfl, by first | rfl | trivial⟩

theorem stepAnext_blind (a : Nat) : Blind2 (stepAnext · a) :=
  guarded_blind (f := fun s => anextGo (setArg s a))
    (fun s t h => anextGo_blind _ _ (setArg_blind a s t h)) (fun _ => rfl)

theorem subGo_blind : Blind2 subGo := by
  intro s t h
  obtain ⟨b, n, rfl⟩ := exists_cq h; clear h
  simp only [subGo, cq_bst]
  isplit
  · exact ⟨rfl, by first | rfl | trivial⟩
  · exact ⟨resumeInQueue_blind _ _ rfl, by first | rfl | trivial⟩

theorem stepSub_blind (a : Nat) : Blind2 (stepSub · a) :=
  guarded_blind (f := fun s => subGo (setArg s a))
    (fun s t h => subGo_blind _ _ (setArg_blind a s t h)) (fun _ => rfl)

theorem stepKeep_blind (a : Nat) : Blind2 (stepKeep · a) :=
  guarded_blind (f := fun s => ({ setArg s a with kept := some a, kstate := false }, .unit))
    (fun s t h => by
      have h1 : erase (setArg s a) = erase (setArg t a) := setArg_blind a s t h
      obtain ⟨b, n, h2⟩ := exists_cq h1
      exact ⟨by dsimp only; rw [h2]; rfl, rfl⟩) (fun _ => rfl)

theorem stepKtest_blind : Blind2 stepKtest := by
  intro s t h
  obtain ⟨b, n, rfl⟩ := exists_cq h; clear h
  simp only [stepKtest, cq_alive, inSync_cq, cq_kept, cq_kstate, cq_caller, keptArgOk_cq]
  isplit
  · exact ⟨rfl, by first | rfl | trivial⟩
  · isplit
    · exact ⟨rfl, by first | rfl | trivial⟩
    · cases s.kept with
      | none => exact ⟨rfl, by first | rfl | trivial⟩
      | some a =>
        simp only []
        isplit
        · exact ⟨rfl, by first | rfl | trivial⟩
        · isplit
          · exact ⟨rfl, by first | rfl | trivial⟩
          · isplit
            · exact ⟨rfl, by first | rfl | trivial⟩
            · exact syncGo_blind .kept _ _ rfl

theorem kawaitGo_blind : Blind2 kawaitGo := by
  intro s t h
  obtain ⟨b, n, rfl⟩ := exists_cq h; clear h
  simp only [kawaitGo, cq_done, cq_bst]
  isplit
  · exact ⟨rfl, by first | rfl | trivial⟩
  · isplit
    · exact ⟨rfl, by first | rfl | trivial⟩
    · exact ⟨resumeBody_blind _ _ rfl, by first | rfl | trivial⟩

theorem stepKawait_blind : Blind2 stepKawait := by
  intro s t h
  obtain ⟨b, n, rfl⟩ := exists_cq h; clear h
  simp only [stepKawait, cq_alive, inSync_cq, cq_kept, cq_caller, keptArgOk_cq]
  isplit
  · exact ⟨rfl, by first | rfl | trivial⟩
  · isplit
    · exact ⟨rfl, by first | rfl | trivial⟩
    · cases s.kept with
      | none => exact ⟨rfl, by first | rfl | trivial⟩
      | some a =>
        simp only []
        isplit
        · exact ⟨rfl, by first | rfl | trivial⟩
        · isplit
          · exact ⟨rfl, by first | rfl | trivial⟩
          · exact kawaitGo_blind _ _ rfl

theorem futRes_blind : Blind2 futRes := by
  intro s t h
  obtain ⟨b, n, rfl⟩ := exists_cq h; clear h
  exact ⟨rfl, by first | rfl | trivial⟩

theorem callGo_blind : Blind2 callGo := by
  intro s t h
  obtain ⟨b, n, rfl⟩ := exists_cq h; clear h
  simp only [callGo, cq_bst]
  isplit
  · exact ⟨rfl, by first | rfl | trivial⟩
  · exact futRes_blind _ _ (resumeInQueue_blind _ _ rfl)

theorem stepCall_blind (a : Nat) : Blind2 (stepCall · a) :=
  guarded_blind (f := fun s => callGo (setArg s a))
    (fun s t h => callGo_blind _ _ (setArg_blind a s t h)) (fun _ => rfl)

theorem stepFutWait_blind : Blind2 stepFutWait := by
  intro s t h
  obtain ⟨b, n, rfl⟩ := exists_cq h; clear h
  simp only [stepFutWait, inSync_cq, cq_fut]
  isplit
  · exact ⟨rfl, by first | rfl | trivial⟩
  · cases s.fut <;> exact ⟨rfl, by first | rfl | trivial⟩

theorem stepFutGet_blind : Blind2 stepFutGet := by
  intro s t h
  obtain ⟨b, n, rfl⟩ := exists_cq h; clear h
  simp only [stepFutGet, inSync_cq, cq_fut]
  isplit
  · exact ⟨rfl, by first | rfl | trivial⟩
  · cases s.fut <;> exact ⟨rfl, by first | rfl | trivial⟩

theorem stepFutRead_blind (r : Reader) : Blind2 (stepFutRead · r) := by
  intro s t h
  obtain ⟨b, n, rfl⟩ := exists_cq h; clear h
  simp only [stepFutRead, inSync_cq, cq_fut, cq_reader]
  isplit
  · exact ⟨rfl, by first | rfl | trivial⟩
  · cases s.fut with
    | none => exact ⟨rfl, by first | rfl | trivial⟩
    | ready i => exact ⟨rfl, by first | rfl | trivial⟩
    | pending =>
      simp only []
      isplit <;> exact ⟨rfl, by first | rfl | trivial⟩

theorem stepComplete_blind (k : Nat) : Blind2 (stepComplete · k) := by
  intro s t h
  obtain ⟨b, n, rfl⟩ := exists_cq h; clear h
  simp only [stepComplete, cq_resolved, cq_alive, cq_bst]
  isplit
  · exact ⟨rfl, by first | rfl | trivial⟩
  · isplit
    · exact ⟨resumeBody_blind _ _ rfl, by first | rfl | trivial⟩
    · exact ⟨rfl, by first | rfl | trivial⟩

theorem stepDestroy_blind : Blind2 stepDestroy := by
  intro s t h
  obtain ⟨b, n, rfl⟩ := exists_cq h; clear h
  simp only [stepDestroy, cq_alive, inSync_cq, inflight_cq, cq_bst]
  isplit
  · exact ⟨rfl, by first | rfl | trivial⟩
  · isplit
    · exact ⟨rfl, by first | rfl | trivial⟩
    · isplit
      · exact ⟨rfl, by first | rfl | trivial⟩
      · cases s.bst <;> exact ⟨rfl, by first | rfl | trivial⟩

theorem stepItInc_blind : Blind2 stepItInc :=
  guarded_blind (f := fun s => if s.mode then (s, .na) else if s.it.isNone then (s, .noit) else syncGo (setArg s 0) .itInc)
    (fun s t h => by
      obtain ⟨b, n, rfl⟩ := exists_cq h; clear h
      simp only [cq_mode, cq_it]
      isplit
      · exact ⟨rfl, by first | rfl | trivial⟩
      · isplit
        · exact ⟨rfl, by first | rfl | trivial⟩
        · exact syncGo_blind _ _ _ (setArg_blind 0 _ _ rfl)) (fun _ => rfl)

theorem stepItBegin_blind : Blind2 stepItBegin :=
  guarded_blind (f := fun s => if s.mode then (s, .na) else syncGo (setArg s 0) .itBegin)
    (fun s t h => by
      obtain ⟨b, n, rfl⟩ := exists_cq h; clear h
      simp only [cq_mode]
      isplit
      · exact ⟨rfl, by first | rfl | trivial⟩
      · exact syncGo_blind _ _ _ (setArg_blind 0 _ _ rfl)) (fun _ => rfl)

theorem stepItPostInc_blind : Blind2 stepItPostInc :=
  guarded_blind (f := fun s => if s.mode then (s, .na) else if s.it.isNone then (s, .noit)
      else match readVal s with
        | .val v => syncGo (setArg s 0) (.itPost (.val v))
        | other => (s, .item other))
    (fun s t h => by
      obtain ⟨b, n, rfl⟩ := exists_cq h; clear h
      simp only [cq_mode, cq_it, readVal_cq]
      isplit
      · exact ⟨rfl, by first | rfl | trivial⟩
      · isplit
        · exact ⟨rfl, by first | rfl | trivial⟩
        · cases readVal s with
          | val v => exact syncGo_blind _ _ _ (setArg_blind 0 _ _ rfl)
          | _ => exact ⟨rfl, by first | rfl | trivial⟩) (fun _ => rfl)

theorem stepItDeref_blind : Blind2 stepItDeref := by
  intro s t h
  have hv := stepValue_blind s t h
  obtain ⟨b, n, rfl⟩ := exists_cq h; clear h
  simp only [stepItDeref, cq_alive, inSync_cq, cq_it] at hv ⊢
  isplit
  · exact ⟨rfl, by first | rfl | trivial⟩
  · isplit
    · exact ⟨rfl, by first | rfl | trivial⟩
    · isplit
      · exact ⟨rfl, by first | rfl | trivial⟩
      · first | exact hv | exact ⟨trivial, trivial⟩

theorem stepItIsEnd_blind : Blind2 stepItIsEnd := by
  intro s t h
  obtain ⟨b, n, rfl⟩ := exists_cq h; clear h
  simp only [stepItIsEnd, cq_alive, inSync_cq, cq_mode, cq_it]
  isplit
  · exact ⟨rfl, by first | rfl | trivial⟩
  · isplit
    · exact ⟨rfl, by first | rfl | trivial⟩
    · isplit
      · exact ⟨rfl, by first | rfl | trivial⟩
      · cases s.it <;> exact ⟨rfl, by first | rfl | trivial⟩

/-- no operation of the consumer other than `ctx` looks at the execution context or at the count of installed queues -/
theorem step_blind (op : Op) (hop : ∀ b, op ≠ .ctx b) : Blind2 (step · op) := by
  cases op with
  | syncBegin a => exact stepSyncBegin_blind .plain a
  | syncEnd => exact stepSyncEnd_blind
  | value => exact stepValue_blind
  | active => exact stepActive_blind
  | anext a => exact stepAnext_blind a
  | sub a => exact stepSub_blind a
  | keep a => exact stepKeep_blind a
  | ktest => exact stepKtest_blind
  | kawait => exact stepKawait_blind
  | call a => exact stepCall_blind a
  | futWait => exact stepFutWait_blind
  | futGet => exact stepFutGet_blind
  | futAwait => exact stepFutRead_blind _
  | futHas => exact stepFutRead_blind _
  | itBegin => exact stepItBegin_blind
  | itInc => exact stepItInc_blind
  | itDeref => exact stepItDeref_blind
  | itIsEnd => exact stepItIsEnd_blind
  | itPostInc => exact stepItPostInc_blind
  | itDrop =>
    intro s t h
    obtain ⟨b, n, rfl⟩ := exists_cq h; clear h
    exact ⟨rfl, by first | rfl | trivial⟩
  | complete k => exact stepComplete_blind k
  | destroy => exact stepDestroy_blind
  | ctx b => exact absurd rfl (hop b)

/-- operations that are not a change of execution context -/
def notCtx : Op → Bool
  | .ctx _ => false
  | _ => true

theorem run_blind (ops : List Op) : ∀ s t : State, erase s = erase t →
    erase (run s ops) = erase (run t (ops.filter notCtx)) := by
  induction ops with
  | nil => intro s t h; exact h
  | cons op rest ih =>
    intro s t h
    cases op with
    | ctx b => exact ih { s with coro := b } t h
    | _ =>
      simp only [List.filter, notCtx]
      exact ih _ _ (step_blind _ (by intro b hb; cases hb) s t h).1


/-- one operation (other than a change of context): the result and every other component of the state are those obtained by
ordinary code -/
theorem c13_context_transparent_step (s : State) (op : Op) (hop : ∀ b, op ≠ .ctx b) :
    erase (step s op).1 = erase (step (erase s) op).1 ∧ (step s op).2 = (step (erase s) op).2 :=
  step_blind op hop s (erase s) rfl

/-- **The execution context is transparent.** Whatever mix of execution contexts the consumer uses (`ctx` operations anywhere in
the list), every component of the final state other than the context itself and the count of installed queues — what was seen,
the events, the hand-over record, the body — is what the same operations give when issued by ordinary code throughout. -/
theorem c13_context_transparent (s : State) (ops : List Op) :
    erase (run s ops) = erase (run (erase s) (ops.filter notCtx)) :=
  run_blind ops s (erase s) rfl

/-- `notCtx` drops exactly the changes of context -/
theorem notCtx_eq : notCtx = fun o => match o with
    | .ctx _ => false
    | _ => true := by
  funext o; cases o <;> rfl

/-- the yielded variable across accesses in both contexts: a fresh value, then the accumulated 1, 12, 123, then the end; each
time the body was resumed from `co_yield acc` its variable held what it had yielded -/
example :
    (run (init false [.yield 7, .yieldAcc 1, .yieldAcc 2, .yieldAcc 3])
      [.call 0, .call 0, .value, .call 0, .ctx true, .call 0, .syncBegin 0, .syncEnd]).seen
      = [.val 7, .val 1, .val 12, .val 123, .fin] ∧
    (run (init false [.yield 7, .yieldAcc 1, .yieldAcc 2, .yieldAcc 3])
      [.call 0, .call 0, .value, .call 0, .ctx true, .call 0, .syncBegin 0, .syncEnd]).accLog
      = [(1, 1), (12, 12), (123, 123)] := by decide

/-- a synchronous access made from inside a coroutine is served within the call under the coroutine's own queue (none
installed); made by ordinary code, a queue is installed for the activation -/
example :
    (run (init false [.yield 1, .pause, .yieldAcc 2]) [.ctx true, .syncBegin 0]).block = true ∧
    (run (init false [.yield 1, .pause, .yieldAcc 2]) [.ctx true, .syncBegin 0]).qinst = 0 ∧
    (run (init false [.yield 1, .pause, .yieldAcc 2]) [.syncBegin 0]).block = true ∧
    (run (init false [.yield 1, .pause, .yieldAcc 2]) [.syncBegin 0]).qinst = 1 := by decide

/-! ### the hypotheses are satisfiable: concrete non-trivial runs (kernel-evaluated) -/

/-- a body that constructs a local, yields, waits for a pending operation, yields again and throws; the consumer mixes a
synchronous access (blocked until another thread completes operation 0), `co_await next()`, a call, and further accesses -/
example :
    (run (init false [.guard, .yield 1, .await 0, .yield 2, .throw])
      [.syncBegin 0, .syncEnd, .syncBegin 0, .syncEnd, .complete 0, .syncEnd, .anext 0, .call 0, .syncBegin 0]).seen
      = [.val 1, .val 2, .exc, .nomore, .nomore] := by decide

/-- `while (gen)`: true at a value, false once the body has returned, still true after an exception -/
example :
    (step (run (init false [.yield 1]) [.syncBegin 0, .syncEnd]) .active).2 = .active true ∧
    (step (run (init false [.yield 1]) [.syncBegin 0, .syncEnd, .syncBegin 0, .syncEnd]) .active).2 = .active false ∧
    (step (run (init false [.throw]) [.syncBegin 0, .syncEnd]) .active).2 = .active true := by decide

/-- the synchronous access is blocked while the body awaits operation 0 -/
example :
    (step (run (init false [.yield 1, .await 0, .yield 2]) [.syncBegin 0, .syncEnd, .syncBegin 0]) .syncEnd).2
      = .blocked := by decide

/-- arguments: `co_yield nullptr` on the first activation returns the first call's argument, every `co_yield v` the argument
of the call that resumed it -/
example :
    (run (init true [.yieldNull, .yield 1, .yield 2]) [.syncBegin 10, .syncEnd, .anext 11, .call 12]).gotLog
      = [(10, 10), (11, 11), (12, 12)] := by decide

/-- destroying a generator parked at a `co_yield` with two live locals destroys both, once -/
example :
    (run (init false [.guard, .guard, .yield 1, .yield 2]) [.syncBegin 0, .syncEnd, .destroy]).dtors = [0, 1] := by
  decide

/-- a callback consumer (`next(a).subscribe(&cb)`, re-armed each time the callback is called) over a body that awaits operation 0
between its yields: the second access is left pending inside the first notification and is served when operation 0 completes -/
example :
    (run (init true [.yield 1, .await 0, .yieldNull, .yield 2]) [.sub 10, .sub 11, .complete 0, .sub 12]).seen
      = [.val 1, .val 2, .fin] ∧
    (run (init true [.yield 1, .await 0, .yieldNull, .yield 2]) [.sub 10, .sub 11, .complete 0, .sub 12]).gotLog
      = [(11, 11), (11, 11), (12, 12)] := by decide

/-- **Witness of the `next_async` ordering quirk** (as-is code, generator.h:202-208): after the body's exception was
delivered, a `co_await next()` throws `no_more_values` but leaves `_caller` set, so the following access trips the
"Generator is busy" assert although nothing is outstanding. -/
theorem c13_next_async_stores_caller_before_throwing :
    let s := run (init false [.throw]) [.anext 0, .anext 0]
    s.seen = [.exc, .nomore] ∧ s.caller = .awt ∧ s.cons = .idle ∧ s.fut = .none ∧
      (step s (.syncBegin 0)).2 = .busy := by decide

/-- The pinned `it++` (before `/repo` commit 6a6ab43 "fix: generator_iterator::operator++(int) moved the current value out of the
generator body's own variable"; replayed on the headers in corpus/c13_postinc_moves_variable.txt): `generator_iterator::operator++(int)`
built its stored copy with `std::move(_gen->value())` - with a value type whose move empties the source it emptied the variable the
body had yielded as an lvalue. A body that keeps extending one variable (1, 12, 123) then delivers 1, 2, 3, and finds its variable
empty on every resumption (contradicting `c13_body_variable_untouched` and `c13_sequence`). The repaired `it++` copies: 1, 12, 123. -/
theorem c13_asis_postinc_empties_the_bodys_variable :
    (let s0 := run (init false [.yieldAcc 1, .yieldAcc 2, .yieldAcc 3]) [.itBegin, .syncEnd]
     let s1 := run (stepItPostIncAsIs s0).1 [.syncEnd]
     let s2 := run (stepItPostIncAsIs s1).1 [.syncEnd]
     s2.seen = [.val 1, .val 2, .val 3] ∧ s2.accLog = [(1, 0), (2, 0)]) ∧
    (let t := run (init false [.yieldAcc 1, .yieldAcc 2, .yieldAcc 3]) [.itBegin, .syncEnd, .itPostInc, .syncEnd, .itPostInc, .syncEnd]
     t.seen = [.val 1, .val 12, .val 123] ∧ t.accLog = [(1, 1), (12, 12)]) := by decide

end Cocls.Gen
