import CoclsModel.GeneratorProofs
import CoclsModel.GeneratorHandover
/-!
# C13 — generator: the consumer sees exactly the yielded sequence, in every access style

Model: `CoclsModel/Generator.lean` — the body is an arbitrary script (`co_yield v`, `co_yield nullptr`, `co_await` of ready or
pending operations, locals with destructors, `throw`, `co_return`), the consumer an arbitrary list of operations in every
access style (`bool(next())` split at its blocking point, `value()`, `co_await next()`, `gen()` + `wait` / `co_await` /
`has_value`, iterators, `complete k` on any thread, `destroy`).  Every theorem quantifies over **all** scripts, both generator
types (with / without argument) and **all** operation lists (`Reachable`); an interleaving of the consumer thread with the
threads that complete awaited operations is such a list.

`s.seen` is the chronological list of what the consumer's accesses delivered (one entry per completed access, whatever its
style); `yields sc` / `ending sc` are read off the script.
-/
namespace Cocls.Gen

/-- every state the generator can be in: any script, any operation list -/
def Reachable (mode : Bool) (sc : List Act) (s : State) : Prop := ∃ ops, s = run (init mode sc) ops

theorem reachable_inv {mode : Bool} {sc : List Act} {s : State} (h : Reachable mode sc s) : Inv s := by
  obtain ⟨ops, rfl⟩ := h
  exact inv_run _ ops (inv_init mode sc)

theorem reachable_konst {mode : Bool} {sc : List Act} {s : State} (h : Reachable mode sc s) :
    s.script0 = sc ∧ s.mode = mode := by
  obtain ⟨ops, rfl⟩ := h
  have := konst_run (init mode sc) ops
  simp only [konst, Prod.mk.injEq] at this
  exact ⟨this.1, this.2⟩

theorem reachable_not_run {mode : Bool} {sc : List Act} {s : State} (h : Reachable mode sc s) : s.bst ≠ .run := by
  obtain ⟨ops, rfl⟩ := h
  exact run_not_run _ ops (by simp [init])

theorem reachable_step {mode : Bool} {sc : List Act} {s : State} (h : Reachable mode sc s) (op : Op) :
    Reachable mode sc (step s op).1 := by
  obtain ⟨ops, rfl⟩ := h
  exact ⟨ops ++ [op], by simp [run, List.foldl_append]⟩

/-- what the body itself hands over (`s.obs`) is a prefix of its sequence — `expected sc` = the yielded values, then the exception /
the end: no value skipped, repeated or reordered at the hand-over, the ending handed over at most once -/
theorem c13_handed_over_prefix {mode : Bool} {sc : List Act} {s : State} (h : Reachable mode sc s) : s.obs <+: expected sc := by
  have hi := reachable_inv h
  have hk := (reachable_konst h).1
  by_cases hf : s.bst = .final
  · exact ⟨pend s, by rw [hi.seq_fin hf, hk]⟩
  · exact ⟨pend s ++ expected s.script, by rw [← List.append_assoc, hi.seq_run hf, hk]⟩

/-- **Sequence.** For every script and every operation list mixing the access styles, what the consumer has observed so far
is a prefix of: the yielded values in order (none skipped, none repeated), then the body's own ending (exception or end marker),
then end-of-sequence indications only. One entry per completed access, so each access advances by exactly one. -/
theorem c13_sequence {mode : Bool} {sc : List Act} {s : State} (h : Reachable mode sc s) :
    ∃ ends, (∀ e ∈ ends, e = Item.fin ∨ e = Item.nomore) ∧
      s.seen <+: (yields sc).map Item.val ++ [ending sc] ++ ends := by
  have hi := reachable_inv h
  have hk := (reachable_konst h).1
  by_cases hp : s.post = []
  · refine ⟨[], by simp, ?_⟩
    rw [hi.seen_eq, hp, List.append_nil, List.append_nil]
    exact c13_handed_over_prefix h
  · refine ⟨s.post, hi.post_end, ?_⟩
    have hf := hi.post_fin hp
    have hns : inSync s = false := by
      cases hs : inSync s with
      | false => rfl
      | true => exact absurd (hi.sync_post hs) hp
    have hpe : pend s = [] := by simp [pend, hns]
    have := hi.seq_fin hf
    rw [hpe, List.append_nil, hk] at this
    rw [hi.seen_eq, this]
    exact List.prefix_refl _

/-- **Sequence, position by position**: the i-th completed access (counting from 0, in whatever style) delivered the i-th
yielded value; the access after the last value delivered the body's ending; every later access an end indication. -/
theorem c13_positions {mode : Bool} {sc : List Act} {s : State} (h : Reachable mode sc s) (i : Nat)
    (hi : i < s.seen.length) :
    (i < (yields sc).length → s.seen[i]? = ((yields sc)[i]?).map Item.val) ∧
    (i = (yields sc).length → s.seen[i]? = some (ending sc)) ∧
    ((yields sc).length < i → s.seen[i]? = some Item.fin ∨ s.seen[i]? = some Item.nomore) := by
  obtain ⟨ends, hends, t, ht⟩ := c13_sequence h
  have hget : s.seen[i]? = ((yields sc).map Item.val ++ [ending sc] ++ ends)[i]? := by
    rw [← ht, List.getElem?_append_left hi]
  have hl : ((yields sc).map Item.val).length = (yields sc).length := List.length_map _
  refine ⟨fun h1 => ?_, fun h1 => ?_, fun h1 => ?_⟩
  · rw [hget, List.append_assoc, List.getElem?_append_left (by rw [hl]; exact h1), List.getElem?_map]
  · rw [hget, List.append_assoc, List.getElem?_append_right (by rw [hl]; omega), hl, h1]
    simp
  · rw [List.append_assoc, List.getElem?_append_right (by rw [hl]; omega), hl,
      List.getElem?_append_right (by simp; omega)] at hget
    have hlt : i - (yields sc).length - [ending sc].length < ends.length := by
      have : s.seen.length ≤ ((yields sc).map Item.val ++ [ending sc] ++ ends).length := by
        rw [← ht]; simp
      simp at this ⊢; omega
    have hmem := hends _ (List.getElem_mem hlt)
    rw [hget, List.getElem?_eq_getElem hlt]
    rcases hmem with hm | hm
    · exact Or.inl (congrArg some hm)
    · exact Or.inr (congrArg some hm)

/-- **End, once.** The body hands over its ending exactly once (`s.obs`, the part of `seen` handed over by the body, is a prefix
of values ++ [ending], so the ending cannot be preceded by a missing value nor repeated); an access is answered *without
resuming the body* only after that complete sequence was delivered, and such answers are end indications —
`no_more_values` only, if the body ended with an exception. -/
theorem c13_end_once {mode : Bool} {sc : List Act} {s : State} (h : Reachable mode sc s) :
    s.seen = s.obs ++ s.post ∧ s.obs <+: (yields sc).map Item.val ++ [ending sc] ∧
    (s.post ≠ [] → s.obs = (yields sc).map Item.val ++ [ending sc]) ∧
    (∀ e ∈ s.post, e = Item.fin ∨ e = Item.nomore) ∧
    (s.exp = true → ∀ e ∈ s.post, e = Item.nomore) := by
  have hi := reachable_inv h
  have hk := (reachable_konst h).1
  refine ⟨hi.seen_eq, c13_handed_over_prefix h, fun hp => ?_, hi.post_end, hi.post_exc⟩
  have hf := hi.post_fin hp
  have hns : inSync s = false := by
    cases hs : inSync s with
    | false => rfl
    | true => exact absurd (hi.sync_post hs) hp
  have hpe : pend s = [] := by simp [pend, hns]
  have := hi.seq_fin hf
  rw [hpe, List.append_nil, hk] at this
  exact this

/-- **Exception position.** If an exception escapes the body, the consumer meets it at exactly the position after the last
yielded value — never earlier, never later, never twice — whatever the access styles. -/
theorem c13_exception_position {mode : Bool} {sc : List Act} {s : State} (h : Reachable mode sc s)
    (hexc : ending sc = Item.exc) (i : Nat) (hi : i < s.seen.length) :
    s.seen[i]? = some Item.exc ↔ i = (yields sc).length := by
  obtain ⟨h1, h2, h3⟩ := c13_positions h i hi
  constructor
  · intro he
    rcases Nat.lt_trichotomy i (yields sc).length with hlt | heq | hgt
    · have := h1 hlt
      rw [he] at this
      cases hy : (yields sc)[i]? <;> simp [hy] at this
    · exact heq
    · rcases h3 hgt with h4 | h4 <;> rw [he] at h4 <;> simp at h4
  · intro he
    rw [h2 he, hexc]

/-- the flags the consumer reads agree with the script: a finished body has `_done` set iff it ended regularly and `_exp` set iff
an exception escaped; a body that has not finished has neither — so `value()` rethrows exactly from the exception position on -/
theorem c13_exception_flag {mode : Bool} {sc : List Act} {s : State} (h : Reachable mode sc s) :
    (s.bst ≠ .final → s.done = false ∧ s.exp = false) ∧ (s.bst = .final → s.done = !s.exp) ∧
    (s.exp = true → readVal s = Item.exc) := by
  have hi := reachable_inv h
  exact ⟨hi.flags_run, hi.flags_fin, fun he => by simp [readVal, he]⟩

/-- **Argument.** Whenever the body receives an argument — as the result of the `co_yield` it is resumed from, or of
`co_yield nullptr` (on its first activation or later) — it is exactly the argument of the call that resumed it (the most recent
access); and no null `_arg` / `_caller` / `_ret` is ever dereferenced. -/
theorem c13_argument {mode : Bool} {sc : List Act} {s : State} (h : Reachable mode sc s) :
    (∀ p ∈ s.gotLog, p.1 = p.2) ∧ s.ub = false :=
  ⟨(reachable_inv h).got_ok, (reachable_inv h).noub⟩

/-- while the body is inside an access (parked on an awaited operation), `*_arg` still is the argument of that access -/
theorem c13_argument_kept {mode : Bool} {sc : List Act} {s : State} (h : Reachable mode sc s) (k : Nat)
    (hm : s.mode = true) (hb : s.bst = .await k) : s.arg = some s.lastArg :=
  (reachable_inv h).arg_ok hm (by simp [midAccess_eq, hb])

/-- **Asynchronous body, no lost wake-up.** A synchronous access stays blocked (`_block` false), a consumer coroutine stays
parked, a future stays pending **only while** the body is parked on an awaited operation that has not completed … -/
theorem c13_waits_only_for_awaited {mode : Bool} {sc : List Act} {s : State} (h : Reachable mode sc s)
    (hw : (inSync s = true ∧ s.block = false) ∨ s.cons = .parked ∨ s.fut = .pending) :
    ∃ k, s.bst = .await k ∧ k ∉ s.resolved := by
  have hi := reachable_inv h
  have hnr := reachable_not_run h
  have hm : midAccess s = true := by
    cases hm : midAccess s with
    | true => rfl
    | false =>
        have := hi.c_none hm
        rcases hw with ⟨h1, h2⟩ | h1 | h1
        · have := this.2.2 h1; simp [h2] at this
        · exact absurd h1 this.1
        · exact absurd h1 this.2.1
  rw [midAccess_eq] at hm
  cases hb : s.bst with
  | await k => exact ⟨k, rfl, hi.await_unres k hb⟩
  | run => exact absurd hb hnr
  | init => simp [hb] at hm
  | yield => simp [hb] at hm
  | final => simp [hb] at hm

/-- … and conversely the body is parked on an awaited operation only while exactly one consumer access waits for it
(`_caller` designates it): the blocked synchronous access, the parked coroutine, or the pending future. -/
theorem c13_awaiting_body_has_a_waiter {mode : Bool} {sc : List Act} {s : State} (h : Reachable mode sc s) (k : Nat)
    (hb : s.bst = .await k) :
    (s.caller = .internal ∧ s.ifn = .sync ∧ inSync s = true ∧ s.block = false) ∨
    (s.caller = .awt ∧ s.cons = .parked) ∨
    (s.caller = .internal ∧ s.ifn = .future ∧ s.awaiting = true ∧ s.fut = .pending) := by
  have hi := reachable_inv h
  have hcn : s.caller ≠ .none := hi.busy_iff.mpr (Or.inl (by simp [midAccess_eq, hb]))
  have hst : s.stuck = false := by
    cases hs : s.stuck with
    | false => rfl
    | true => have := (hi.stuck_fin hs).1; simp [hb] at this
  cases hc : s.caller with
  | none => exact absurd hc hcn
  | awt => exact Or.inr (Or.inl ⟨rfl, (hi.c_awt hc hst).1⟩)
  | internal =>
      rcases hi.c_int hc with ⟨a, b, c, _⟩ | ⟨a, b, c, _⟩
      · exact Or.inl ⟨rfl, a, b, c⟩
      · exact Or.inr (Or.inr ⟨rfl, a, b, c⟩)

/-- **Asynchronous body** (summary of the two theorems above; the sequence theorems hold for these scripts and schedules like for
any other): an access is outstanding — the synchronous caller blocked in `_block.wait`, the consumer coroutine parked, the future
pending — **iff** the body is parked on an awaited operation, and that operation has not completed. -/
theorem c13_async_body {mode : Bool} {sc : List Act} {s : State} (h : Reachable mode sc s) :
    (((inSync s = true ∧ s.block = false) ∨ s.cons = .parked ∨ s.fut = .pending) ↔ ∃ k, s.bst = .await k) ∧
    (∀ k, s.bst = .await k → k ∉ s.resolved) := by
  refine ⟨⟨fun hw => ?_, fun ⟨k, hk⟩ => ?_⟩, (reachable_inv h).await_unres⟩
  · obtain ⟨k, hk, _⟩ := c13_waits_only_for_awaited h hw
    exact ⟨k, hk⟩
  · rcases c13_awaiting_body_has_a_waiter h k hk with ⟨_, _, a, b⟩ | ⟨_, a⟩ | ⟨_, _, _, a⟩
    · exact Or.inl ⟨a, b⟩
    · exact Or.inr (Or.inl a)
    · exact Or.inr (Or.inr a)

/-- **Asynchronous body, progress.** Completing the operation the body waits for (on any thread) resumes it; afterwards it has
finished, or is parked at a `co_yield`, or waits for another operation — with a strictly shorter rest of the script (so finitely
many completions serve the access); and at a `co_yield` / at the end nobody is left waiting (`c13_served_when_parked`). -/
theorem c13_complete_progress {mode : Bool} {sc : List Act} {s : State} (h : Reachable mode sc s) (k : Nat)
    (hb : s.bst = .await k) :
    ((step s (.complete k)).1.bst = .final ∨ (step s (.complete k)).1.script.length < s.script.length) ∧
    ((step s (.complete k)).1.bst = .final ∨ (step s (.complete k)).1.bst = .yield ∨
      ∃ k', (step s (.complete k)).1.bst = .await k') := by
  have hi := reachable_inv h
  have hal : s.alive = true := by
    cases ha : s.alive with
    | true => rfl
    | false => have := (hi.live_dead ha).2; simp [midAccess_eq, hb] at this
  have hk := hi.await_unres k hb
  have : (step s (.complete k)).1 = exec s.script { s with resolved := k :: s.resolved, bst := .run } := by
    simp [step, stepComplete, hk, hal, hb, resumeBody]
  rw [this]
  exact exec_pos _ _

/-- when the body is parked at a `co_yield` or has finished, every access has been served: nobody is blocked, parked or pending -/
theorem c13_served_when_parked {mode : Bool} {sc : List Act} {s : State} (h : Reachable mode sc s)
    (hb : s.bst = .yield ∨ s.bst = .final ∨ s.bst = .init) :
    s.cons ≠ .parked ∧ s.fut ≠ .pending ∧ (inSync s = true → s.block = true) := by
  apply (reachable_inv h).c_none
  rw [midAccess_eq]
  rcases hb with hb | hb | hb <;> simp [hb]

/-- `value()` re-reads exactly what the last access delivered: parked at a `co_yield`, with no synchronous access in flight,
`value()` is the value delivered last -/
theorem c13_value_rereads_last {mode : Bool} {sc : List Act} {s : State} (h : Reachable mode sc s)
    (hy : s.bst = .yield) (hns : inSync s = false) :
    ∃ v, readVal s = Item.val v ∧ s.obs.getLast? = some (Item.val v) := by
  have hi := reachable_inv h
  have hfl := hi.flags_run (by simp [hy])
  obtain ⟨h1, h2⟩ := hi.ret_yield hy
  have hpe : pend s = [] := by simp [pend, hns]
  rw [hpe, List.append_nil] at h2
  cases hr : s.ret with
  | none => exact absurd hr h1
  | some v => exact ⟨v, by simp [readVal, hfl.2, hr], by rw [h2, hr]; rfl⟩

/-- what a synchronous access returns is what was logged: when `bool(next())` (or `begin()` / `++it`) returns `b`, exactly one
item was appended to `seen`; `b` is true iff that item is not the end marker, and then `value()` reads that very item -/
theorem c13_sync_result_logged (s : State) (b : Bool) (hr : (step s .syncEnd).2 = .next b) :
    ∃ i, (step s .syncEnd).1.seen = s.seen ++ [i] ∧ (b = true ↔ i ≠ Item.fin) ∧ (b = true → i = readVal s) := by
  have hrv : readVal s ≠ Item.fin := by
    unfold readVal; split
    · simp
    · split <;> simp
  simp only [step, stepSyncEnd] at hr ⊢
  cases hc : s.cons with
  | idle => simp [hc] at hr
  | parked => simp [hc] at hr
  | inSync kind =>
      simp only [hc] at hr ⊢
      cases hb : s.block with
      | false => simp [hb] at hr
      | true =>
          simp only [hb, if_true] at hr ⊢
          refine ⟨cur s, ?_, ?_, ?_⟩
          · cases kind <;> rfl
          · cases kind <;> simp [endSync] at hr <;> (cases b <;> simp [cur, hr, hrv])
          · cases kind <;> simp [endSync] at hr <;> (cases b <;> simp [cur, hr])

/-- **`while (gen)`** — `generator::operator bool` (`!done()`): it reads false exactly when the body has ended regularly, and then the
complete sequence including the end marker has been handed over — so a consumer looping on it never stops early. After an
exception it stays true (`_done` is only set by `return_void`); the next access then reports the end (`c13_end_once`). -/
theorem c13_operator_bool {mode : Bool} {sc : List Act} {s : State} (h : Reachable mode sc s) (b : Bool)
    (hr : (step s .active).2 = .active b) :
    (b = false ↔ (s.bst = .final ∧ s.exp = false)) ∧
    (b = false → s.obs ++ pend s = (yields sc).map Item.val ++ [ending sc]) := by
  have hi := reachable_inv h
  have hk := (reachable_konst h).1
  have hb : b = !s.done := by
    simp only [step, stepActive] at hr
    by_cases h1 : s.alive = true <;> by_cases h2 : inSync s = true <;> by_cases h3 : inflight s = true <;>
      simp [h1, h2, h3] at hr
    cases b <;> cases hd : s.done <;> simp_all
  have hdf : s.done = true ↔ (s.bst = .final ∧ s.exp = false) := by
    constructor
    · intro hd
      have hf : s.bst = .final := by
        cases hbs : s.bst <;> first | rfl | (have := (hi.flags_run (by simp [hbs])).1; simp [hd] at this)
      have hff := hi.flags_fin hf
      rw [hd] at hff
      refine ⟨hf, ?_⟩
      cases he : s.exp
      · rfl
      · rw [he] at hff; exact absurd hff (by decide)
    · rintro ⟨hf, he⟩
      have := hi.flags_fin hf
      simpa [he] using this
  constructor
  · rw [hb]; cases hd : s.done <;> simp_all
  · intro hbf
    have hd : s.done = true := by rw [hb] at hbf; cases hd : s.done <;> simp_all
    have := hi.seq_fin (hdf.mp hd).1
    rw [this, hk]; rfl

/-- **Kept `next()` object.** Once a consultation of a kept `auto n = gen.next(a)` has answered true (`_state`), every further
truth test `bool(n)` / `!n` of the same object is **not a step of the generator**: it answers true and leaves the whole state —
hence the sequence position, the body, the hand-over record — unchanged, for any number of re-consultations. (Only `co_await n`
does not look at `_state`: it always is a fresh access, and so is a truth test of an object that has not answered true yet.) -/
theorem c13_kept_reconsult_no_step (s : State) (hk : s.kept ≠ none) (hal : s.alive = true) (hns : inSync s = false)
    (hst : s.kstate = true) (n : Nat) :
    run s (List.replicate n .ktest) = s ∧ (step s .ktest).2 = .next true := by
  have hstep : step s .ktest = (s, .next true) := by
    simp only [step, stepKtest]
    cases hkk : s.kept with
    | none => exact absurd hkk hk
    | some a => simp [hal, hns, hst]
  refine ⟨?_, by rw [hstep]⟩
  induction n with
  | zero => rfl
  | succ k ih =>
      rw [List.replicate_succ]
      simp only [run, List.foldl_cons, hstep]
      exact ih

/-- the flag of the kept object is set only by a consultation that was served with an item (a value or the body's exception): a
truth test that finds the kept object "true" re-reads an access that really happened -/
example :
    let s := run (init false [.yield 1, .yield 2, .yield 3]) [.keep 0, .ktest, .syncEnd, .ktest, .ktest, .kawait, .ktest]
    s.seen = [.val 1, .val 2] ∧ s.kstate = true := by decide

/-- **Locals destroyed exactly once.** At any time every guard constructed by the body is either still in scope or was
destroyed exactly once — never twice, never lost; a finished body has none in scope. -/
theorem c13_guards_once {mode : Bool} {sc : List Act} {s : State} (h : Reachable mode sc s) (g : Nat) :
    s.dtors.count g + s.live.count g = (if g < s.made then 1 else 0) ∧ s.dtors.count g ≤ 1 ∧
    (s.bst = .final → s.live = []) := by
  have hi := reachable_inv h
  have := hi.guards g
  refine ⟨this, ?_, hi.live_fin⟩
  split at this <;> omega

/-- **Destroying a parked generator** (at a `co_yield`, before its first activation, or finished) destroys each of its locals
exactly once: afterwards every guard ever constructed has been destroyed once, none is left, and whatever the consumer still
does (reading futures, stray operations), nothing is destroyed again. -/
theorem c13_destroy_parked {mode : Bool} {sc : List Act} {s : State} (h : Reachable mode sc s)
    (hd : (step s .destroy).2 = .destroyed) (ops : List Op) (g : Nat) :
    (step s .destroy).1.alive = false ∧ (step s .destroy).1.live = [] ∧
    (step s .destroy).1.dtors.count g = (if g < (step s .destroy).1.made then 1 else 0) ∧
    (run (step s .destroy).1 ops).dtors.count g ≤ 1 := by
  have hr' := reachable_step h .destroy
  have hi' := reachable_inv hr'
  have hal : (step s .destroy).1.alive = false := destroyed_dead s hd
  have hl := (hi'.live_dead hal).1
  have hg := hi'.guards g
  rw [hl] at hg
  refine ⟨hal, hl, by simpa using hg, ?_⟩
  have hr'' : Reachable mode sc (run (step s .destroy).1 ops) := by
    obtain ⟨ops0, h0⟩ := hr'
    exact ⟨ops0 ++ ops, by rw [h0]; simp [run, List.foldl_append]⟩
  exact (c13_guards_once hr'' g).2.1

/-- **When is the generator "busy"?** `_caller` is non-null (the assert of next_sync / next_async / next_future fires)
exactly while the body is parked on an awaited operation inside an access — or after `next_async` (`co_await next()` on a generator
that ended with an exception, `next().subscribe()` on any finished generator) threw `no_more_values`: it stores `_caller`
*before* it throws (see the witness below). That access is answered without resuming the body, i.e. it comes after the complete
sequence and its ending were delivered (`c13_end_once`) — beyond what the property speaks about. -/
theorem c13_busy_iff {mode : Bool} {sc : List Act} {s : State} (h : Reachable mode sc s) :
    (s.caller ≠ .none ↔ ((∃ k, s.bst = .await k) ∨ s.stuck = true)) ∧
    (s.stuck = true → s.bst = .final ∧ s.post ≠ []) := by
  have hi := reachable_inv h
  have hnr := reachable_not_run h
  constructor
  · rw [hi.busy_iff, midAccess_eq]
    constructor
    · rintro (hm | hs)
      · cases hb : s.bst with
        | await k => exact Or.inl ⟨k, rfl⟩
        | run => exact absurd hb hnr
        | init => simp [hb] at hm
        | yield => simp [hb] at hm
        | final => simp [hb] at hm
      · exact Or.inr hs
    · rintro (⟨k, hk⟩ | hs)
      · exact Or.inl (by simp [hk])
      · exact Or.inr hs
  · intro hs
    have := hi.stuck_fin hs
    exact ⟨this.1, this.2.2⟩

/-! ### the hand-over at a `co_yield` between two threads (micro-steps, `CoclsModel/GeneratorHandover.lean`)

The theorems above treat one operation as one step. That is sound for the threads involved because the thread that runs the body
up to a `co_yield` (it completed the awaited operation) writes nothing to the hand-over record after it has notified the
consumer — so the consumer's next access (from its own thread, or re-entrantly from inside the notification) never overlaps
with it. -/

/-- **Notify last.** In every interleaving of the yielding thread (`_arg = nullptr; caller = exchange(_caller, nullptr);
caller->resume()`) with the consumer's next access (`set_arg; assert(_caller == nullptr); _caller = &_internal; h.resume()`,
enabled as soon as the consumer is notified): the assert holds, the body reads the new access's argument, and the new caller
slot is still set when the body runs on. -/
theorem c13_yield_notifies_last {s : Handover.HS} (h : Handover.Reach Handover.asIs s) (hdone : s.pcA = 4) :
    s.assertOk = true ∧ s.got = some .new ∧ s.callerAtResume = some true :=
  Handover.chain_ok s (Handover.reach_chain h) hdone

/-- the order matters — witness for "notify first, clear afterwards": an interleaving in which the consumer's next access trips the
"Generator is busy" assert, and one in which it passes the assert but its argument is wiped before the body reads it (a null
reference) -/
theorem c13_late_clear_breaks :
    (∃ s, Handover.Reach Handover.late s ∧ s.pcA = 4 ∧ s.assertOk = false) ∧
    (∃ s, Handover.Reach Handover.late s ∧ s.pcA = 4 ∧ s.assertOk = true ∧ s.got = some .null) := by
  open Handover in
  constructor
  · -- B: notify; A: set_arg, assert (fires: _caller not yet cleared), ...
    let s1 := stepB late Handover.init
    let s2 := stepA s1
    let s3 := stepA s2
    let s4 := stepA s3
    let s5 := stepA s4
    have r1 : Reach late s1 := Reach.step Reach.init (by decide)
    have r2 : Reach late s2 := Reach.step r1 (by decide)
    have r3 : Reach late s3 := Reach.step r2 (by decide)
    have r4 : Reach late s4 := Reach.step r3 (by decide)
    have r5 : Reach late s5 := Reach.step r4 (by decide)
    exact ⟨s5, r5, by decide, by decide⟩
  · -- B clears _caller before A's assert, but _arg only after A's set_arg
    let s1 := stepB late Handover.init      -- notify
    let s2 := stepA s1             -- set_arg
    let s3 := stepB late s2        -- _caller = nullptr
    let s4 := stepA s3             -- assert passes
    let s5 := stepA s4             -- _caller = &_internal
    let s6 := stepB late s5        -- _arg = nullptr  (wipes the new argument)
    have r1 : Reach late s1 := Reach.step Reach.init (by decide)
    have r2 : Reach late s2 := Reach.step r1 (by decide)
    have r3 : Reach late s3 := Reach.step r2 (by decide)
    have r4 : Reach late s4 := Reach.step r3 (by decide)
    have r5 : Reach late s5 := Reach.step r4 (by decide)
    have r6 : Reach late s6 := Reach.step r5 (by decide)
    have r7 : Reach late (stepA s6) := Reach.step r6 (by decide)
    exact ⟨stepA s6, r7, by decide, by decide, by decide⟩

/-! ### `co_await pause()` between yields

The body scripts every theorem above quantifies over include `Act.pause` (`co_await cocls::pause()`, an awaitable that is never
ready and resumes the body through its thread's coroutine queue).  For the consumer it is invisible: -/

/-- a `pause` anywhere in the body changes neither what the consumer must see nor what the body does next: the sequence, end
and exception position of `c13_sequence` / `c13_positions` / `c13_end_once` are those of the body without it.  (The pinned
code ran a body that is read by ordinary code without a coroutine queue, where `pause` dereferences a null pointer:
`c13_asis_pause_without_queue`, `/repo` commit 191263e.) -/
theorem c13_pause_is_transparent (a b : List Act) :
    expected (a ++ Act.pause :: b) = expected (a ++ b)
    ∧ ∀ s : State, exec (Act.pause :: b) s = exec b { s with script := b } := by
  refine ⟨?_, fun s => by simp [exec]⟩
  induction a with
  | nil => simp
  | cons x a ih =>
    cases x <;> simp_all [expected, yields, ending]

/-- The pinned synchronous access (before `/repo` commit 191263e "fix: synchronous and future access to a generator ran its body
without a coroutine queue"; replayed on the headers in corpus/c13_pause_in_body.txt): `bool(gen.next())` from ordinary code on a
body that pauses before its first / between its first and second `co_yield` dereferences the null `coro_queue::instance`
(`ub`, contradicting `c13_argument`'s `s.ub = false`): the consumer never sees the value.  The repaired access installs a
queue: the consumer sees 1, 2, end. -/
theorem c13_asis_pause_without_queue :
    (stepSyncBeginAsIs (init false [.pause, .yield 1]) .plain 0).1.ub = true
    ∧ (stepSyncBeginAsIs (init false [.yield 1, .pause, .yield 2]) .plain 0).1.ub = false
    ∧ (stepSyncBeginAsIs (run (init false [.yield 1, .pause, .yield 2]) [.syncBegin 0, .syncEnd]) .plain 0).1.ub = true
    ∧ (run (init false [.yield 1, .pause, .yield 2]) [.syncBegin 0, .syncEnd, .syncBegin 0, .syncEnd, .syncBegin 0, .syncEnd]).seen
        = [.val 1, .val 2, .fin]
    ∧ (run (init false [.yield 1, .pause, .yield 2]) [.syncBegin 0, .syncEnd, .syncBegin 0, .syncEnd, .syncBegin 0, .syncEnd]).ub
        = false := by decide

/-! ### the hypotheses are satisfiable: concrete non-trivial runs (kernel-evaluated) -/

/-- a body that constructs a local, yields, waits for a pending operation, yields again and throws; the consumer mixes a
synchronous access (blocked until another thread completes operation 0), `co_await next()`, a call, and further accesses -/
example :
    (run (init false [.guard, .yield 1, .await 0, .yield 2, .throw])
      [.syncBegin 0, .syncEnd, .syncBegin 0, .syncEnd, .complete 0, .syncEnd, .anext 0, .call 0, .syncBegin 0]).seen
      = [.val 1, .val 2, .exc, .nomore, .nomore] := by decide

/-- `while (gen)`: true at a value, false once the body has returned, still true after an exception -/
example :
    (step (run (init false [.yield 1]) [.syncBegin 0, .syncEnd]) .active).2 = .active true ∧
    (step (run (init false [.yield 1]) [.syncBegin 0, .syncEnd, .syncBegin 0, .syncEnd]) .active).2 = .active false ∧
    (step (run (init false [.throw]) [.syncBegin 0, .syncEnd]) .active).2 = .active true := by decide

/-- the synchronous access is blocked while the body awaits operation 0 -/
example :
    (step (run (init false [.yield 1, .await 0, .yield 2]) [.syncBegin 0, .syncEnd, .syncBegin 0]) .syncEnd).2
      = .blocked := by decide

/-- arguments: `co_yield nullptr` on the first activation returns the first call's argument, every `co_yield v` the argument
of the call that resumed it -/
example :
    (run (init true [.yieldNull, .yield 1, .yield 2]) [.syncBegin 10, .syncEnd, .anext 11, .call 12]).gotLog
      = [(10, 10), (11, 11), (12, 12)] := by decide

/-- destroying a generator parked at a `co_yield` with two live locals destroys both, once -/
example :
    (run (init false [.guard, .guard, .yield 1, .yield 2]) [.syncBegin 0, .syncEnd, .destroy]).dtors = [0, 1] := by
  decide

/-- a callback consumer (`next(a).subscribe(&cb)`, re-armed each time the callback is called) over a body that awaits operation 0
between its yields: the second access is left pending inside the first notification and is served when operation 0 completes -/
example :
    (run (init true [.yield 1, .await 0, .yieldNull, .yield 2]) [.sub 10, .sub 11, .complete 0, .sub 12]).seen
      = [.val 1, .val 2, .fin] ∧
    (run (init true [.yield 1, .await 0, .yieldNull, .yield 2]) [.sub 10, .sub 11, .complete 0, .sub 12]).gotLog
      = [(11, 11), (11, 11), (12, 12)] := by decide

/-- **Witness of the `next_async` ordering quirk** (as-is code, generator.h:202-208): after the body's exception was
delivered, a `co_await next()` throws `no_more_values` but leaves `_caller` set, so the following access trips the
"Generator is busy" assert although nothing is outstanding. -/
theorem c13_next_async_stores_caller_before_throwing :
    let s := run (init false [.throw]) [.anext 0, .anext 0]
    s.seen = [.exc, .nomore] ∧ s.caller = .awt ∧ s.cons = .idle ∧ s.fut = .none ∧
      (step s (.syncBegin 0)).2 = .busy := by decide

end Cocls.Gen
