import CoclsModel.ThreadPoolProofs
/-!
# C11 — thread pool: every submission runs once on a worker or is cancelled once

Model: `CoclsModel/ThreadPool.lean` (one small step per critical section on the pool mutex / join / closure destruction;
workers `0..nw-1`, clients `nw..nt-1`).  Every theorem quantifies over *all* configurations (any number of workers ≥ 1 and
of clients, arbitrary client scripts: submissions of every kind whose bodies may stop the pool, submit nested work or
delete the pool, or block until another job has signalled an event (a job waiting for another job); `stop()`;
destruction; the `thread_pool::current` API — `is_stopped()`, `any_enqueued()`, `co_await current()` re-submitting the rest
of a body — from workers, ex-workers and threads that are no workers; optionally a second pool instance B that jobs and clients stop or destroy), over *all* schedules (`run` over an arbitrary list of thread choices, threads
that are not enabled do not move) and over *all* choices of the waiter a `notify_one` wakes and of the order in which
`stop()` destroys the closures of the swapped-out queue (`std::deque` leaves it unspecified).

The pinned code violated the property in two ways that were repaired (`run(async)` dropped silently: `Cfg.raOwns`;
executed closure destroyed under the pool mutex: `Cfg.dtorOutside`) — witnesses on the as-is variants below — and in one
way that has no repair inside the API: a submission that carries a bare coroutine handle (`resume(suspend_point)`,
`pool(awaitable)`) has no cancellation channel (`c11_handle_lost`), which is why the outcome theorem is `_partial`.
-/
namespace Cocls.Pool

/-- configurations the theorems are about: the repaired worker loop, at least one worker, workers are threads -/
structure WF (c : Cfg) : Prop where
  out : c.dtorOutside = true
  nw : 0 < c.nw
  nt : c.nw ≤ c.nt
  b : c.hasB = true → c.nw < c.nt
  cur : c.curNullOk = true
  aw : c.awHandleFirst = true

/-- every state some schedule can produce -/
def Reachable (c : Cfg) (s : State) : Prop := ∃ sched, s = run c (init c) sched

/-- quiescence: no thread of the configuration can move -/
def Stuck (c : Cfg) (s : State) : Prop := ∀ t, t < c.nt → enabled s t = false

/-- every thread ran to its end (the worker of the other pool instance B may still sleep in its idle wait) -/
def AllDone (c : Cfg) (s : State) : Prop := ∀ t, t < c.nt → s.pc t = Pc.done ∨ s.pc t = Pc.bCvBlocked

/-- no thread is blocked in a user-level wait (`Prim.wait`: a job or client waiting for an event that only another job
signals); such waits are the program's, not the pool's: a job that waits for a job which can never run (one worker, or
the pool was stopped) blocks for ever whatever the pool does -/
def NoUserWait (s : State) : Prop := ∀ t f, s.pc t ≠ Pc.waitFlag f

/-- the closure kind has a cancellation channel (everything but a bare coroutine handle) -/
def Cancellable (c : Cfg) (k : Kind) : Prop := dropKind c k ≠ DropAct.nothing

theorem reachable_inv {c : Cfg} (hc : WF c) {s : State} (h : Reachable c s) : Inv c s := by
  obtain ⟨sched, rfl⟩ := h
  exact inv_run sched (inv_init c hc.out hc.nw hc.nt hc.b hc.cur hc.aw)

/-- in a stuck state nobody is blocked on the pool mutex: its holder (a worker at the head of its loop) could move; so
every thread is disabled for a reason of its own program counter -/
theorem stuck_enabledPc {c : Cfg} (hc : WF c) {s : State} (h : Reachable c s) (hst : Stuck c s) (t : Nat)
    (ht : t < c.nt) : enabledPc s t = false := by
  have hi := reachable_inv hc h
  have hen := hst t ht
  unfold enabled at hen
  split at hen
  · exfalso
    cases hm : s.mx with
    | none => rw [hm] at hen; simp at hen
    | some u =>
      have hu := (hi.m_own u).1 hm
      have hut : u < c.nt := by
        by_cases hut : u < c.nt
        · exact hut
        · have hd := hi.t_out u (by omega)
          rcases hu with h1 | h1 <;> rw [hd] at h1 <;> cases h1
      have henu := hst u hut
      unfold enabled enabledPc at henu
      rcases hu with h1 | h1 <;> simp [h1, Pc.wantsLock] at henu
  · exact hen

/-- **Never twice.** In every reachable state a submission was executed at most once, and executed or
cancelled/lost at most once in total; its closure was invoked or destroyed at most once. -/
theorem c11_never_twice {c : Cfg} (hc : WF c) {s : State} (h : Reachable c s) (j : Nat) :
    s.ran j + s.dropped j ≤ 1 ∧ s.ran j + s.cancelled j + s.lost j ≤ 1 := by
  have hi := reachable_inv hc h
  have h1 := hi.c_once j
  have h2 := cancelled_le_dropped hi j
  split at h1 <;> omega

/-- **On a worker.** A submission that was executed ran on one of the pool's worker threads. -/
theorem c11_ran_on_worker {c : Cfg} (hc : WF c) {s : State} (h : Reachable c s) (j : Nat) (hr : 0 < s.ran j) :
    ∃ w, w < c.nw ∧ s.ranOn j = some w :=
  (reachable_inv hc h).r_on j hr

/-- Nothing is cancelled (or lost) unless `stop()` / the destructor has been entered. -/
theorem c11_cancel_only_when_stopped {c : Cfg} (hc : WF c) {s : State} (h : Reachable c s) (j : Nat)
    (hcl : 0 < s.cancelled j + s.lost j) : s.exit = true := by
  have hi := reachable_inv hc h
  exact hi.x_drop_exit j (by have := cancelled_le_dropped hi j; omega)

/-- why a thread of a stuck state cannot move: it is finished, asleep in a condition wait without a notification, blocked
in a wait of the program, or the one `stop()` of pool A that joins an unfinished worker (nobody is blocked on a mutex or
in `B.stop()`) -/
theorem stuck_reason {c : Cfg} (hc : WF c) {s : State} (h : Reachable c s) (hst : Stuck c s) (t : Nat) (ht : t < c.nt) :
    s.pc t = Pc.done ∨ (s.pc t = Pc.wCvBlocked ∧ s.woken t = false) ∨ (s.pc t = Pc.bCvBlocked ∧ s.bWoken = false) ∨
    (∃ f, s.pc t = Pc.waitFlag f ∧ s.flag f = false) ∨
    (s.pc t = Pc.joinBlocked ∧ ∃ u rest, s.tmp t = u :: rest ∧ s.pc u ≠ Pc.done) := by
  have hi := reachable_inv hc h
  have hen := stuck_enabledPc hc h hst t ht
  unfold enabledPc at hen
  split at hen
  · rename_i hpc; exact Or.inl hpc
  · rename_i hpc; exact absurd hpc (hi.s_nostuck t)
  · rename_i hpc; exact Or.inr (Or.inl ⟨hpc, hen⟩)
  · rename_i hpc; exact Or.inr (Or.inr (Or.inl ⟨hpc, hen⟩))
  · -- blocked joining B's worker: impossible, that worker has been notified and can move
    rename_i hpc
    exfalso
    have hb := hi.bb_tmp t (hi.bb_jb t hpc)
    have hbw := hi.bb_bw
    have hwk := hi.bb_exit (hi.bb_stop t (Or.inr hpc))
    have hnt := hc.b hb
    rw [hbw] at hen
    have henw := stuck_enabledPc hc h hst c.nw hnt
    unfold enabledPc at henw
    rcases hi.bb_w hb with hw | hw
    · cases hp : s.pc c.nw <;> rw [hp] at hw henw <;> simp [Pc.isB] at hw <;> simp [hwk] at henw
    · rw [hw] at hen; simp at hen
  · rename_i f hpc; exact Or.inr (Or.inr (Or.inr (Or.inl ⟨f, hpc, hen⟩)))
  · rename_i hpc
    split at hen
    · rename_i u rest htm
      refine Or.inr (Or.inr (Or.inr (Or.inr ⟨hpc, u, rest, htm, ?_⟩)))
      intro hd; rw [hd] at hen; simp at hen
    · cases hen
  · cases hen

/-- **Nothing but the program's own waits can block a stopped pool.** In any stuck state after a `stop()` of pool A every
thread is finished (or is the idle worker of the other pool), or blocked in a user-level wait for an event nobody
signalled, or is the one `stop()` joining a worker whose job is blocked in such a wait. -/
theorem c11_stop_blocked_only_by_user_waits {c : Cfg} (hc : WF c) {s : State} (h : Reachable c s) (hst : Stuck c s)
    (hex : s.exit = true) (t : Nat) (ht : t < c.nt) :
    s.pc t = Pc.done ∨ s.pc t = Pc.bCvBlocked ∨ (∃ f, s.pc t = Pc.waitFlag f ∧ s.flag f = false) ∨
    (s.pc t = Pc.joinBlocked ∧ ∃ u rest f, s.tmp t = u :: rest ∧ s.pc u = Pc.waitFlag f ∧ s.flag f = false) := by
  have hi := reachable_inv hc h
  have hwq : s.waitq = [] := hi.s_exit_wq hex
  have nocv : ∀ u, ¬ (s.pc u = Pc.wCvBlocked ∧ s.woken u = false) := by
    intro u ⟨hp, hw⟩
    rcases hi.s_cv u (Or.inr hp) with h1 | h1
    · rw [hw] at h1; cases h1
    · rw [hwq] at h1; cases h1
  rcases stuck_reason hc h hst t ht with h1 | h1 | h1 | h1 | ⟨hjb, u, rest, htm, hud⟩
  · exact Or.inl h1
  · exact absurd h1 (nocv t)
  · exact Or.inr (Or.inl h1.1)
  · exact Or.inr (Or.inr (Or.inl h1))
  · have hu_w : u < c.nw := hi.s_tmp_w t u (by rw [htm]; simp)
    have hu_t : u < c.nt := Nat.lt_of_lt_of_le hu_w hc.nt
    rcases stuck_reason hc h hst u hu_t with h2 | h2 | h2 | ⟨f, hf, hff⟩ | ⟨hjb', u', rest', htm', _⟩
    · exact absurd h2 hud
    · exact absurd h2 (nocv u)
    · exfalso
      have := (hi.bb_pc u (by rw [h2.1]; rfl)).2
      omega
    · exact Or.inr (Or.inr (Or.inr ⟨hjb, u, rest, f, htm, hf, hff⟩))
    · exfalso
      have htu : t = u := hi.s_tmp_uniq t u (by rw [htm]; simp) (by rw [htm']; simp)
      have := hi.s_jb_head t hjb
      rw [htm] at this
      simp at this
      exact this htu.symm

/-- **`stop()` and the destructor terminate, for every timing.** Once any `stop()` (from a client, from a job — the
self-detach path —, concurrently from several threads, or through the destructor) has executed its critical section,
the system cannot get stuck before every thread has finished: the stopper is never blocked for ever in `join`, no
worker sleeps for ever on the condition variable — also when notifications and the entry of `_cond.wait` interleave
(`Pc.wCvEnter`: the mutex is held there, so no `notify` can fall into that window).  (`NoUserWait`: jobs blocked in
their own waits are the program's dead-lock; `c11_stop_blocked_only_by_user_waits` is the statement without that
hypothesis.  `AllDone` leaves out the worker of the other pool instance B, which sleeps as long as B is not stopped.) -/
theorem c11_stop_terminates {c : Cfg} (hc : WF c) {s : State} (h : Reachable c s) (hst : Stuck c s) (hnu : NoUserWait s)
    (hex : s.exit = true) : AllDone c s := by
  intro t ht
  rcases c11_stop_blocked_only_by_user_waits hc h hst hex t ht with h1 | h1 | ⟨f, hf, _⟩ | ⟨_, u, _, f, _, hf, _⟩
  · exact Or.inl h1
  · exact Or.inr h1
  · exact absurd hf (hnu t f)
  · exact absurd hf (hnu u f)

/-- **No stranded job.** In a stuck state of a pool that nobody stopped no submission is queued while a worker sleeps in
the condition wait — whatever the jobs do, including jobs that block waiting for other jobs: every worker is then busy
(blocked inside a job).  So a job that waits for a later-submitted job cannot hang while a worker idles. -/
theorem c11_no_stranded_job {c : Cfg} (hc : WF c) {s : State} (h : Reachable c s) (hst : Stuck c s)
    (hex : s.exit = false) (hq : s.q ≠ []) (w : Nat) : s.pc w ≠ Pc.wCvBlocked ∧ s.pc w ≠ Pc.wCvCheck := by
  have hi := reachable_inv hc h
  have hlt : ∀ u, c.nt ≤ u → s.pc u = Pc.done := hi.t_out
  have hcheck : s.pc w ≠ Pc.wCvCheck := by
    intro hpc
    by_cases hw : w < c.nt
    · have := stuck_enabledPc hc h hst w hw; unfold enabledPc at this; rw [hpc] at this; cases this
    · have := hlt w (by omega); rw [hpc] at this; cases this
  refine ⟨?_, hcheck⟩
  intro hpc
  have hw : w < c.nt := by
    by_cases hw : w < c.nt
    · exact hw
    · have := hlt w (by omega); rw [hpc] at this; cases this
  have hen := stuck_enabledPc hc h hst w hw
  unfold enabledPc at hen
  rw [hpc] at hen
  have hwk : s.woken w = false := by simpa using hen
  have hwq : w ∈ s.waitq := by
    rcases hi.s_cv w (Or.inr hpc) with h1 | h1
    · rw [hwk] at h1; cases h1
    · exact h1
  have hlen := hi.a_len hex (by intro e; rw [e] at hwq; cases hwq)
  cases ha : s.awake with
  | nil =>
    rw [ha] at hlen
    cases hqq : s.q with
    | nil => exact hq hqq
    | cons a l => rw [hqq] at hlen; simp at hlen
  | cons u l =>
    have hu := (hi.a_mem hex u).1 (by rw [ha]; simp)
    have hut : u < c.nt := by
      by_cases hut : u < c.nt
      · exact hut
      · exfalso
        have hd := hlt u (by omega)
        rcases hu with h1 | h1 | h1
        · rcases hi.s_woken u h1 with h2 | h2 <;> rw [hd] at h2 <;> cases h2
        · rw [hd] at h1; cases h1
        · rw [hd] at h1; cases h1
    have henu := stuck_enabledPc hc h hst u hut
    unfold enabledPc at henu
    rcases hu with h1 | h1 | h1
    · rcases hi.s_woken u h1 with h2 | h2
      · rw [h2] at henu; cases henu
      · rw [h2, h1] at henu; cases henu
    · rw [h1] at henu; cases henu
    · rw [h1] at henu; cases henu

/-- at quiescence, when no thread is blocked in a wait of the program, every thread is finished or is an idle worker
asleep in its condition wait (of pool A, or the worker of pool B) -/
theorem c11_quiescent_threads {c : Cfg} (hc : WF c) {s : State} (h : Reachable c s) (hst : Stuck c s) (hnu : NoUserWait s)
    (t : Nat) : s.pc t = Pc.done ∨ s.pc t = Pc.wCvBlocked ∨ s.pc t = Pc.bCvBlocked := by
  have hi := reachable_inv hc h
  by_cases ht : t < c.nt
  · rcases stuck_reason hc h hst t ht with h1 | h1 | h1 | ⟨f, hf, _⟩ | ⟨hjb, _⟩
    · exact Or.inl h1
    · exact Or.inr (Or.inl h1.1)
    · exact Or.inr (Or.inr h1.1)
    · exact absurd hf (hnu t f)
    · exfalso
      cases hex : s.exit with
      | false => have := (hi.n_noexit hex t).1; rw [hjb] at this; cases this
      | true =>
        rcases c11_stop_terminates hc h hst hnu hex t ht with h2 | h2 <;> rw [hjb] at h2 <;> cases h2
  · exact Or.inl (hi.t_out t (by omega))

/-- When a pool that nobody stopped becomes quiescent, all clients are finished, all workers sleep on the condition
variable, the queue is empty and **every submission has been executed** (no lost wake-up, nothing forgotten) — also
when one of its jobs stopped or destroyed the *other* pool instance B: the workers of A stay. -/
theorem c11_idle_quiescence {c : Cfg} (hc : WF c) {s : State} (h : Reachable c s) (hst : Stuck c s) (hnu : NoUserWait s)
    (hex : s.exit = false) :
    (∀ t, t < c.nt → (c.nw ≤ t → s.pc t = Pc.done ∨ s.pc t = Pc.bCvBlocked) ∧ (t < c.nw → s.pc t = Pc.wCvBlocked)) ∧
    s.q = [] ∧ ∀ j, j < s.nextJob → s.ran j = 1 := by
  have hi := reachable_inv hc h
  have hne := hi.n_noexit hex
  have hpcs := c11_quiescent_threads hc h hst hnu
  have hthr : ∀ t, t < c.nt → (c.nw ≤ t → s.pc t = Pc.done ∨ s.pc t = Pc.bCvBlocked) ∧ (t < c.nw → s.pc t = Pc.wCvBlocked) := by
    intro t _
    rcases hpcs t with hd | hb | hb
    · exact ⟨fun _ => Or.inl hd, fun hw => absurd hd ((hne t).2.2.1 hw)⟩
    · refine ⟨fun hw => ?_, fun _ => hb⟩
      have := hi.t_worker t (by rw [hb]; rfl)
      omega
    · refine ⟨fun _ => Or.inr hb, fun hw => ?_⟩
      have := (hi.bb_pc t (by rw [hb]; rfl)).2
      omega
  have hq : s.q = [] := by
    cases hqq : s.q with
    | nil => rfl
    | cons a l =>
      exfalso
      obtain ⟨w, hw, hwq⟩ := hi.n_wake hex (by rw [hqq]; simp)
      have hwt : w < c.nt := Nat.lt_of_lt_of_le hw hc.nt
      have hwb := (hthr w hwt).2 hw
      have := (c11_no_stranded_job hc h hst hex (by rw [hqq]; simp) w).1
      exact this hwb
  refine ⟨hthr, hq, ?_⟩
  intro j hj
  have hloc : s.loc j = Loc.done := by
    cases hl : s.loc j with
    | fresh => have := (hi.l_fresh j).1 hl; omega
    | queued => have := (hi.l_q j).2 hl; rw [hq] at this; cases this
    | held t => have := (hi.l_held t j).2 hl; rcases hpcs t with h1 | h1 | h1 <;> rw [h1] at this <;> cases this
    | rejected t =>
      have := (hi.l_rej t j).2 hl
      rcases this with this | this <;> rcases hpcs t with h1 | h1 | h1 <;> rw [h1] at this <;> cases this
    | swapped t =>
      have hm := (hi.l_swap t j).2 hl
      have := hi.l_dqpc t (by intro e; rw [e] at hm; cases hm)
      rcases hpcs t with h1 | h1 | h1 <;> rw [h1] at this <;> cases this
    | done => rfl
  have h1 := hi.c_once j
  rw [hloc] at h1
  simp only [↓reduceIte] at h1
  have h2 : s.dropped j = 0 := by
    cases hd : s.dropped j with
    | zero => rfl
    | succ n => have := hi.x_drop_exit j (by omega); rw [hex] at this; cases this
  omega

/-- at quiescence every closure has been invoked or destroyed -/
theorem c11_quiescent_closure_fate {c : Cfg} (hc : WF c) {s : State} (h : Reachable c s) (hst : Stuck c s) (hnu : NoUserWait s) (j : Nat)
    (hj : j < s.nextJob) : s.ran j + s.dropped j = 1 := by
  have hi := reachable_inv hc h
  cases hex : s.exit with
  | false =>
    have := (c11_idle_quiescence hc h hst hnu hex).2.2 j hj
    have := hi.c_once j
    split at this <;> omega
  | true =>
    have hpcs := c11_quiescent_threads hc h hst hnu
    have hloc : s.loc j = Loc.done := by
      cases hl : s.loc j with
      | fresh => have := (hi.l_fresh j).1 hl; omega
      | queued => have := (hi.l_q j).2 hl; rw [hi.x_exit_q hex] at this; cases this
      | held t => have := (hi.l_held t j).2 hl; rcases hpcs t with h1 | h1 | h1 <;> rw [h1] at this <;> cases this
      | rejected t =>
        have := (hi.l_rej t j).2 hl
        rcases this with this | this <;> rcases hpcs t with h1 | h1 | h1 <;> rw [h1] at this <;> cases this
      | swapped t =>
        have hm := (hi.l_swap t j).2 hl
        have := hi.l_dqpc t (by intro e; rw [e] at hm; cases hm)
        rcases hpcs t with h1 | h1 | h1 <;> rw [h1] at this <;> cases this
      | done => rfl
    have h1 := hi.c_once j
    rw [hloc] at h1
    simpa using h1

/-- **Outcome (partial: bare-handle submissions excluded, see `c11_handle_lost`).** At quiescence — after `stop()`
has terminated, or with an idle pool that nobody stopped — every submission whose closure has a cancellation channel
(`co_await pool`, `run(fn)`, `run_detached(fn)`, `run(async)`) was executed exactly once or was cancelled *observably*
exactly once (the coroutine was resumed with the exception, the closure state was destroyed, the watched future was
seen broken); never both, never neither.  Without a stop it was executed. -/
theorem c11_outcome_partial {c : Cfg} (hc : WF c) {s : State} (h : Reachable c s) (hst : Stuck c s) (hnu : NoUserWait s) (j : Nat)
    (hj : j < s.nextJob) (hk : Cancellable c (s.kind j)) :
    s.ran j + s.cancelled j = 1 ∧ (s.exit = false → s.ran j = 1) := by
  have hi := reachable_inv hc h
  have hrd := c11_quiescent_closure_fate hc h hst hnu j hj
  have hpcs := c11_quiescent_threads hc h hst hnu
  refine ⟨?_, fun hex => (c11_idle_quiescence hc h hst hnu hex).2.2 j hj⟩
  suffices hcd : s.cancelled j = s.dropped j by omega
  unfold Cancellable at hk
  cases hkk : dropKind c (s.kind j) with
  | nothing => exact absurd hkk hk
  | guard => exact hi.b_guard j hkk
  | resume =>
    have hb := hi.b_co j hkk
    cases hd : s.deferOn j with
    | none => rw [hd] at hb; simpa using hb
    | some t =>
      exfalso
      have hm := (hi.b_defer t j).2 hd
      have := (hi.b_defpc t (by intro e; rw [e] at hm; cases hm)).2
      rcases hpcs t with h1 | h1 | h1 <;> rw [h1] at this <;> cases this
  | breakPromise =>
    have hb := hi.b_fut j hkk
    cases ha : s.armed j with
    | true => exact hb.1 ha
    | false =>
      exfalso
      rcases hi.f_arm j (dropKind_bp_hasFut hkk) hj ha with h1 | h1 | h1 <;>
        rcases hpcs (s.owner j) with h2 | h2 | h2 <;> rw [h2] at h1 <;> cases h1

/-- the complement for bare-handle submissions: at quiescence they were executed once or silently lost once -/
theorem c11_outcome_bare {c : Cfg} (hc : WF c) {s : State} (h : Reachable c s) (hst : Stuck c s) (hnu : NoUserWait s) (j : Nat)
    (hj : j < s.nextJob) (hk : ¬ Cancellable c (s.kind j)) :
    s.ran j + s.lost j = 1 ∧ s.cancelled j = 0 ∧ (s.exit = false → s.ran j = 1) := by
  have hi := reachable_inv hc h
  have hrd := c11_quiescent_closure_fate hc h hst hnu j hj
  have hkk : dropKind c (s.kind j) = DropAct.nothing := by
    unfold Cancellable at hk; exact Classical.not_not.1 hk
  have := hi.b_none j hkk
  exact ⟨by omega, this.2, fun hex => (c11_idle_quiescence hc h hst hnu hex).2.2 j hj⟩

/-- **Cancellation is observable** (every reachable state): destroying the closure of a submission that never ran
resumes the awaiting coroutine with the cancel exception — at once, or through the ready queue of the thread that is
inside a coroutine (`deferOn`) —, destroys the user's closure state, or leaves the returned future ready *without a
value* (broken promise), and a watcher of that future has seen exactly this. -/
theorem c11_cancel_observable {c : Cfg} (hc : WF c) {s : State} (h : Reachable c s) (j : Nat) :
    (dropKind c (s.kind j) = DropAct.resume →
        s.cancelled j + (if s.deferOn j = none then 0 else 1) = s.dropped j ∧
        ∀ t, s.deferOn j = some t → j ∈ s.defer t ∧ (s.pc t).bodyPhase = true) ∧
    (dropKind c (s.kind j) = DropAct.guard → s.cancelled j = s.dropped j) ∧
    (dropKind c (s.kind j) = DropAct.breakPromise →
        (s.dropped j = if s.fut j = Fut.broken then 1 else 0) ∧ (s.armed j = true → s.cancelled j = s.dropped j)) := by
  have hi := reachable_inv hc h
  refine ⟨fun hk => ⟨hi.b_co j hk, fun t ht => ?_⟩, hi.b_guard j, fun hk => ⟨hi.f_broken j hk, (hi.b_fut j hk).1⟩⟩
  have hm := (hi.b_defer t j).2 ht
  exact ⟨hm, (hi.b_defpc t (by intro e; rw [e] at hm; cases hm)).2⟩

/-- **No waiter left hanging on a returned future.** At quiescence the future of every `run(fn)` / `run(async)`
submission is resolved: it holds the value iff the job was executed, it is broken iff the job was cancelled, and the
caller watching it has observed exactly that, once. -/
theorem c11_futures_resolved {c : Cfg} (hc : WF c) {s : State} (h : Reachable c s) (hst : Stuck c s) (hnu : NoUserWait s) (j : Nat)
    (hj : j < s.nextJob) (hk : dropKind c (s.kind j) = DropAct.breakPromise) :
    (s.ran j = 1 → s.fut j = Fut.value ∧ s.valued j = 1 ∧ s.cancelled j = 0) ∧
    (s.ran j = 0 → s.fut j = Fut.broken ∧ s.valued j = 0 ∧ s.cancelled j = 1) := by
  have hi := reachable_inv hc h
  have hhf := dropKind_bp_hasFut hk
  have hrd := c11_quiescent_closure_fate hc h hst hnu j hj
  have hpcs := c11_quiescent_threads hc h hst hnu
  have ha : s.armed j = true := by
    cases ha : s.armed j with
    | true => rfl
    | false =>
      exfalso
      rcases hi.f_arm j hhf hj ha with h1 | h1 | h1 <;>
        rcases hpcs (s.owner j) with h2 | h2 | h2 <;> rw [h2] at h1 <;> cases h1
  have hcd := (hi.b_fut j hk).1 ha
  have hbr := hi.f_broken j hk
  have hval := hi.f_valued j hhf
  have hsome := hi.f_some j hhf hj
  have hnp : s.fut j ≠ Fut.pending := by
    intro hp
    by_cases hr : 0 < s.ran j
    · obtain ⟨t, _, _, hb⟩ := hi.f_pending j hhf hr hp
      rcases hpcs t with h1 | h1 | h1 <;> rw [h1] at hb <;> cases hb
    · rw [hp] at hbr; simp at hbr; omega
  constructor
  · intro hr
    have hd0 : s.dropped j = 0 := by omega
    have hfv : s.fut j = Fut.value := by
      cases hf : s.fut j with
      | none => exact absurd hf hsome
      | pending => exact absurd hf hnp
      | value => rfl
      | broken => rw [hf] at hbr; simp at hbr; omega
    refine ⟨hfv, ?_, by omega⟩
    rw [hval, ha, hfv]; simp
  · intro hr
    have hd1 : s.dropped j = 1 := by omega
    have hfb : s.fut j = Fut.broken := by
      cases hf : s.fut j with
      | broken => rfl
      | none => rw [hf] at hbr; simp at hbr; omega
      | pending => rw [hf] at hbr; simp at hbr; omega
      | value => rw [hf] at hbr; simp at hbr; omega
    refine ⟨hfb, ?_, by omega⟩
    rw [hval, hfb]; simp

/-- **`stop()` joins all workers.** After the critical section of the first `stop()` every worker is finished, or has
detached itself (it called `stop()` from a job), or is still in the list of the one `stop()` that is walking the swapped
out thread list; there is exactly one such walker and it never waits for itself.  So when that `stop()` has finished its
walk, all other workers have been joined. -/
theorem c11_join_all {c : Cfg} (hc : WF c) {s : State} (h : Reachable c s) (hex : s.exit = true) :
    s.threads = [] ∧ s.q = [] ∧
    (∀ w, w < c.nw → s.pc w = Pc.done ∨ s.detached w = true ∨ ∃ t, w ∈ s.tmp t) ∧
    (∀ t u, s.tmp t ≠ [] → s.tmp u ≠ [] → t = u) := by
  have hi := reachable_inv hc h
  exact ⟨hi.j_thr0 hex, hi.x_exit_q hex, hi.j_all hex, hi.s_tmp_uniq⟩

/-- **Self-stop is safe.** A worker that detached itself inside `stop()` (`_current = nullptr`) never executes code of
the worker loop again: it only finishes the job it is running and returns, so it never touches the pool, which may
already have been destroyed. -/
theorem c11_self_stop_safe {c : Cfg} (hc : WF c) {s : State} (h : Reachable c s) :
    s.touchedAfterDetach = false ∧ ∀ t, s.detached t = true → s.cur t = false ∧ (s.pc t).isLoop = false := by
  have hi := reachable_inv hc h
  exact ⟨hi.z_touch, hi.z_det⟩

/-- **A pool keeps its workers until it is stopped itself.** `_current` is one thread-local shared by all pool instances;
whatever the jobs of pool A do — including `stop()` or destruction of *another* pool instance B from a worker of A —, as
long as A has not been stopped none of its workers has returned from `worker()` or lost its mark. -/
theorem c11_workers_stay {c : Cfg} (hc : WF c) {s : State} (h : Reachable c s) (hex : s.exit = false) (w : Nat)
    (hw : w < c.nw) : s.pc w ≠ Pc.done ∧ s.cur w = true ∧ s.detached w = false := by
  have hi := reachable_inv hc h
  have hn := hi.n_noexit hex w
  refine ⟨hn.2.2.1 hw, ?_, hn.2.2.2⟩
  cases hcur : s.cur w with
  | true => rfl
  | false => have := hi.z_cur w hw hcur; rw [hn.2.2.2] at this; cases this

/-- **`co_await pool(awaitable)` publishes the coroutine before it can be woken.** In every reachable state an awaiter that
is registered on the awaited operation already carries the coroutine handle (`set_handle` precedes the registration in
`enqueue_awaiter::await_suspend`): a resolution arriving at *any* later point — from any thread, at the very next
scheduling point — hands the coroutine to the pool as a unit of work; it can never meet the default resume function and
drop the coroutine. -/
theorem c11_aw_handle_published {c : Cfg} (hc : WF c) {s : State} (h : Reachable c s) (n : Nat)
    (hr : s.slotReg n = true) : s.slotHandle n = true :=
  (reachable_inv hc h).a_handle n hr

/-- **The destructor leaves no worker behind.** When the destructor has completed and no other `stop()` is still
walking a thread list (destroying the pool while another thread is inside `stop()` is a caller error), every worker is
finished or is a self-detached worker that no longer touches the pool. -/
theorem c11_destructor_safe {c : Cfg} (hc : WF c) {s : State} (h : Reachable c s) (hd : s.destroyed = true)
    (hno : ∀ u, s.tmp u = []) (w : Nat) (hw : w < c.nw) :
    s.pc w = Pc.done ∨ (s.detached w = true ∧ s.cur w = false ∧ (s.pc w).isLoop = false) := by
  have hi := reachable_inv hc h
  rcases hi.j_all (hi.d_exit hd) w hw with h1 | h1 | ⟨t, ht⟩
  · exact Or.inl h1
  · exact Or.inr ⟨h1, hi.z_det w h1⟩
  · rw [hno t] at ht; cases ht

/-! ## From thread-level (baton) runs to schedules of small steps -/

/-- every state the thread-level model (hence the driver that is diffed against the implementation) can produce is a
reachable state of the small-step model: all theorems above apply to it -/
theorem c11_baton_reachable (c : Cfg) (fuel : Nat) (ts : List Nat) : Reachable c (batonRun c fuel (init c) ts) := by
  suffices h : ∀ (s : State), Reachable c s → Reachable c (batonRun c fuel s ts) from h _ ⟨[], rfl⟩
  induction ts with
  | nil => intro s h; exact h
  | cons t rest ih =>
    intro s ⟨sched, hs⟩
    obtain ⟨n, hn⟩ := threadStep_is_run c fuel s t
    apply ih
    refine ⟨sched ++ List.replicate n (t, 0), ?_⟩
    rw [run_append, ← hs, hn]

/-! ## Witnesses -/

set_option maxRecDepth 100000

/-- one worker, one client -/
def cfg1 (script : List Act) (raOwns dtorOutside : Bool) : Cfg :=
  { nw := 1, nt := 2, script := fun _ => script, raOwns := raOwns, dtorOutside := dtorOutside }

/-- the client's steps first, then the worker's -/
def schedClientFirst : List (Nat × Nat) := List.replicate 20 (1, 0) ++ List.replicate 30 (0, 0) ++ List.replicate 20 (1, 0)

/-- **Open finding: a bare coroutine handle is lost.** `pool.stop(); pool.resume(suspend_point)` on the repaired code:
the run ends with every thread finished and the submission neither executed nor cancelled (`lost`). The API gives such a
closure no cancellation channel. -/
theorem c11_handle_lost :
    let s := run (cfg1 [Act.stop, Act.submit Kind.rh [] false] true true) (init (cfg1 [Act.stop, Act.submit Kind.rh [] false] true true)) schedClientFirst
    s.pc 0 = Pc.done ∧ s.pc 1 = Pc.done ∧ s.nextJob = 1 ∧ s.ran 0 = 0 ∧ s.cancelled 0 = 0 ∧ s.lost 0 = 1 := by
  decide

/-- The pinned `run(async<T>)` (closure with the bare handle, `raOwns = false`): `pool.stop(); auto f = pool.run(coro());`
leaves `f` pending for ever (replayed on the headers: corpus/c11_run_async_dropped.txt; repaired by a `fix:` commit). -/
theorem c11_asis_run_async_lost :
    let s := run (cfg1 [Act.stop, Act.submit Kind.ra [] false] false true) (init (cfg1 [Act.stop, Act.submit Kind.ra [] false] false true)) schedClientFirst
    s.pc 0 = Pc.done ∧ s.pc 1 = Pc.done ∧ s.ran 0 = 0 ∧ s.cancelled 0 = 0 ∧ s.lost 0 = 1 ∧ s.fut 0 = Fut.pending := by
  decide

/-- the repaired `run(async<T>)` on the same input: the future is broken and the caller sees it -/
theorem c11_fixed_run_async_cancelled :
    let s := run (cfg1 [Act.stop, Act.submit Kind.ra [] false] true true) (init (cfg1 [Act.stop, Act.submit Kind.ra [] false] true true)) schedClientFirst
    s.pc 0 = Pc.done ∧ s.pc 1 = Pc.done ∧ s.ran 0 = 0 ∧ s.cancelled 0 = 1 ∧ s.lost 0 = 0 ∧ s.fut 0 = Fut.broken := by
  decide

/-- The pinned `worker()` destroyed the closure it had run with the pool mutex held (`dtorOutside = false`): a job whose
closure owns the pool (its destructor deletes it) dead-locks the worker in `stop()` on its own mutex (replayed on the
headers: corpus/c11_closure_dtor_deadlock.txt; repaired by a `fix:` commit). -/
theorem c11_asis_closure_dtor_deadlock :
    let s := run (cfg1 [Act.submit Kind.det [] true] true false) (init (cfg1 [Act.submit Kind.det [] true] true false)) schedClientFirst
    s.pc 0 = Pc.stuck ∧ s.pc 1 = Pc.done ∧ s.ran 0 = 1 ∧ s.destroyed = false ∧ enabled s 0 = false := by
  decide

/-- the repaired loop on the same input: the pool is destroyed from its own thread and the worker returns -/
theorem c11_fixed_closure_dtor :
    let s := run (cfg1 [Act.submit Kind.det [] true] true true) (init (cfg1 [Act.submit Kind.det [] true] true true)) schedClientFirst
    s.pc 0 = Pc.done ∧ s.pc 1 = Pc.done ∧ s.ran 0 = 1 ∧ s.destroyed = true ∧ s.detached 0 = true := by
  decide

/-- The pinned `current_awaiter` constructor formed a reference from `*_current` (`curNullOk = false`): `co_await
thread_pool::current()` on a thread that is no worker — the case `await_ready` explicitly supports — is undefined
behaviour and aborts a sanitizer build before the coroutine could go on (replayed on the headers:
corpus/c11_current_api.txt; repaired by a `fix:` commit). -/
theorem c11_asis_current_null_ref :
    let c : Cfg := { nw := 1, nt := 2, script := fun _ => [Act.resub, Act.submit Kind.det [] false], curNullOk := false }
    let s := run c (init c) schedClientFirst
    s.pc 1 = Pc.stuck ∧ s.nextJob = 0 := by
  decide

/-- the repaired code on the same input: the coroutine goes on inline, the following submission runs -/
theorem c11_fixed_current_null :
    let c : Cfg := { nw := 1, nt := 2, script := fun _ => [Act.resub, Act.submit Kind.det [] false] }
    let s := run c (init c) schedClientFirst
    s.pc 1 = Pc.done ∧ s.nextJob = 1 ∧ s.ran 0 = 1 := by
  decide

/-- two clients: one parks a coroutine in `co_await pool(awaitable)` (slot 0), the other resolves the operation as soon as
the awaiter is registered (`flag 10` is the harness's "registered" signal) -/
def cfgAw (first : Bool) : Cfg :=
  { nw := 1, nt := 3, awHandleFirst := first,
    script := fun t => if t = 1 then [Act.park 0 []] else [Act.wait 10, Act.resolveNow 0] }

/-- resolver blocks, the coroutine registers (one step), the resolver resolves at once, then everybody runs on -/
def schedAwRace : List (Nat × Nat) :=
  [(2, 0), (1, 0)] ++ List.replicate 8 (2, 0) ++ List.replicate 8 (1, 0) ++ List.replicate 20 (0, 0)

/-- The seeded reordering (`awHandleFirst = false`: register first, store the handle afterwards): a resolution in the
window finds no handle, nothing is submitted, the coroutine is neither executed nor cancelled although nobody stopped the
pool (replayed on the patched header: corpus/c11_aw_race.txt). -/
theorem c11_asis_aw_handle_late :
    let s := run (cfgAw false) (init (cfgAw false)) schedAwRace
    (∀ t, t < 3 → enabled s t = false) ∧ s.exit = false ∧ s.nextJob = 1 ∧ s.ran 0 = 0 ∧ s.cancelled 0 = 0 ∧ s.lost 0 = 1 ∧ s.q = [] := by
  decide

/-- the code as it is, same schedule: the coroutine is handed to the pool by the resolver and runs on the worker -/
theorem c11_aw_race_runs :
    let s := run (cfgAw true) (init (cfgAw true)) schedAwRace
    (∀ t, t < 3 → enabled s t = false) ∧ s.exit = false ∧ s.nextJob = 1 ∧ s.ran 0 = 1 ∧ s.ranOn 0 = some 0 ∧ s.owner 0 = 2 := by
  decide

/-! ## Non-vacuity: the hypotheses are met by non-trivial reachable states -/

example : WF (cfg1 [Act.submit Kind.co [] false, Act.submit Kind.fn [Prim.stop] false, Act.submit Kind.det [] false] true true) :=
  ⟨rfl, by decide, by decide, by decide, rfl, rfl⟩

/-- a job stops the pool from its worker (self-detach) while two more submissions are queued: quiescent, all done, one
ran, two cancelled -/
example :
    let c := cfg1 [Act.submit Kind.fn [Prim.stop] false, Act.submit Kind.co [] false, Act.submit Kind.det [] false] true true
    let s := run c (init c) schedClientFirst
    Reachable c s ∧ (∀ t, t < 2 → enabled s t = false) ∧ s.exit = true ∧ s.detached 0 = true ∧
    s.ran 0 = 1 ∧ s.cancelled 1 = 1 ∧ s.cancelled 2 = 1 ∧ s.fut 0 = Fut.value := by
  refine ⟨⟨_, rfl⟩, ?_⟩
  decide

/-- a job that waits for the job submitted after it, two workers: the waiter blocks on worker 0, worker 1 takes the
second job, both complete (a reachable state with a thread in `Pc.waitFlag` on the way) -/
example :
    let c : Cfg := { nw := 2, nt := 3, script := fun _ => [Act.submit Kind.fn [Prim.wait 0] false, Act.submit Kind.det [Prim.set 0] false] }
    let mid := run c (init c) (List.replicate 8 (2, 0) ++ List.replicate 6 (0, 0))
    let s := run c mid (List.replicate 14 (1, 0) ++ List.replicate 14 (0, 0))
    mid.pc 0 = Pc.waitFlag 0 ∧ mid.q = [1] ∧ (∀ t, t < 3 → enabled s t = false) ∧ s.exit = false ∧
    s.ran 0 = 1 ∧ s.ran 1 = 1 ∧ s.fut 0 = Fut.value ∧ s.q = [] := by
  decide

/-- the same program on a single worker dead-locks itself (the waiter occupies the only worker): stuck with a queued
job, but no worker sleeps — `NoUserWait` fails, `c11_no_stranded_job` holds -/
example :
    let c : Cfg := { nw := 1, nt := 2, script := fun _ => [Act.submit Kind.fn [Prim.wait 0] false, Act.submit Kind.det [Prim.set 0] false] }
    let s := run c (init c) schedClientFirst
    (∀ t, t < 2 → enabled s t = false) ∧ s.pc 0 = Pc.waitFlag 0 ∧ s.q = [1] ∧ s.ran 1 = 0 := by
  decide

/-- two pool instances: a job on A's only worker stops pool B (joining B's worker), then a second job still runs on A -/
example :
    let c : Cfg := { nw := 1, nt := 3, hasB := true, script := fun _ => [Act.submit Kind.det [Prim.stopB] false, Act.submit Kind.fn [] false] }
    let s := run c (init c) (List.replicate 4 (1, 0) ++ List.replicate 20 (2, 0) ++ List.replicate 12 (0, 0)
                             ++ List.replicate 6 (1, 0) ++ List.replicate 30 (0, 0))
    (∀ t, t < 3 → enabled s t = false) ∧ s.exit = false ∧ s.bExit = true ∧ s.pc 1 = Pc.done ∧ s.pc 0 = Pc.wCvBlocked ∧
    s.cur 0 = true ∧ s.ran 0 = 1 ∧ s.ran 1 = 1 ∧ s.fut 1 = Fut.value := by
  decide

/-- `co_await thread_pool::current()` inside a job: the rest of the body (here: asking `current::is_stopped()`) becomes a
new unit of work of the same pool (a reachable state passes `Pc.peekDone Peek.resub false`); both units run once -/
example :
    let c := cfg1 [Act.submit Kind.co [Prim.resub, Prim.curStopped] false] true true
    let mid := run c (init c) (List.replicate 6 (1, 0) ++ List.replicate 5 (0, 0))
    let s := run c mid (List.replicate 30 (0, 0))
    mid.pc 0 = Pc.peekDone Peek.resub false ∧ (∀ t, t < 2 → enabled s t = false) ∧ s.nextJob = 2 ∧ s.kind 1 = Kind.co ∧
    s.ran 0 = 1 ∧ s.ran 1 = 1 ∧ s.ranOn 1 = some 0 := by
  decide

/-- a worker that stopped its own pool and then awaits `current()`: `_current` is null, the coroutine goes on inline,
nothing is submitted -/
example :
    let c := cfg1 [Act.submit Kind.co [Prim.stop, Prim.resub, Prim.curStopped] false] true true
    let s := run c (init c) schedClientFirst
    (∀ t, t < 2 → enabled s t = false) ∧ s.nextJob = 1 ∧ s.ran 0 = 1 ∧ s.detached 0 = true ∧ s.pc 0 = Pc.done := by
  decide

/-- an idle pool that nobody stopped: the client is finished, the worker sleeps, both jobs ran -/
example :
    let c := cfg1 [Act.submit Kind.co [] false, Act.submit Kind.ra [] false] true true
    let s := run c (init c) schedClientFirst
    Reachable c s ∧ (∀ t, t < 2 → enabled s t = false) ∧ s.exit = false ∧ s.pc 0 = Pc.wCvBlocked ∧
    s.ran 0 = 1 ∧ s.ran 1 = 1 ∧ s.fut 1 = Fut.value := by
  refine ⟨⟨_, rfl⟩, ?_⟩
  decide

end Cocls.Pool
